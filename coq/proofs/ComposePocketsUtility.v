(* C07 o C04: the demand columns the utility targeting reads are computed from the pocket-free GCC column
   (H_net_actual = H_net_np) by get_seperated_gcc_heat_load_profiles: hot utilities against H_cold_net = sep_cold HA,
   cold utilities against H_hot_net = sep_hot HA, both through `flip`, on the pinch rows of `pinch_idx HA`.
   For a column that is a "valley" (falls, in steps that are zero or larger than tol, to a zero and rises again:
   proofs/PocketsValley.v shows the output column of gcc_np is one on every Robust GCC with a pinch) these columns
   have closed forms; from them every data hypothesis of the row theorem of proofs/UtilityRows.v follows, and
   heating demand + cooling demand = H_net_np in every row.  Hence 0 <= H_ut[i] <= H_np[i] with the GCC as only input. *)
From OP Require Import gen.Consts model.Base model.Stream model.Pockets model.Utility
  proofs.BaseFacts proofs.UtilityLadder proofs.UtilityDuty proofs.UtilityProfile proofs.UtilityWitness proofs.UtilityRows
  proofs.PocketsPL proofs.PocketsZ proofs.PocketsSim proofs.PocketsSpec proofs.PocketsProfiles proofs.PocketsValley.
From Coq Require Import Lqa Lia.
Local Open Scope Q_scope.
Local Arguments Qred : simpl never.

(* ====================================================================================================================== *)
(* list facts                                                                                                             *)
(* ====================================================================================================================== *)
Lemma F2_refl (l : list Q) : Forall2 Qeq l l.
Proof. induction l; constructor; [reflexivity|assumption]. Qed.
Lemma F2_length {A B} (R : A -> B -> Prop) l1 l2 : Forall2 R l1 l2 -> List.length l1 = List.length l2.
Proof. induction 1; simpl; congruence. Qed.
Lemma F2_map_ext (f g : Q -> Q) l : (forall x, f x == g x) -> Forall2 Qeq (map f l) (map g l).
Proof. intro H. induction l; constructor; auto. Qed.
Lemma F2_map (f : Q -> Q) l1 l2 : (forall x y, x == y -> f x == f y) -> Forall2 Qeq l1 l2 -> Forall2 Qeq (map f l1) (map f l2).
Proof. intros Hf H. induction H; constructor; auto. Qed.
Lemma F2_firstn n : forall l1 l2 : list Q, Forall2 Qeq l1 l2 -> Forall2 Qeq (firstn n l1) (firstn n l2).
Proof. induction n as [|n IH]; intros l1 l2 H; [constructor|]. destruct H; [constructor|]. cbn [firstn]. constructor; auto. Qed.
Lemma F2_skipn n : forall l1 l2 : list Q, Forall2 Qeq l1 l2 -> Forall2 Qeq (skipn n l1) (skipn n l2).
Proof. induction n as [|n IH]; intros l1 l2 H; [exact H|]. destruct H; [constructor|]. cbn [skipn]. auto. Qed.
Lemma F2_nth (l1 l2 : list Q) i : Forall2 Qeq l1 l2 -> nth i l1 0 == nth i l2 0.
Proof. intro H. revert i. induction H; intro i; destruct i; cbn [nth]; try reflexivity; auto. Qed.
Lemma F2_last (l1 l2 : list Q) d d' : Forall2 Qeq l1 l2 -> d == d' -> last l1 d == last l2 d'.
Proof.
  intros H E. induction H as [|x y l l' Hxy Hl IH]; [exact E|].
  destruct Hl as [|x2 y2 l l' H2 Hl]; [exact Hxy|]. rewrite !last_cons2. exact IH.
Qed.
Lemma F2_hd (l1 l2 : list Q) : Forall2 Qeq l1 l2 -> headq l1 == headq l2.
Proof. intros [|x y l l' Hxy _]; [reflexivity|exact Hxy]. Qed.
Lemma noninc_eqv (l1 l2 : list Q) : Forall2 Qeq l1 l2 -> noninc l2 = true -> noninc l1 = true.
Proof.
  intro H. induction H as [|x y l l' Hxy Hl IH]; intro Hn; [reflexivity|].
  destruct Hl as [|x2 y2 l l' H2 Hl]; [reflexivity|].
  cbn [noninc] in *. apply andb_true_iff in Hn. destruct Hn as [N1 N2]. apply qleb_true in N1.
  apply andb_true_iff. split; [apply qleb_true; lra|apply IH; exact N2].
Qed.
Lemma noninc_chain l : noninc l = true <-> chainQ (fun a b => b <= a) l.
Proof.
  induction l as [|a l IH]; [simpl; tauto|]. destruct l as [|b l]; [simpl; tauto|].
  change (noninc (a :: b :: l)) with (qleb b a && noninc (b :: l)). rewrite andb_true_iff, qleb_true, IH. simpl. tauto.
Qed.
Lemma chain_app_l (R : Q -> Q -> Prop) l1 l2 : chainQ R (l1 ++ l2) -> chainQ R l1.
Proof. exact (chainQ_app_l R l1 l2). Qed.
Lemma chain_firstn (R : Q -> Q -> Prop) n l : chainQ R l -> chainQ R (firstn n l).
Proof. intro H. rewrite <- (firstn_skipn n l) in H. exact (chainQ_app_l R _ _ H). Qed.
Lemma chain_skipn (R : Q -> Q -> Prop) n l : chainQ R l -> chainQ R (skipn n l).
Proof. intro H. rewrite <- (firstn_skipn n l) in H. exact (chainQ_app_r R _ _ H). Qed.
Lemma chain_rev_up l : chainQ (fun a b => a <= b) l -> chainQ (fun a b => b <= a) (rev l).
Proof.
  induction l as [|a l IH]; intros H; [exact I|]. destruct l as [|b l]; [exact I|]. destruct H as [G H].
  change (rev (a :: b :: l)) with ((rev l ++ [b]) ++ [a]). rewrite <- app_assoc. simpl app.
  apply chainQ_app; [apply IH; exact H|]. split; [exact G|exact I].
Qed.
Lemma chain_weaken (R R' : Q -> Q -> Prop) l : (forall a b, R a b -> R' a b) -> chainQ R l -> chainQ R' l.
Proof.
  intro Hw. induction l as [|a l IH]; intro H; [exact I|]. destruct l as [|b l]; [exact I|].
  destruct H as [G H]. split; [apply Hw; exact G|apply IH; exact H].
Qed.
(* every element of a chain that rises from a is at least a / falls to ... *)
Lemma chain_up_ge a l x : chainQ (fun a b => a <= b) (a :: l) -> In x l -> a <= x.
Proof.
  revert a. induction l as [|b l IH]; intros a H Hx; [destruct Hx|]. destruct H as [G H].
  destruct Hx as [<-|Hx]; [exact G|]. specialize (IH b H Hx). lra.
Qed.
Lemma chain_down_last_le l m x : chainQ (fun a b => b <= a) (l ++ [m]) -> In x l -> m <= x.
Proof.
  induction l as [|a l IH]; intros H Hx; [destruct Hx|].
  destruct Hx as [<-|Hx].
  - clear IH. revert a H. induction l as [|b l IH]; intros a H; [simpl in H; destruct H; assumption|].
    change ((a :: b :: l) ++ [m]) with (a :: b :: (l ++ [m])) in H. destruct H as [G H]. specialize (IH b H). lra.
  - apply IH; [|exact Hx]. change ((a :: l) ++ [m]) with (a :: (l ++ [m])) in H. exact (chainQ_tail _ _ _ H).
Qed.
Lemma strict_desc_nth_lt T : strict_desc T = true -> forall i j, (i < j)%nat -> (j < List.length T)%nat -> nth j T 0 < nth i T 0.
Proof.
  induction T as [|t0 Tr IH]; intros Hs i j Hij Hj; [simpl in Hj; lia|].
  destruct j as [|j]; [lia|]. cbn [nth]. simpl in Hj.
  assert (Hin : In (nth j Tr 0) Tr) by (apply nth_In; lia).
  destruct i as [|i]; [exact (strict_desc_lt t0 Tr _ Hs Hin)|].
  cbn [nth]. apply IH; [exact (strict_desc_tail _ _ Hs)|lia|lia].
Qed.
Lemma F2_of_nth (P : Q -> Q -> Prop) : forall l1 l2 : list Q, List.length l1 = List.length l2 ->
  (forall i, (i < List.length l1)%nat -> P (nth i l1 0) (nth i l2 0)) -> Forall2 P l1 l2.
Proof.
  induction l1 as [|a l1 IH]; intros [|b l2] Hl H; try discriminate; constructor.
  - exact (H 0%nat ltac:(simpl; lia)).
  - apply IH; [simpl in Hl; lia|]. intros i Hi. exact (H (S i) ltac:(simpl; lia)).
Qed.
Lemma nth_skipn_Q k : forall (l : list Q) i, nth i (skipn k l) 0 = nth (k + i) l 0.
Proof. induction k as [|k IH]; intros [|a l] i; try reflexivity; [destruct i; reflexivity|]. cbn [skipn]. rewrite IH. reflexivity. Qed.

(* ====================================================================================================================== *)
(* get_seperated_gcc_heat_load_profiles on a valley: closed forms of sep_hot / sep_cold                                    *)
(* ====================================================================================================================== *)
Definition negp (d : Q) : Q := if qleb d 0 then d else 0.
Definition posp (d : Q) : Q := if qleb d 0 then 0 else d.
Lemma sep_hot_eq h : sep_hot h = cumsum 0 (map negp (dh_of h)). Proof. reflexivity. Qed.
Lemma sep_cold_eq h : sep_cold h = let c := cumsum 0 (map posp (dh_of h)) in map (fun x => rsub (lastq c) x) c.
Proof. reflexivity. Qed.
Lemma ucumsum_cons acc x r : cumsum acc (x :: r) = radd acc x :: cumsum (radd acc x) r. Proof. reflexivity. Qed.
Lemma udeltas_cons prev x r : Utility.deltas prev (x :: r) = rsub prev x :: Utility.deltas x r. Proof. reflexivity. Qed.
Lemma ucumsum_app : forall x y acc, cumsum acc (x ++ y) = cumsum acc x ++ cumsum (last (cumsum acc x) acc) y.
Proof.
  induction x as [|a x IH]; intros y acc; [reflexivity|]. cbn [app]. rewrite !ucumsum_cons. cbn [app]. f_equal. rewrite IH. f_equal. f_equal.
  destruct x as [|b x]; [reflexivity|]. rewrite ucumsum_cons, last_cons2. rewrite <- ucumsum_cons. apply last_dflt. rewrite ucumsum_cons. discriminate.
Qed.
Lemma udeltas_app : forall l1 a m l2, Utility.deltas a (l1 ++ m :: l2) = Utility.deltas a (l1 ++ [m]) ++ Utility.deltas m l2.
Proof. induction l1 as [|b l1 IH]; intros a m l2; [reflexivity|]. cbn [app]. rewrite !udeltas_cons. cbn [app]. f_equal. apply IH. Qed.

Lemma negp_down a b : b <= a -> negp (rsub a b) == 0.
Proof. intro H. unfold negp. pose proof (rsub_eq a b). destruct (qleb (rsub a b) 0) eqn:E; [apply qleb_true in E; lra|reflexivity]. Qed.
Lemma posp_down a b : b <= a -> posp (rsub a b) == a - b.
Proof. intro H. unfold posp. pose proof (rsub_eq a b). destruct (qleb (rsub a b) 0) eqn:E; [apply qleb_true in E; lra|lra]. Qed.
Lemma negp_up a b : a <= b -> negp (rsub a b) == a - b.
Proof. intro H. unfold negp. pose proof (rsub_eq a b). destruct (qleb (rsub a b) 0) eqn:E; [lra|apply qleb_false in E; lra]. Qed.
Lemma posp_up a b : a <= b -> posp (rsub a b) == 0.
Proof. intro H. unfold posp. pose proof (rsub_eq a b). destruct (qleb (rsub a b) 0) eqn:E; [reflexivity|apply qleb_false in E; lra]. Qed.

(* along a falling stretch the negative increments add nothing, the positive ones add the fall; mirror image on a rise *)
Lemma cum_neg_down : forall l a c c', c == c' -> chainQ (fun a b => b <= a) (a :: l) ->
  Forall2 Qeq (cumsum c (map negp (Utility.deltas a l))) (map (fun _ => c') l).
Proof.
  induction l as [|b l IH]; intros a c c' E H; [constructor|]. destruct H as [G H].
  rewrite udeltas_cons. cbn [map]. rewrite ucumsum_cons. pose proof (negp_down a b G) as En.
  constructor; [rewrite radd_eq; lra|]. apply IH; [rewrite radd_eq; lra|exact H].
Qed.
Lemma cum_pos_down : forall l a c c', c == c' -> chainQ (fun a b => b <= a) (a :: l) ->
  Forall2 Qeq (cumsum c (map posp (Utility.deltas a l))) (map (fun x => c' + (a - x)) l).
Proof.
  induction l as [|b l IH]; intros a c c' E H; [constructor|]. destruct H as [G H].
  rewrite udeltas_cons. cbn [map]. rewrite ucumsum_cons. pose proof (posp_down a b G) as En.
  constructor; [rewrite radd_eq; lra|].
  eapply Forall2_eq_trans; [apply (IH b (radd c (posp (rsub a b))) (c' + (a - b))); [rewrite radd_eq; lra|exact H]|].
  apply F2_map_ext. intro x. ring.
Qed.
Lemma cum_neg_up : forall l a c c', c == c' -> chainQ (fun a b => a <= b) (a :: l) ->
  Forall2 Qeq (cumsum c (map negp (Utility.deltas a l))) (map (fun x => c' + (a - x)) l).
Proof.
  induction l as [|b l IH]; intros a c c' E H; [constructor|]. destruct H as [G H].
  rewrite udeltas_cons. cbn [map]. rewrite ucumsum_cons. pose proof (negp_up a b G) as En.
  constructor; [rewrite radd_eq; lra|].
  eapply Forall2_eq_trans; [apply (IH b (radd c (negp (rsub a b))) (c' + (a - b))); [rewrite radd_eq; lra|exact H]|].
  apply F2_map_ext. intro x. ring.
Qed.
Lemma cum_pos_up : forall l a c c', c == c' -> chainQ (fun a b => a <= b) (a :: l) ->
  Forall2 Qeq (cumsum c (map posp (Utility.deltas a l))) (map (fun _ => c') l).
Proof.
  induction l as [|b l IH]; intros a c c' E H; [constructor|]. destruct H as [G H].
  rewrite udeltas_cons. cbn [map]. rewrite ucumsum_cons. pose proof (posp_up a b G) as En.
  constructor; [rewrite radd_eq; lra|]. apply IH; [rewrite radd_eq; lra|exact H].
Qed.

Lemma last_map_const (l : list Q) (v d : Q) : d == v -> last (map (fun _ => v) l) d == v.
Proof. intro E. induction l as [|a l IH]; [exact E|]. destruct l as [|b l]; [reflexivity|]. cbn [map] in *. rewrite last_cons2. exact IH. Qed.

Section ValleyForms.
Variables (l1 l2 : list Q) (m : Q).
Hypothesis Hd : chainQ (fun a b => b <= a) (l1 ++ [m]).
Hypothesis Hu : chainQ (fun a b => a <= b) (m :: l2).

(* H_hot_net: zero down to the valley floor, then minus the rise *)
Lemma sep_hot_valley : Forall2 Qeq (sep_hot (l1 ++ m :: l2)) (map (fun _ => 0) l1 ++ 0 :: map (fun x => m - x) l2).
Proof.
  rewrite sep_hot_eq. assert (E0 : negp 0 = 0) by reflexivity.
  destruct l1 as [|a l1'].
  - cbn [app dh_of map]. rewrite ucumsum_cons, E0. constructor; [rewrite radd_eq; lra|].
    eapply Forall2_eq_trans; [apply (cum_neg_up l2 m _ 0); [rewrite radd_eq; lra|exact Hu]|]. apply F2_map_ext. intro x. ring.
  - cbn [app dh_of map]. rewrite ucumsum_cons, E0. constructor; [rewrite radd_eq; lra|].
    rewrite udeltas_app, map_app, ucumsum_app.
    assert (D : Forall2 Qeq (cumsum (radd 0 0) (map negp (Utility.deltas a (l1' ++ [m])))) (map (fun _ => 0) (l1' ++ [m])))
      by (apply cum_neg_down; [rewrite radd_eq; lra|exact Hd]).
    replace (map (fun _ : Q => 0) l1' ++ 0 :: map (fun x => m - x) l2) with (map (fun _ : Q => 0) (l1' ++ [m]) ++ map (fun x => m - x) l2)
      by (rewrite map_app, <- app_assoc; reflexivity).
    apply Forall2_app; [exact D|].
    eapply Forall2_eq_trans; [apply (cum_neg_up l2 m _ 0); [|exact Hu]|apply F2_map_ext; intro x; ring].
    rewrite (F2_last _ _ (radd 0 0) 0 D) by (rewrite radd_eq; lra). apply last_map_const. reflexivity.
Qed.

(* H_cold_net: the height above the valley floor down to it, then zero *)
Lemma sep_cold_valley : Forall2 Qeq (sep_cold (l1 ++ m :: l2)) (map (fun x => x - m) l1 ++ 0 :: map (fun _ => 0) l2).
Proof.
  rewrite sep_cold_eq. cbv zeta. assert (E0 : posp 0 = 0) by reflexivity.
  destruct l1 as [|a l1'].
  - cbn [app dh_of map]. rewrite ucumsum_cons, E0.
    assert (U : Forall2 Qeq (cumsum (radd 0 0) (map posp (Utility.deltas m l2))) (map (fun _ => 0) l2))
      by (apply cum_pos_up; [rewrite radd_eq; lra|exact Hu]).
    set (c := radd 0 0 :: cumsum (radd 0 0) (map posp (Utility.deltas m l2))).
    assert (C : Forall2 Qeq c (0 :: map (fun _ => 0) l2)) by (constructor; [rewrite radd_eq; lra|exact U]).
    assert (Et : lastq c == 0).
    { unfold lastq. rewrite (F2_last _ _ 0 0 C) by reflexivity. change (0 :: map (fun _ : Q => 0) l2) with (map (fun _ : Q => 0) (m :: l2)). apply last_map_const. reflexivity. }
    eapply Forall2_eq_trans; [apply (F2_map (fun x => rsub (lastq c) x) _ _ ltac:(intros x y E; rewrite !rsub_eq, E; reflexivity) C)|].
    cbn [map app]. constructor; [rewrite rsub_eq, Et; ring|]. rewrite map_map. apply F2_map_ext. intro x. rewrite rsub_eq, Et. ring.
  - cbn [app dh_of map]. rewrite ucumsum_cons, E0.
    rewrite udeltas_app, map_app, ucumsum_app.
    assert (D : Forall2 Qeq (cumsum (radd 0 0) (map posp (Utility.deltas a (l1' ++ [m])))) (map (fun x => 0 + (a - x)) (l1' ++ [m])))
      by (apply cum_pos_down; [rewrite radd_eq; lra|exact Hd]).
    set (c1 := last (cumsum (radd 0 0) (map posp (Utility.deltas a (l1' ++ [m])))) (radd 0 0)) in *.
    assert (Ec1 : c1 == a - m).
    { unfold c1. rewrite (F2_last _ _ (radd 0 0) 0 D) by (rewrite radd_eq; lra). rewrite map_app. cbn [map]. rewrite last_last. ring. }
    assert (U : Forall2 Qeq (cumsum c1 (map posp (Utility.deltas m l2))) (map (fun _ => a - m) l2))
      by (apply cum_pos_up; [exact Ec1|exact Hu]).
    set (c := radd 0 0 :: cumsum (radd 0 0) (map posp (Utility.deltas a (l1' ++ [m]))) ++ cumsum c1 (map posp (Utility.deltas m l2))).
    assert (C : Forall2 Qeq c (0 :: map (fun x => 0 + (a - x)) (l1' ++ [m]) ++ map (fun _ => a - m) l2)).
    { constructor; [rewrite radd_eq; lra|]. apply Forall2_app; assumption. }
    assert (Et : lastq c == a - m).
    { unfold lastq. rewrite (F2_last _ _ 0 0 C) by reflexivity.
      rewrite map_app. cbn [map]. rewrite <- app_assoc. cbn [app].
      rewrite app_comm_cons. rewrite (last_app_ne _ ((0 + (a - m)) :: map (fun _ : Q => a - m) l2) 0 0) by discriminate.
      destruct l2 as [|y l2']; [cbn [map last]; ring|].
      cbn [map]. rewrite last_cons2. change ((a - m) :: map (fun _ : Q => a - m) l2') with (map (fun _ : Q => a - m) (y :: l2')).
      rewrite (last_dflt _ 0 (a - m)) by discriminate. apply last_map_const. reflexivity. }
    eapply Forall2_eq_trans; [apply (F2_map (fun x => rsub (lastq c) x) _ _ ltac:(intros x y E; rewrite !rsub_eq, E; reflexivity) C)|].
    cbn [map app]. constructor; [rewrite rsub_eq, Et; ring|].
    rewrite !map_app. cbn [map]. rewrite <- app_assoc. cbn [app].
    apply Forall2_app; [rewrite map_map; apply F2_map_ext; intro x; rewrite rsub_eq, Et; ring|].
    constructor; [rewrite rsub_eq, Et; ring|].
    rewrite map_map. apply F2_map_ext. intro x. rewrite rsub_eq, Et. ring.
Qed.
End ValleyForms.

(* ====================================================================================================================== *)
(* ProblemTable.pinch_idx (utility model): the hot pinch row is a zero row of the column                                   *)
(* ====================================================================================================================== *)
Lemma fi_spec b : forall m, match Utility.first_idx b m with
  | Some i => (i < List.length m)%nat /\ nth i m (negb b) = b /\ (forall j, (j < i)%nat -> nth j m (negb b) = negb b)
  | None => forall j, nth j m (negb b) = negb b end.
Proof.
  induction m as [|x r IH]; [intros [|j]; reflexivity|]. cbn [Utility.first_idx].
  destruct (Bool.eqb x b) eqn:E.
  - apply Bool.eqb_prop in E. subst x. split; [simpl; lia|]. split; [reflexivity|]. intros j Hj. lia.
  - assert (Ex : x = negb b) by (destruct x, b; simpl in E; try discriminate; reflexivity).
    destruct (Utility.first_idx b r) as [i|]; cbn [option_map].
    + destruct IH as [I1 [I2 I3]]. split; [simpl; lia|]. split; [exact I2|].
      intros [|j] Hj; [exact Ex|]. cbn [nth]. apply I3. lia.
    + intros [|j]; [exact Ex|]. cbn [nth]. apply IH.
Qed.

Lemma pinch_idx_rh tolv h i0 : (i0 < List.length h)%nat -> nth i0 (zmask tolv h) false = true ->
  let rh := fst (fst (Utility.pinch_idx tolv h)) in (rh < List.length h)%nat /\ nth rh (zmask tolv h) false = true.
Proof.
  intros Hi0 Hz. cbv zeta. unfold Utility.pinch_idx.
  set (m := zmask tolv h) in *.
  assert (Hn : List.length m = List.length h) by (unfold m, zmask; apply map_length).
  pose proof (fi_spec true m) as S1. pose proof (fi_spec false m) as S2.
  pose proof (fi_spec true (rev m)) as S3. pose proof (fi_spec false (rev m)) as S4.
  cbn [negb] in *.
  destruct (Utility.first_idx true m) as [fz|]; destruct (Utility.first_idx false m) as [fnz|];
  destruct (Utility.first_idx true (rev m)) as [lzr|]; destruct (Utility.first_idx false (rev m)) as [lnzr|]; cbn [fst];
  try (solve [ exfalso; specialize (S1 i0); congruence
             | exfalso; specialize (S3 (List.length m - S i0)%nat); rewrite rev_nth in S3 by lia;
               replace (List.length m - S (List.length m - S i0))%nat with i0 in S3 by lia; congruence
             | split; [lia|]; rewrite (nth_indep m false true) by lia; apply S2
             | split; [lia|]; specialize (S4 0%nat); rewrite rev_nth in S4 by lia; rewrite (nth_indep m false true) by lia;
               replace (List.length m - 1)%nat with (List.length m - 1)%nat by lia; exact S4 ]).
  destruct S1 as [A1 [A2 A3]]. destruct S2 as [B1 [B2 B3]].
  destruct (0 <? fz)%nat eqn:E0.
  - split; [lia|exact A2].
  - apply Nat.ltb_ge in E0. assert (fz = 0%nat) by lia. subst fz.
    assert (Hf : fnz <> 0%nat).
    { intro Z. subst fnz. rewrite (nth_indep m true false) in B2 by lia. congruence. }
    split; [lia|]. rewrite (nth_indep m false true) by lia. apply B3. lia.
Qed.

(* ====================================================================================================================== *)
(* _target_utility = the assignment loop on the flipped column (the entry test only skips work)                            *)
(* ====================================================================================================================== *)
Lemma filter_all_false {A} (f : A -> bool) l : (forall x, In x l -> f x = false) -> filter f l = [].
Proof. induction l as [|a l IH]; intro H; [reflexivity|]. cbn [filter]. rewrite (H a (or_introl eq_refl)). apply IH. intros x Hx. apply H. right. exact Hx. Qed.
Lemma assign_loop_no_demand tolv ivs limit : 0 < tolv -> (forall v, In v ivs -> hadj v <= tolv) ->
  forall l, assign_loop tolv ivs limit l 0 = zeros l.
Proof.
  intros Ht H. induction l as [|u l IH]; [reflexivity|]. cbn [assign_loop].
  assert (Em : max_duty tolv ivs (us u) (utg u) 0 = 0).
  { unfold max_duty. rewrite filter_all_false; [reflexivity|]. intros v Hv. unfold valid.
    apply andb_false_iff. right. apply qltb_false. unfold qpot. rewrite rsub_eq. specialize (H v Hv). lra. }
  rewrite Em. assert (Es : qltb tolv 0 = false) by (apply qltb_false; lra). rewrite Es.
  change (zeros (u :: l)) with (0 :: zeros l). f_equal. destruct (qltb (Qabs (rsub limit 0)) tolv); [reflexivity|exact IH].
Qed.
Lemma zeros_map {A B} (f : A -> B) l : zeros (map f l) = zeros l.
Proof. unfold zeros. apply map_map. Qed.
Lemma zeros_rev {A} (l : list A) : rev (zeros l) = zeros (rev l).
Proof. unfold zeros. symmetry. apply map_rev. Qed.
Lemma headq_firstn n (l : list Q) : headq (firstn (S n) l) = headq l.
Proof. destruct l; reflexivity. Qed.
Lemma lastq_skipn k : forall l : list Q, skipn k l <> [] -> lastq (skipn k l) = lastq l.
Proof.
  induction k as [|k IH]; intros l H; [reflexivity|]. destruct l as [|a l]; [reflexivity|]. cbn [skipn] in *.
  rewrite (IH l H). unfold lastq. destruct l as [|b l]; [destruct k; simpl in H; congruence|]. rewrite last_cons2. reflexivity.
Qed.

Lemma target_hot_is_assign T H rh hus :
  let Hf := flip tol H in
  strict_desc (firstn (S rh) T) = true -> noninc (firstn (S rh) Hf) = true -> 0 <= headq Hf ->
  target_hot tol T H rh hus = assign_hot tol T Hf rh hus.
Proof.
  intros Hf Hs Hn H0. unfold target_hot. fold Hf. destruct hus as [|u0 hus'] eqn:Eh; [reflexivity|]. rewrite <- Eh. clear Eh.
  destruct (qltb tol (Qabs (headq Hf))) eqn:E; [reflexivity|]. apply qltb_false in E. rewrite Qabs_pos in E by exact H0.
  unfold assign_hot. rewrite assign_loop_no_demand.
  - rewrite zeros_map, zeros_rev, rev_involutive. reflexivity.
  - exact tol_pos.
  - intros v Hv. pose proof (hot_hadj_le _ _ v Hs Hn Hv) as Hh. rewrite headq_firstn in Hh. lra.
Qed.
Lemma target_cold_is_assign T H rc cus :
  let Hf := flip tol H in let k := Nat.max (rc - 1) 0 in
  strict_desc (skipn k T) = true -> noninc (rev (skipn k Hf)) = true -> 0 <= lastq Hf ->
  target_cold tol T H rc cus = assign_cold tol T Hf rc cus.
Proof.
  intros Hf k Hs Hn H0. unfold target_cold. fold Hf. destruct cus as [|u0 cus'] eqn:Eh; [reflexivity|]. rewrite <- Eh. clear Eh.
  destruct (qltb tol (Qabs (lastq Hf))) eqn:E; [reflexivity|]. apply qltb_false in E. rewrite Qabs_pos in E by exact H0.
  unfold assign_cold. fold k. rewrite assign_loop_no_demand.
  - rewrite zeros_map. reflexivity.
  - exact tol_pos.
  - intros v Hv. pose proof (cold_hadj_le _ _ v Hs Hn Hv) as Hh.
    destruct (skipn k Hf) as [|y r] eqn:Es.
    + destruct (skipn k T) as [|t0 [|t1 tr]]; simpl in Hv; contradiction.
    + rewrite <- Es in Hh. rewrite lastq_skipn in Hh by (rewrite Es; discriminate). lra.
Qed.

(* ====================================================================================================================== *)
(* the demand columns of a valley                                                                                         *)
(* ====================================================================================================================== *)
Lemma uminl_le : forall l x, Utility.minl x l <= x /\ (forall y, In y l -> Utility.minl x l <= y).
Proof.
  induction l as [|z l IH]; intro x; cbn [Utility.minl]; [split; [lra|intros y []]|].
  destruct (IH z) as [I1 I2]. split; [qmin|]. intros y [<-|Hy]; [qmin|]. specialize (I2 y Hy). qmin.
Qed.
Lemma uminl_ge c : forall l x, c <= x -> (forall y, In y l -> c <= y) -> c <= Utility.minl x l.
Proof.
  induction l as [|z l IH]; intros x Hx Hl; cbn [Utility.minl]; [exact Hx|].
  assert (c <= Utility.minl z l) by (apply IH; [apply Hl; left; reflexivity|intros y Hy; apply Hl; right; exact Hy]). qmin.
Qed.
Lemma lmin_le_in d l x : In x l -> lmin d l <= x.
Proof. destruct l as [|a l]; intro H; [destruct H|]. cbn [lmin]. destruct (uminl_le l a) as [I1 I2]. destruct H as [<-|H]; [exact I1|exact (I2 x H)]. Qed.
Lemma lmin_ge c d l : c <= d -> (forall y, In y l -> c <= y) -> c <= lmin d l.
Proof. destruct l as [|a l]; intros Hd Hl; [exact Hd|]. cbn [lmin]. apply uminl_ge; [apply Hl; left; reflexivity|intros y Hy; apply Hl; right; exact Hy]. Qed.
Lemma F2_in_r (l1 l2 : list Q) y : Forall2 Qeq l1 l2 -> In y l2 -> exists x, In x l1 /\ x == y.
Proof.
  induction 1 as [|a b l l' Hab Hl IH]; intro Hin; [destruct Hin|]. destruct Hin as [<-|Hin]; [exists a; split; [left; reflexivity|exact Hab]|].
  destruct (IH Hin) as [x [H1 H2]]. exists x. split; [right; exact H1|exact H2].
Qed.
Lemma F2_in_l (l1 l2 : list Q) x : Forall2 Qeq l1 l2 -> In x l1 -> exists y, In y l2 /\ x == y.
Proof.
  induction 1 as [|a b l l' Hab Hl IH]; intro Hin; [destruct Hin|]. destruct Hin as [<-|Hin]; [exists b; split; [left; reflexivity|exact Hab]|].
  destruct (IH Hin) as [y [H1 H2]]. exists y. split; [right; exact H1|exact H2].
Qed.
Lemma F2_map_in (f : Q -> Q) l : (forall x, In x l -> f x == x) -> Forall2 Qeq (map f l) l.
Proof. induction l as [|a l IH]; intro H; constructor; [apply H; left; reflexivity|apply IH; intros x Hx; apply H; right; exact Hx]. Qed.
Lemma nth_zeros (l : list Q) i : nth i (map (fun _ : Q => 0) l) 0 = 0.
Proof. revert i. induction l as [|a l IH]; intros [|i]; try reflexivity. cbn [map nth]. apply IH. Qed.
Lemma nth_nonneg (l : list Q) i : (forall x, In x l -> 0 <= x) -> 0 <= nth i l 0.
Proof. intro H. destruct (Nat.lt_ge_cases i (List.length l)) as [Hi|Hi]; [apply H, nth_In; exact Hi|rewrite nth_overflow by exact Hi; lra]. Qed.
Lemma last_nonneg (l : list Q) : (forall x, In x l -> 0 <= x) -> 0 <= last l 0.
Proof. intro H. destruct l as [|a l]; [simpl; lra|]. apply H. apply last_in. discriminate. Qed.
Lemma chain_up_nth l : chainQ (fun a b => a <= b) l -> forall i j, (i <= j)%nat -> (j < List.length l)%nat -> nth i l 0 <= nth j l 0.
Proof.
  induction l as [|a l IH]; intros H i j Hij Hj; [simpl in Hj; lia|].
  destruct j as [|j]; [assert (i = 0%nat) by lia; subst; lra|]. simpl in Hj.
  destruct i as [|i]; [cbn [nth]; apply (chain_up_ge a l); [exact H|apply nth_In; lia]|].
  cbn [nth]. apply IH; [exact (chainQ_tail _ _ _ H)|lia|lia].
Qed.
Lemma up_levels tq : 0 < tq -> forall l a, chainQ (Up tq) (a :: l) -> (a == 0 \/ tq < a) -> Forall (fun x => x == 0 \/ tq < x) l.
Proof.
  intros Ht. induction l as [|b l IH]; intros a H Ha; [constructor|]. destruct H as [G H].
  assert (Hb : b == 0 \/ tq < b) by (unfold Up in G; destruct G, Ha; [left; lra|right; lra|right; lra|right; lra]).
  constructor; [exact Hb|exact (IH b H Hb)].
Qed.

Section ValleyDemand.
Variables (l1 l2 : list Q) (m : Q).
Hypothesis Em : m == 0.
Hypothesis HD : chainQ (Down tol) (l1 ++ [m]).
Hypothesis HU : chainQ (Up tol) (m :: l2).
Let HA := l1 ++ m :: l2.
Let HhS := map (fun x => x - m) l1 ++ 0 :: map (fun _ : Q => 0) l2.
Let HcS := map (fun _ : Q => 0) l1 ++ 0 :: l2.

Lemma vd_down : chainQ (fun a b => b <= a) (l1 ++ [m]).
Proof. pose proof tol_pos. apply (chain_weaken (Down tol)); [|exact HD]. intros a b [E|E]; lra. Qed.
Lemma vd_up : chainQ (fun a b => a <= b) (m :: l2).
Proof. pose proof tol_pos. apply (chain_weaken (Up tol)); [|exact HU]. intros a b [E|E]; lra. Qed.
Lemma vd_l1_ge x : In x l1 -> m <= x.
Proof. exact (chain_down_last_le l1 m x vd_down). Qed.
Lemma vd_l2_ge x : In x l2 -> m <= x.
Proof. exact (chain_up_ge m l2 x vd_up). Qed.
Lemma vd_l2_levels : Forall (fun x => x == 0 \/ tol < x) l2.
Proof. apply (up_levels tol tol_pos l2 m HU). left. exact Em. Qed.

Lemma vd_HhS_nonneg x : In x HhS -> 0 <= x.
Proof.
  unfold HhS. intro H. apply in_app_or in H. destruct H as [H|[<-|H]]; [|lra|].
  - apply in_map_iff in H. destruct H as [y [<- Hy]]. pose proof (vd_l1_ge y Hy). lra.
  - apply in_map_iff in H. destruct H as [y [<- _]]. lra.
Qed.
Lemma vd_HcS_nonneg x : In x HcS -> 0 <= x.
Proof.
  unfold HcS. intro H. apply in_app_or in H. destruct H as [H|[<-|H]]; [|lra|].
  - apply in_map_iff in H. destruct H as [y [<- _]]. lra.
  - pose proof (vd_l2_ge x H). lra.
Qed.
Lemma vd_HhS_down : chainQ (fun a b => b <= a) HhS.
Proof.
  unfold HhS. pose proof vd_down as H. pose proof vd_l1_ge as G. clear - H G.
  induction l1 as [|a l IH].
  - cbn [map app]. apply (chainQ_const _ _ 0); [intros a b Ea Eb; lra|]. constructor; [reflexivity|].
    rewrite Forall_map. rewrite Forall_forall. intros x _. reflexivity.
  - cbn [map app]. assert (IH' := IH (chainQ_tail _ _ _ H) (fun x Hx => G x (or_intror Hx))).
    destruct l as [|b l]; cbn [map app] in *.
    + split; [pose proof (G a (or_introl eq_refl)); lra|exact IH'].
    + split; [destruct H as [H1 _]; lra|exact IH'].
Qed.
Lemma vd_HcS_up : chainQ (fun a b => a <= b) HcS.
Proof.
  unfold HcS. pose proof vd_up as H. pose proof vd_l2_ge as G. clear - H G Em.
  induction l1 as [|a l IH].
  - cbn [map app]. destruct l2 as [|y r]; [exact I|]. destruct H as [H1 H2]. split; [lra|exact H2].
  - cbn [map app]. destruct l as [|b l]; cbn [map app] in *; (split; [lra|exact IH]).
Qed.
Lemma vd_sum i : nth i HhS 0 + nth i HcS 0 == nth i HA 0.
Proof.
  unfold HhS, HcS, HA. clear - Em. revert i. induction l1 as [|a l IH]; intro i.
  - cbn [map app]. destruct i as [|i]; cbn [nth]; [lra|]. rewrite nth_zeros. lra.
  - cbn [map app]. destruct i as [|i]; cbn [nth]; [lra|apply IH].
Qed.
Lemma vd_len_h : List.length HhS = List.length HA.
Proof. unfold HhS, HA. rewrite !app_length. cbn [List.length]. rewrite !map_length. reflexivity. Qed.
Lemma vd_len_c : List.length HcS = List.length HA.
Proof. unfold HcS, HA. rewrite !app_length. cbn [List.length]. rewrite !map_length. reflexivity. Qed.

(* the heating demand column: H_cold_net, not flipped *)
Lemma vd_Hh : Forall2 Qeq (flip tol (sep_cold HA)) HhS.
Proof.
  pose proof (sep_cold_valley l1 l2 m vd_down vd_up) as S. fold HA HhS in S.
  unfold flip. assert (E : qltb (lmin 0 (sep_cold HA)) (- tol) = false); [|rewrite E; exact S].
  apply qltb_false. pose proof tol_pos. apply lmin_ge; [lra|]. intros y Hy.
  destruct (F2_in_l _ _ y S Hy) as [z [Hz Ez]]. pose proof (vd_HhS_nonneg z Hz). lra.
Qed.
(* the cooling demand column: H_hot_net flipped (or identically zero when nothing is to be cooled) *)
Lemma vd_Hc : Forall2 Qeq (flip tol (sep_hot HA)) HcS.
Proof.
  pose proof (sep_hot_valley l1 l2 m vd_down vd_up) as S. fold HA in S.
  unfold flip. destruct (qltb (lmin 0 (sep_hot HA)) (- tol)) eqn:E.
  - eapply Forall2_eq_trans; [apply (F2_map Qopp _ _ ltac:(intros x y Exy; rewrite Exy; reflexivity) S)|].
    unfold HcS. rewrite map_app. cbn [map]. apply Forall2_app; [rewrite map_map; apply F2_map_ext; intro x; ring|].
    constructor; [ring|]. rewrite map_map. apply F2_map_in. intros x _. rewrite Em. ring.
  - apply qltb_false in E. eapply Forall2_eq_trans; [exact S|].
    unfold HcS. apply Forall2_app; [apply F2_refl|]. constructor; [reflexivity|]. apply F2_map_in. intros x Hx.
    (* every entry of the unflipped column is >= -tol: the rise is at most tol, hence zero *)
    assert (Hin : In (m - x) (map (fun _ : Q => 0) l1 ++ 0 :: map (fun x => m - x) l2)).
    { apply in_or_app. right. right. apply in_map_iff. exists x. split; [reflexivity|exact Hx]. }
    destruct (F2_in_r _ _ _ S Hin) as [z [Hz Ez]]. pose proof (lmin_le_in 0 _ z Hz) as Hl.
    pose proof vd_l2_levels as Lv. rewrite Forall_forall in Lv. destruct (Lv x Hx) as [E0|E0]; lra.
Qed.
End ValleyDemand.

(* ====================================================================================================================== *)
(* 0 <= H_ut[i] <= H_np[i] for the duties the targeting assigns on a valley column                                         *)
(* ====================================================================================================================== *)
Theorem valley_rows_feasible T HA hus cus :
  gapped tol T = true -> List.length T = List.length HA -> Valley tol HA ->
  (forall u, In u hus -> gridded_hot tol T u) -> (forall u, In u cus -> gridded_cold tol T u) ->
  let dd := di_duties tol T HA (sep_hot HA) (sep_cold HA) hus cus in
  forall i, (i < List.length T)%nat ->
  0 <= nth i (hut_model T hus cus (fst dd) (snd dd)) 0 /\ nth i (hut_model T hus cus (fst dd) (snd dd)) 0 <= nth i HA 0.
Proof.
  intros Hg Hl [l1 [m [l2 [E [Em [HD HU]]]]]] Hgh Hgc dd i Hi. subst HA.
  pose proof tol_pos as Htol.
  set (HA := l1 ++ m :: l2) in *.
  set (Hh := flip tol (sep_cold HA)). set (Hc := flip tol (sep_hot HA)).
  pose proof (vd_Hh l1 l2 m HD HU) as Fh. pose proof (vd_Hc l1 l2 m Em HD HU) as Fc. fold HA Hh Hc in Fh, Fc.
  set (HhS := map (fun x => x - m) l1 ++ 0 :: map (fun _ : Q => 0) l2) in *.
  set (HcS := map (fun _ : Q => 0) l1 ++ 0 :: l2) in *.
  pose proof (vd_HhS_nonneg l1 l2 m HD) as Nh. pose proof (vd_HcS_nonneg l1 l2 m Em HU) as Nc. fold HhS in Nh. fold HcS in Nc.
  pose proof (vd_HhS_down l1 l2 m HD) as Dh. pose proof (vd_HcS_up l1 l2 m Em HU) as Uc. fold HhS in Dh. fold HcS in Uc.
  pose proof (vd_sum l1 l2 m Em) as Sum. fold HhS HcS HA in Sum.
  pose proof (vd_len_h l1 l2 m) as Lh. pose proof (vd_len_c l1 l2 m) as Lc. fold HhS HA in Lh. fold HcS HA in Lc.
  assert (LHh : List.length Hh = List.length HA) by (rewrite (F2_length _ _ _ Fh); exact Lh).
  assert (LHc : List.length Hc = List.length HA) by (rewrite (F2_length _ _ _ Fc); exact Lc).
  assert (Hsd : strict_desc T = true) by (apply (gapped_strict tol tol_pos); exact Hg).
  (* the hot pinch row is a zero row of the column *)
  assert (Hz0 : nth (List.length l1) (zmask tol HA) false = true).
  { unfold zmask. rewrite (nth_indep _ false (qltb (Qabs 0) tol)) by (rewrite map_length; unfold HA; rewrite app_length; simpl; lia).
    rewrite (map_nth (fun x => qltb (Qabs x) tol)). unfold HA. rewrite app_nth2 by lia. rewrite Nat.sub_diag. cbn [nth].
    apply qltb_true. rewrite Em. exact Htol. }
  assert (Hi0 : (List.length l1 < List.length HA)%nat) by (unfold HA; rewrite app_length; simpl; lia).
  pose proof (pinch_idx_rh tol HA (List.length l1) Hi0 Hz0) as Hrh. cbv zeta in Hrh.
  unfold dd, di_duties. destruct (Utility.pinch_idx tol HA) as [[rh rc] vld]. cbn [fst snd] in *. destruct Hrh as [Hrh Hzr].
  assert (HArh : nth rh HA 0 < tol).
  { unfold zmask in Hzr. rewrite (nth_indep _ false (qltb (Qabs 0) tol)) in Hzr by (rewrite map_length; exact Hrh).
    rewrite (map_nth (fun x => qltb (Qabs x) tol)) in Hzr. apply qltb_true in Hzr.
    eapply Qle_lt_trans; [apply Qle_Qabs|exact Hzr]. }
  set (k := Nat.max (rc - 1) 0).
  (* hypotheses of the row theorem *)
  assert (A1 : noninc (firstn (S rh) Hh) = true).
  { apply (noninc_eqv _ (firstn (S rh) HhS)); [apply F2_firstn; exact Fh|]. apply noninc_chain. apply chain_firstn. exact Dh. }
  assert (A2 : 0 <= lastq (firstn (S rh) Hh)).
  { unfold lastq. rewrite (F2_last _ _ 0 0 (F2_firstn (S rh) _ _ Fh)) by reflexivity. apply last_nonneg.
    intros x Hx. apply Nh. rewrite <- (firstn_skipn (S rh) HhS). apply in_or_app. left. exact Hx. }
  assert (A3 : noninc (rev (skipn k Hc)) = true).
  { apply (noninc_eqv _ (rev (skipn k HcS))); [apply Forall2_rev_eq; apply F2_skipn; exact Fc|].
    apply noninc_chain. apply chain_rev_up. apply chain_skipn. exact Uc. }
  assert (A4 : 0 <= headq (skipn k Hc)).
  { rewrite (F2_hd _ _ (F2_skipn k _ _ Fc)). unfold headq. destruct (skipn k HcS) as [|y r] eqn:Es; [simpl; lra|]. cbn [List.hd].
    apply Nc. rewrite <- (firstn_skipn k HcS), Es. apply in_or_app. right. left. reflexivity. }
  assert (Hcle : forall j, (j <= rh)%nat -> nth j Hc 0 <= tol).
  { intros j Hj. rewrite (F2_nth _ _ j Fc).
    assert (nth j HcS 0 <= nth rh HcS 0) by (apply chain_up_nth; [exact Uc|exact Hj|rewrite Lc; exact Hrh]).
    pose proof (Sum rh). pose proof (nth_nonneg HhS rh Nh). lra. }
  assert (A5 : Forall2 (fun t h => nth rh T 0 <= t -> h <= tol) (skipn k T) (skipn k Hc)).
  { apply F2_of_nth; [rewrite !skipn_length; lia|]. intros j Hj. rewrite !nth_skipn_Q. intro Hle.
    rewrite skipn_length in Hj. apply Hcle.
    destruct (Nat.le_gt_cases (k + j) rh) as [Hok|Hbad]; [exact Hok|exfalso].
    pose proof (strict_desc_nth_lt T Hsd rh (k + j)%nat Hbad ltac:(lia)). lra. }
  (* the entry tests of _target_utility *)
  assert (Hfs : strict_desc (firstn (S rh) T) = true).
  { apply (gapped_strict tol tol_pos). clear - Hg. revert Hg. generalize (S rh). intros n. revert T.
    induction n as [|n IH]; intros [|a [|b l]] H; try reflexivity; [destruct n; reflexivity|].
    destruct n as [|n']; [reflexivity|].
    change (firstn (S (S n')) (a :: b :: l)) with (a :: firstn (S n') (b :: l)).
    specialize (IH (b :: l) (gapped_tail tol _ _ H)). change (firstn (S n') (b :: l)) with (b :: firstn n' l) in *.
    cbn [gapped] in *. apply andb_true_iff in H. destruct H as [H1 _]. rewrite H1. exact IH. }
  assert (Hss : strict_desc (skipn k T) = true) by (apply strict_desc_skipn; exact Hsd).
  assert (B1 : 0 <= headq Hh).
  { rewrite (F2_hd _ _ Fh). unfold headq. destruct HhS as [|y r] eqn:Es; [simpl; lra|]. apply Nh. left. reflexivity. }
  assert (B2 : 0 <= lastq Hc).
  { unfold lastq. rewrite (F2_last _ _ 0 0 Fc) by reflexivity. apply last_nonneg. exact Nc. }
  rewrite (target_hot_is_assign T (sep_cold HA) rh hus Hfs A1 B1).
  rewrite (target_cold_is_assign T (sep_hot HA) rc cus Hss A3 B2).
  fold Hh Hc.
  pose proof (utility_rows_feasible_nth tol tol_pos T Hh Hc rh rc hus cus Hg ltac:(lia) ltac:(lia) ltac:(lia) A1 A2 A3 A4 A5 Hgh Hgc i Hi) as [R1 R2].
  split; [exact R1|]. eapply Qle_trans; [exact R2|]. fold k.
  pose proof (F2_nth _ _ i Fh) as Eh. pose proof (F2_nth _ _ i Fc) as Ec.
  pose proof (nth_nonneg HhS i Nh). pose proof (nth_nonneg HcS i Nc). pose proof (Sum i).
  destruct (i <=? rh)%nat; destruct (k <=? i)%nat; lra.
Qed.

(* what the two demand columns of a valley are, in one statement: monotone, non-negative, adding up to the column itself in
   every row; the hot pinch row of pinch_idx is a zero row and the cooling demand vanishes (<= tol) down to it *)
Theorem valley_demand_columns HA : Valley tol HA ->
  let Hh := flip tol (sep_cold HA) in let Hc := flip tol (sep_hot HA) in
  let rh := fst (fst (Utility.pinch_idx tol HA)) in
  List.length Hh = List.length HA /\ List.length Hc = List.length HA
  /\ noninc Hh = true /\ noninc (rev Hc) = true
  /\ (forall i, 0 <= nth i Hh 0 /\ 0 <= nth i Hc 0 /\ nth i Hh 0 + nth i Hc 0 == nth i HA 0)
  /\ (rh < List.length HA)%nat /\ Qabs (nth rh HA 0) < tol /\ (forall j, (j <= rh)%nat -> nth j Hc 0 <= tol).
Proof.
  intros [l1 [m [l2 [E [Em [HD HU]]]]]] Hh Hc rh. subst HA. pose proof tol_pos as Htol.
  set (HA := l1 ++ m :: l2) in *.
  pose proof (vd_Hh l1 l2 m HD HU) as Fh. pose proof (vd_Hc l1 l2 m Em HD HU) as Fc. fold HA Hh Hc in Fh, Fc.
  set (HhS := map (fun x => x - m) l1 ++ 0 :: map (fun _ : Q => 0) l2) in *.
  set (HcS := map (fun _ : Q => 0) l1 ++ 0 :: l2) in *.
  pose proof (vd_HhS_nonneg l1 l2 m HD) as Nh. pose proof (vd_HcS_nonneg l1 l2 m Em HU) as Nc. fold HhS in Nh. fold HcS in Nc.
  pose proof (vd_HhS_down l1 l2 m HD) as Dh. pose proof (vd_HcS_up l1 l2 m Em HU) as Uc. fold HhS in Dh. fold HcS in Uc.
  pose proof (vd_sum l1 l2 m Em) as Sum. fold HhS HcS HA in Sum.
  pose proof (vd_len_h l1 l2 m) as Lh. pose proof (vd_len_c l1 l2 m) as Lc. fold HhS HA in Lh. fold HcS HA in Lc.
  assert (Hz0 : nth (List.length l1) (zmask tol HA) false = true).
  { unfold zmask. rewrite (nth_indep _ false (qltb (Qabs 0) tol)) by (rewrite map_length; unfold HA; rewrite app_length; simpl; lia).
    rewrite (map_nth (fun x => qltb (Qabs x) tol)). unfold HA. rewrite app_nth2 by lia. rewrite Nat.sub_diag. cbn [nth].
    apply qltb_true. rewrite Em. exact Htol. }
  assert (Hi0 : (List.length l1 < List.length HA)%nat) by (unfold HA; rewrite app_length; simpl; lia).
  pose proof (pinch_idx_rh tol HA (List.length l1) Hi0 Hz0) as Hrh. cbv zeta in Hrh. fold rh in Hrh. destruct Hrh as [Hrh Hzr].
  assert (HArh : Qabs (nth rh HA 0) < tol).
  { unfold zmask in Hzr. rewrite (nth_indep _ false (qltb (Qabs 0) tol)) in Hzr by (rewrite map_length; exact Hrh).
    rewrite (map_nth (fun x => qltb (Qabs x) tol)) in Hzr. apply qltb_true in Hzr. exact Hzr. }
  split; [rewrite (F2_length _ _ _ Fh); exact Lh|]. split; [rewrite (F2_length _ _ _ Fc); exact Lc|].
  split; [apply (noninc_eqv _ HhS Fh); apply noninc_chain; exact Dh|].
  split; [apply (noninc_eqv _ (rev HcS)); [apply Forall2_rev_eq; exact Fc|apply noninc_chain; apply chain_rev_up; exact Uc]|].
  split.
  { intro i. rewrite (F2_nth _ _ i Fh), (F2_nth _ _ i Fc). split; [apply nth_nonneg; exact Nh|]. split; [apply nth_nonneg; exact Nc|apply Sum]. }
  split; [exact Hrh|]. split; [exact HArh|].
  intros j Hj. rewrite (F2_nth _ _ j Fc).
  assert (nth j HcS 0 <= nth rh HcS 0) by (apply chain_up_nth; [exact Uc|exact Hj|rewrite Lc; exact Hrh]).
  pose proof (Sum rh). pose proof (nth_nonneg HhS rh Nh). pose proof (Qle_Qabs (nth rh HA 0)). lra.
Qed.

(* ====================================================================================================================== *)
(* composition with get_GCC_without_pockets                                                                               *)
(* ====================================================================================================================== *)
Lemma gapped_of_Tdesc tq (t : list row) : Tdesc tq t -> gapped tq (map rT t) = true.
Proof.
  unfold Tdesc. induction t as [|a t IH]; intro H; [reflexivity|]. destruct t as [|b t]; [reflexivity|].
  change (map ptH (a :: b :: t)) with (ptH a :: ptH b :: map ptH t) in H. destruct H as [G H].
  change (map rT (a :: b :: t)) with (rT a :: rT b :: map rT t). cbn [gapped]. apply andb_true_iff. split.
  - apply qltb_true. unfold sgap, ptH in G. cbn [fst] in G. lra.
  - apply IH. exact H.
Qed.

Section Composed.
Variables (Ts Hs : list Q) (out : list row).
Hypothesis Hrob : robust_b tol Ts Hs = true.
Hypothesis Hhas : has_pinch tol Hs = true.
Hypothesis Hout : gcc_np tol Ts Hs = Ok out.

Lemma gcc_out_gapped : gapped tol (map rT out) = true.
Proof.
  destruct (res_eqv tol Ts Hs out tol_pos Hrob Hhas Hout) as [Heq Tz].
  apply gapped_of_Tdesc. unfold Tdesc in *. rewrite (rows_eqv_ptH _ _ Heq). exact Tz.
Qed.
Lemma gcc_out_valley : Valley tol (map rNP out).
Proof.
  destruct (res_eqv tol Ts Hs out tol_pos Hrob Hhas Hout) as [Heq _].
  exact (Valley_eqv tol _ _ (rows_eqv_rNP _ _ Heq) (gcc_np_z_valley tol Ts Hs tol_pos Hrob Hhas)).
Qed.

(* the demand columns read off the pocket-free GCC satisfy every data hypothesis of the row theorem *)
Theorem gcc_demand_columns :
  let HA := map rNP out in
  let Hh := flip tol (sep_cold HA) in let Hc := flip tol (sep_hot HA) in
  let rh := fst (fst (Utility.pinch_idx tol HA)) in
  gapped tol (map rT out) = true
  /\ List.length Hh = List.length HA /\ List.length Hc = List.length HA
  /\ noninc Hh = true /\ noninc (rev Hc) = true
  /\ (forall i, 0 <= nth i Hh 0 /\ 0 <= nth i Hc 0 /\ nth i Hh 0 + nth i Hc 0 == nth i HA 0)
  /\ (rh < List.length HA)%nat /\ Qabs (nth rh HA 0) < tol /\ (forall j, (j <= rh)%nat -> nth j Hc 0 <= tol).
Proof. cbv zeta. split; [exact gcc_out_gapped|exact (valley_demand_columns _ gcc_out_valley)]. Qed.

(* ROW-BY-ROW FEASIBILITY WITH THE GCC AS ONLY DATA: 0 <= H_ut[i] <= H_net_np[i] in every row of the output table of
   get_GCC_without_pockets, for the duties get_utility_targets assigns to a gridded ladder *)
Theorem gcc_rows_feasible hus cus :
  let T := map rT out in let HA := map rNP out in
  (forall u, In u hus -> gridded_hot tol T u) -> (forall u, In u cus -> gridded_cold tol T u) ->
  let dd := di_duties tol T HA (sep_hot HA) (sep_cold HA) hus cus in
  forall i, (i < List.length out)%nat ->
  0 <= nth i (hut_model T hus cus (fst dd) (snd dd)) 0 /\ nth i (hut_model T hus cus (fst dd) (snd dd)) 0 <= nth i HA 0.
Proof.
  intros T HA Hgh Hgc dd i Hi.
  apply (valley_rows_feasible T HA hus cus gcc_out_gapped); [unfold T, HA; rewrite !map_length; reflexivity|exact gcc_out_valley|exact Hgh|exact Hgc|].
  unfold T. rewrite map_length. exact Hi.
Qed.
End Composed.

(* ---- non-vacuity: the ex2 curve (11 rows, pockets on both sides of its pinch at 180; gcc_np inserts two breakpoints) with a
        two-level ladder on either side whose utilities span whole intervals of the output grid ---- *)
From OP Require Import proofs.PocketsExamples.
Definition ex2_out : list row :=
  [mkR 300 40 40; mkR 280 80 40; mkR 260 60 40; mkR 240 90 40; mkR 220 40 40; mkR 200 70 40; mkR (1340 # 7) 40 40;
   mkR 180 0 0; mkR 172 20 20; mkR 160 50 20; mkR 140 20 20; mkR 120 60 20; mkR 100 20 20].
Definition ex2_hus : list ustar := [mkUS 280 300 20; mkUS 200 220 20].
Definition ex2_cus : list ustar := [mkUS 140 160 20; mkUS 100 120 20].
Lemma ex2_gcc : gcc_np tol ex2_T ex2_H = Ok ex2_out.
Proof. vm_compute. reflexivity. Qed.
Lemma In_exact (x : Q) (l : list Q) :
  existsb (fun y => Z.eqb (Qnum x) (Qnum y) && Pos.eqb (Qden x) (Qden y)) l = true -> In x l.
Proof.
  intro H. apply existsb_exists in H. destruct H as [y [Hy E]]. apply andb_true_iff in E. destruct E as [E1 E2].
  apply Z.eqb_eq in E1. apply Pos.eqb_eq in E2. destruct x, y. simpl in *. subst. exact Hy.
Qed.
Example ex2_composed :
  let T := map rT ex2_out in let HA := map rNP ex2_out in
  di_duties tol T HA (sep_hot HA) (sep_cold HA) ex2_hus ex2_cus = ([0; 40], [20; 0])
  /\ forall i, (i < 13)%nat ->
     0 <= nth i (hut_model T ex2_hus ex2_cus [0; 40] [20; 0]) 0 /\ nth i (hut_model T ex2_hus ex2_cus [0; 40] [20; 0]) 0 <= nth i HA 0.
Proof.
  cbv zeta.
  assert (Ed : di_duties tol (map rT ex2_out) (map rNP ex2_out) (sep_hot (map rNP ex2_out)) (sep_cold (map rNP ex2_out)) ex2_hus ex2_cus = ([0; 40], [20; 0]))
    by (vm_compute; reflexivity).
  split; [exact Ed|].
  pose proof (gcc_rows_feasible ex2_T ex2_H ex2_out (proj1 ex2_robust) (proj1 (proj2 ex2_robust)) ex2_gcc ex2_hus ex2_cus) as G.
  cbv zeta in G. rewrite Ed in G. cbn [fst snd] in G. apply G.
  - intros u [<-|[<-|[]]]; unfold gridded_hot, iso; cbn [u_tmins u_tmaxs u_span];
      (split; [split; [vm_compute; reflexivity|split; [vm_compute; reflexivity|vm_compute; reflexivity]]|
       split; [apply In_exact; vm_compute; reflexivity|split; [apply In_exact; vm_compute; reflexivity|vm_compute; reflexivity]]]).
  - intros u [<-|[<-|[]]]; unfold gridded_cold, iso; cbn [u_tmins u_tmaxs u_span];
      (split; [split; [vm_compute; reflexivity|split; [vm_compute; reflexivity|vm_compute; reflexivity]]|
       split; [apply In_exact; vm_compute; reflexivity|split; [apply In_exact; vm_compute; reflexivity|vm_compute; reflexivity]]]).
Qed.
