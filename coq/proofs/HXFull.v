(* Whole-function theorems about HX_Eff_R / HX_NTU_R (gen/Scalar.v): dispatch, round trips in both directions
   including the multi-pass conversion and the c = 0 branch, range, monotonicity, c = 0 value. *)
From Coq Require Import Reals Lra Psatz Bool List.
From OP Require Import gen.Consts gen.HxDispatch gen.Scalar model.HX proofs.HXBase proofs.HXBranch proofs.HXShell.
Import ListNotations.
Local Open Scope R_scope.

(* ------------------------------------------------------------------ dispatch *)
Lemma dispatch_ok : dispatch_ok_b = true.
Proof. vm_compute. reflexivity. Qed.

Lemma in_hx_all a : In a hx_all.
Proof. destruct a; simpl; tauto. Qed.
Lemma in_lform_all f : In f lform_all.
Proof. destruct f; simpl; tauto. Qed.

Lemma dispatch_total a f :
  Some (eff_dispatch (mk_label a f)) = eff_own a /\ Some (ntu_dispatch (mk_label a f)) = ntu_own a.
Proof.
  pose proof dispatch_ok as H. unfold dispatch_ok_b in H. rewrite forallb_forall in H.
  specialize (H a (in_hx_all a)). rewrite forallb_forall in H. specialize (H f (in_lform_all f)).
  apply andb_true_iff in H. destruct H as [H1 H2]. unfold opt_branch_eqb in *.
  destruct (eff_own a) as [b|]; [|discriminate]. destruct (ntu_own a) as [b'|]; [|discriminate].
  apply internal_eff_branch_dec_bl in H1. apply internal_ntu_branch_dec_bl in H2. subst. split; reflexivity.
Qed.

(* ------------------------------------------------------------------ shape of the two functions *)
Definition eff_br (b : eff_branch) (n c : R) : R :=
  match b with EB_CF => eff_CF n c | EB_PF => eff_PF n c | EB_CrFUU => eff_CrFUU n c | EB_CrFMM => eff_CrFMM n c
  | EB_CrFMUmax => eff_CrFMUmax n c | EB_CrFMUmin => eff_CrFMUmin n c | EB_ShellTube => eff_ShellTube n c
  | EB_CondEvap => eff_CondEvap n c | EB_else => 0 end.

Definition effP (E : R -> R -> R) (N c P : R) : R :=
  let n := N / P in
  let eff := if (Rgtb n 0 && Rgeb c 0) then (if Reqb c 0 then 1 - exp (- n) else E n c) else 0 in
  if Rgtb P 1 then MultiPassEff_R eff c P else eff.

Lemma HX_Eff_R_shape l N c P : eff_dispatch l <> EB_else -> HX_Eff_R l N c P = effP (eff_br (eff_dispatch l)) N c P.
Proof.
  intro H. unfold HX_Eff_R. set (inner := HX_Eff_F (fun _ _ _ _ => 0)). unfold HX_Eff_F, effP, eff_dispatch, HX_Eff_pre in *.
  destruct (HX_Eff_sel (label_norm l)); try reflexivity. contradiction.
Qed.

Definition ntu_br (b : ntu_branch) (e c : R) : R :=
  match b with NB_CF => ntu_CF e c | NB_PF => ntu_PF e c | NB_CrFMUmax => ntu_CrFMUmax e c | NB_CrFMUmin => ntu_CrFMUmin e c
  | NB_ShellTube => ntu_ShellTube e c | NB_CondEvap => ntu_CondEvap e c | NB_else => ntu_else e c | _ => 0 end.
Definition ntu_closed (b : ntu_branch) : bool := match b with NB_CrFUU | NB_CrFMM => false | _ => true end.

Definition ntuP (T : R -> R -> R) (e c P : R) : R :=
  let e' := if Rgtb P 1 then MultiPassNTU_R e c P else e in
  (if (Rgtb e' 0 && Rltb e' 1) then (if Reqb c 0 then - ln (1 - e') else T e' c) else 0) * P.

Lemma HX_NTU_R_shape l e c P : ntu_closed (ntu_dispatch l) = true -> HX_NTU_R l e c P = Some (ntuP (ntu_br (ntu_dispatch l)) e c P).
Proof.
  intro H. unfold HX_NTU_R, ntuP, ntu_dispatch, HX_NTU_pre in *.
  destruct (Rgtb P 1); cbv zeta;
    match goal with |- context [Rgtb ?x 0 && Rltb ?x 1] => destruct (Rgtb x 0 && Rltb x 1) end;
    destruct (Reqb c 0); destruct (HX_NTU_sel (label_norm l)); try discriminate H; reflexivity.
Qed.

(* ------------------------------------------------------------------ generic round trip *)
Section Generic.
Variables (E T : R -> R -> R).
Hypothesis Erange : forall n c, 0 < n -> 0 < c <= 1 -> 0 < E n c < 1.
Hypothesis TE : forall n c, 0 < n -> 0 < c <= 1 -> T (E n c) c = n.

Definition eff0 (n c : R) : R := if Reqb c 0 then 1 - exp (- n) else E n c.
Definition inv0 (e c : R) : R := if Reqb c 0 then - ln (1 - e) else T e c.

Lemma eff0_range n c : 0 < n -> 0 <= c <= 1 -> 0 < eff0 n c < 1.
Proof.
  intros Hn Hc. unfold eff0. destruct (Req_dec c 0) as [E0|NE].
  - rewrite (proj2 (Reqb_true c 0) E0). apply (eff_c0_range n Hn).
  - rewrite (proj2 (Reqb_false c 0) NE). apply Erange; lra.
Qed.
Lemma inv0_eff0 n c : 0 < n -> 0 <= c <= 1 -> inv0 (eff0 n c) c = n.
Proof.
  intros Hn Hc. unfold eff0, inv0. destruct (Req_dec c 0) as [E0|NE].
  - rewrite (proj2 (Reqb_true c 0) E0). apply (ntu_eff_c0 n).
  - rewrite (proj2 (Reqb_false c 0) NE). apply TE; lra.
Qed.

Lemma effP_eq N c P : 0 < N -> 0 <= c <= 1 -> 0 < P ->
  effP E N c P = if Rgtb P 1 then MultiPassEff_R (eff0 (N / P) c) c P else eff0 (N / P) c.
Proof.
  intros HN Hc HP. unfold effP, eff0. assert (Hn : 0 < N / P) by (apply Rdiv_lt_0_compat; lra).
  rewrite (proj2 (Rgtb_true _ 0)) by lra. rewrite (proj2 (Rgeb_true c 0)) by lra. reflexivity.
Qed.

Lemma effP_range N c P : 0 < N -> 0 <= c <= 1 -> 0 < P -> 0 < effP E N c P < 1.
Proof.
  intros HN Hc HP. rewrite effP_eq by assumption. assert (Hn : 0 < N / P) by (apply Rdiv_lt_0_compat; lra).
  pose proof (eff0_range _ c Hn Hc). destruct (Rgtb P 1); [apply MultiPassEff_range|]; assumption.
Qed.

Theorem generic_roundtrip N c P : 0 < N -> 0 <= c <= 1 -> 0 < P -> ntuP T (effP E N c P) c P = N.
Proof.
  intros HN Hc HP. rewrite effP_eq by assumption. assert (Hn : 0 < N / P) by (apply Rdiv_lt_0_compat; lra).
  pose proof (eff0_range _ c Hn Hc) as Hr. pose proof (inv0_eff0 _ c Hn Hc) as Hi. unfold ntuP.
  assert (K : (if Rgtb P 1 then MultiPassNTU_R (if Rgtb P 1 then MultiPassEff_R (eff0 (N / P) c) c P else eff0 (N / P) c) c P
               else (if Rgtb P 1 then MultiPassEff_R (eff0 (N / P) c) c P else eff0 (N / P) c)) = eff0 (N / P) c).
  { destruct (Rgtb P 1); [apply multipass_inverse; assumption|reflexivity]. }
  rewrite K. cbv zeta. rewrite (proj2 (Rgtb_true _ 0)) by lra. rewrite (proj2 (Rltb_true _ 1)) by lra. simpl.
  fold (inv0 (eff0 (N / P) c) c). rewrite Hi. field. lra.
Qed.

(* the other direction, on the reachable range *)
Variable Rch : R -> R -> Prop.    (* Rch c e : the single-pass effectiveness e is reachable at ratio c *)
Hypothesis ET : forall e c, 0 < c <= 1 -> 0 < e < 1 -> Rch c e -> E (T e c) c = e /\ 0 < T e c.

Definition single (e c P : R) : R := if Rgtb P 1 then MultiPassNTU_R e c P else e.

Theorem generic_roundtrip' e c P : 0 < e < 1 -> 0 <= c <= 1 -> 0 < P -> (c <> 0 -> Rch c (single e c P)) ->
  effP E (ntuP T e c P) c P = e.
Proof.
  intros He Hc HP HR. unfold ntuP. fold (single e c P) in *.
  assert (Hs : 0 < single e c P < 1). { unfold single. destruct (Rgtb P 1); [apply MultiPassNTU_range|]; assumption. }
  cbv zeta. rewrite (proj2 (Rgtb_true _ 0)) by lra. rewrite (proj2 (Rltb_true _ 1)) by lra. simpl.
  fold (inv0 (single e c P) c).
  assert (Hi : eff0 (inv0 (single e c P) c) c = single e c P /\ 0 < inv0 (single e c P) c).
  { unfold eff0, inv0. destruct (Req_dec c 0) as [E0|NE].
    - rewrite (proj2 (Reqb_true c 0) E0). apply (eff_ntu_c0 _ Hs).
    - rewrite (proj2 (Reqb_false c 0) NE). apply ET; [lra|exact Hs|exact (HR NE)]. }
  destruct Hi as [Hi Hpos]. set (n0 := inv0 (single e c P) c) in *.
  unfold effP. replace (n0 * P / P) with n0 by (field; lra). cbv zeta.
  rewrite (proj2 (Rgtb_true _ 0)) by lra. rewrite (proj2 (Rgeb_true c 0)) by lra. simpl. fold (eff0 n0 c). rewrite Hi.
  unfold single. destruct (Rgtb P 1); [apply multipass_inverse'; assumption|reflexivity].
Qed.

(* monotone in NTU *)
Hypothesis Emono : forall n1 n2 c, 0 < n1 -> n1 < n2 -> 0 < c <= 1 -> E n1 c < E n2 c.
Theorem generic_monotone N1 N2 c P : 0 < N1 -> N1 < N2 -> 0 <= c <= 1 -> 0 < P -> effP E N1 c P < effP E N2 c P.
Proof.
  intros H1 H12 Hc HP. rewrite !effP_eq by (try assumption; lra).
  assert (Hn1 : 0 < N1 / P) by (apply Rdiv_lt_0_compat; lra).
  assert (Hn12 : N1 / P < N2 / P) by (unfold Rdiv; apply Rmult_lt_compat_r; [apply Rinv_0_lt_compat|]; lra).
  assert (Hn2 : 0 < N2 / P) by lra.
  assert (H0 : eff0 (N1 / P) c < eff0 (N2 / P) c).
  { unfold eff0. destruct (Req_dec c 0) as [E0|NE].
    - rewrite (proj2 (Reqb_true c 0) E0). apply (eff_c0_mono _ _ Hn12).
    - rewrite (proj2 (Reqb_false c 0) NE). apply Emono; lra. }
  pose proof (eff0_range _ c Hn1 Hc). pose proof (eff0_range _ c Hn2 Hc).
  destruct (Rgtb P 1); [apply MultiPassEff_mono; lra|exact H0].
Qed.
End Generic.

(* ------------------------------------------------------------------ value at c = 0, for ANY label (even an unknown text) *)
Theorem HX_Eff_c0 l N P : 0 < N -> 1 <= P -> HX_Eff_R l N 0 P = 1 - exp (- N).
Proof.
  intros HN HP1. assert (HP : 0 < P) by lra. unfold HX_Eff_R. set (inner := HX_Eff_F (fun _ _ _ _ => 0)). unfold HX_Eff_F.
  assert (Hn : 0 < N / P) by (apply Rdiv_lt_0_compat; lra). cbv zeta.
  rewrite (proj2 (Rgtb_true _ 0)) by lra. rewrite (proj2 (Rgeb_true 0 0)) by lra. rewrite (proj2 (Reqb_true 0 0)) by reflexivity. simpl.
  destruct (Rgtb P 1) eqn:G.
  2:{ apply Rgtb_false in G. replace P with 1 by lra. replace (N / 1) with N by field. reflexivity. }
  unfold MultiPassEff_R. rewrite (proj2 (Rneqb_true 0 1)) by lra.
  replace ((1 - (1 - exp (- (N / P))) * 0) / (1 - (1 - exp (- (N / P))))) with (exp (N / P)).
  2:{ rewrite exp_Ropp. field. pose proof (exp_pos (N / P)). lra. }
  unfold Rpower. rewrite ln_exp. replace (P * (N / P)) with N by (field; lra). rewrite exp_Ropp. field. pose proof (exp_pos N). lra.
Qed.

(* ------------------------------------------------------------------ instances *)
(* reachable single-pass effectiveness of each closed-form arrangement at ratio c (0 < c <= 1) *)
Definition reach (a : hx) (c e : R) : Prop :=
  match a with
  | hx_CF => True
  | hx_PF => e < 1 / (1 + c)
  | hx_CrFMUmax => e < 1 - exp (- (1 / c))
  | hx_CrFMUmin => e < (1 - exp (- c)) / c
  | hx_ShellTube => e < 2 / (1 + c + st_d c)
  | hx_CondEvap => True
  | _ => False
  end.

Lemma closed_dispatch a f : closed_form a = true ->
  eff_dispatch (mk_label a f) <> EB_else /\ ntu_closed (ntu_dispatch (mk_label a f)) = true /\
  Some (eff_dispatch (mk_label a f)) = eff_own a /\ Some (ntu_dispatch (mk_label a f)) = ntu_own a.
Proof.
  intro H. destruct (dispatch_total a f) as [H1 H2]. repeat split; try assumption.
  - intro K. rewrite K in H1. destruct a; discriminate.
  - destruct a; try discriminate H; simpl in H2; injection H2 as ->; reflexivity.
Qed.

Ltac branch_cases a f H :=
  destruct (closed_dispatch a f H) as (Hne & Hcl & Hde & Hdn);
  rewrite (HX_NTU_R_shape _ _ _ _ Hcl), (HX_Eff_R_shape _ _ _ _ Hne);
  destruct a; try discriminate H; simpl in Hde, Hdn; injection Hde as ->; injection Hdn as ->; simpl eff_br; simpl ntu_br.

Theorem HX_ntu_eff a f N c P : closed_form a = true -> 0 < N -> 0 <= c <= 1 -> 0 < P ->
  HX_NTU_R (mk_label a f) (HX_Eff_R (mk_label a f) N c P) c P = Some N.
Proof.
  intros H HN Hc HP. branch_cases a f H; f_equal.
  - apply generic_roundtrip; try assumption; intros. apply eff_CF_range; lra. apply ntu_eff_CF; lra.
  - apply generic_roundtrip; try assumption; intros. split; [apply eff_PF_range|apply eff_PF_lt1]; lra. apply ntu_eff_PF; lra.
  - apply generic_roundtrip; try assumption; intros. split; [apply eff_CrFMUmax_range|apply eff_CrFMUmax_lt1]; lra. apply ntu_eff_CrFMUmax; lra.
  - apply generic_roundtrip; try assumption; intros. split; [apply eff_CrFMUmin_range|apply eff_CrFMUmin_lt1]; lra. apply ntu_eff_CrFMUmin; lra.
  - apply generic_roundtrip; try assumption; intros. split; [apply eff_ShellTube_range|apply eff_ShellTube_lt1]; lra. apply ntu_eff_ShellTube; lra.
  - apply generic_roundtrip; try assumption; intros. apply (eff_c0_range n); lra. apply (ntu_eff_c0 n).
Qed.

Theorem HX_eff_ntu a f e c P n : closed_form a = true -> 0 < e < 1 -> 0 <= c <= 1 -> 0 < P ->
  (c <> 0 -> reach a c (single e c P)) ->
  HX_NTU_R (mk_label a f) e c P = Some n -> HX_Eff_R (mk_label a f) n c P = e.
Proof.
  intros H He Hc HP HR. branch_cases a f H; intro K; injection K as <-.
  - apply (generic_roundtrip' _ _ (fun _ _ => True)); try assumption; auto. intros. apply eff_ntu_CF; lra.
  - apply (generic_roundtrip' _ _ (fun c e => e < 1 / (1 + c))); try assumption. intros. apply eff_ntu_PF; lra.
  - apply (generic_roundtrip' _ _ (fun c e => e < 1 - exp (- (1 / c)))); try assumption. intros. apply eff_ntu_CrFMUmax; lra.
  - apply (generic_roundtrip' _ _ (fun c e => e < (1 - exp (- c)) / c)); try assumption. intros. apply eff_ntu_CrFMUmin; lra.
  - apply (generic_roundtrip' _ _ (fun c e => e < 2 / (1 + c + st_d c))); try assumption. intros. apply eff_ntu_ShellTube; lra.
  - apply (generic_roundtrip' _ _ (fun _ _ => True)); try assumption; auto. intros. apply (eff_ntu_c0 e0); lra.
Qed.

Theorem HX_eff_range a f N c P : closed_form a = true -> 0 < N -> 0 <= c <= 1 -> 0 < P -> 0 < HX_Eff_R (mk_label a f) N c P < 1.
Proof.
  intros H HN Hc HP. destruct (closed_dispatch a f H) as (Hne & _ & He & _). rewrite (HX_Eff_R_shape _ _ _ _ Hne).
  destruct a; try discriminate H; simpl in He; injection He as ->; simpl eff_br; apply effP_range; try assumption; intros.
  - apply eff_CF_range; lra.
  - split; [apply eff_PF_range|apply eff_PF_lt1]; lra.
  - split; [apply eff_CrFMUmax_range|apply eff_CrFMUmax_lt1]; lra.
  - split; [apply eff_CrFMUmin_range|apply eff_CrFMUmin_lt1]; lra.
  - split; [apply eff_ShellTube_range|apply eff_ShellTube_lt1]; lra.
  - apply (eff_c0_range n); lra.
Qed.

(* non-positive NTU gives effectiveness 0 (single pass), whatever the label *)
Theorem HX_eff_nonpos l N c : N <= 0 -> HX_Eff_R l N c 1 = 0.
Proof.
  intro HN. unfold HX_Eff_R. set (inner := HX_Eff_F (fun _ _ _ _ => 0)). unfold HX_Eff_F. cbv zeta.
  replace (N / 1) with N by field. rewrite (proj2 (Rgtb_false N 0) HN). simpl.
  rewrite (proj2 (Rgtb_false 1 1)) by lra. reflexivity.
Qed.

Theorem HX_eff_monotone a f N1 N2 c P : closed_form a = true -> 0 < N1 -> N1 < N2 -> 0 <= c <= 1 -> 0 < P ->
  HX_Eff_R (mk_label a f) N1 c P < HX_Eff_R (mk_label a f) N2 c P.
Proof.
  intros H H1 H12 Hc HP. destruct (closed_dispatch a f H) as (Hne & _ & He & _). rewrite !(HX_Eff_R_shape _ _ _ _ Hne).
  destruct a; try discriminate H; simpl in He; injection He as ->; simpl eff_br; apply generic_monotone; try assumption; intros.
  - apply eff_CF_range; lra.
  - apply eff_CF_mono; lra.
  - split; [apply eff_PF_range|apply eff_PF_lt1]; lra.
  - apply eff_PF_mono; lra.
  - split; [apply eff_CrFMUmax_range|apply eff_CrFMUmax_lt1]; lra.
  - apply eff_CrFMUmax_mono; lra.
  - split; [apply eff_CrFMUmin_range|apply eff_CrFMUmin_lt1]; lra.
  - apply eff_CrFMUmin_mono; lra.
  - split; [apply eff_ShellTube_range|apply eff_ShellTube_lt1]; lra.
  - apply eff_ShellTube_mono; lra.
  - apply (eff_c0_range n); lra.
  - apply (eff_c0_mono n1 n2); lra.
Qed.

(* the reachable range is what the effectiveness function attains *)
Lemma reach_attained N c : 0 < N -> 0 < c <= 1 ->
  reach hx_PF c (eff_PF N c) /\ reach hx_CrFMUmax c (eff_CrFMUmax N c) /\ reach hx_CrFMUmin c (eff_CrFMUmin N c)
  /\ reach hx_ShellTube c (eff_ShellTube N c).
Proof.
  intros HN Hc. simpl. repeat split.
  apply eff_PF_range; lra. apply eff_CrFMUmax_range; lra. apply eff_CrFMUmin_range; lra. apply eff_ShellTube_range; lra.
Qed.

Lemma multipass_inverse_both e c P : 0 < e < 1 -> 0 <= c <= 1 -> 0 < P ->
  MultiPassNTU_R (MultiPassEff_R e c P) c P = e /\ MultiPassEff_R (MultiPassNTU_R e c P) c P = e.
Proof. intros He Hc HP. split; [apply multipass_inverse|apply multipass_inverse']; assumption. Qed.

Lemma eff_CondEvap_cf0 N c : 0 < N -> eff_CondEvap N c = eff_CF N 0.
Proof.
  intros HN. rewrite eff_CF_lt1_form by lra. unfold eff_CondEvap.
  replace (N * (1 - 0)) with N by ring. rewrite Rmult_0_l, Rminus_0_r. unfold Rdiv. rewrite Rinv_1, Rmult_1_r. reflexivity.
Qed.
