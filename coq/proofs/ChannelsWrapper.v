(* C16: the PinchProblem load/target/export state machine refines "service of the last loaded problem under the project name of
   that load, computed once per load"; get_value case analysis.  The service is abstract (Section variable). *)
From Coq Require Import String List Arith Lia Bool.
From OP Require Import gen.Consts gen.ChannelsGen model.Base model.Channels.
Import ListNotations.
Local Open Scope nat_scope.

Section WrapperFacts.
  Variables input name output : Type.
  Variable service : input -> option name -> output.
  Notation wstate := (wstate input name output).
  Notation step := (wstep input name output service).
  Notation run := (wrun input name output step).
  Notation target := (w_target input name output service).

  (* data and project name of the most recent load *)
  Fixpoint last_loaded (ops : list (wop input name)) (acc : option (input * option name)) : option (input * option name) :=
    match ops with [] => acc | WLoad p nm :: r => last_loaded r (Some (p, nm)) | _ :: r => last_loaded r acc end.
  Fixpoint loads (ops : list (wop input name)) : nat :=
    match ops with [] => 0 | WLoad _ _ :: r => S (loads r) | _ :: r => loads r end.
  Definition reach (s : wstate) (ops : list (wop input name)) : wstate := snd (run s ops).
  Definition cur (s : wstate) : option (input * option name) :=
    match w_data _ _ _ s with Some p => Some (p, w_name _ _ _ s) | None => None end.

  (* a cached result is always the service's answer for the currently loaded problem and name, and its stamp is a past call *)
  Definition WInv (s : wstate) : Prop :=
    match w_res _ _ _ s with
    | Some (st, o) => exists p, w_data _ _ _ s = Some p /\ o = service p (w_name _ _ _ s) /\ 1 <= st <= w_calls _ _ _ s
    | None => True
    end.

  Lemma init_inv : WInv w_init.
  Proof. exact I. Qed.

  Lemma target_inv : forall s, WInv s -> WInv (fst (target s)).
  Proof.
    intros [dat nm res calls dir] H. unfold w_target, WInv in *. simpl in *.
    destruct dat as [p|]; [|exact H]. destruct res as [[st o]|]; [exact H|].
    simpl. exists p. repeat split; lia.
  Qed.

  Lemma step_inv : forall s o, WInv s -> WInv (fst (step s o)).
  Proof.
    intros s [p nm| |d] H; simpl.
    - exact I.
    - apply target_inv; exact H.
    - destruct (negb (d || w_dir _ _ _ s)); simpl.
      + exact H.
      + apply (target_inv (mkW (w_data _ _ _ s) (w_name _ _ _ s) (w_res _ _ _ s) (w_calls _ _ _ s) (d || w_dir _ _ _ s))). exact H.
  Qed.

  Lemma run_cons : forall s o r, run s (o :: r) = (snd (step s o) :: fst (run (fst (step s o)) r), snd (run (fst (step s o)) r)).
  Proof. intros. simpl. destruct (step s o) as [s1 ob]. simpl. destruct (run s1 r) as [obs s2]. reflexivity. Qed.

  Lemma reach_app : forall a s b, reach s (a ++ b) = reach (reach s a) b.
  Proof.
    induction a as [|o a IH]; intros s b; [reflexivity|].
    unfold reach in *. rewrite <- app_comm_cons, !run_cons. simpl. apply IH.
  Qed.

  Lemma reach_inv : forall ops s, WInv s -> WInv (reach s ops).
  Proof.
    induction ops as [|o r IH]; intros s H; [exact H|].
    unfold reach. rewrite run_cons. simpl. apply IH, step_inv, H.
  Qed.

  (* the observation made at position |pre| of a run is the one the step function makes in the state reached by pre *)
  Lemma obs_at : forall pre s o post,
    nth_error (fst (run s (pre ++ o :: post))) (List.length pre) = Some (snd (step (reach s pre) o)).
  Proof.
    induction pre as [|x pre IH]; intros s o post.
    - simpl app. rewrite run_cons. reflexivity.
    - rewrite <- app_comm_cons, run_cons. simpl. rewrite IH. unfold reach. rewrite run_cons. reflexivity.
  Qed.

  Lemma target_cur : forall s, cur (fst (target s)) = cur s.
  Proof. intros [dat nm res calls dir]. unfold w_target, cur. simpl. destruct dat; [destruct res as [[? ?]|]|]; reflexivity. Qed.

  Lemma step_cur : forall s o,
    cur (fst (step s o)) = match o with WLoad p nm => Some (p, nm) | _ => cur s end.
  Proof.
    intros s [p nm| |d]; simpl; [reflexivity|apply target_cur|].
    destruct (negb (d || w_dir _ _ _ s)); simpl; [reflexivity|].
    apply (target_cur (mkW (w_data _ _ _ s) (w_name _ _ _ s) (w_res _ _ _ s) (w_calls _ _ _ s) (d || w_dir _ _ _ s))).
  Qed.

  Lemma reach_cur : forall ops s, cur (reach s ops) = last_loaded ops (cur s).
  Proof.
    induction ops as [|o r IH]; intros s; [reflexivity|].
    unfold reach. rewrite run_cons. simpl snd. fold (reach (fst (step s o)) r). rewrite IH, step_cur.
    destruct o; reflexivity.
  Qed.

  Lemma target_obs : forall s, WInv s ->
    match cur s with
    | Some (p, nm) => exists st, snd (target s) = ObsResult st (service p nm) /\ 1 <= st
    | None => snd (target s) = ObsErr WNoInput
    end.
  Proof.
    intros [dat nm res calls dir] H. unfold w_target, cur, WInv in *. simpl in *.
    destruct dat as [p|]; [|reflexivity]. destruct res as [[st o]|].
    - destruct H as [p' [E [Eo Hst]]]. inversion E; subst. exists st. split; [reflexivity|lia].
    - exists (S calls). split; [reflexivity|lia].
  Qed.

  (* MAIN: in any run from the initial state, a target() shows the service result of the last loaded problem under the project name of
     that load (RuntimeError when nothing was loaded), and an export with a directory exports exactly that *)
  Theorem wrapper_refines : forall pre post,
    (forall p nm, last_loaded pre None = Some (p, nm) ->
       exists st, nth_error (fst (run w_init (pre ++ WTarget :: post))) (List.length pre) = Some (ObsResult st (service p nm)))
    /\ (last_loaded pre None = None ->
       nth_error (fst (run w_init (pre ++ WTarget :: post))) (List.length pre) = Some (ObsErr WNoInput))
    /\ (forall d p nm, last_loaded pre None = Some (p, nm) -> d || w_dir _ _ _ (reach w_init pre) = true ->
       exists st, nth_error (fst (run w_init (pre ++ WExport d :: post))) (List.length pre) = Some (ObsResult st (service p nm)))
    /\ (forall d, d || w_dir _ _ _ (reach w_init pre) = false ->
       nth_error (fst (run w_init (pre ++ WExport d :: post))) (List.length pre) = Some (ObsErr WNoDir)).
  Proof.
    intros pre post.
    pose proof (reach_inv pre w_init init_inv) as Hinv.
    pose proof (reach_cur pre w_init) as Hd. change (cur w_init) with (@None (input * option name)) in Hd.
    repeat split.
    - intros p nm Hl. rewrite obs_at. simpl. pose proof (target_obs _ Hinv) as T. rewrite Hd, Hl in T.
      destruct T as [st [E _]]. exists st. rewrite E. reflexivity.
    - intros Hl. rewrite obs_at. simpl. pose proof (target_obs _ Hinv) as T. rewrite Hd, Hl in T. rewrite T. reflexivity.
    - intros d p nm Hl Hdir. rewrite obs_at. simpl. rewrite Hdir. simpl.
      set (s1 := mkW _ _ _ _ _).
      assert (H1 : WInv s1) by exact Hinv.
      assert (C1 : cur s1 = cur (reach w_init pre)) by reflexivity.
      pose proof (target_obs _ H1) as T. rewrite C1, Hd, Hl in T.
      destruct T as [st [E _]]. exists st. rewrite E. reflexivity.
    - intros d Hdir. rewrite obs_at. simpl. rewrite Hdir. reflexivity.
  Qed.

  (* the cache: while nothing is loaded in between, repeated targeting returns the same object (same stamp) and calls nothing *)
  Theorem target_is_cached : forall s st o, w_res _ _ _ s = Some (st, o) -> w_data _ _ _ s <> None ->
    step s WTarget = (s, ObsResult st o).
  Proof.
    intros s st o R D. simpl. unfold w_target. destruct (w_data _ _ _ s); [|congruence]. rewrite R. reflexivity.
  Qed.

  Theorem second_target_same_object : forall s, WInv s -> w_data _ _ _ s <> None ->
    let '(s1, ob1) := step s WTarget in
    let '(s2, ob2) := step s1 WTarget in
    ob1 = ob2 /\ s2 = s1 /\ w_calls _ _ _ s1 <= S (w_calls _ _ _ s).
  Proof.
    intros [dat nm res calls dir] H D. simpl in *. unfold w_target. simpl.
    destruct dat as [p|]; [|congruence]. destruct res as [[st o]|]; simpl; repeat split; lia.
  Qed.

  Theorem load_resets_cache : forall s p nm,
    w_res _ _ _ (fst (step s (WLoad p nm))) = None /\ w_calls _ _ _ (fst (step s (WLoad p nm))) = w_calls _ _ _ s
    /\ w_name _ _ _ (fst (step s (WLoad p nm))) = nm.
  Proof. intros. repeat split; reflexivity. Qed.

  (* a result computed after a load is a NEW object: its stamp exceeds every stamp handed out before; it is computed under the name of THIS load *)
  Theorem target_after_load_is_fresh : forall s p nm,
    snd (step (fst (step s (WLoad p nm))) WTarget) = ObsResult (S (w_calls _ _ _ s)) (service p nm).
  Proof. intros. reflexivity. Qed.

  (* pending s = 1 when the next target() would call the service *)
  Definition pending (s : wstate) : nat :=
    match w_data _ _ _ s, w_res _ _ _ s with Some _, None => 1 | _, _ => 0 end.

  Lemma step_calls_bound : forall s o,
    w_calls _ _ _ (fst (step s o)) + pending (fst (step s o)) <= w_calls _ _ _ s + pending s + match o with WLoad _ _ => 1 | _ => 0 end.
  Proof.
    intros [dat nm res calls dir] [p nm'| |d]; simpl.
    - unfold pending; simpl. destruct dat; destruct res; lia.
    - unfold w_target, pending; simpl. destruct dat; [destruct res as [[? ?]|]|]; simpl; lia.
    - destruct (negb (d || dir)); simpl.
      + unfold pending; simpl. lia.
      + unfold w_target, pending; simpl. destruct dat; [destruct res as [[? ?]|]|]; simpl; lia.
  Qed.

  Lemma reach_calls_bound : forall ops s, w_calls _ _ _ (reach s ops) + pending (reach s ops) <= w_calls _ _ _ s + pending s + loads ops.
  Proof.
    induction ops as [|o r IH]; intros s; [simpl; unfold reach; simpl; lia|].
    unfold reach. rewrite run_cons. simpl snd. fold (reach (fst (step s o)) r).
    pose proof (IH (fst (step s o))) as H1. pose proof (step_calls_bound s o) as H2.
    destruct o; simpl loads; lia.
  Qed.

  (* the service is called at most once per load, whatever the sequence *)
  Theorem calls_le_loads : forall ops, w_calls _ _ _ (reach w_init ops) <= loads ops.
  Proof. intros ops. pose proof (reach_calls_bound ops w_init) as H. unfold pending in H at 2. simpl in H. lia. Qed.
End WrapperFacts.

(* the behaviour before c560ce5 (load kept the cache): the second problem's target shows the first problem's result *)
Example wrapper_refines_prefix_refuted :
  fst (wrun nat nat (nat * nat) (wstep_prefix nat nat (nat * nat) nservice) w_init [WLoad 0 (Some 1); WTarget; WLoad 1 (Some 2); WTarget])
  = [ObsLoaded; ObsResult 1 (0, 1); ObsLoaded; ObsResult 1 (0, 1)].
Proof. reflexivity. Qed.
(* the behaviour before 29d391b (a source without file name kept the earlier project name): problem 1, loaded as a validated model, is
   analysed under the project name of the file loaded before it *)
Example wrapper_refines_prename_refuted :
  fst (wrun nat nat (nat * nat) (wstep_prename nat nat (nat * nat) nservice) w_init [WLoad 0 (Some 1); WTarget; WLoad 1 None; WTarget])
  = [ObsLoaded; ObsResult 1 (0, 1); ObsLoaded; ObsResult 2 (1, 1)].
Proof. reflexivity. Qed.
(* ... and the repaired machine on such sequences *)
Example wrapper_refines_witness :
  fst (wrun nat nat (nat * nat) (wstep nat nat (nat * nat) nservice) w_init
         [WLoad 0 (Some 1); WTarget; WTarget; WLoad 1 None; WTarget; WExport true])
  = [ObsLoaded; ObsResult 1 (0, 1); ObsResult 1 (0, 1); ObsLoaded; ObsResult 2 (1, 0); ObsResult 2 (1, 0)].
Proof. reflexivity. Qed.

(* get_value: floats pass through, dictionaries and value-with-unit objects yield their value, a dict without the key is a
   KeyError, everything else (ints included) a TypeError *)
Theorem get_value_cases : forall v,
  match v with
  | PFloat x => get_value v = Ok (Some x)
  | PDict true x => get_value v = Ok x
  | PDict false _ => get_value v = Err EKey
  | PVU x => get_value v = Ok x
  | POther => get_value v = Err EType
  end.
Proof. intros [x|[|] x|x|]; reflexivity. Qed.

(* wrapping a number as a value-with-unit object or dict does not change what the pipeline reads *)
Theorem get_value_wrapping_invariant : forall x,
  get_value (PVU (Some x)) = get_value (PFloat x) /\ get_value (PDict true (Some x)) = get_value (PFloat x).
Proof. intros x. split; reflexivity. Qed.
