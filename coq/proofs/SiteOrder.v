(* C12, zone order and utility order at site level: the total-process record is a sum over the zones' records
   (model/Site.v: `qsum (map f zones)` for the three targets, `sum_lists` utility by utility) and the total-site targets
   come from the cascade of the utility pseudo-streams (`site_hnet_ut`).  Both are invariant under permutation:
   the sums return the SAME reduced rationals, the site cascade the identical column. *)
From OP Require Import gen.Consts model.Base model.Stream model.Cascade model.CascadeE2E model.Site
  proofs.BaseFacts proofs.InvarianceModel.
From Coq Require Import Lqa Lia Permutation.
Local Open Scope Q_scope.
Local Arguments Qred : simpl never.

(* ---------------------------------------------------------------- scalar sums *)
Lemma qsum_red l : Qred (qsum l) = qsum l.
Proof. destruct l as [|x l]; cbn [qsum fold_right]; [reflexivity|apply Qred_idem]. Qed.
Lemma qsum_perm_eq l l' : Permutation l l' -> qsum l == qsum l'.
Proof.
  intro P. induction P as [|x l l' P IH|x y l|l l' l'' P1 IH1 P2 IH2]; cbn [qsum fold_right].
  - reflexivity.
  - fold (qsum l) (qsum l'). rewrite !Qred_correct, IH. reflexivity.
  - fold (qsum l). rewrite !Qred_correct. ring.
  - rewrite IH1. exact IH2.
Qed.
Theorem qsum_perm l l' : Permutation l l' -> qsum l = qsum l'.
Proof. intro P. apply red_eq; [apply qsum_red|apply qsum_red|apply qsum_perm_eq, P]. Qed.
(* a target of the total-process record: sum over the zones of that target *)
Theorem zone_sum_perm (f : rec -> Q) zones zones' : Permutation zones zones' -> qsum (map f zones) = qsum (map f zones').
Proof. intro P. apply qsum_perm, Permutation_map, P. Qed.

(* ---------------------------------------------------------------- utility-by-utility sums *)
Definition zipadd (a b : list Q) : list Q := map (fun p => Qred (fst p + snd p)) (combine a b).
Definition eql (a b : list Q) : Prop := Forall2 Qeq a b.
Lemma eql_refl a : eql a a. Proof. induction a; constructor; [reflexivity|assumption]. Qed.
Lemma eql_sym a b : eql a b -> eql b a. Proof. induction 1; constructor; [symmetry|]; assumption. Qed.
Lemma eql_trans a b c : eql a b -> eql b c -> eql a c.
Proof.
  intro H. revert c. induction H as [|x y a b E H IH]; intros c H2; inversion H2 as [|y' z b' c' E2 H3]; subst; constructor.
  - rewrite E. exact E2.
  - apply IH, H3.
Qed.
Lemma zipadd_proper a : forall b b', eql b b' -> eql (zipadd a b) (zipadd a b').
Proof.
  induction a as [|x a IH]; intros b b' H; [constructor|]. destruct H as [|y y' b b' E H]; [constructor|].
  unfold zipadd in *. cbn [combine map fst snd]. constructor; [rewrite !Qred_correct, E; reflexivity|apply IH, H].
Qed.
Lemma zipadd_comm a : forall b, eql (zipadd a b) (zipadd b a).
Proof.
  induction a as [|x a IH]; intro b; [destruct b; constructor|]. destruct b as [|y b]; [constructor|].
  unfold zipadd in *. cbn [combine map fst snd]. constructor; [rewrite !Qred_correct; ring|apply IH].
Qed.
Lemma zipadd_swap a : forall b c, eql (zipadd a (zipadd b c)) (zipadd b (zipadd a c)).
Proof.
  induction a as [|x a IH]; intros b c; [destruct b; constructor|]. destruct b as [|y b]; [constructor|]. destruct c as [|z c]; [constructor|].
  unfold zipadd in *. cbn [combine map fst snd]. constructor; [rewrite !Qred_correct; ring|apply IH].
Qed.
Lemma sum_lists_cons l r : r <> [] -> sum_lists (l :: r) = zipadd l (sum_lists r).
Proof. destruct r; [congruence|reflexivity]. Qed.

Lemma sum_lists_perm_eq ls ls' : Permutation ls ls' -> eql (sum_lists ls) (sum_lists ls').
Proof.
  intro P. induction P as [|x l l' P IH|x y l|l l' l'' P1 IH1 P2 IH2].
  - constructor.
  - destruct l as [|a l].
    + apply Permutation_nil in P. subst l'. apply eql_refl.
    + destruct l' as [|a' l']; [apply Permutation_sym, Permutation_nil in P; discriminate|].
      rewrite !sum_lists_cons by discriminate. apply zipadd_proper, IH.
  - destruct l as [|a l].
    + cbn [sum_lists]. apply zipadd_comm.
    + rewrite (sum_lists_cons y (x :: a :: l)), (sum_lists_cons x (y :: a :: l)), (sum_lists_cons x (a :: l)), (sum_lists_cons y (a :: l)) by discriminate.
      apply zipadd_swap.
  - eapply eql_trans; eassumption.
Qed.

(* with two or more lists every cell is a reduced fraction, with one list nothing is permuted: the result is identical *)
Lemma eql_red_eq a b : eql a b -> Forall (fun x => Qred x = x) a -> Forall (fun x => Qred x = x) b -> a = b.
Proof.
  intro H. induction H as [|x y a b E H IH]; intros Fa Fb; [reflexivity|]. inversion Fa; inversion Fb; subst. f_equal; [apply red_eq; assumption|auto].
Qed.
Lemma zipadd_red a b : Forall (fun x => Qred x = x) (zipadd a b).
Proof. unfold zipadd. apply Forall_forall. intros x Hx. apply in_map_iff in Hx. destruct Hx as [p [E _]]. subst. apply Qred_idem. Qed.
Theorem sum_lists_perm ls ls' : Permutation ls ls' -> sum_lists ls = sum_lists ls'.
Proof.
  intro P. pose proof (sum_lists_perm_eq _ _ P) as E.
  destruct ls as [|a [|b ls]].
  - apply Permutation_nil in P. subst. reflexivity.
  - apply Permutation_length_1_inv in P. subst. reflexivity.
  - pose proof (Permutation_length P) as Len. destruct ls' as [|a' [|b' ls']]; try discriminate.
    apply eql_red_eq; [exact E| |]; rewrite sum_lists_cons by discriminate; apply zipadd_red.
Qed.
(* hot- and cold-utility duties of the total-process record, utility by utility *)
Theorem zone_utility_sums_perm zones zones' : Permutation zones zones' ->
  sum_lists (map r_hu zones) = sum_lists (map r_hu zones') /\ sum_lists (map r_cu zones) = sum_lists (map r_cu zones').
Proof. intro P. split; apply sum_lists_perm, Permutation_map, P. Qed.

(* the whole C09 predicate (the verdict computed on the reported records) does not depend on the order of the zones *)
Theorem c09_b_zone_order eps slack xs zones zones' di tz ts : Permutation zones zones' ->
  c09_b eps slack xs zones di tz ts = c09_b eps slack xs zones' di tz ts.
Proof.
  intro P. unfold c09_b. destruct (zone_utility_sums_perm _ _ P) as [A B]. rewrite A, B.
  rewrite (zone_sum_perm r_qh _ _ P), (zone_sum_perm r_qc _ _ P), (zone_sum_perm r_qr _ _ P). reflexivity.
Qed.

(* ---------------------------------------------------------------- site utility cascade *)
Theorem site_hnet_ut_perm w hu hu' cu cu' g : Permutation hu hu' -> Permutation cu cu' ->
  site_hnet_ut w hu cu g = site_hnet_ut w hu' cu' g.
Proof. intros Ph Pc. unfold site_hnet_ut. rewrite (pta_perm w hu hu' cu cu' g Ph Pc). reflexivity. Qed.
Theorem site_targets_perm w hu hu' cu cu' g : Permutation hu hu' -> Permutation cu cu' ->
  site_Qh w hu cu g = site_Qh w hu' cu' g /\ site_Qc w hu cu g = site_Qc w hu' cu' g.
Proof. intros Ph Pc. unfold site_Qh, site_Qc. rewrite (site_hnet_ut_perm w hu hu' cu cu' g Ph Pc). split; reflexivity. Qed.
(* with the site grid built from the pseudo-streams' own end points (any order) *)
Theorem site_targets_perm_grid w hu hu' cu cu' extra extra' :
  Permutation hu hu' -> Permutation cu cu' -> Permutation extra extra' ->
  site_hnet_ut w hu cu (grid_of (endpoints (hu ++ cu ++ extra))) = site_hnet_ut w hu' cu' (grid_of (endpoints (hu' ++ cu' ++ extra'))).
Proof.
  intros Ph Pc Pe. rewrite (grid_of_perm (endpoints (hu ++ cu ++ extra)) (endpoints (hu' ++ cu' ++ extra'))).
  - apply site_hnet_ut_perm; assumption.
  - apply endpoints_perm. repeat apply Permutation_app; assumption.
Qed.
