(* Theorems about model/RDP.v (Ramer-Douglas-Peucker as written in stream_linearisation._rdp). *)
From OP Require Import gen.Consts gen.CurvesConsts model.Base model.RDP proofs.BaseFacts.
From Coq Require Import Lqa Lia.
Local Open Scope Q_scope.

(* ------------------------------------------------------------------ small facts *)
Lemma sq_nonneg x : 0 <= sq x.
Proof. unfold sq. rewrite rmul_eq. nra. Qed.
Lemma len2_nonneg a b : 0 <= len2 a b.
Proof. unfold len2. rewrite radd_eq. pose proof (sq_nonneg (rsub (fst b) (fst a))). pose proof (sq_nonneg (rsub (snd b) (snd a))). lra. Qed.
Lemma bound_nonneg eps a b : 0 <= rmul (sq eps) (len2 a b).
Proof. rewrite rmul_eq. pose proof (sq_nonneg eps). pose proof (len2_nonneg a b). nra. Qed.

Lemma subseq_refl {A} (l : list A) : subseq l l.
Proof. induction l; constructor; auto. Qed.
Lemma subseq_app {A} (k1 l1 k2 l2 : list A) : subseq k1 l1 -> subseq k2 l2 -> subseq (k1 ++ k2) (l1 ++ l2).
Proof.
  induction 1; simpl; intros H2.
  - induction l; simpl; [exact H2|constructor; exact IHl].
  - constructor; auto.
  - constructor; auto.
Qed.
Lemma subseq_nil_l {A} (l : list A) : subseq [] l. Proof. constructor. Qed.
Lemma subseq_trans {A} (a b c : list A) : subseq a b -> subseq b c -> subseq a c.
Proof.
  intros H1 H2. revert a H1. induction H2; intros a H1.
  - inversion H1; subst. constructor.
  - inversion H1; subst; [constructor | constructor; auto | apply ss_skip; auto].
  - apply ss_skip. auto.
Qed.
Lemma subseq_In {A} (k l : list A) x : subseq k l -> In x k -> In x l.
Proof. induction 1; simpl; intros Hin; [contradiction| destruct Hin; auto | auto]. Qed.
Lemma subseq_length {A} (k l : list A) : subseq k l -> (List.length k <= List.length l)%nat.
Proof. induction 1; simpl; lia. Qed.

(* ------------------------------------------------------------------ the scan loop *)
(* the remembered split always recomposes the whole interior *)
Lemma scan_split a b : forall l revpre d2 best,
  (match best with Some (rp, p, r) => rev rp ++ p :: r = rev revpre ++ l | None => True end) ->
  match snd (scan a b revpre d2 best l) with Some (rp, p, r) => rev rp ++ p :: r = rev revpre ++ l | None => True end.
Proof.
  induction l as [|p r IH]; intros revpre d2 best H; simpl.
  - exact H.
  - destruct (qltb d2 (sq (cross a b p))).
    + specialize (IH (p :: revpre) (sq (cross a b p)) (Some (revpre, p, r))). simpl in IH.
      rewrite <- app_assoc in IH. simpl in IH. apply IH. reflexivity.
    + specialize (IH (p :: revpre) d2 best). simpl in IH. rewrite <- app_assoc in IH. simpl in IH. apply IH.
      destruct best as [[[rp q] r']|]; [exact H|exact I].
Qed.
(* the running maximum dominates its start value and every scanned point *)
Lemma scan_max a b : forall l revpre d2 best,
  d2 <= fst (scan a b revpre d2 best l) /\ Forall (fun p => sq (cross a b p) <= fst (scan a b revpre d2 best l)) l.
Proof.
  induction l as [|p r IH]; intros revpre d2 best; simpl.
  - split; [apply Qle_refl|constructor].
  - destruct (qltb d2 (sq (cross a b p))) eqn:E.
    + apply qltb_true in E.
      destruct (IH (p :: revpre) (sq (cross a b p)) (Some (revpre, p, r))) as [H1 H2].
      split; [lra|]. constructor; [exact H1|exact H2].
    + apply qltb_false in E.
      destruct (IH (p :: revpre) d2 best) as [H1 H2].
      split; [exact H1|]. constructor; [lra|exact H2].
Qed.
(* no split remembered: the maximum never moved *)
Lemma scan_none a b : forall l revpre d2,
  snd (scan a b revpre d2 None l) = None -> fst (scan a b revpre d2 None l) == d2.
Proof.
  induction l as [|p r IH]; intros revpre d2; simpl; intros H.
  - reflexivity.
  - destruct (qltb d2 (sq (cross a b p))) eqn:E.
    + exfalso. pose proof (scan_split a b r (p :: revpre) (sq (cross a b p)) (Some (revpre, p, r))) as S.
      simpl in S. rewrite H in S. (* snd = None but started from Some: impossible, show by a separate lemma *)
      clear S. revert H. generalize (p :: revpre) (sq (cross a b p)) (revpre, p, r). clear.
      induction r as [|q r IH]; intros rp d s; simpl; [discriminate|].
      destruct (qltb d (sq (cross a b q))); apply IH.
    + apply IH. exact H.
Qed.

(* ------------------------------------------------------------------ Covered *)
Lemma covered_keep eps a b inner : Covered eps a b inner inner.
Proof.
  unfold Covered. revert a. induction inner as [|p r IH]; intros a.
  - apply cov_drop. constructor.
  - apply (cov_split (within eps) a b [] p r [] r); [apply cov_drop; constructor|apply IH].
Qed.

Theorem rdp_inner_covered fuel : forall eps a b inner k,
  rdp_inner fuel eps a b inner = Some k -> Covered eps a b inner k.
Proof.
  unfold Covered. induction fuel as [|f IH]; intros eps a b inner k; simpl; [discriminate|].
  destruct (is_zero (len2 a b)).
  - intros E. inversion E; subst. apply (covered_keep eps).
  - destruct (scan a b [] 0 None inner) as [d2 best] eqn:Sc.
    destruct (qltb (rmul (sq eps) (len2 a b)) d2) eqn:T.
    + destruct best as [[[rp p] r]|]; [|discriminate].
      destruct (rdp_inner f eps a p (rev rp)) as [kl|] eqn:E1; [|discriminate].
      destruct (rdp_inner f eps p b r) as [kr|] eqn:E2; [|discriminate].
      intros E. inversion E; subst.
      pose proof (scan_split a b inner [] 0 None I) as Sp. rewrite Sc in Sp. simpl in Sp.
      rewrite <- Sp. apply cov_split; apply IH; assumption.
    + intros E. inversion E; subst. apply cov_drop.
      apply qltb_false in T.
      destruct (scan_max a b inner [] 0 None) as [_ M]. rewrite Sc in M. simpl in M.
      eapply Forall_impl; [|exact M]. intros p Hp. cbv beta in Hp. unfold within. eapply Qle_trans; [exact Hp|exact T].
Qed.

(* fuel: one more than the number of interior points is always enough *)
Theorem rdp_inner_fuel fuel : forall eps a b inner,
  (List.length inner < fuel)%nat -> rdp_inner fuel eps a b inner <> None.
Proof.
  induction fuel as [|f IH]; intros eps a b inner L; [lia|]. simpl.
  destruct (is_zero (len2 a b)); [discriminate|].
  destruct (scan a b [] 0 None inner) as [d2 best] eqn:Sc.
  destruct (qltb (rmul (sq eps) (len2 a b)) d2) eqn:T; [|discriminate].
  destruct best as [[[rp p] r]|].
  - pose proof (scan_split a b inner [] 0 None I) as Sp. rewrite Sc in Sp. simpl in Sp.
    assert (Len : (List.length (rev rp) + S (List.length r) = List.length inner)%nat).
    { rewrite <- Sp. rewrite app_length. simpl. reflexivity. }
    destruct (rdp_inner f eps a p (rev rp)) eqn:E1.
    + destruct (rdp_inner f eps p b r) eqn:E2; [discriminate|].
      exfalso. apply (IH eps p b r); [lia|exact E2].
    + exfalso. apply (IH eps a p (rev rp)); [lia|exact E1].
  - exfalso. apply qltb_true in T.
    pose proof (scan_none a b inner [] 0) as N. rewrite Sc in N. simpl in N. specialize (N eq_refl).
    pose proof (bound_nonneg eps a b). lra.
Qed.
(* more fuel never changes the result *)
Theorem rdp_inner_fuel_mono fuel : forall eps a b inner k,
  rdp_inner fuel eps a b inner = Some k -> forall fuel', (fuel <= fuel')%nat -> rdp_inner fuel' eps a b inner = Some k.
Proof.
  induction fuel as [|f IH]; intros eps a b inner k; simpl; [discriminate|].
  intros H fuel' L. destruct fuel' as [|f']; [lia|]. simpl.
  destruct (is_zero (len2 a b)); [exact H|].
  destruct (scan a b [] 0 None inner) as [d2 best].
  destruct (qltb (rmul (sq eps) (len2 a b)) d2); [|exact H].
  destruct best as [[[rp p] r]|]; [|discriminate].
  destruct (rdp_inner f eps a p (rev rp)) as [kl|] eqn:E1; [|discriminate].
  destruct (rdp_inner f eps p b r) as [kr|] eqn:E2; [|discriminate].
  rewrite (IH _ _ _ _ _ E1 f' ltac:(lia)), (IH _ _ _ _ _ E2 f' ltac:(lia)). exact H.
Qed.

(* ------------------------------------------------------------------ consequences of Covered *)
Theorem coveredW_subseq W a b inner kept : CoveredW W a b inner kept -> subseq kept inner.
Proof.
  induction 1; [constructor|]. apply subseq_app; [assumption|constructor; assumption].
Qed.

Theorem covered_subseq eps a b inner kept : Covered eps a b inner kept -> subseq kept inner.
Proof. apply coveredW_subseq. Qed.

(* consecutive u v l : u is immediately followed by v in l *)
Definition consecutive {A} (u v : A) (l : list A) : Prop := exists l1 l2, l = l1 ++ u :: v :: l2.
Lemma consecutive_app_l {A} (u v : A) l m : consecutive u v l -> consecutive u v (l ++ m).
Proof. intros [l1 [l2 E]]. exists l1, (l2 ++ m). rewrite E. rewrite <- app_assoc. reflexivity. Qed.
Lemma consecutive_app_r {A} (u v : A) l m : consecutive u v m -> consecutive u v (l ++ m).
Proof. intros [l1 [l2 E]]. exists (l ++ l1), l2. rewrite E. rewrite <- app_assoc. reflexivity. Qed.

(* pointwise reading: every original interior point is kept, or lies within eps of the chord line between two
   CONSECUTIVE points of the simplified polyline a :: kept ++ [b] *)
Theorem coveredW_pointwise W a b inner kept : CoveredW W a b inner kept ->
  forall q, In q inner -> In q kept \/ exists u v, consecutive u v (a :: kept ++ [b]) /\ W u v q.
Proof.
  induction 1 as [a b inner F | a b l p r kl kr H1 IH1 H2 IH2]; intros q Hq.
  - right. exists a, b. split; [exists [], []; reflexivity|]. rewrite Forall_forall in F. apply F. exact Hq.
  - apply in_app_or in Hq. destruct Hq as [Hq|[Hq|Hq]].
    + destruct (IH1 q Hq) as [K|[u [v [C Wq]]]].
      * left. apply in_or_app. left. exact K.
      * right. exists u, v. split; [|exact Wq].
        replace (a :: (kl ++ p :: kr) ++ [b]) with ((a :: kl ++ [p]) ++ (kr ++ [b])).
        -- apply consecutive_app_l. exact C.
        -- simpl. rewrite <- !app_assoc. reflexivity.
    + subst. left. apply in_or_app. right. left. reflexivity.
    + destruct (IH2 q Hq) as [K|[u [v [C Wq]]]].
      * left. apply in_or_app. right. right. exact K.
      * right. exists u, v. split; [|exact Wq].
        replace (a :: (kl ++ p :: kr) ++ [b]) with ((a :: kl) ++ (p :: kr ++ [b])).
        -- apply consecutive_app_r. exact C.
        -- simpl. rewrite <- !app_assoc. reflexivity.
Qed.

Theorem covered_pointwise eps a b inner kept : Covered eps a b inner kept ->
  forall q, In q inner -> In q kept \/ exists u v, consecutive u v (a :: kept ++ [b]) /\ within eps u v q.
Proof. apply coveredW_pointwise. Qed.

(* ------------------------------------------------------------------ the top-level function *)
Lemma split_last_spec : forall l a, let '(i, z) := split_last a l in a :: l = i ++ [z].
Proof.
  induction l as [|b r IH]; intros a; simpl; [reflexivity|].
  specialize (IH b). destruct (split_last b r) as [i z]. simpl. rewrite IH. reflexivity.
Qed.
Lemma split_last_length : forall l a, List.length (fst (split_last a l)) = List.length l.
Proof.
  induction l as [|b r IH]; intros a; simpl; [reflexivity|].
  specialize (IH b). destruct (split_last b r) as [i z]. simpl in *. lia.
Qed.

(* _rdp never runs out of fuel: it returns a point list for every non-empty curve *)
Theorem rdp_total eps curve : curve <> [] -> exists out, rdp_model eps curve = Ok out.
Proof.
  destruct curve as [|a [|b0 r]]; intros H; [contradiction| eexists; reflexivity|].
  unfold rdp_model. destruct (split_last b0 r) as [inner b] eqn:Sc.
  destruct (rdp_inner (S (List.length inner)) eps a b inner) eqn:E; [eexists; reflexivity|].
  exfalso. apply (rdp_inner_fuel (S (List.length inner)) eps a b inner); [lia|exact E].
Qed.

(* shape of the result for curves with at least two points: first and last point kept, interior Covered *)
Theorem rdp_shape eps a b0 r out : rdp_model eps (a :: b0 :: r) = Ok out ->
  exists inner b kept, a :: b0 :: r = a :: inner ++ [b] /\ out = a :: kept ++ [b] /\ Covered eps a b inner kept.
Proof.
  unfold rdp_model. pose proof (split_last_spec r b0) as Sp. destruct (split_last b0 r) as [inner b] eqn:Sc.
  destruct (rdp_inner (S (List.length inner)) eps a b inner) as [k|] eqn:E; [|discriminate].
  intros H. inversion H; subst. exists inner, b, k. split; [rewrite Sp; reflexivity|]. split; [reflexivity|].
  eapply rdp_inner_covered. exact E.
Qed.

Theorem rdp_ends eps a b0 r out : rdp_model eps (a :: b0 :: r) = Ok out ->
  hd a out = a /\ last out a = last (b0 :: r) a /\ (2 <= List.length out)%nat.
Proof.
  intros H. destruct (rdp_shape _ _ _ _ _ H) as [inner [b [kept [E1 [E2 _]]]]]. subst out.
  split; [reflexivity|]. split.
  - change (last (a :: kept ++ [b]) a = last (b0 :: r) a).
    assert (L1 : last (a :: kept ++ [b]) a = b).
    { change (a :: kept ++ [b]) with ((a :: kept) ++ [b]). apply last_last. }
    assert (L2 : last (a :: b0 :: r) a = b).
    { rewrite E1. change (a :: inner ++ [b]) with ((a :: inner) ++ [b]). apply last_last. }
    rewrite L1. simpl in L2. simpl. rewrite <- L2. reflexivity.
  - simpl. rewrite app_length. simpl. lia.
Qed.

Theorem rdp_subseq_in_order eps curve out : rdp_model eps curve = Ok out -> subseq out curve.
Proof.
  destruct curve as [|a [|b0 r]]; simpl.
  - discriminate.
  - intros H. inversion H. apply subseq_refl.
  - intros H. destruct (rdp_shape eps a b0 r out H) as [inner [b [kept [E1 [E2 C]]]]].
    rewrite E1, E2. constructor. apply subseq_app; [eapply covered_subseq; exact C|apply subseq_refl].
Qed.

(* every original point is kept or within eps (perpendicular distance to the chord line, compared as squares:
   cross^2 <= eps^2 * |chord|^2) of a chord between two consecutive kept points *)
Theorem rdp_within eps curve out : rdp_model eps curve = Ok out ->
  forall q, In q curve -> In q out \/ exists u v, consecutive u v out /\ within eps u v q.
Proof.
  destruct curve as [|a [|b0 r]].
  - discriminate.
  - simpl. intros H q [Hq|[]]. inversion H; subst. left. left. reflexivity.
  - intros H q Hq. destruct (rdp_shape eps a b0 r out H) as [inner [b [kept [E1 [E2 C]]]]].
    rewrite E1 in Hq. subst out. destruct Hq as [Hq|Hq].
    + left. left. exact Hq.
    + apply in_app_or in Hq. destruct Hq as [Hq|[Hq|[]]].
      * destruct (covered_pointwise _ _ _ _ _ C q Hq) as [K|K]; [|right; exact K].
        left. right. apply in_or_app. left. exact K.
      * left. right. apply in_or_app. right. left. exact Hq.
Qed.

(* ------------------------------------------------------------------ doubly monotone curves: distance to the SEGMENT *)
(* plain-arithmetic forms of the reduced operations *)
Lemma cross_eq a b p : cross a b p == (fst b - fst a) * (snd p - snd a) - (snd b - snd a) * (fst p - fst a).
Proof. unfold cross. rewrite rsub_eq, !rmul_eq, !rsub_eq. reflexivity. Qed.
Lemma len2_eq a b : len2 a b == (fst b - fst a) * (fst b - fst a) + (snd b - snd a) * (snd b - snd a).
Proof. unfold len2, sq. rewrite radd_eq, !rmul_eq, !rsub_eq. reflexivity. Qed.
Lemma dot_eq a b p : dot a b p == (fst p - fst a) * (fst b - fst a) + (snd p - snd a) * (snd b - snd a).
Proof. unfold dot. rewrite radd_eq, !rmul_eq, !rsub_eq. reflexivity. Qed.

(* p lies in the coordinate box spanned by a and b *)
Definition inbox (a b p : pt) : Prop :=
  ((fst a <= fst p <= fst b) \/ (fst b <= fst p <= fst a)) /\ ((snd a <= snd p <= snd b) \/ (snd b <= snd p <= snd a)).

(* the foot of the perpendicular from a boxed point falls inside the chord (any orientation of the chord) *)
Lemma dot_in_range a b p : inbox a b p -> 0 <= dot a b p <= len2 a b.
Proof.
  intros [Hx Hy]. rewrite dot_eq, len2_eq. destruct a as [ax ay], b as [bx byy], p as [px py]. simpl in *.
  destruct Hx as [[H1 H2]|[H1 H2]], Hy as [[H3 H4]|[H3 H4]]; split; nra.
Qed.

(* monotone lists: every element between the first and the last lies between them *)
Lemma mono_b_tail le a l : mono_b le (a :: l) = true -> mono_b le l = true.
Proof. destruct l as [|b r]; simpl; [reflexivity|]. intros H. apply andb_true_iff in H. tauto. Qed.
Lemma mono_b_app_r le : forall l1 l2, mono_b le (l1 ++ l2) = true -> mono_b le l2 = true.
Proof. induction l1 as [|a r IH]; intros l2 H; [exact H|]. apply IH. eapply mono_b_tail. exact H. Qed.
Lemma mono_b_app_l le : forall l1 l2, mono_b le (l1 ++ l2) = true -> mono_b le l1 = true.
Proof.
  induction l1 as [|a r IH]; intros l2 H; [reflexivity|].
  destruct r as [|b r']; [reflexivity|]. simpl in *. apply andb_true_iff in H. destruct H as [H1 H2].
  apply andb_true_iff. split; [exact H1|]. apply (IH l2). exact H2.
Qed.
Section MonoBounds.
  Variable le : Q -> Q -> bool.
  Hypothesis le_refl : forall x, le x x = true.
  Hypothesis le_trans : forall x y z, le x y = true -> le y z = true -> le x z = true.
  Lemma mono_b_first : forall l a x, mono_b le (a :: l) = true -> In x l -> le a x = true.
  Proof.
    induction l as [|b r IH]; intros a x H Hx; [contradiction|].
    simpl in H. apply andb_true_iff in H. destruct H as [H1 H2]. destruct Hx as [Hx|Hx].
    - subst. exact H1.
    - eapply le_trans; [exact H1|]. apply IH; assumption.
  Qed.
  Lemma mono_b_last : forall l b x, mono_b le (l ++ [b]) = true -> In x l -> le x b = true.
  Proof.
    induction l as [|a r IH]; intros b x H Hx; [contradiction|]. destruct Hx as [Hx|Hx].
    - subst. apply (mono_b_first (r ++ [b]) x b H). apply in_or_app. right. left. reflexivity.
    - apply IH; [|exact Hx]. eapply mono_b_tail. exact H.
  Qed.
End MonoBounds.

Lemma qleb_refl x : qleb x x = true. Proof. apply qleb_true. apply Qle_refl. Qed.
Lemma qleb_trans x y z : qleb x y = true -> qleb y z = true -> qleb x z = true.
Proof. rewrite !qleb_true. intros. lra. Qed.
Lemma qgeb_refl x : qgeb x x = true. Proof. unfold qgeb. apply qleb_refl. Qed.
Lemma qgeb_trans x y z : qgeb x y = true -> qgeb y z = true -> qgeb x z = true.
Proof. unfold qgeb. intros H1 H2. eapply qleb_trans; eassumption. Qed.

Lemma monotone1_between a mid b x : monotone1_b (a :: mid ++ [b]) = true -> In x mid ->
  (a <= x <= b) \/ (b <= x <= a).
Proof.
  unfold monotone1_b. intros H Hx. apply orb_true_iff in H. destruct H as [H|H].
  - left. split.
    + apply qleb_true. apply (mono_b_first qleb qleb_trans (mid ++ [b]) a x H). apply in_or_app. left. exact Hx.
    + apply qleb_true. apply (mono_b_last qleb qleb_trans mid b x); [|exact Hx]. eapply mono_b_tail. exact H.
  - right. split.
    + assert (K : qgeb x b = true).
      { apply (mono_b_last qgeb qgeb_trans mid b x); [|exact Hx]. eapply mono_b_tail. exact H. }
      unfold qgeb in K. apply qleb_true in K. exact K.
    + assert (K : qgeb a x = true).
      { apply (mono_b_first qgeb qgeb_trans (mid ++ [b]) a x H). apply in_or_app. left. exact Hx. }
      unfold qgeb in K. apply qleb_true in K. exact K.
Qed.
Lemma monotone1_prefix l1 l2 : monotone1_b (l1 ++ l2) = true -> monotone1_b l1 = true.
Proof. unfold monotone1_b. intros H. apply orb_true_iff in H. apply orb_true_iff. destruct H as [H|H]; [left|right]; eapply mono_b_app_l; exact H. Qed.
Lemma monotone1_suffix l1 l2 : monotone1_b (l1 ++ l2) = true -> monotone1_b l2 = true.
Proof. unfold monotone1_b. intros H. apply orb_true_iff in H. apply orb_true_iff. destruct H as [H|H]; [left|right]; eapply mono_b_app_r; exact H. Qed.

Lemma monotone2_inbox a mid b p : monotone2_b (a :: mid ++ [b]) = true -> In p mid -> inbox a b p.
Proof.
  unfold monotone2_b. intros H Hp. apply andb_true_iff in H. destruct H as [Hx Hy].
  change (map fst (a :: mid ++ [b])) with (fst a :: map fst (mid ++ [b])) in Hx. rewrite map_app in Hx. simpl in Hx.
  change (map snd (a :: mid ++ [b])) with (snd a :: map snd (mid ++ [b])) in Hy. rewrite map_app in Hy. simpl in Hy.
  split.
  - apply (monotone1_between (fst a) (map fst mid) (fst b) (fst p) Hx). apply in_map. exact Hp.
  - apply (monotone1_between (snd a) (map snd mid) (snd b) (snd p) Hy). apply in_map. exact Hp.
Qed.
Lemma monotone2_prefix l1 l2 : monotone2_b (l1 ++ l2) = true -> monotone2_b l1 = true.
Proof.
  unfold monotone2_b. rewrite !map_app. intros H. apply andb_true_iff in H. destruct H as [Hx Hy].
  apply andb_true_iff. split; eapply monotone1_prefix; eassumption.
Qed.
Lemma monotone2_suffix l1 l2 : monotone2_b (l1 ++ l2) = true -> monotone2_b l2 = true.
Proof.
  unfold monotone2_b. rewrite !map_app. intros H. apply andb_true_iff in H. destruct H as [Hx Hy].
  apply andb_true_iff. split; eapply monotone1_suffix; eassumption.
Qed.

(* for a curve monotone in both coordinates the perpendicular foot of every dropped point falls inside its chord:
   the distance to the chord line IS the distance to the simplified polyline's segment *)
Theorem covered_segment eps a b inner kept :
  Covered eps a b inner kept -> monotone2_b (a :: inner ++ [b]) = true -> CoveredW (within_seg eps) a b inner kept.
Proof.
  unfold Covered. induction 1 as [a b inner F | a b l p r kl kr H1 IH1 H2 IH2]; intros M.
  - apply cov_drop. rewrite Forall_forall in *. intros q Hq. split; [apply F; exact Hq|].
    apply dot_in_range. eapply monotone2_inbox; eassumption.
  - apply cov_split.
    + apply IH1. apply (monotone2_prefix (a :: l ++ [p]) (r ++ [b])).
      replace ((a :: l ++ [p]) ++ r ++ [b]) with (a :: (l ++ p :: r) ++ [b]); [exact M|].
      simpl. rewrite <- !app_assoc. reflexivity.
    + apply IH2. apply (monotone2_suffix (a :: l) (p :: r ++ [b])).
      replace ((a :: l) ++ p :: r ++ [b]) with (a :: (l ++ p :: r) ++ [b]); [exact M|].
      simpl. rewrite <- !app_assoc. reflexivity.
Qed.

Theorem rdp_polyline_within eps a b0 r out :
  rdp_model eps (a :: b0 :: r) = Ok out -> monotone2_b (a :: b0 :: r) = true ->
  exists inner b kept, a :: b0 :: r = a :: inner ++ [b] /\ out = a :: kept ++ [b] /\ CoveredW (within_seg eps) a b inner kept.
Proof.
  intros H M. destruct (rdp_shape _ _ _ _ _ H) as [inner [b [kept [E1 [E2 C]]]]].
  exists inner, b, kept. split; [exact E1|]. split; [exact E2|]. apply covered_segment; [exact C|]. rewrite <- E1. exact M.
Qed.

(* what within_seg means: some point of the segment a-b is within eps of p (squared Euclidean distance) *)
Theorem within_seg_sound eps a b p : within_seg eps a b p -> 0 < len2 a b ->
  exists t, 0 <= t <= 1 /\
    (fst p - (fst a + t * (fst b - fst a))) * (fst p - (fst a + t * (fst b - fst a)))
    + (snd p - (snd a + t * (snd b - snd a))) * (snd p - (snd a + t * (snd b - snd a))) <= eps * eps.
Proof.
  intros [W [D0 D1]] L. unfold within, sq in W. rewrite !rmul_eq in W.
  rewrite cross_eq, len2_eq in W. rewrite dot_eq in D0, D1. rewrite len2_eq in D1, L.
  destruct a as [ax ay], b as [bx byy], p as [px py]. simpl in *.
  set (dx := bx - ax) in *. set (dy := byy - ay) in *. set (u := px - ax) in *. set (v := py - ay) in *.
  set (l2 := dx * dx + dy * dy) in *.
  exists ((u * dx + v * dy) / l2). split.
  - split.
    + apply Qle_shift_div_l; [exact L|]. lra.
    + apply Qle_shift_div_r; [exact L|]. lra.
  - assert (E : (px - (ax + (u * dx + v * dy) / l2 * dx)) * (px - (ax + (u * dx + v * dy) / l2 * dx))
               + (py - (ay + (u * dx + v * dy) / l2 * dy)) * (py - (ay + (u * dx + v * dy) / l2 * dy))
               == (dx * v - dy * u) * (dx * v - dy * u) / l2).
    { unfold u, v, l2, dx, dy. field. intro Z. unfold l2, dx, dy in L. rewrite Z in L. apply (Qlt_irrefl 0). exact L. }
    rewrite E. apply Qle_shift_div_r; [exact L|]. lra.
Qed.

(* ------------------------------------------------------------------ _get_piecewise_breakpoints (SLSQP as an oracle) *)
Local Opaque rdp_model.
Definition Ends (curve out : list pt) : Prop :=
  match curve with
  | a :: _ => hd a out = a /\ last out a = last curve a /\ (2 <= List.length out)%nat
  | [] => True
  end.

Lemma reattach_ends a b0 r pw inner : Ends (a :: b0 :: r) pw -> Ends (a :: b0 :: r) (reattach pw inner).
Proof.
  unfold Ends. intros [H1 [H2 H3]]. destruct pw as [|p0 pr]; [simpl in H3; lia|]. simpl in H1. subst p0.
  unfold reattach. split; [reflexivity|]. split.
  - change (a :: inner ++ [last pr a]) with ((a :: inner) ++ [last pr a]). rewrite last_last.
    rewrite <- H2. destruct pr; [simpl in H3; lia|]. reflexivity.
  - simpl. rewrite app_length. simpl. lia.
Qed.

Lemma bp_loop_ends refine a b0 r hot : forall k eps lastpw out,
  Ends (a :: b0 :: r) lastpw -> bp_loop refine k eps hot (a :: b0 :: r) lastpw = Ok out -> Ends (a :: b0 :: r) out.
Proof.
  induction k as [|k IH]; intros eps lastpw out HE; simpl.
  - intros H. inversion H; subst. exact HE.
  - destruct (rdp_model eps (a :: b0 :: r)) as [pw|e] eqn:R; [|discriminate].
    assert (EP : Ends (a :: b0 :: r) pw) by (exact (rdp_ends _ _ _ _ _ R)).
    destruct (Nat.ltb rdp_refine_threshold (List.length pw)).
    + destruct (refine (a :: b0 :: r) pw (rdiv eps rdp_onesided_div) hot) as [inner maxerr].
      destruct (qltb eps maxerr).
      * apply IH. apply reattach_ends. exact EP.
      * intros H. inversion H; subst. apply reattach_ends. exact EP.
    + intros H. inversion H; subst. exact EP.
Qed.

(* whatever the optimiser returns, the break points start and end at the curve's own end points *)
Theorem breakpoints_ends refine eps hot a b0 r out :
  breakpoints refine eps hot (a :: b0 :: r) = Ok out -> Ends (a :: b0 :: r) out.
Proof.
  unfold breakpoints. change rdp_max_iter with (S (Nat.pred rdp_max_iter)). generalize (Nat.pred rdp_max_iter). intro k0. simpl.
  destruct (rdp_model eps (a :: b0 :: r)) as [pw|e] eqn:R; [|discriminate].
  assert (EP : Ends (a :: b0 :: r) pw) by (exact (rdp_ends _ _ _ _ _ R)).
  destruct (Nat.ltb rdp_refine_threshold (List.length pw)).
  - destruct (refine (a :: b0 :: r) pw (rdiv eps rdp_onesided_div) hot) as [inner maxerr].
    destruct (qltb eps maxerr).
    + apply bp_loop_ends. apply reattach_ends. exact EP.
    + intros H. inversion H; subst. apply reattach_ends. exact EP.
  - intros H. inversion H; subst. exact EP.
Qed.

(* when RDP keeps no more points than the threshold the optimiser is never consulted: the result IS the RDP result *)
Theorem breakpoints_small_is_rdp refine eps hot curve pw :
  rdp_model eps curve = Ok pw -> (List.length pw <= rdp_refine_threshold)%nat -> breakpoints refine eps hot curve = Ok pw.
Proof.
  intros R L. unfold breakpoints. change rdp_max_iter with (S (Nat.pred rdp_max_iter)). generalize (Nat.pred rdp_max_iter). intro k0. simpl. rewrite R.
  assert (E : Nat.ltb rdp_refine_threshold (List.length pw) = false) by (apply Nat.ltb_ge; exact L).
  rewrite E. reflexivity.
Qed.
Theorem piecewise_small_is_rdp refine eps hot curve pw :
  rdp_model eps curve = Ok pw -> (List.length pw <= rdp_refine_threshold)%nat -> piecewise_points refine eps hot curve = Ok pw.
Proof. intros R L. unfold piecewise_points. rewrite (breakpoints_small_is_rdp refine eps hot curve pw R L). reflexivity. Qed.

Local Transparent rdp_model.
(* ------------------------------------------------------------------ refutations (witnesses replayed on the real code) *)
(* D17: hot profile T = 100 h^2 on 8 steps of 1/8, eps = 2: RDP keeps the two end points only (<= 10 points, so no
   refinement runs), and the chord lies 25 K above the original at h = 1/2 although eps/10 = 0.2 *)
Definition d17_curve : list pt :=
  [(1, 100); (7 # 8, 1225 # 16); (3 # 4, 225 # 4); (5 # 8, 625 # 16); (1 # 2, 25); (3 # 8, 225 # 16); (1 # 4, 25 # 4); (1 # 8, 25 # 16); (0, 0)].
Lemma d17_witness :
  monotone2_b d17_curve = true /\ rdp_model 2 d17_curve = Ok [(1, 100); (0, 0)]
  /\ P_onesided true 2 d17_curve [(1, 100); (0, 0)] = false
  /\ chord_excess (1, 100) (0, 0) (1 # 2, 25) = Some 25.
Proof. vm_compute. repeat split; reflexivity. Qed.

Theorem rdp_one_sided_tenth_refuted :
  exists (curve out : list pt) (eps : Q), 0 < eps /\ monotone2_b curve = true
    /\ (forall refine, piecewise_points refine eps true curve = Ok out)
    /\ exists a b p d, consecutive a b out /\ In p curve /\ chord_excess a b p = Some d /\ eps / rdp_onesided_div < d.
Proof.
  exists d17_curve, [(1, 100); (0, 0)], 2. destruct d17_witness as [M [R [_ C]]].
  split; [reflexivity|]. split; [exact M|]. split.
  - intros refine. apply piecewise_small_is_rdp; [exact R|]. vm_compute. lia.
  - exists (1, 100), (0, 0), (1 # 2, 25), 25. split; [exists [], []; reflexivity|]. split.
    + vm_compute. right. right. right. right. left. reflexivity.
    + split; [exact C|]. vm_compute. reflexivity.
Qed.

(* outside the property's domain (a curve that is NOT monotone in y): the code measures the distance to the chord LINE,
   so a removed point can be further than eps from the simplified polyline's SEGMENT *)
Theorem rdp_segment_distance_nonmonotone_refuted :
  exists (curve out : list pt) (eps : Q) (a b p : pt),
    rdp_model eps curve = Ok out /\ monotone2_b curve = false /\ consecutive a b out /\ In p curve
    /\ line_le (sq eps) a b p = true /\ seg_le (sq eps) a b p = false.
Proof.
  exists [(0, 0); (1 # 2, -3); (1, 10)], [(0, 0); (1, 10)], 1, (0, 0), (1, 10), (1 # 2, -3).
  vm_compute. repeat split; try reflexivity.
  - exists [], []. reflexivity.
  - right. left. reflexivity.
Qed.
