(* Tree synthesis from labels (data_preparation._validate_zone_tree_structure, repaired 80225d1): for EVERY list of
   streams the two-pass construction terminates, every labelled stream receives its own generated leaf O<k>, the leaf is
   fresh against all label-created nodes, has no children in the final tree, and the tree is prefix-closed. *)
From OP Require Import gen.Consts gen.ZoneTreeConsts model.Base model.Collection model.ZoneTree
  proofs.CollectionRefine proofs.ZoneTreeStrings.
From Coq Require Import String Ascii Lia Permutation.

Definition comps (s : istream) : path := split_label (slabel s).
(* q is a node created for a label: a non-empty prefix of the component list of some stream of `it` *)
Definition label_path (it : list istream) (q : path) : Prop := exists s, In s it /\ In q (prefixes_ne (comps s)).

(* ---------------------------------------------------------------- stable sort is a permutation *)
Lemma insert_s_perm {A} (le : A -> A -> bool) x l : Permutation (insert_s le x l) (x :: l).
Proof.
  induction l as [|y r IH]; simpl; [apply Permutation_refl|].
  destruct (le y x); [|apply Permutation_refl].
  eapply Permutation_trans; [apply perm_skip, IH|apply perm_swap].
Qed.
Lemma sort_s_fold_perm {A} (le : A -> A -> bool) l : forall acc, Permutation (fold_left (fun a x => insert_s le x a) l acc) (acc ++ l).
Proof.
  induction l as [|x r IH]; intro acc; simpl; [rewrite app_nil_r; apply Permutation_refl|].
  eapply Permutation_trans; [apply IH|].
  eapply Permutation_trans; [apply Permutation_app_tail, insert_s_perm|]. simpl. apply Permutation_middle.
Qed.
Lemma sort_s_perm {A} (le : A -> A -> bool) l : Permutation (sort_s le l) l.
Proof. unfold sort_s. apply (sort_s_fold_perm le l []). Qed.
Lemma sort_s_In {A} (le : A -> A -> bool) l x : In x (sort_s le l) <-> In x l.
Proof. split; apply Permutation_in; [apply sort_s_perm|apply Permutation_sym, sort_s_perm]. Qed.

(* ---------------------------------------------------------------- label nodes *)
Lemma ensure_In L p q : In q (ensure L p) <-> In q L \/ q = p.
Proof.
  unfold ensure. destruct (pmem p L) eqn:E.
  - apply pmem_In in E. split; [auto|]. intros [H|H]; [exact H|subst; exact E].
  - rewrite in_app_iff. simpl. split; intros [H|H]; auto. destruct H as [H|[]]; auto.
Qed.
Lemma ensure_nodup L p : NoDup L -> NoDup (ensure L p).
Proof.
  intro ND. unfold ensure. destruct (pmem p L) eqn:E; [exact ND|].
  assert (F : ~ In p L) by (intro K; apply pmem_In in K; congruence).
  clear E. induction L as [|a r IH]; simpl; [constructor; [intros []|constructor]|].
  inversion ND as [|? ? Ha Hr]; subst. constructor.
  - intro K. apply in_app_or in K. destruct K as [K|[K|[]]]; [contradiction|]. subst. apply F. left. reflexivity.
  - apply IH; [exact Hr|]. intro K. apply F. right. exact K.
Qed.
Lemma fold_ensure_In ps : forall L q, In q (fold_left ensure ps L) <-> In q L \/ In q ps.
Proof.
  induction ps as [|p r IH]; intros L q; simpl; [tauto|]. rewrite IH, ensure_In. intuition.
Qed.
Lemma fold_ensure_nodup ps : forall L, NoDup L -> NoDup (fold_left ensure ps L).
Proof. induction ps as [|p r IH]; intros L ND; simpl; [exact ND|]. apply IH, ensure_nodup, ND. Qed.
Lemma add_label_nodes_In L c q : In q (add_label_nodes L c) <-> In q L \/ In q (prefixes_ne c).
Proof. apply fold_ensure_In. Qed.
Lemma add_label_nodes_nodup L c : NoDup L -> NoDup (add_label_nodes L c).
Proof. apply fold_ensure_nodup. Qed.

Lemma pass_fold_In it : forall L q,
  In q (fold_left (fun L s => add_label_nodes L (split_label (slabel s))) it L) <-> In q L \/ label_path it q.
Proof.
  induction it as [|s r IH]; intros L q; simpl.
  - split; [auto|]. intros [H|[s [[] _]]]. exact H.
  - rewrite IH, add_label_nodes_In. unfold label_path. split.
    + intros [[H|H]|[s' [H1 H2]]]; [left; exact H|right; exists s; split; [left; reflexivity|exact H]|right; exists s'; split; [right; exact H1|exact H2]].
    + intros [H|[s' [[H1|H1] H2]]]; [left; left; exact H|subst; left; right; exact H2|right; exists s'; split; assumption].
Qed.
Lemma pass_fold_nodup it : forall L, NoDup L -> NoDup (fold_left (fun L s => add_label_nodes L (split_label (slabel s))) it L).
Proof. induction it as [|s r IH]; intros L ND; simpl; [exact ND|]. apply IH, add_label_nodes_nodup, ND. Qed.
Lemma pass1_In it q : In q (pass1 it) <-> label_path it q.
Proof. unfold pass1. rewrite pass_fold_In. split; [intros [[]|H]; exact H|auto]. Qed.
Lemma pass1_nodup it : NoDup (pass1 it).
Proof. apply pass_fold_nodup. constructor. Qed.

Lemma label_path_prefix it q q' : label_path it q -> q' <> [] -> is_prefix q' q = true -> label_path it q'.
Proof.
  intros [s [Hs Hq]] Hne Hp. exists s. split; [exact Hs|]. apply prefixes_ne_spec in Hq. destruct Hq as [_ Hq].
  apply prefixes_ne_spec. split; [exact Hne|]. eapply is_prefix_trans; eassumption.
Qed.
Lemma label_path_ne it q : label_path it q -> q <> [].
Proof. intros [s [_ H]]. apply prefixes_ne_spec in H. tauto. Qed.
Lemma label_path_self it s : In s it -> comps s <> [] -> label_path it (comps s).
Proof. intros Hs Hne. exists s. split; [exact Hs|]. apply prefixes_ne_spec. split; [exact Hne|apply is_prefix_refl]. Qed.
Lemma label_path_nosep it q : label_path it q -> Forall nosep q.
Proof.
  intros [s [_ H]]. apply prefixes_ne_spec in H. destruct H as [_ H]. apply is_prefix_spec in H. destruct H as [r H].
  pose proof (split_label_nosep (slabel s)) as F. fold (comps s) in F. rewrite H in F. apply Forall_app in F. tauto.
Qed.

(* ---------------------------------------------------------------- the counter loop *)
Lemma gen_loop_some fuel ks : forall k0 k, gen_loop fuel ks k0 = Some k -> ~ In (oname k) ks.
Proof.
  induction fuel as [|f IH]; intros k0 k E; simpl in E; [discriminate|].
  destruct (mem_str (oname k0) ks) eqn:M; [eapply IH; eauto|].
  inversion E; subst. intro K. apply mem_str_In in K. congruence.
Qed.
Lemma gen_loop_none fuel ks : forall k0, gen_loop fuel ks k0 = None -> forall i, (i < fuel)%nat -> In (oname (k0 + i)) ks.
Proof.
  induction fuel as [|f IH]; intros k0 E i Hi; [lia|]. simpl in E.
  destruct (mem_str (oname k0) ks) eqn:M; [|discriminate].
  destruct i as [|i]; [rewrite Nat.add_0_r; apply mem_str_In, M|].
  replace (k0 + S i)%nat with (S k0 + i)%nat by lia. apply IH; [exact E|lia].
Qed.
(* the loop always ends within |children|+1 tries (pigeonhole on the injective rendering of O<k>) *)
Lemma gen_loop_total ks k0 : exists k, gen_loop (S (List.length ks)) ks k0 = Some k /\ ~ In (oname k) ks.
Proof.
  destruct (gen_loop (S (List.length ks)) ks k0) as [k|] eqn:E.
  - exists k. split; [reflexivity|eapply gen_loop_some; eauto].
  - exfalso. pose proof (gen_loop_none _ _ _ E) as Hall.
    set (cs := map (fun i => oname (k0 + i)) (seq 0 (S (List.length ks)))).
    assert (Hincl : incl cs ks).
    { intros x Hx. unfold cs in Hx. apply in_map_iff in Hx. destruct Hx as [i [Ei Hi]]. subst. apply in_seq in Hi. apply Hall. lia. }
    assert (Hnd : NoDup cs).
    { unfold cs. apply FinFun.Injective_map_NoDup; [|apply seq_NoDup]. intros a b Eab. apply oname_inj in Eab. lia. }
    pose proof (NoDup_incl_length Hnd Hincl) as Hlen. unfold cs in Hlen. rewrite map_length, seq_length in Hlen. lia.
Qed.

(* ---------------------------------------------------------------- invariant of the second pass *)
Record Inv2 (it : list istream) (st : st2) : Prop := mkInv2 {
  i_nd : NoDup (s_paths st);
  i_lab : forall q, label_path it q -> In q (s_paths st);
  i_src : forall q, In q (s_paths st) -> label_path it q \/ In q (map snd (s_asg st));
  i_asg : forall i q, In (i, q) (s_asg st) ->
          In q (s_paths st) /\ ~ label_path it q /\ exists s k, In s it /\ sid s = i /\ q = comps s ++ [oname k];
  i_asgnd : NoDup (map snd (s_asg st)) }.

Lemma nodup_snoc_path (l : list path) k : NoDup l -> ~ In k l -> NoDup (l ++ [k]).
Proof.
  induction l as [|a r IH]; simpl; intros ND F; [constructor; [intros []|constructor]|].
  inversion ND as [|? ? Ha Hr]; subst. constructor.
  - intro K. apply in_app_or in K. destruct K as [K|[K|[]]]; [contradiction|]. subst. apply F. left. reflexivity.
  - apply IH; [exact Hr|]. intro K. apply F. right. exact K.
Qed.

Lemma step2_inv it st s : Inv2 it st -> In s it ->
  exists st' k, step2 st s = Ok st' /\ Inv2 it st' /\ s_asg st' = s_asg st ++ [(sid s, comps s ++ [oname k])].
Proof.
  intros [ND LAB SRC ASG AND] Hs. unfold step2. fold (comps s).
  set (L1 := add_label_nodes (s_paths st) (comps s)).
  destruct (gen_loop_total (kids L1 (comps s)) (S (cnt_get (s_cnt st) (comps s)))) as [k [E F]]. rewrite E.
  eexists. exists k. split; [reflexivity|]. split; [|reflexivity].
  assert (InL1 : forall q, In q L1 <-> In q (s_paths st)).
  { intro q. unfold L1. rewrite add_label_nodes_In. split; [|auto]. intros [H|H]; [exact H|]. apply LAB. exists s. split; assumption. }
  assert (Fq : ~ In (comps s ++ [oname k]) L1) by (intro K; apply F, kids_In, K).
  assert (NL : ~ label_path it (comps s ++ [oname k])) by (intro K; apply Fq, InL1, LAB, K).
  constructor; cbn [s_paths s_asg s_cnt].
  - apply nodup_snoc_path; [apply add_label_nodes_nodup, ND|exact Fq].
  - intros q Hq. apply in_or_app. left. apply InL1, LAB, Hq.
  - intros q Hq. apply in_app_or in Hq. rewrite map_app, in_app_iff. destruct Hq as [Hq|[Hq|[]]].
    + apply InL1, SRC in Hq. tauto.
    + subst. right. right. left. reflexivity.
  - intros i q Hq. apply in_app_or in Hq. destruct Hq as [Hq|[Hq|[]]].
    + destruct (ASG i q Hq) as [A1 [A2 A3]]. split; [apply in_or_app; left; apply InL1, A1|]. split; assumption.
    + inversion Hq; subst. split; [apply in_or_app; right; left; reflexivity|]. split; [exact NL|]. exists s, k. auto.
  - rewrite map_app. simpl. apply nodup_snoc_path; [exact AND|].
    intro K. apply in_map_iff in K. destruct K as [[i q] [Eq Hq]]. simpl in Eq. subst q.
    apply ASG in Hq. destruct Hq as [A1 _]. apply Fq, InL1, A1.
Qed.

Lemma fold_step2_inv it l : forall st, Inv2 it st -> incl l it ->
  exists st', fold_res step2 l st = Ok st' /\ Inv2 it st' /\ map fst (s_asg st') = map fst (s_asg st) ++ map sid l.
Proof.
  induction l as [|s r IH]; intros st I Hin; simpl.
  - exists st. rewrite app_nil_r. auto.
  - destruct (step2_inv it st s I (Hin s (or_introl eq_refl))) as [st1 [k [E [I1 A1]]]]. rewrite E. simpl.
    destruct (IH st1 I1 (fun x Hx => Hin x (or_intror Hx))) as [st2 [E2 [I2 A2]]]. exists st2. split; [exact E2|]. split; [exact I2|].
    rewrite A2, A1, map_app, <- app_assoc. reflexivity.
Qed.

Lemma inv2_init it : Inv2 it (mkSt2 (pass1 it) [] []).
Proof.
  constructor; cbn [s_paths s_asg].
  - apply pass1_nodup.
  - intros q H. apply pass1_In, H.
  - intros q H. left. apply pass1_In, H.
  - intros i q [].
  - constructor.
Qed.

(* ---------------------------------------------------------------- what the finished tree looks like *)
Definition prefix_closed (L : list path) : Prop := forall q q', In q L -> q' <> [] -> is_prefix q' q = true -> In q' L.

Lemma inv2_prefix_closed it st : Inv2 it st -> prefix_closed (s_paths st).
Proof.
  intros [ND LAB SRC ASG AND] q q' Hq Hne Hp. destruct (SRC q Hq) as [H|H].
  - apply LAB. eapply label_path_prefix; eassumption.
  - apply in_map_iff in H. destruct H as [[i q0] [E H]]. simpl in E. subst q0.
    destruct (ASG i q H) as [A1 [A2 [s [k [Hs [_ Eq]]]]]]. subst q.
    apply is_prefix_spec in Hp. destruct Hp as [r Hp].
    destruct r as [|x r] using rev_ind.
    + rewrite app_nil_r in Hp. subst q'. exact A1.
    + clear IHr. rewrite app_assoc in Hp. apply app_inj_tail in Hp. destruct Hp as [Hp _].
      apply LAB. exists s. split; [exact Hs|]. apply prefixes_ne_spec. split; [exact Hne|]. apply is_prefix_spec. exists r. exact Hp.
Qed.

Lemma inv2_no_nil it st : Inv2 it st -> ~ In [] (s_paths st).
Proof.
  intros [ND LAB SRC ASG AND] H. destruct (SRC _ H) as [K|K].
  - apply label_path_ne in K. congruence.
  - apply in_map_iff in K. destruct K as [[i q] [E K]]. simpl in E. subst q.
    destruct (ASG i [] K) as [_ [_ [s [k [_ [_ Eq]]]]]]. destruct (comps s); discriminate.
Qed.

Lemma inv2_nosep it st : Inv2 it st -> Forall (Forall nosep) (s_paths st).
Proof.
  intros [ND LAB SRC ASG AND]. apply Forall_forall. intros q Hq. destruct (SRC q Hq) as [H|H].
  - eapply label_path_nosep, H.
  - apply in_map_iff in H. destruct H as [[i q0] [E H]]. simpl in E. subst q0.
    destruct (ASG i q H) as [_ [_ [s [k [_ [_ Eq]]]]]]. subst q. apply Forall_app. split.
    + apply split_label_nosep.
    + constructor; [apply oname_nosep|constructor].
Qed.

(* a generated leaf never acquires children: nothing in the tree extends it *)
Lemma inv2_leaf it st i q : Inv2 it st -> In (i, q) (s_asg st) -> kids (s_paths st) q = [].
Proof.
  intros I Hq. destruct (kids (s_paths st) q) as [|c r] eqn:E; [reflexivity|exfalso].
  assert (Hc : In (q ++ [c]) (s_paths st)) by (apply kids_In; rewrite E; left; reflexivity).
  destruct I as [ND LAB SRC ASG AND].
  destruct (ASG i q Hq) as [A1 [A2 [s [k [Hs [Es Eq]]]]]].
  destruct (SRC _ Hc) as [H|H].
  - apply A2. eapply label_path_prefix; [exact H| |apply is_prefix_app]. subst q. destruct (comps s); discriminate.
  - apply in_map_iff in H. destruct H as [[i' q'] [E' H]]. simpl in E'. subst q'.
    destruct (ASG _ _ H) as [_ [_ [s' [k' [Hs' [_ Eq']]]]]]. apply app_inj_tail in Eq'. destruct Eq' as [Eq' _].
    apply A2. rewrite Eq'. apply label_path_self; [exact Hs'|]. rewrite <- Eq', Eq. destruct (comps s); discriminate.
Qed.

(* ---------------------------------------------------------------- summary for a whole stream list *)
Lemma synth_order_In ss s : In s (synth_order ss) <-> In s ss /\ labelled s = true.
Proof. unfold synth_order. rewrite sort_s_In, filter_In. tauto. Qed.

Lemma sid_inj ss a b : NoDup (map sid ss) -> In a ss -> In b ss -> sid a = sid b -> a = b.
Proof.
  induction ss as [|x r IH]; simpl; intros ND Ha Hb E; [contradiction|].
  inversion ND as [|? ? Hx Hr]; subst.
  destruct Ha as [Ha|Ha], Hb as [Hb|Hb]; subst; auto.
  - exfalso. apply Hx. rewrite E. apply in_map, Hb.
  - exfalso. apply Hx. rewrite <- E. apply in_map, Ha.
Qed.

Lemma asg_get_some asg i p : asg_get asg i = Some p -> In (i, p) asg.
Proof.
  unfold asg_get. destruct (find (fun e => Nat.eqb i (fst e)) asg) as [[j q]|] eqn:E; [|discriminate].
  intro H. inversion H; subst. apply find_some in E. destruct E as [E1 E2]. simpl in E2. apply Nat.eqb_eq in E2. subst. exact E1.
Qed.
Lemma asg_get_none asg i : asg_get asg i = None -> ~ In i (map fst asg).
Proof.
  unfold asg_get. destruct (find (fun e => Nat.eqb i (fst e)) asg) as [e|] eqn:E; [discriminate|]. intros _ K.
  apply in_map_iff in K. destruct K as [[j q] [Ej K]]. simpl in Ej. subst j.
  pose proof (find_none _ _ E _ K) as F. simpl in F. rewrite Nat.eqb_refl in F. discriminate.
Qed.
Lemma asg_get_in asg i : In i (map fst asg) -> exists p, asg_get asg i = Some p.
Proof. intro H. destruct (asg_get asg i) eqn:E; [eauto|]. apply asg_get_none in E. contradiction. Qed.

Lemma asg_get_unique asg i q : NoDup (map fst asg) -> In (i, q) asg -> asg_get asg i = Some q.
Proof.
  induction asg as [|[j p] r IH]; simpl; intros ND H; [contradiction|]. inversion ND as [|? ? Hj Hr]; subst.
  unfold asg_get. simpl. destruct H as [H|H].
  - inversion H; subst. rewrite Nat.eqb_refl. reflexivity.
  - destruct (Nat.eqb i j) eqn:E.
    + exfalso. apply Nat.eqb_eq in E. subst. apply Hj. apply in_map_iff. exists (j, q). auto.
    + apply (IH Hr H).
Qed.

Record SynthOK (ss : list istream) (L : list path) (asg : list (nat * path)) : Prop := mkSynthOK {
  so_nd : NoDup L;
  so_closed : prefix_closed L;
  so_nonil : ~ In [] L;
  so_nosep : Forall (Forall nosep) L;
  so_src : forall q, In q L -> label_path (synth_order ss) q \/ In q (map snd asg);
  so_lab : forall q, label_path (synth_order ss) q -> In q L;
  (* every labelled stream has a leaf of its own: its label path extended by a generated name *)
  so_leaf : forall s, In s ss -> labelled s = true ->
            exists k, asg_get asg (sid s) = Some (comps s ++ [oname k]) /\ In (comps s ++ [oname k]) L
                      /\ kids L (comps s ++ [oname k]) = [] /\ ~ label_path (synth_order ss) (comps s ++ [oname k]);
  so_unlab : forall s, In s ss -> labelled s = false -> asg_get asg (sid s) = None;
  (* every generated leaf belongs to a labelled stream *)
  so_own : forall q, In q (map snd asg) -> exists s, In s ss /\ labelled s = true /\ asg_get asg (sid s) = Some q;
  so_inj : forall s1 s2 p, In s1 ss -> In s2 ss -> asg_get asg (sid s1) = Some p -> asg_get asg (sid s2) = Some p -> s1 = s2 }.

Theorem synth_front_ok ss : NoDup (map sid ss) -> exists L asg, synth_front ss = Ok (L, asg) /\ SynthOK ss L asg.
Proof.
  intro NDS. unfold synth_front, synth_front_with. set (it := synth_order ss).
  destruct (fold_step2_inv it it _ (inv2_init it) (fun x H => H)) as [st [E [I A]]]. rewrite E. simpl.
  exists (s_paths st), (s_asg st). split; [reflexivity|]. simpl in A.
  assert (Hin : forall s, In s it <-> In s ss /\ labelled s = true) by (intro s; apply synth_order_In).
  assert (Hget : forall s, In s ss -> forall p, asg_get (s_asg st) (sid s) = Some p ->
                 labelled s = true /\ exists k, p = comps s ++ [oname k]).
  { intros s Hs p Hp. apply asg_get_some in Hp. destruct (i_asg _ _ I _ _ Hp) as [_ [_ [s' [k [Hs' [Es' Ep]]]]]].
    apply Hin in Hs'. destruct Hs' as [Hs' Hl]. assert (s' = s) by (eapply sid_inj; eauto). subst s'. split; [exact Hl|eauto]. }
  constructor.
  - apply (i_nd _ _ I).
  - eapply inv2_prefix_closed, I.
  - eapply inv2_no_nil, I.
  - eapply inv2_nosep, I.
  - apply (i_src _ _ I).
  - apply (i_lab _ _ I).
  - intros s Hs Hl. assert (Hi : In (sid s) (map fst (s_asg st))) by (rewrite A; apply in_map, Hin; auto).
    destruct (asg_get_in _ _ Hi) as [p Hp]. destruct (Hget s Hs p Hp) as [_ [k Ek]]. subst p. exists k.
    pose proof (asg_get_some _ _ _ Hp) as Hp'. destruct (i_asg _ _ I _ _ Hp') as [A1 [A2 _]].
    split; [exact Hp|]. split; [exact A1|]. split; [eapply inv2_leaf; eauto|exact A2].
  - intros s Hs Hl. destruct (asg_get (s_asg st) (sid s)) as [p|] eqn:Ep; [|reflexivity].
    destruct (Hget s Hs p Ep) as [K _]. congruence.
  - intros q Hq. apply in_map_iff in Hq. destruct Hq as [[i q'] [Eq Hq]]. simpl in Eq. subst q'.
    destruct (i_asg _ _ I _ _ Hq) as [_ [_ [s [k [Hs [Es Eq]]]]]]. apply Hin in Hs. destruct Hs as [Hs Hl]. exists s. split; [exact Hs|]. split; [exact Hl|].
    subst i. apply asg_get_unique; [|exact Hq]. rewrite A.
    assert (P : Permutation (map sid it) (map sid (filter labelled ss))) by (apply Permutation_map; unfold it, synth_order; apply sort_s_perm).
    eapply Permutation_NoDup; [apply Permutation_sym, P|]. clear - NDS. induction ss as [|x r IH]; simpl; [constructor|].
    simpl in NDS. inversion NDS as [|? ? Hx Hr]; subst. destruct (labelled x); simpl; [constructor|]; auto.
    intro K. apply Hx. apply in_map_iff in K. destruct K as [y [E K]]. apply filter_In in K. apply in_map_iff. exists y. tauto.
  - intros s1 s2 p H1 H2 P1 P2. pose proof (asg_get_some _ _ _ P1) as Q1. pose proof (asg_get_some _ _ _ P2) as Q2.
    assert (sid s1 = sid s2); [|eapply sid_inj; eauto].
    pose proof (i_asgnd _ _ I) as AND. clear - Q1 Q2 AND. induction (s_asg st) as [|[i q] r IH]; [contradiction|].
    simpl in AND. inversion AND as [|? ? Hq Hr]; subst. destruct Q1 as [Q1|Q1], Q2 as [Q2|Q2].
    + congruence.
    + inversion Q1; subst. exfalso. apply Hq. apply in_map_iff. exists (sid s2, p). auto.
    + inversion Q2; subst. exfalso. apply Hq. apply in_map_iff. exists (sid s1, p). auto.
    + apply IH; assumption.
Qed.
