(* C03/C04: concrete witnesses evaluated on the model by vm_compute (each is also a corpus case replayed on /repo):
   the two OPEN defects of gliding utilities, and non-vacuity instances of the closed-form theorems. *)
From OP Require Import gen.Consts model.Base model.Stream model.Utility.
Local Open Scope Q_scope.

(* the only fact about the generated tolerance the theorems need *)
Lemma tol_pos : 0 < tol. Proof. reflexivity. Qed.

(* ---- D24 (open): hot stream 100->50 (50 kW), one cold utility 40->120, contributions 0.  Shifted table rows
        [120;100;50;40], pocket-free GCC [0;0;50;50].  The utility's supply end (40) passes the reach test, so no default
        CU is added, but its target end (120) lies beyond the pinch (100): the early return assigns nothing. ---- *)
Definition T24 : list Q := [120; 100; 50; 40].
Definition HA24 : list Q := [0; 0; 50; 50].
Definition u24 : ustar := mkUS 40 120 80.
Example d24_reach_test_passes :
  existsb (reach_cold (snd (extremes [(100, 50, 0, 50)]))) (map complete [mkUin 0 UCold 40 (Some 120) (Some 0) true]) = true.
Proof. vm_compute. reflexivity. Qed.
Example d24_no_duty : di_duties tol T24 HA24 (sep_hot HA24) (sep_cold HA24) [] [u24] = ([], [0]).
Proof. vm_compute. reflexivity. Qed.
Example d24_judged : exists fl, judge_c03 (mkObs T24 HA24 (sep_hot HA24) (sep_cold HA24) [0; 0; 0; 0] [] [u24] [] [0] 0 50) = [V_PROP_FALSE; fl; 32%Z]
  /\ Z.land fl 16 = 16%Z /\ Z.land fl 64 = 64%Z.
Proof. eexists. vm_compute. repeat split. Qed.

(* ---- glide crossing (open): cold streams 90->100 (50 kW) and 50->100 (10 kW), one hot utility 100->60, contributions 0.
        Rows [100;90;60;50], pocket-free GCC [60;8;2;0].  The slope bound pairs the enthalpy at the TOP of an interval
        (60) with the temperature at its BOTTOM (90): the utility gets the whole 60 and releases 45 of it below 90 where
        the process needs 8. ---- *)
Definition T38 : list Q := [100; 90; 60; 50].
Definition HA38 : list Q := [60; 8; 2; 0].
Definition u38 : ustar := mkUS 60 100 40.
Example d38_duty : di_duties tol T38 HA38 (sep_hot HA38) (sep_cold HA38) [u38] [] = ([60], []).
Proof. vm_compute. reflexivity. Qed.
Example d38_profile : hut_model T38 [u38] [] [60] [] = [60; 45; 0; 0].
Proof. vm_compute. reflexivity. Qed.
Example d38_infeasible : feas_hi eps6 60 (hut_model T38 [u38] [] [60] []) HA38 = false.
Proof. vm_compute. reflexivity. Qed.
Example d38_not_clear : clear_hot tol T38 u38 = false.
Proof. vm_compute. reflexivity. Qed.
(* the bound the code should have used: enthalpy at the bottom of the interval, 8 / (90 - 60) * 40 *)
Example d38_correct_bound : (8 / (90 - 60) * 40 == 32 # 3) /\ (32 # 3) * ((90 - 60) / 40) <= 8.
Proof. split; vm_compute; try reflexivity; discriminate. Qed.

(* ---- non-vacuity: the classic four-stream problem (H1 250->40 CP 1.5, H2 200->80 CP 2.5, C1 20->180 CP 2, C2 140->230 CP 3,
        dt_cont 5), hot levels 250/200/150, cold levels 20/60/100 (all 0.1 K "isothermal", end points are rows) ---- *)
Definition Tc : list Q := [245; 2449#10; 235; 225; 195; 1949#10; 185; 175; 145; 1449#10; 1051#10; 105; 85; 75; 651#10; 65; 35; 251#10; 25].
Definition HAc : list Q := [75; 75; 75; 75; 30; 30; 30; 30; 0; 1#5; 797#10; 80; 100; 100; 100; 100; 100; 100; 100].
Definition husc : list ustar := [mkUS (2449#10) 245 (1#10); mkUS (1949#10) 195 (1#10); mkUS (1449#10) 145 (1#10)].
Definition cusc : list ustar := [mkUS 105 (1051#10) (1#10); mkUS 65 (651#10) (1#10); mkUS 25 (251#10) (1#10)].
Example classic_hyps :
  strict_desc Tc = true /\ noninc (firstn 9 HAc) = true /\ noninc (rev (skipn 7 (cold_demand HAc 8))) = true
  /\ forallb (clear_hot tol (firstn 9 Tc)) husc = true /\ forallb (clear_cold tol (skipn 7 Tc)) cusc = true
  /\ pinch_idx tol HAc = (8%nat, 8%nat, true).
Proof. vm_compute. repeat split. Qed.
Example classic_closed_form :
  spec_hot tol Tc HAc 8 husc = [45; 30; 0] /\ spec_cold tol Tc (cold_demand HAc 8) 8 cusc = [80; 20; 0]
  /\ assign_hot tol Tc HAc 8 husc = [45; 30; 0] /\ assign_cold tol Tc (cold_demand HAc 8) 8 cusc = [80; 20; 0].
Proof. vm_compute. repeat split. Qed.
