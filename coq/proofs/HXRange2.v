(* Range of the 20-term series of CrossflowUnmixedEff1 (cross flow, both fluids unmixed) AS IT IS in the source (the inner sum
   stops at j = i - 1, finding D15), for every NTU > 0 and every capacity ratio c >= 0:
       (1 - e^{-N}) e^{-cN}  <=  eff_CrFUU N c  <=  1 - e^{-N},
   hence 0 < eff_CrFUU < 1; and the range (0,1) of HX_Eff for EVERY arrangement, label form and number of passes.
   Second part: the same series is STRICTLY INCREASING in NTU for 0 <= c <= 1 (see the comment at `monotone in NTU`).
   Method: the generated expression is shown equal to a generic double sum (structural comparison, constants by `ring`);
   each term is bounded by (cN)^i/i! * N^j/j!; partial sums of the exponential series are below exp on [0,oo)
   (induction on the degree, mean-value theorem). *)
From Coq Require Import Reals Lra Psatz Bool ZArith Lia.
From Coquelicot Require Import Coquelicot.
From OP Require Import gen.Consts gen.HxDispatch gen.Scalar model.HX proofs.HXBase proofs.HXBranch proofs.HXShell proofs.HXFull proofs.HXLeCF proofs.HXLeCF2.
Local Open Scope R_scope.

Fixpoint fR (k : nat) : R := match k with O => 1 | S m => IZR (Z.of_nat (S m)) * fR m end.
Lemma fR_S k : fR (S k) = IZR (Z.of_nat (S k)) * fR k. Proof. reflexivity. Qed.
Lemma fR_pos k : 0 < fR k.
Proof. induction k; [simpl; lra|]. rewrite fR_S. apply Rmult_lt_0_compat; [apply IZR_lt; lia|exact IHk]. Qed.

Fixpoint sumto (f : nat -> R) (n : nat) : R := match n with O => 0 | S m => sumto f m + f (S m) end.
Lemma sumto_S f n : sumto f (S n) = sumto f n + f (S n). Proof. reflexivity. Qed.
Definition Tn (n : nat) (y : R) : R := 1 + sumto (fun k => y ^ k / fR k) n.
Lemma Tn_S n y : Tn (S n) y = Tn n y + y ^ (S n) / fR (S n).
Proof. unfold Tn. rewrite sumto_S. ring. Qed.

Lemma powdiv_deriv n y : is_derive (fun t => t ^ S n / fR (S n)) y (y ^ n / fR n).
Proof.
  pose proof (fR_pos n) as Hf. pose proof (fR_pos (S n)) as Hf'.
  replace (y ^ n / fR n) with (/ fR (S n) * (INR (S n) * 1 * y ^ pred (S n))).
  2:{ rewrite fR_S in *. rewrite <- INR_IZR_INZ in *. simpl pred. pose proof (not_0_INR (S n) ltac:(lia)). field. split; lra. }
  apply (is_derive_ext (fun t => / fR (S n) * t ^ S n)); [intro t; apply Rmult_comm|].
  assert (Hid : is_derive (fun t : R => t) y 1) by (auto_derive; [exact I|ring]).
  apply is_derive_scal. apply (is_derive_pow (fun t => t)). exact Hid.
Qed.

Lemma Tn_deriv n y : is_derive (Tn (S n)) y (Tn n y).
Proof.
  revert y. induction n; intro y.
  - assert (E : forall t : R, 1 + t = Tn 1 t) by (intro t; unfold Tn, sumto, fR; simpl; field).
    apply (is_derive_ext (fun t => 1 + t)); [exact E|].
    replace (Tn 0 y) with 1 by (unfold Tn; simpl; ring). auto_derive; [exact I|ring].
  - apply (is_derive_ext (fun t => plus (Tn (S n) t) (t ^ (S (S n)) / fR (S (S n))))). { intro t. rewrite (Tn_S (S n)). reflexivity. }
    rewrite (Tn_S n). change (is_derive (fun t => plus (Tn (S n) t) (t ^ (S (S n)) / fR (S (S n)))) y (plus (Tn n y) (y ^ S n / fR (S n)))).
    apply @is_derive_plus; [apply IHn|apply powdiv_deriv].
Qed.

Lemma Tn_0 n : Tn n 0 = 1.
Proof. induction n; [unfold Tn; simpl; ring|]. rewrite Tn_S, IHn. rewrite pow_i by lia. unfold Rdiv. ring. Qed.

Lemma Tn_le_exp n y : 0 <= y -> Tn n y <= exp y.
Proof.
  revert y. induction n; intros y Hy.
  - unfold Tn. simpl. pose proof (exp_ineq1_le y). lra.
  - set (f := fun t => minus (exp t) (Tn (S n) t)). set (df := fun t => minus (exp t) (Tn n t)).
    assert (H : f 0 <= f y).
    { apply (nondecr_from_deriv f df); [exact Hy| |].
      - intros t _. unfold f, df. apply @is_derive_minus; [|apply Tn_deriv]. auto_derive; [exact I|ring].
      - intros t Ht. unfold df. pose proof (IHn t ltac:(lra)). unfold minus, plus, opp; simpl. lra. }
    unfold f, minus, plus, opp in H; simpl in H. rewrite Tn_0, exp_0 in H. lra.
Qed.

Lemma sumto_le f g n : (forall k, (1 <= k <= n)%nat -> f k <= g k) -> sumto f n <= sumto g n.
Proof.
  induction n; intro H; [simpl; lra|]. rewrite !sumto_S.
  apply Rplus_le_compat; [apply IHn; intros k Hk; apply H; lia|apply H; lia].
Qed.
Lemma sumto_scal a g n : sumto (fun k => a * g k) n = a * sumto g n.
Proof. induction n; [simpl; ring|]. rewrite !sumto_S, IHn. ring. Qed.
Lemma sumto_nonneg f n : (forall k, (1 <= k <= n)%nat -> 0 <= f k) -> 0 <= sumto f n.
Proof.
  induction n; intro H; [simpl; lra|]. rewrite sumto_S.
  apply Rplus_le_le_0_compat; [apply IHn; intros k Hk; apply H; lia|apply H; lia].
Qed.

(* the series of CrossflowUnmixedEff1, generically *)
Definition uterm (c N : R) (i j : nat) : R := c ^ i / fR (S i) * IZR (Z.of_nat (S i - j)) / fR j * N ^ (i + j).
Definition uinner (c N : R) (i : nat) : R := sumto (uterm c N i) (i - 1).
Definition usum (c N : R) : R := sumto (uinner c N) 20.

Lemma eff_CrFUU_gen N c : eff_CrFUU N c = 1 - exp (- N) - exp (- (1 + c) * N) * usum c N.
Proof.
  unfold eff_CrFUU, CrossflowUnmixedEff1_R. cbv zeta. f_equal. f_equal.
  cbv [usum uinner uterm sumto fR Z.of_nat Pos.of_succ_nat Pos.succ Nat.sub Nat.add].
  repeat f_equal; ring.
Qed.

Lemma uterm_le c N i j : 0 <= c -> 0 <= N -> uterm c N i j <= (c * N) ^ i / fR i * (N ^ j / fR j).
Proof.
  intros Hc HN. unfold uterm. rewrite pow_add, Rpow_mult_distr, fR_S.
  pose proof (fR_pos i) as Fi. pose proof (fR_pos j) as Fj.
  assert (HK : 0 < IZR (Z.of_nat (S i))) by (apply IZR_lt; lia).
  assert (HM0 : 0 <= IZR (Z.of_nat (S i - j))) by (apply IZR_le; lia).
  assert (HMK : IZR (Z.of_nat (S i - j)) <= IZR (Z.of_nat (S i))) by (apply IZR_le; lia).
  set (K := IZR (Z.of_nat (S i))) in *. set (M := IZR (Z.of_nat (S i - j))) in *.
  assert (HB : 0 <= c ^ i * N ^ i / fR i * (N ^ j / fR j)).
  { apply Rmult_le_pos; apply Rmult_le_pos; try (left; apply Rinv_0_lt_compat; assumption); try (apply pow_le; assumption).
    apply Rmult_le_pos; apply pow_le; assumption. }
  replace (c ^ i / (K * fR i) * M / fR j * (N ^ i * N ^ j)) with (c ^ i * N ^ i / fR i * (N ^ j / fR j) * (M / K)) by (field; repeat split; lra).
  assert (HR : M / K <= 1). { apply (Rmult_le_reg_r K); [exact HK|]. replace (M / K * K) with M by (field; lra). lra. }
  assert (HR0 : 0 <= M / K) by (apply Rmult_le_pos; [exact HM0|left; apply Rinv_0_lt_compat; exact HK]).
  set (B := c ^ i * N ^ i / fR i * (N ^ j / fR j)) in *. nra.
Qed.

Lemma uterm_nonneg c N i j : 0 <= c -> 0 <= N -> 0 <= uterm c N i j.
Proof.
  intros Hc HN. unfold uterm. pose proof (fR_pos (S i)). pose proof (fR_pos j).
  assert (0 <= IZR (Z.of_nat (S i - j))) by (apply IZR_le; lia).
  repeat apply Rmult_le_pos; try (apply pow_le; assumption); try assumption; left; apply Rinv_0_lt_compat; assumption.
Qed.

Lemma Tn_minus1 n y : sumto (fun k => y ^ k / fR k) n = Tn n y - 1.
Proof. unfold Tn. ring. Qed.

Lemma uinner_le c N i : 0 <= c -> 0 <= N -> uinner c N i <= (c * N) ^ i / fR i * (exp N - 1).
Proof.
  intros Hc HN. unfold uinner.
  apply Rle_trans with (sumto (fun j => (c * N) ^ i / fR i * (N ^ j / fR j)) (i - 1)).
  - apply sumto_le. intros k _. apply uterm_le; assumption.
  - rewrite sumto_scal, Tn_minus1. pose proof (Tn_le_exp (i - 1) N HN). pose proof (fR_pos i).
    apply Rmult_le_compat_l; [|lra]. apply Rmult_le_pos; [apply pow_le; apply Rmult_le_pos; assumption|left; apply Rinv_0_lt_compat; assumption].
Qed.

Lemma usum_le c N : 0 <= c -> 0 <= N -> usum c N <= (exp (c * N) - 1) * (exp N - 1).
Proof.
  intros Hc HN. unfold usum.
  apply Rle_trans with (sumto (fun i => (exp N - 1) * ((c * N) ^ i / fR i)) 20).
  - apply sumto_le. intros k _. rewrite Rmult_comm. apply uinner_le; assumption.
  - rewrite sumto_scal, Tn_minus1. assert (HcN : 0 <= c * N) by (apply Rmult_le_pos; assumption).
    pose proof (Tn_le_exp 20 (c * N) HcN). pose proof (exp_ineq1_le N). rewrite Rmult_comm. apply Rmult_le_compat_r; lra.
Qed.

Lemma usum_nonneg c N : 0 <= c -> 0 <= N -> 0 <= usum c N.
Proof.
  intros Hc HN. unfold usum. apply sumto_nonneg. intros i _. unfold uinner. apply sumto_nonneg. intros j _. apply uterm_nonneg; assumption.
Qed.

Theorem eff_CrFUU_bounds N c : 0 <= N -> 0 <= c -> (1 - exp (- N)) * exp (- (c * N)) <= eff_CrFUU N c <= 1 - exp (- N).
Proof.
  intros HN Hc. rewrite eff_CrFUU_gen. pose proof (usum_le c N Hc HN) as U. pose proof (usum_nonneg c N Hc HN) as U0.
  assert (E : exp (- (1 + c) * N) = exp (- (c * N)) * exp (- N)) by (rewrite <- exp_plus; f_equal; ring). rewrite E.
  assert (E1 : exp (- (c * N)) * exp (c * N) = 1) by (rewrite <- exp_plus; replace (- (c * N) + c * N) with 0 by ring; apply exp_0).
  assert (E2 : exp (- N) * exp N = 1) by (rewrite <- exp_plus; replace (- N + N) with 0 by ring; apply exp_0).
  pose proof (exp_pos (- (c * N))) as P1. pose proof (exp_pos (- N)) as P2.
  set (a := exp (- (c * N))) in *. set (b := exp (- N)) in *. set (A := exp (c * N)) in *. set (B := exp N) in *. set (S := usum c N) in *.
  assert (Hab : 0 < a * b) by (apply Rmult_lt_0_compat; assumption). split.
  - assert (K : a * b * S <= a * b * ((A - 1) * (B - 1))) by (apply Rmult_le_compat_l; lra).
    replace (a * b * ((A - 1) * (B - 1))) with ((a * A - a) * (b * B - b)) in K by ring. rewrite E1, E2 in K. nra.
  - assert (0 <= a * b * S) by (apply Rmult_le_pos; lra). lra.
Qed.

Theorem eff_CrFUU_range N c : 0 < N -> 0 <= c -> 0 < eff_CrFUU N c < 1.
Proof.
  intros HN Hc. destruct (eff_CrFUU_bounds N c ltac:(lra) Hc) as [L U].
  pose proof (exp_neg_lt1 _ HN). pose proof (exp_pos (- N)). pose proof (exp_pos (- (c * N))).
  assert (0 < (1 - exp (- N)) * exp (- (c * N))) by (apply Rmult_lt_0_compat; lra). lra.
Qed.

(* ------------------------------------------------------------------ whole function, every arrangement *)
Theorem HX_eff_range_all a f N c P : 0 < N -> 0 <= c <= 1 -> 0 < P -> 0 < HX_Eff_R (mk_label a f) N c P < 1.
Proof.
  intros HN Hc HP. destruct (closed_form a) eqn:Hcl; [apply HX_eff_range; assumption|].
  destruct (own_dispatch a f) as (Hne & He). rewrite (HX_Eff_R_shape _ _ _ _ Hne).
  destruct a; try discriminate Hcl; simpl in He; injection He as ->; simpl eff_br; apply effP_range; try assumption; intros.
  - apply eff_CrFUU_range; lra.
  - apply eff_CrFMM_range; lra.
Qed.

(* ------------------------------------------------------------------ monotone in NTU *)
(* With S = sum_i c^i A_i(N) (A_i = row i of the series), d/dN eff = e^{-(1+c)N} (e^{cN} - (S' - (1+c) S)).  Inside each row the
   coefficients satisfy (i+j+1) a_{i,j+1} = a_{i,j} + a_{i-1,j+1}, so A_i' - A_i - A_{i-1} leaves only boundary terms
       B_i = N^i/i! + N^{2i-2}/(i!(i-1)!) - 2 N^{2i-1}/((i+1)!(i-1)!)         (19 polynomial identities, by `field`)
   (the middle one is what the dropped j = i term leaves behind), hence S' - (1+c) S = sum_i c^i B_i - c^21 A_20.
   The middle terms are absorbed by the negative ones (AM-GM with c <= 1, telescoping), the first ones are a partial sum
   of exp(cN):  S' - (1+c) S <= e^{cN} - 1, so the derivative is >= e^{-(1+c)N} > 0. *)
Lemma incr_from_deriv (f df : R -> R) a b : a < b ->
  (forall t, a <= t <= b -> is_derive f t (df t)) -> (forall t, a <= t <= b -> 0 < df t) -> f a < f b.
Proof.
  intros Hab Hd Hp. destruct (MVT_gen f a b df) as [t [Ht E]].
  - rewrite Rmin_left, Rmax_right by lra. intros y Hy. apply Hd. lra.
  - rewrite Rmin_left, Rmax_right by lra. intros y Hy. apply continuity_pt_filterlim.
    apply (ex_derive_continuous f y). exists (df y). apply Hd. exact Hy.
  - rewrite Rmin_left, Rmax_right in Ht by lra. pose proof (Hp t Ht).
    assert (0 < df t * (b - a)) by (apply Rmult_lt_0_compat; lra). lra.
Qed.

Lemma sumto_ext f g n : (forall k, (1 <= k <= n)%nat -> f k = g k) -> sumto f n = sumto g n.
Proof.
  induction n; intro H; [reflexivity|]. rewrite !sumto_S. f_equal; [apply IHn; intros k Hk; apply H; lia|apply H; lia].
Qed.
Lemma sumto_plus f g n : sumto (fun k => f k + g k) n = sumto f n + sumto g n.
Proof. induction n; [simpl; ring|]. rewrite !sumto_S, IHn. ring. Qed.
Lemma sumto_shift g n : sumto (fun k => g (S k)) n = sumto g (S n) - g 1%nat.
Proof. induction n; [simpl; ring|]. rewrite sumto_S, IHn, (sumto_S g (S n)). ring. Qed.
Lemma sumto_telescope g n : sumto (fun k => g (k - 1)%nat - g k) n = g 0%nat - g n.
Proof. induction n; [simpl; ring|]. rewrite sumto_S, IHn. replace (S n - 1)%nat with n by lia. ring. Qed.

Lemma sumto_deriv (f df : nat -> R -> R) n x : (forall k, is_derive (f k) x (df k x)) ->
  is_derive (fun t => sumto (fun k => f k t) n) x (sumto (fun k => df k x) n).
Proof.
  intro H. induction n.
  - simpl. apply @is_derive_const.
  - change (is_derive (fun t => plus (sumto (fun k => f k t) n) (f (S n) t)) x (plus (sumto (fun k => df k x) n) (df (S n) x))).
    apply @is_derive_plus; [exact IHn|apply H].
Qed.

(* rows of the series: usum c N = sum_i c^i arow i N *)
Definition aterm (N : R) (i j : nat) : R := IZR (Z.of_nat (S i - j)) / (fR (S i) * fR j) * N ^ (i + j).
Definition arow (i : nat) (N : R) : R := sumto (aterm N i) (i - 1).
Definition daterm (N : R) (i j : nat) : R := IZR (Z.of_nat (S i - j)) / (fR (S i) * fR j) * (IZR (Z.of_nat (i + j)) * N ^ (i + j - 1)).
Definition darow (i : nat) (N : R) : R := sumto (daterm N i) (i - 1).

Lemma aterm_deriv i j N : is_derive (fun t => aterm t i j) N (daterm N i j).
Proof.
  unfold aterm, daterm.
  replace (IZR (Z.of_nat (i + j)) * N ^ (i + j - 1)) with (INR (i + j) * 1 * N ^ pred (i + j)).
  2:{ rewrite INR_IZR_INZ. replace (i + j - 1)%nat with (pred (i + j)) by lia. ring. }
  assert (Hid : is_derive (fun t : R => t) N 1) by (auto_derive; [exact I|ring]).
  apply is_derive_scal. apply (is_derive_pow (fun t => t)). exact Hid.
Qed.

Lemma arow_deriv i N : is_derive (arow i) N (darow i N).
Proof. unfold arow, darow. apply (sumto_deriv (fun k t => aterm t i k) (fun k t => daterm t i k)). intro k. apply aterm_deriv. Qed.

Lemma arow_nonneg i N : 0 <= N -> 0 <= arow i N.
Proof.
  intro HN. unfold arow. apply sumto_nonneg. intros j _. unfold aterm. pose proof (fR_pos (S i)). pose proof (fR_pos j).
  assert (0 <= IZR (Z.of_nat (S i - j))) by (apply IZR_le; lia).
  apply Rmult_le_pos; [|apply pow_le; exact HN]. apply Rmult_le_pos; [assumption|]. left. apply Rinv_0_lt_compat. apply Rmult_lt_0_compat; assumption.
Qed.

(* boundary terms of row i = S k *)
Definition Bk (k : nat) (N : R) : R :=
  N ^ (S k) / fR (S k) + N ^ (2 * k) / (fR (S k) * fR k) - 2 * N ^ (2 * k + 1) / (fR (S (S k)) * fR k).

Lemma row_identity k N : (1 <= k <= 19)%nat -> darow (S k) N = Bk k N + arow (S k) N + arow k N.
Proof.
  intro H.
  assert (C : (k = 1 \/ k = 2 \/ k = 3 \/ k = 4 \/ k = 5 \/ k = 6 \/ k = 7 \/ k = 8 \/ k = 9 \/ k = 10 \/ k = 11 \/ k = 12 \/ k = 13 \/ k = 14
              \/ k = 15 \/ k = 16 \/ k = 17 \/ k = 18 \/ k = 19)%nat) by lia.
  repeat (destruct C as [C|C]; [subst k; cbv [darow arow daterm aterm Bk sumto fR Z.of_nat Pos.of_succ_nat Pos.succ Nat.sub Nat.add Nat.mul]; field|]).
  subst k; cbv [darow arow daterm aterm Bk sumto fR Z.of_nat Pos.of_succ_nat Pos.succ Nat.sub Nat.add Nat.mul]; field.
Qed.

Lemma uinner_arow c N i : uinner c N i = c ^ i * arow i N.
Proof.
  unfold uinner, arow. rewrite <- sumto_scal. apply sumto_ext. intros j _. unfold uterm, aterm.
  pose proof (fR_pos (S i)). pose proof (fR_pos j). field. split; lra.
Qed.

Definition dusum (c N : R) : R := sumto (fun i => c ^ i * darow i N) 20.
Lemma usum_rows c N : usum c N = sumto (fun i => c ^ i * arow i N) 20.
Proof. unfold usum. apply sumto_ext. intros i _. apply uinner_arow. Qed.

Lemma usum_deriv c N : is_derive (usum c) N (dusum c N).
Proof.
  apply (is_derive_ext (fun t => sumto (fun i => c ^ i * arow i t) 20)). { intro t. symmetry. apply usum_rows. }
  unfold dusum. apply (sumto_deriv (fun i t => c ^ i * arow i t) (fun i t => c ^ i * darow i t)).
  intro i. apply is_derive_scal. apply arow_deriv.
Qed.

Lemma arow_0 N : arow 0 N = 0. Proof. reflexivity. Qed.
Lemma arow_1 N : arow 1 N = 0. Proof. reflexivity. Qed.
Lemma darow_1 N : darow 1 N = 0. Proof. reflexivity. Qed.

(* S' - (1+c) S = sum of the boundary terms - c^21 (last row) *)
Lemma dusum_identity c N : dusum c N - (1 + c) * usum c N = sumto (fun k => c ^ (S k) * Bk k N) 19 - c ^ 21 * arow 20 N.
Proof.
  rewrite usum_rows. unfold dusum. repeat rewrite sumto_S. change (sumto (fun i : nat => c ^ i * darow i N) 0) with 0.
  change (sumto (fun i : nat => c ^ i * arow i N) 0) with 0. change (sumto (fun k : nat => c ^ S k * Bk k N) 0) with 0.
  rewrite darow_1, arow_1.
  rewrite (row_identity 1 N), (row_identity 2 N), (row_identity 3 N), (row_identity 4 N), (row_identity 5 N), (row_identity 6 N),
    (row_identity 7 N), (row_identity 8 N), (row_identity 9 N), (row_identity 10 N), (row_identity 11 N), (row_identity 12 N),
    (row_identity 13 N), (row_identity 14 N), (row_identity 15 N), (row_identity 16 N), (row_identity 17 N), (row_identity 18 N),
    (row_identity 19 N) by lia.
  rewrite arow_1. ring.
Qed.

(* r' m = c^{m+1} N^{2m+1} / ((m+2)! m!) *)
Definition rr (c N : R) (m : nat) : R := c ^ (S m) * N ^ (2 * m + 1) / (fR (S (S m)) * fR m).
Lemma rr_nonneg c N m : 0 <= c -> 0 <= N -> 0 <= rr c N m.
Proof.
  intros Hc HN. unfold rr. pose proof (fR_pos (S (S m))). pose proof (fR_pos m).
  apply Rmult_le_pos; [apply Rmult_le_pos; apply pow_le; assumption|]. left. apply Rinv_0_lt_compat. apply Rmult_lt_0_compat; assumption.
Qed.

(* AM-GM step: c^{k+1} N^{2k} / ((k+1)! k!) <= r'(k-1) + r'(k)   (k >= 1, 0 <= c <= 1) *)
Lemma mid_le_rr c N k : 0 <= c <= 1 -> 0 <= N -> (1 <= k)%nat -> c ^ (S k) * N ^ (2 * k) / (fR (S k) * fR k) <= rr c N (k - 1) + rr c N k.
Proof.
  intros [Hc0 Hc1] HN Hk. destruct k as [|m]; [lia|]. replace (S m - 1)%nat with m by lia. unfold rr.
  replace (2 * S m + 1)%nat with (S (S (2 * m + 1))) by lia. replace (2 * S m)%nat with (S (2 * m + 1)) by lia.
  rewrite (fR_S (S (S m))), (fR_S m). pose proof (fR_pos m) as F0. pose proof (fR_pos (S (S m))) as F2.
  assert (K3 : IZR (Z.of_nat (S (S (S m)))) = IZR (Z.of_nat (S m)) + 2). { rewrite <- plus_IZR. f_equal. lia. }
  rewrite K3. assert (HK : 1 <= IZR (Z.of_nat (S m))) by (apply IZR_le; lia). set (K := IZR (Z.of_nat (S m))) in *.
  set (G := c ^ S m * N ^ (2 * m + 1) / (fR (S (S m)) * (K * fR m))).
  assert (HG : 0 <= G).
  { unfold G. apply Rmult_le_pos; [apply Rmult_le_pos; apply pow_le; assumption|]. left. apply Rinv_0_lt_compat.
    apply Rmult_lt_0_compat; [assumption|apply Rmult_lt_0_compat; lra]. }
  replace (c ^ S (S m) * N ^ S (2 * m + 1) / (fR (S (S m)) * (K * fR m))) with (G * (c * N)) by (unfold G; simpl pow; field; repeat split; lra).
  replace (c ^ S m * N ^ (2 * m + 1) / (fR (S (S m)) * fR m)) with (G * K) by (unfold G; field; repeat split; lra).
  replace (c ^ S (S m) * N ^ S (S (2 * m + 1)) / ((K + 2) * fR (S (S m)) * (K * fR m))) with (G * (c * N * N / (K + 2)))
    by (unfold G; simpl pow; field; repeat split; lra).
  rewrite <- Rmult_plus_distr_l. apply Rmult_le_compat_l; [exact HG|].
  apply (Rmult_le_reg_r (K + 2)); [lra|]. replace ((K + c * N * N / (K + 2)) * (K + 2)) with (K * (K + 2) + c * N * N) by (field; lra).
  (* c N (K+2) <= K (K+2) + c N^2 : discriminant c (c - 4K/(K+2)) <= 0 *)
  assert (Q : 0 <= c * (N - (K + 2) / 2) * (N - (K + 2) / 2)) by (rewrite Rmult_assoc; apply Rmult_le_pos; [lra|apply Rle_0_sqr]).
  assert (Q2 : c * (K + 2) * (K + 2) <= (K + 2) * (K + 2)) by (apply (Rmult_le_compat_r ((K + 2) * (K + 2))) in Hc1; nra).
  nra.
Qed.

Lemma boundary_le c N : 0 <= c <= 1 -> 0 <= N -> sumto (fun k => c ^ (S k) * Bk k N) 19 <= exp (c * N) - 1.
Proof.
  intros Hc HN. destruct Hc as [Hc0 Hc1]. assert (HcN : 0 <= c * N) by (apply Rmult_le_pos; assumption).
  apply Rle_trans with (sumto (fun k => (c * N) ^ (S k) / fR (S k) + (rr c N (k - 1) - rr c N k)) 19).
  - apply sumto_le. intros k Hk. unfold Bk. pose proof (mid_le_rr c N k (conj Hc0 Hc1) HN ltac:(lia)) as M.
    pose proof (rr_nonneg c N k Hc0 HN) as R0. pose proof (fR_pos (S k)). pose proof (fR_pos k). pose proof (fR_pos (S (S k))).
    rewrite Rpow_mult_distr.
    replace (c ^ S k * (N ^ S k / fR (S k) + N ^ (2 * k) / (fR (S k) * fR k) - 2 * N ^ (2 * k + 1) / (fR (S (S k)) * fR k)))
      with (c ^ S k * N ^ S k / fR (S k) + c ^ S k * N ^ (2 * k) / (fR (S k) * fR k) - 2 * rr c N k) by (unfold rr; field; repeat split; lra).
    lra.
  - assert (S1 : sumto (fun k => (c * N) ^ (S k) / fR (S k)) 19 = sumto (fun i => (c * N) ^ i / fR i) 20 - (c * N) ^ 1 / fR 1)
      by (apply (sumto_shift (fun i => (c * N) ^ i / fR i) 19)).
    rewrite sumto_plus, S1, (sumto_telescope (rr c N) 19), Tn_minus1. pose proof (Tn_le_exp 20 (c * N) HcN).
    pose proof (rr_nonneg c N 19 Hc0 HN).
    assert (R1 : rr c N 0 = c * N / 2). { unfold rr. simpl. field. }
    assert (G1 : (c * N) ^ 1 / fR 1 = c * N). { simpl. field. }
    rewrite R1, G1. lra.
Qed.

(* d/dN eff_CrFUU = e^{-(1+c)N} (e^{cN} - (S' - (1+c) S)) >= e^{-(1+c)N} > 0 *)
Definition crfuu_fn (c t : R) : R := 1 - exp (- t) - exp (- (1 + c) * t) * usum c t.
Definition crfuu_d (c t : R) : R := exp (- (1 + c) * t) * (exp (c * t) - (dusum c t - (1 + c) * usum c t)).
Lemma crfuu_deriv c t : is_derive (crfuu_fn c) t (crfuu_d c t).
Proof.
  pose proof (usum_deriv c t) as HU. unfold crfuu_fn, crfuu_d. auto_derive.
  - exists (dusum c t); exact HU.
  - rewrite (is_derive_unique (fun x : R => usum c x) t (dusum c t) HU).
    assert (E : exp (- t) = exp (- (1 + c) * t) * exp (c * t)) by (rewrite <- exp_plus; f_equal; ring).
    rewrite E. unfold Rminus. ring.
Qed.

Lemma crfuu_d_pos c t : 0 <= c <= 1 -> 0 <= t -> 0 < crfuu_d c t.
Proof.
  intros Hc Ht. unfold crfuu_d. apply Rmult_lt_0_compat; [apply exp_pos|]. rewrite dusum_identity.
  pose proof (boundary_le c t Hc Ht). pose proof (arow_nonneg 20 t Ht).
  assert (0 <= c ^ 21 * arow 20 t) by (apply Rmult_le_pos; [apply pow_le; lra|assumption]). lra.
Qed.

Theorem eff_CrFUU_mono N1 N2 c : 0 <= N1 -> N1 < N2 -> 0 <= c <= 1 -> eff_CrFUU N1 c < eff_CrFUU N2 c.
Proof.
  intros H1 H12 Hc. rewrite !eff_CrFUU_gen. change (crfuu_fn c N1 < crfuu_fn c N2).
  apply (incr_from_deriv (crfuu_fn c) (crfuu_d c)); [exact H12| |].
  - intros t _. apply crfuu_deriv.
  - intros t Ht. apply crfuu_d_pos; [exact Hc|lra].
Qed.

(* whole function: strictly increasing in NTU for every arrangement except cross flow both mixed (refuted, D34) *)
Definition mono_form (a : hx) : bool := match a with hx_CrFMM => false | _ => true end.
Theorem HX_eff_monotone_all a f N1 N2 c P : mono_form a = true -> 0 < N1 -> N1 < N2 -> 0 <= c <= 1 -> 0 < P ->
  HX_Eff_R (mk_label a f) N1 c P < HX_Eff_R (mk_label a f) N2 c P.
Proof.
  intros H H1 H12 Hc HP. destruct (closed_form a) eqn:Hcl; [apply HX_eff_monotone; assumption|].
  destruct (own_dispatch a f) as (Hne & He). rewrite !(HX_Eff_R_shape _ _ _ _ Hne).
  destruct a; try discriminate Hcl; try discriminate H. simpl in He. injection He as ->. simpl eff_br.
  apply generic_monotone; try assumption; intros.
  - apply eff_CrFUU_range; lra.
  - apply eff_CrFUU_mono; lra.
Qed.

Lemma mono_form_spec a : mono_form a = true <-> a <> hx_CrFMM.
Proof. destruct a; simpl; split; intro H; try reflexivity; try discriminate H; try discriminate; congruence. Qed.
