(* Composition of the zonal utility targeting (model/Utility.v, C03 sums + C04 level feasibility) with the total-site
   cascade (model/Site.v, proofs/SiteFacts.v): the feasibility hypothesis of C09's lower bound

        forall T, Dnet hotS coldS T <= U hu cu T          (site_Qh_ge_direct)

   is REDUCED to statements that C03/C04 prove zone by zone.  Steps (all closed, any number of zones / utilities / streams):

   1. feasible_from_breakpoints : Dnet - U is the net deficit of the combined system (streams + utilities as streams), which
      is piecewise linear; so the inequality at the END POINTS of the streams and utilities implies it at every temperature.
   2. U_step : at a temperature that is not strictly inside the range of any utility (isothermal ladder, 0.1 K ranges clear
      of the break points) the released utility heat is  sum(hot duties) - hut_step  with hut_step the step form of the
      utility profile of Utility.v (what C04 compares with the GCC).
   3. zone_feasible : one zone whose hot sum closes to within d (C03) and whose utility step profile lies under its GCC at the
      break points (C04) satisfies  Dnet <= U + d  at every temperature.
   4. zone_feasible_model : the same with the duties the MODEL assigns (assign_hot / assign_cold): the step profile is bounded
      by the pocket-free demand profiles by C04_level_feasible_hot / _cold; residual hypothesis: those profiles lie under the GCC.
   5. zones_sum / site_lower_bound_from_zones : the inequality adds up over zones (heat_above_app), utilities of equal range
      merge by adding duties (vsum, the Total-Process-Target rule), and with site_Qh_ge_direct:
         Dnet(all site streams) T <= site_Qh + sum of the zonal closing errors       for every T. *)
From OP Require Import gen.Consts model.Base model.Stream model.Cascade model.CascadeE2E model.Site
  proofs.BaseFacts proofs.CascadeSpec proofs.CascadeExact proofs.CascadeTargets proofs.CascadeGrid proofs.SiteFacts.
From OP Require Import model.Utility proofs.UtilityLadder proofs.UtilityDuty proofs.UtilityProfile proofs.UtilityWitness.
From Coq Require Import Lqa Lia.
Local Open Scope Q_scope.
Local Arguments Qred : simpl never.

(* ---------- a utility with its duty as a stream view: range [t_min*, t_max*], CP = duty / range ---------- *)
Definition uview (u : ustar) (q : Q) : view := mkV (u_tmins u) (u_tmaxs u) (q / (u_tmaxs u - u_tmins u)).
Definition uviews (us : list ustar) (d : list Q) : list view := map (fun p => uview (fst p) (snd p)) (combine us d).
Definition ladder_ok (us : list ustar) : Prop := forall u, In u us -> u_tmins u < u_tmaxs u.

Lemma uview_wf u q : u_tmins u < u_tmaxs u -> 0 <= q -> wfv (uview u q).
Proof.
  intros H Hq. unfold wfv, uview. cbn [lo hi vcp]. split; [exact H|].
  unfold Qdiv. apply Qmult_le_0_compat; [exact Hq|]. apply Qinv_le_0_compat. lra.
Qed.
Lemma uviews_wfs us : forall d, ladder_ok us -> Forall (fun q => 0 <= q) d -> wfs (uviews us d).
Proof.
  unfold wfs, uviews. induction us as [|u us IH]; intros d L F; [constructor|]. destruct d as [|q d]; [constructor|].
  inversion F as [|? ? Hq F']; subst. cbn [combine map fst snd]. constructor.
  - apply uview_wf; [apply L; left; reflexivity|exact Hq].
  - apply IH; [intros u' Hu'; apply L; right; exact Hu'|exact F'].
Qed.

(* heat released above T by one utility: all of it below its range, nothing above it *)
Lemma uview_above_all u q T : u_tmins u < u_tmaxs u -> T <= u_tmins u -> vcp (uview u q) * above (uview u q) T == q.
Proof.
  intros H HT. rewrite (above_bottom (uview u q) T); cbn [lo hi vcp uview]; try lra. field. lra.
Qed.
Lemma uview_above_none u q T : u_tmaxs u <= T -> vcp (uview u q) * above (uview u q) T == 0.
Proof. intro HT. rewrite (above_top (uview u q) T); [ring|exact HT]. Qed.

Lemma heat_above_cons s ss T : heat_above (s :: ss) T = vcp s * above s T + heat_above ss T.
Proof. reflexivity. Qed.

(* ---------- step form at a temperature clear of the ladder ---------- *)
Definition pt_clear (x : Q) (u : ustar) : Prop := x <= u_tmins u \/ u_tmaxs u <= x.
Definition uvp (p : ustar * Q) : view := uview (fst p) (snd p).

Lemma heat_above_step (l : list (ustar * Q)) x :
  (forall p, In p l -> u_tmins (fst p) < u_tmaxs (fst p)) -> (forall p, In p l -> pt_clear x (fst p)) ->
  heat_above (map uvp l) x == qsum (map (fun p => if qleb x (u_tmins (fst p)) then snd p else 0) l).
Proof.
  induction l as [|p l IH]; intros L C; [reflexivity|]. cbn [map]. rewrite heat_above_cons, qsum_cons.
  rewrite IH by (intros p' Hp'; first [apply L|apply C]; right; exact Hp').
  assert (Lp := L p (or_introl eq_refl)). assert (Cp := C p (or_introl eq_refl)). unfold uvp at 1 2.
  destruct (qleb x (u_tmins (fst p))) eqn:E.
  - apply qleb_true in E. rewrite (uview_above_all _ _ _ Lp E). reflexivity.
  - apply qleb_false in E. destruct Cp as [Cp|Cp]; [lra|]. rewrite (uview_above_none _ _ _ Cp). reflexivity.
Qed.
(* hot side: "wholly above x" is the complement of "wholly at or below x" *)
Lemma step_complement (l : list (ustar * Q)) x :
  (forall p, In p l -> u_tmins (fst p) < u_tmaxs (fst p)) -> (forall p, In p l -> pt_clear x (fst p)) ->
  qsum (map (fun p => if qleb x (u_tmins (fst p)) then snd p else 0) l)
  == qsum (map snd l) - qsum (map (fun p => if qleb (u_tmaxs (fst p)) x then snd p else 0) l).
Proof.
  induction l as [|p l IH]; intros L C; [reflexivity|]. cbn [map]. rewrite !qsum_cons.
  rewrite IH by (intros p' Hp'; first [apply L|apply C]; right; exact Hp').
  assert (Lp := L p (or_introl eq_refl)). assert (Cp := C p (or_introl eq_refl)).
  destruct (qleb x (u_tmins (fst p))) eqn:E1; destruct (qleb (u_tmaxs (fst p)) x) eqn:E2;
    try (apply qleb_true in E1); try (apply qleb_false in E1); try (apply qleb_true in E2); try (apply qleb_false in E2);
    try lra; destruct Cp; lra.
Qed.
Lemma map_snd_combine {A B} (a : list A) : forall b : list B, List.length a = List.length b -> map snd (combine a b) = b.
Proof. induction a as [|x a IH]; intros [|y b] H; try discriminate; [reflexivity|]. cbn [combine map snd]. f_equal. apply IH. simpl in H. lia. Qed.
Lemma in_combine_fst {A B} (a : list A) (b : list B) p : In p (combine a b) -> In (fst p) a.
Proof. destruct p as [x y]. intro H. apply in_combine_l in H. exact H. Qed.

(* U at a temperature clear of both ladders = total hot duty - step form of the utility profile (hut_step of Utility.v) *)
Theorem U_step hus cus dh dc x :
  ladder_ok hus -> ladder_ok cus -> List.length hus = List.length dh ->
  (forall u, In u (hus ++ cus) -> pt_clear x u) ->
  U (uviews hus dh) (uviews cus dc) x == qsum dh - hut_step x hus cus dh dc.
Proof.
  intros Lh Lc Hl C. unfold U, uviews, hut_step. fold uvp.
  rewrite (heat_above_step (combine hus dh) x), (heat_above_step (combine cus dc) x).
  - rewrite (step_complement (combine hus dh) x).
    + rewrite (map_snd_combine hus dh Hl). lra.
    + intros p Hp. apply Lh. apply (in_combine_fst _ _ _ Hp).
    + intros p Hp. apply C. apply in_or_app. left. apply (in_combine_fst _ _ _ Hp).
  - intros p Hp. apply Lc. apply (in_combine_fst _ _ _ Hp).
  - intros p Hp. apply C. apply in_or_app. right. apply (in_combine_fst _ _ _ Hp).
  - intros p Hp. apply Lh. apply (in_combine_fst _ _ _ Hp).
  - intros p Hp. apply C. apply in_or_app. left. apply (in_combine_fst _ _ _ Hp).
Qed.

(* ---------- 1. the inequality at the break points implies it everywhere ---------- *)
Lemma Dnet_app h1 h2 c1 c2 T : Dnet (h1 ++ h2) (c1 ++ c2) T == Dnet h1 c1 T + Dnet h2 c2 T.
Proof. unfold Dnet. rewrite !heat_above_app. ring. Qed.
Lemma combined_deficit hotS coldS hu cu T : Dnet (hotS ++ hu) (coldS ++ cu) T == Dnet hotS coldS T - U hu cu T.
Proof. rewrite Dnet_app. unfold U, Dnet. ring. Qed.
Lemma wfs_app a b : wfs a -> wfs b -> wfs (a ++ b).
Proof. unfold wfs. intros. apply Forall_app. split; assumption. Qed.
Lemma endpoints_app a b : endpoints (a ++ b) = endpoints a ++ endpoints b.
Proof. unfold endpoints. apply flat_map_app. Qed.
Lemma endpoints_nil a : endpoints a = [] -> a = [].
Proof. destruct a; [reflexivity|discriminate]. Qed.
Lemma sorted_of_ne es : es <> [] -> sorted_of es <> [].
Proof.
  destruct es as [|e es']; [contradiction|]. intros _ E.
  destruct (sorted_of_has (e :: es') e ltac:(left; reflexivity)) as [z [Hz _]]. rewrite E in Hz. destruct Hz.
Qed.

(* break points of a zone / site: end points of the streams and of the utilities *)
Definition bps (hotS coldS hu cu : list view) : list Q := endpoints (hotS ++ hu) ++ endpoints (coldS ++ cu).

Theorem feasible_from_breakpoints hotS coldS hu cu d :
  wfs hotS -> wfs coldS -> wfs hu -> wfs cu -> 0 <= d ->
  (forall e, In e (bps hotS coldS hu cu) -> Dnet hotS coldS e <= U hu cu e + d) ->
  forall T, Dnet hotS coldS T <= U hu cu T + d.
Proof.
  intros Wh Wc Whu Wcu Hd F T.
  pose (es := bps hotS coldS hu cu).
  assert (Hcase : es = [] \/ es <> []) by (destruct es; [left; reflexivity|right; discriminate]).
  destruct Hcase as [Ees|Ees].
  - (* no stream and no utility at all *)
    unfold es, bps in Ees. apply app_eq_nil in Ees. destruct Ees as [E1 E2].
    apply endpoints_nil in E1. apply endpoints_nil in E2. apply app_eq_nil in E1. apply app_eq_nil in E2.
    destruct E1 as [-> ->]. destruct E2 as [-> ->]. unfold Dnet, U. cbn [heat_above fold_right]. lra.
  - assert (Hne : sorted_of es <> []) by (apply sorted_of_ne; exact Ees).
    assert (Cv : covers (sorted_of es) (eps_all (hotS ++ hu) (coldS ++ cu))).
    { intros e He. apply sorted_of_has. exact He. }
    destruct (sup_on_grid (hotS ++ hu) (coldS ++ cu) (wfs_app _ _ Wh Whu) (wfs_app _ _ Wc Wcu)
                          (sorted_of es) (sorted_of_desc es) Hne Cv T) as [K|[T' [HT' K]]].
    + rewrite combined_deficit in K. lra.
    + rewrite !combined_deficit in K. apply sorted_of_only in HT'. specialize (F T' HT'). lra.
Qed.

(* ---------- 3. one zone, abstract duties ---------- *)
Theorem zone_feasible hot cold hus cus dh dc Qh d :
  wfs hot -> wfs cold -> ladder_ok hus -> ladder_ok cus ->
  Forall (fun q => 0 <= q) dh -> Forall (fun q => 0 <= q) dc -> List.length hus = List.length dh -> 0 <= d ->
  Qh - d <= qsum dh ->
  (forall e u, In e (bps hot cold (uviews hus dh) (uviews cus dc)) -> In u (hus ++ cus) -> pt_clear e u) ->
  (forall e, In e (bps hot cold (uviews hus dh) (uviews cus dc)) -> hut_step e hus cus dh dc <= Qh - Dnet hot cold e) ->
  forall T, Dnet hot cold T <= U (uviews hus dh) (uviews cus dc) T + d.
Proof.
  intros Wh Wc Lh Lc Nh Nc Hl Hd Hsum Hclear Hfeas.
  apply feasible_from_breakpoints; try assumption; try (apply uviews_wfs; assumption).
  intros e He. rewrite (U_step hus cus dh dc e Lh Lc Hl (fun u Hu => Hclear e u He Hu)).
  specialize (Hfeas e He). lra.
Qed.

(* ---------- 4. one zone, the duties the model assigns ---------- *)
Lemma msum_combine {A} (f : A -> bool) (us : list A) : forall d : list Q,
  msum (map f us) d == qsum (map (fun p => if f (fst p) then snd p else 0) (combine us d)).
Proof.
  induction us as [|u us IH]; intros [|q d]; try reflexivity. cbn [map combine msum fst snd]. rewrite qsum_cons, IH. reflexivity.
Qed.
Lemma msum_app m1 : forall m2 l1 l2, List.length m1 = List.length l1 -> msum (m1 ++ m2) (l1 ++ l2) == msum m1 l1 + msum m2 l2.
Proof.
  induction m1 as [|b m1 IH]; intros m2 [|x l1] l2 H; try discriminate; cbn [app msum]; [lra|].
  rewrite IH by (simpl in H; lia). lra.
Qed.
Lemma msum_rev m : forall l, List.length m = List.length l -> msum (rev m) (rev l) == msum m l.
Proof.
  induction m as [|b m IH]; intros [|x l] H; try discriminate; [reflexivity|]. cbn [rev].
  rewrite msum_app by (rewrite !rev_length; simpl in H; lia). rewrite IH by (simpl in H; lia). cbn [msum]. lra.
Qed.
Lemma zeros_length {A} (l : list A) : List.length (zeros l) = List.length l.
Proof. unfold zeros. apply map_length. Qed.
Lemma assign_loop_length tolv ivs limit l : forall qa, List.length (assign_loop tolv ivs limit l qa) = List.length l.
Proof.
  induction l as [|u l IH]; intro qa; [reflexivity|]. cbn [assign_loop List.length]. f_equal.
  destruct (qltb (Qabs (rsub limit (if qltb tolv (max_duty tolv ivs (us u) (utg u) qa) then radd qa (max_duty tolv ivs (us u) (utg u) qa) else qa))) tolv);
    [apply zeros_length|apply IH].
Qed.
Lemma assign_hot_length tolv T H rh hus : List.length (assign_hot tolv T H rh hus) = List.length hus.
Proof. unfold assign_hot. rewrite rev_length, assign_loop_length, map_length, rev_length. reflexivity. Qed.
Lemma assign_cold_length tolv T H rc cus : List.length (assign_cold tolv T H rc cus) = List.length cus.
Proof. unfold assign_cold. rewrite assign_loop_length, map_length. reflexivity. Qed.

(* C04's two level-feasibility theorems, put together in the step form of the utility profile: for ANY ladders (glides
   included) the utility step profile of the model's duties lies under the sum of the two pocket-free demand profiles *)
Theorem hut_step_le_profiles Tg Hh Hc rh rc hus cus x :
  let Ts := firstn (S rh) Tg in let Hs := firstn (S rh) Hh in
  let k := Nat.max (rc - 1) 0 in let Tc := skipn k Tg in let Hk := skipn k Hc in
  strict_desc Ts = true -> noninc Hs = true -> List.length Ts = List.length Hs -> 0 <= Utility.lastq Hs ->
  strict_desc Tc = true -> noninc (rev Hk) = true -> List.length Tc = List.length Hk -> 0 <= headq Hk ->
  hut_step x hus cus (assign_hot tol Tg Hh rh hus) (assign_cold tol Tg Hc rc cus)
  <= prow tol Ts Hs x + prow_cold tol Tc Hk x.
Proof.
  intros Ts Hs k Tc Hk A1 A2 A3 A4 B1 B2 B3 B4. unfold hut_step.
  pose proof (hot_level_feasible tol tol_pos Tg Hh rh hus x A1 A2 A3 A4) as F1.
  pose proof (cold_level_feasible tol tol_pos Tg Hc rc cus x B1 B2 B3 B4) as F2.
  rewrite map_rev, msum_rev in F1 by (rewrite map_length, assign_hot_length; reflexivity).
  rewrite msum_combine in F1. rewrite msum_combine in F2. fold Ts Hs in F1. fold k Tc Hk in F2. lra.
Qed.

Theorem zone_feasible_model hot cold Tg Hh Hc rh rc hus cus Qh :
  let Ts := firstn (S rh) Tg in let Hs := firstn (S rh) Hh in
  let k := Nat.max (rc - 1) 0 in let Tc := skipn k Tg in let Hk := skipn k Hc in
  let dh := assign_hot tol Tg Hh rh hus in let dc := assign_cold tol Tg Hc rc cus in
  wfs hot -> wfs cold -> ladder_ok hus -> ladder_ok cus ->
  (* the hypotheses of C04_level_feasible_hot / _cold: pocket-free profiles on strictly descending rows *)
  strict_desc Ts = true -> noninc Hs = true -> List.length Ts = List.length Hs -> 0 <= Utility.lastq Hs ->
  strict_desc Tc = true -> noninc (rev Hk) = true -> List.length Tc = List.length Hk -> 0 <= headq Hk ->
  (* C03: the hot sum closes to tol (C03_sum_hot_partial / C03_sum_closes_on_model_grid_hot_partial give this with Qh = H[0]) *)
  Qh - tol <= qsum dh ->
  (* isothermal ladders: no break point strictly inside the range of a utility *)
  (forall e u, In e (bps hot cold (uviews hus dh) (uviews cus dc)) -> In u (hus ++ cus) -> pt_clear e u) ->
  (* RESIDUAL: the pocket-free demand profiles handed to the targeting lie under the zone's grand composite curve *)
  (forall e, In e (bps hot cold (uviews hus dh) (uviews cus dc)) -> prow tol Ts Hs e + prow_cold tol Tc Hk e <= Qh - Dnet hot cold e) ->
  forall T, Dnet hot cold T <= U (uviews hus dh) (uviews cus dc) T + tol.
Proof.
  intros Ts Hs k Tc Hk dh dc Wh Wc Lh Lc A1 A2 A3 A4 B1 B2 B3 B4 Hsum Hclear Hres.
  apply (zone_feasible hot cold hus cus dh dc Qh tol); try assumption.
  - apply assign_hot_nonneg. exact tol_pos.
  - apply assign_cold_nonneg. exact tol_pos.
  - unfold dh. rewrite assign_hot_length. reflexivity.
  - pose proof tol_pos. lra.
  - intros e He. eapply Qle_trans; [|apply Hres; exact He].
    apply (hut_step_le_profiles Tg Hh Hc rh rc hus cus e); assumption.
Qed.

(* the same with the closing of the hot sum discharged by C03 (assign_hot_sum_closes = C03_sum_hot_partial): one utility u of
   the hot ladder clear of the rows that reaches the top row.  Qh is the top of the heating-demand profile. *)
Corollary zone_feasible_model_C03 hot cold Tg Hh Hc rh rc hus cus u :
  let Ts := firstn (S rh) Tg in let Hs := firstn (S rh) Hh in
  let k := Nat.max (rc - 1) 0 in let Tc := skipn k Tg in let Hk := skipn k Hc in
  let dh := assign_hot tol Tg Hh rh hus in let dc := assign_cold tol Tg Hc rc cus in
  wfs hot -> wfs cold -> ladder_ok hus -> ladder_ok cus ->
  strict_desc Ts = true -> noninc Hs = true -> List.length Ts = List.length Hs -> 0 <= Utility.lastq Hs -> Utility.lastq Hs <= tol ->
  tol < headq Hs -> In u hus -> clear_hot tol Ts u = true -> - tol <= u_tmaxs u - List.hd 0 Ts ->
  strict_desc Tc = true -> noninc (rev Hk) = true -> List.length Tc = List.length Hk -> 0 <= headq Hk ->
  (forall e v, In e (bps hot cold (uviews hus dh) (uviews cus dc)) -> In v (hus ++ cus) -> pt_clear e v) ->
  (forall e, In e (bps hot cold (uviews hus dh) (uviews cus dc)) ->
             prow tol Ts Hs e + prow_cold tol Tc Hk e <= headq Hs - Dnet hot cold e) ->
  forall T, Dnet hot cold T <= U (uviews hus dh) (uviews cus dc) T + tol.
Proof.
  intros Ts Hs k Tc Hk dh dc Wh Wc Lh Lc A1 A2 A3 A4 A5 A6 Hin Hcl Htop B1 B2 B3 B4 Hclear Hres.
  apply (zone_feasible_model hot cold Tg Hh Hc rh rc hus cus (headq Hs)); try assumption.
  apply (assign_hot_sum_closes tol tol_pos Tg Hh rh hus u); try assumption.
  apply Qlt_le_weak. apply Lh. exact Hin.
Qed.

(* ---------- 5. sums over zones ---------- *)
Record zdat := mkZd { zd_hot : list view; zd_cold : list view; zd_dh : list Q; zd_dc : list Q; zd_err : Q }.
Definition zsum (f : zdat -> Q) (zs : list zdat) : Q := fold_right (fun z a => f z + a) 0 zs.

Lemma heat_above_flat {A} (f : A -> list view) (zs : list A) T :
  heat_above (flat_map f zs) T == fold_right (fun z a => heat_above (f z) T + a) 0 zs.
Proof. induction zs as [|z zs IH]; [reflexivity|]. cbn [flat_map fold_right]. rewrite heat_above_app, IH. reflexivity. Qed.

(* every zone keeps its own copy of the utilities: the site ladder is the concatenation *)
Theorem zones_sum hus cus (zs : list zdat) :
  Forall (fun z => forall T, Dnet (zd_hot z) (zd_cold z) T <= U (uviews hus (zd_dh z)) (uviews cus (zd_dc z)) T + zd_err z) zs ->
  forall T, Dnet (flat_map zd_hot zs) (flat_map zd_cold zs) T
            <= U (flat_map (fun z => uviews hus (zd_dh z)) zs) (flat_map (fun z => uviews cus (zd_dc z)) zs) T + zsum zd_err zs.
Proof.
  intros F T. unfold Dnet, U. rewrite !heat_above_flat.
  induction F as [|z zs Hz _ IH]; cbn [fold_right zsum]; [lra|]. specialize (Hz T). unfold Dnet, U in Hz. unfold zsum in IH. lra.
Qed.

(* utilities of equal range merge by adding their duties (Total Process Target: utility by utility, vsum of Utility.v) *)
Lemma heat_above_uviews_zero us T : forall n, heat_above (uviews us (repeat 0 n)) T == 0.
Proof.
  unfold uviews. induction us as [|u us IH]; intros [|n]; try reflexivity. cbn [repeat combine map fst snd].
  rewrite heat_above_cons, IH. unfold uview. cbn [vcp]. unfold Qdiv. ring.
Qed.
Lemma heat_above_uviews_add us T : forall d1 d2, List.length d1 = List.length d2 ->
  heat_above (uviews us (map (fun p => fst p + snd p) (combine d1 d2))) T == heat_above (uviews us d1) T + heat_above (uviews us d2) T.
Proof.
  unfold uviews. induction us as [|u us IH]; intros [|a d1] [|b d2] H; try discriminate; try (cbn; lra).
  cbn [combine map fst snd]. rewrite !heat_above_cons. rewrite IH by (simpl in H; lia).
  unfold uview, above. cbn [vcp lo hi]. unfold Qdiv. ring.
Qed.
Lemma vsum_length ls n : Forall (fun l => List.length l = n) ls -> List.length (vsum ls n) = n.
Proof.
  induction 1 as [|l ls Hl _ IH]; cbn [vsum]; [apply repeat_length|]. rewrite map_length, combine_length, IH, Hl. apply Nat.min_id.
Qed.
Lemma heat_above_uviews_vsum us T ls n : Forall (fun l => List.length l = n) ls ->
  heat_above (uviews us (vsum ls n)) T == fold_right (fun l a => heat_above (uviews us l) T + a) 0 ls.
Proof.
  induction 1 as [|l ls Hl F IH]; cbn [vsum fold_right]; [apply heat_above_uviews_zero|].
  rewrite heat_above_uviews_add by (rewrite vsum_length; assumption). rewrite IH. reflexivity.
Qed.
Lemma vsum_nonneg ls n : Forall (Forall (fun q => 0 <= q)) ls -> Forall (fun q => 0 <= q) (vsum ls n).
Proof.
  induction 1 as [|l ls Hl _ IH]; cbn [vsum].
  - induction n; constructor; [lra|assumption].
  - revert IH. generalize (vsum ls n). induction Hl as [|a l Ha _ IHl]; intros [|b r] Hr; cbn [combine map]; constructor.
    + inversion Hr; subst. cbn [fst snd]. lra.
    + apply IHl. inversion Hr; assumption.
Qed.

Theorem U_merged hus cus (zs : list zdat) T :
  Forall (fun z => List.length (zd_dh z) = List.length hus /\ List.length (zd_dc z) = List.length cus) zs ->
  U (uviews hus (vsum (map zd_dh zs) (List.length hus))) (uviews cus (vsum (map zd_dc zs) (List.length cus))) T
  == U (flat_map (fun z => uviews hus (zd_dh z)) zs) (flat_map (fun z => uviews cus (zd_dc z)) zs) T.
Proof.
  intro L. unfold U. rewrite !heat_above_flat.
  rewrite !heat_above_uviews_vsum.
  - induction zs as [|z zs IH]; cbn [map fold_right]; [reflexivity|]. inversion L; subst.
    assert (IH' := IH ltac:(assumption)). lra.
  - apply Forall_map. eapply Forall_impl; [|exact L]. intros z [_ B]. exact B.
  - apply Forall_map. eapply Forall_impl; [|exact L]. intros z [A _]. exact A.
Qed.

(* C09 lower bound from zonal feasibility.  hus / cus: the site's utilities (every zone targets against the same list);
   site utilities carry the summed zonal duties; g: any descending grid covering the utilities' end points with rows more
   than the window apart (what SiteFacts.v needs for the site cascade).  Conclusion: the total-site hot target is at least the
   net deficit of ALL site streams above ANY temperature -- i.e. at least the site's own direct-integration target --
   up to the sum of the zonal closing errors (each <= tol by C03). *)
Theorem site_lower_bound_from_zones w hus cus (zs : list zdat) g :
  let hu := uviews hus (vsum (map zd_dh zs) (List.length hus)) in
  let cu := uviews cus (vsum (map zd_dc zs) (List.length cus)) in
  0 < w -> ladder_ok hus -> ladder_ok cus -> desc g -> g <> [] -> covers g (eps_all hu cu) -> gaps_ok w 0 g ->
  Forall (fun z => List.length (zd_dh z) = List.length hus /\ List.length (zd_dc z) = List.length cus
                   /\ Forall (fun q => 0 <= q) (zd_dh z) /\ Forall (fun q => 0 <= q) (zd_dc z)) zs ->
  Forall (fun z => forall T, Dnet (zd_hot z) (zd_cold z) T <= U (uviews hus (zd_dh z)) (uviews cus (zd_dc z)) T + zd_err z) zs ->
  forall T, Dnet (flat_map zd_hot zs) (flat_map zd_cold zs) T <= site_Qh w hu cu g + zsum zd_err zs.
Proof.
  intros hu cu Hw Lh Lc Hd Hne Hcov Hgap Hz Hf T.
  assert (Whu : wfs hu).
  { apply uviews_wfs; [exact Lh|]. apply vsum_nonneg. apply Forall_map. eapply Forall_impl; [|exact Hz]. intros z [_ [_ [A _]]]. exact A. }
  assert (Wcu : wfs cu).
  { apply uviews_wfs; [exact Lc|]. apply vsum_nonneg. apply Forall_map. eapply Forall_impl; [|exact Hz]. intros z [_ [_ [_ B]]]. exact B. }
  pose proof (zones_sum hus cus zs Hf T) as S.
  rewrite <- (U_merged hus cus zs T) in S by (eapply Forall_impl; [|exact Hz]; intros z [A [B _]]; split; assumption).
  fold hu cu in S.
  assert (UB : U hu cu T <= site_Qh w hu cu g).
  { apply (site_Qh_ge_direct w Hw hu cu Whu Wcu g Hd Hne Hcov Hgap cu hu); intro T0; unfold U, Dnet; lra. }
  lra.
Qed.

(* the same in one statement with the zonal hypotheses of `zone_feasible` (abstract duties) *)
Theorem site_lower_bound_from_zonal_feasibility w hus cus (zs : list zdat) (qh : zdat -> Q) g :
  let hu := uviews hus (vsum (map zd_dh zs) (List.length hus)) in
  let cu := uviews cus (vsum (map zd_dc zs) (List.length cus)) in
  0 < w -> ladder_ok hus -> ladder_ok cus -> desc g -> g <> [] -> covers g (eps_all hu cu) -> gaps_ok w 0 g ->
  Forall (fun z =>
    wfs (zd_hot z) /\ wfs (zd_cold z)
    /\ List.length (zd_dh z) = List.length hus /\ List.length (zd_dc z) = List.length cus
    /\ Forall (fun q => 0 <= q) (zd_dh z) /\ Forall (fun q => 0 <= q) (zd_dc z)                         (* C03_duties_nonneg *)
    /\ 0 <= zd_err z /\ qh z - zd_err z <= qsum (zd_dh z)                                                  (* C03: the hot sum closes *)
    /\ (forall e u, In e (bps (zd_hot z) (zd_cold z) (uviews hus (zd_dh z)) (uviews cus (zd_dc z))) -> In u (hus ++ cus) -> pt_clear e u)
    /\ (forall e, In e (bps (zd_hot z) (zd_cold z) (uviews hus (zd_dh z)) (uviews cus (zd_dc z))) ->       (* C04: H_ut <= GCC *)
                  hut_step e hus cus (zd_dh z) (zd_dc z) <= qh z - Dnet (zd_hot z) (zd_cold z) e)) zs ->
  forall T, Dnet (flat_map zd_hot zs) (flat_map zd_cold zs) T <= site_Qh w hu cu g + zsum zd_err zs.
Proof.
  intros hu cu Hw Lh Lc Hd Hne Hcov Hgap Hz.
  apply (site_lower_bound_from_zones w hus cus zs g); try assumption.
  - eapply Forall_impl; [|exact Hz]. intros z [_ [_ [A [B [C [D _]]]]]]. repeat split; assumption.
  - eapply Forall_impl; [|exact Hz]. intros z [Wh [Wc [A [B [C [D [E [F [G H]]]]]]]]].
    apply (zone_feasible (zd_hot z) (zd_cold z) hus cus (zd_dh z) (zd_dc z) (qh z) (zd_err z)); try assumption. symmetry; exact A.
Qed.

(* ---------- non-vacuity: two zones, one hot utility 200..200.1, one cold 10..10.1; zone 1: cold stream 50->100 CP 1
   (Qh = 50, dh = [50]); zone 2: hot stream 150->60 CP 1 (Qc = 90, dc = [90]).  The zonal hypotheses hold with error 0; the
   site needs Qh >= 0 only (the hot stream of zone 2 can heat the cold stream of zone 1): Dnet_site <= 50 everywhere ---------- *)
Definition nv_hus : list ustar := [mkUS 200 (2001 # 10) (1 # 10)].
Definition nv_cus : list ustar := [mkUS 10 (101 # 10) (1 # 10)].
Definition nv_z1 : zdat := mkZd [] [mkV 50 100 1] [50] [0] 0.
Definition nv_z2 : zdat := mkZd [mkV 60 150 1] [] [0] [90] 0.
Definition nv_qh (z : zdat) : Q := qsum (zd_dh z).
Example site_bound_nonvacuous :
  forallb (fun z =>
    forallb (fun e => forallb (fun u => qleb e (u_tmins u) || qleb (u_tmaxs u) e) (nv_hus ++ nv_cus)
                      && qleb (hut_step e nv_hus nv_cus (zd_dh z) (zd_dc z)) (nv_qh z - Dnet (zd_hot z) (zd_cold z) e))
            (bps (zd_hot z) (zd_cold z) (uviews nv_hus (zd_dh z)) (uviews nv_cus (zd_dc z)))) [nv_z1; nv_z2] = true
  /\ vsum (map zd_dh [nv_z1; nv_z2]) 1 = [50] /\ vsum (map zd_dc [nv_z1; nv_z2]) 1 = [90].
Proof. vm_compute. repeat split; reflexivity. Qed.
