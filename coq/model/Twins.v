(* C12: relation between a record of a problem and the corresponding record of its transformed twin. *)
From OP Require Import gen.Consts model.Base.
Local Open Scope Q_scope.

Record trec := mkT { t_qh : Q; t_qc : Q; t_qr : Q; t_hu : list Q; t_cu : list Q; t_cold : option Q; t_hot : option Q }.
Definition opt_near (eps : Q) (a b : option Q) : bool :=
  match a, b with Some x, Some y => close_abs eps x y | None, None => true | _, _ => false end.
(* hot pinch defaults to the cold one when only cold_temp is serialised *)
Definition th_of (r : trec) : option Q := match t_hot r with Some t => Some t | None => t_cold r end.
Fixpoint near_list (sc : Q) (a b : list Q) : bool :=
  match a, b with [], [] => true | x :: r, y :: s => qleb (Qabs (x - y)) sc && near_list sc r s | _, _ => false end.
(* mode 0 = same results; 1 = translated by d; 2 = duties scaled by k; 3 = mirrored *)
(* [slack]: absolute allowance for the 6-decimal rounding of the temperature grid when the translation is not a multiple of 1e-6 K
   (2e-6 K x sum of the heat-capacity flow rates, computed by the harness; 0 for every other transformation) *)
Definition c12_b (mode : Z) (k d slack : Q) (a b : trec) : list Z :=
  let sc := eps6 * Qmax 1 (Qmax (Qabs (t_qh a) + Qabs (t_qc a) + Qabs (t_qr a)) (Qabs (t_qh b) + Qabs (t_qc b) + Qabs (t_qr b))) + slack in
  let nr := fun x y => qleb (Qabs (x - y)) sc in
  let tsl := 1 # 100000 in
  if Z.eqb mode 3 then
    if negb (nr (t_qh b) (t_qc a) && nr (t_qc b) (t_qh a) && nr (t_qr b) (t_qr a)) then [V_PROP_FALSE; 121%Z]
    else if negb (near_list sc (t_hu b) (t_cu a) && near_list sc (t_cu b) (t_hu a)) then [V_PROP_FALSE; 122%Z]
    else if negb (opt_near tsl (t_cold b) (option_map Qopp (th_of a)) && opt_near tsl (th_of b) (option_map Qopp (t_cold a))) then [V_PROP_FALSE; 123%Z]
    else [V_AGREE]
  else
    let kk := if Z.eqb mode 2 then k else 1 in
    let dd := if Z.eqb mode 1 then d else 0 in
    if negb (nr (t_qh b) (kk * t_qh a) && nr (t_qc b) (kk * t_qc a) && nr (t_qr b) (kk * t_qr a)) then [V_PROP_FALSE; 121%Z]
    else if negb (near_list sc (t_hu b) (map (fun x => kk * x) (t_hu a)) && near_list sc (t_cu b) (map (fun x => kk * x) (t_cu a))) then [V_PROP_FALSE; 122%Z]
    else if negb (opt_near tsl (t_cold b) (option_map (fun x => x + dd) (t_cold a)) && opt_near tsl (th_of b) (option_map (fun x => x + dd) (th_of a))) then [V_PROP_FALSE; 123%Z]
    else [V_AGREE].
