(* C20 -- executable side of the heat-exchanger check.  The real-valued model itself is GENERATED (gen/Scalar.v,
   gen/HxDispatch.v); this file holds what is evaluated by vm_compute on every run:
   - which arrangements have a closed-form NTU (the other two are inverted numerically),
   - the boolean predicates P_b evaluated on the implementation's own (float, hence rational) outputs,
   - the judge functions that turn them into verdict codes.
   No proofs here. *)
From OP Require Import gen.Consts gen.HxDispatch model.Base.
From Coq Require Import String.
Local Open Scope Q_scope.

(* arrangements inverted in closed form by HX_NTU (CrFUU and CrFMM go through the secant solver) *)
Definition closed_form (a : hx) : bool :=
  match a with hx_CF | hx_PF | hx_CrFMUmax | hx_CrFMUmin | hx_ShellTube | hx_CondEvap => true | hx_CrFUU | hx_CrFMM => false end.

(* ---- dispatch observed on the implementation ----
   The harness calls HX_Eff / HX_NTU with the member and with its text at probe points where all eight formulas give
   pairwise different values, and reports for each label the index (in hx_all) of the arrangement whose value was
   returned (8 = none).  The judge compares it with the generated table. *)
Fixpoint hx_index_in (l : list hx) (a : hx) (k : nat) : nat :=
  match l with [] => k | x :: r => if hx_beq x a then k else hx_index_in r a (S k) end.
Definition hx_index (a : hx) : nat := hx_index_in hx_all a 0.
Definition eff_branch_index (b : eff_branch) : nat :=
  match find (fun a => opt_branch_eqb eff_branch_beq b (eff_own a)) hx_all with Some a => hx_index a | None => List.length hx_all end.
Definition ntu_branch_index (b : ntu_branch) : nat :=
  match find (fun a => opt_branch_eqb ntu_branch_beq b (ntu_own a)) hx_all with Some a => hx_index a | None => List.length hx_all end.

(* verdict for one label: observed branch indexes of HX_Eff and HX_NTU on the implementation *)
Definition judge_dispatch (a : hx) (f : lform) (obs_eff obs_ntu : nat) : list Z :=
  let l := mk_label a f in
  if negb (Nat.eqb (eff_branch_index (eff_dispatch l)) obs_eff) then [V_MISMATCH; 1%Z]
  else if negb (Nat.eqb (ntu_branch_index (ntu_dispatch l)) obs_ntu) then [V_MISMATCH; 2%Z]
  else if negb (Nat.eqb obs_eff (hx_index a)) then [V_PROP_FALSE; 1%Z]
  else if negb (Nat.eqb obs_ntu (hx_index a)) then [V_PROP_FALSE; 2%Z]
  else [V_AGREE].

(* ---- LMTD clauses on the implementation's outputs (exact in Q: the float result as a rational) ----
   a, b the end differences, m = compute_LMTD_from_dts(a, b), m' = compute_LMTD_from_dts(b, a).
   Bounds are exact real-number facts (theorems lmtd_bounds); the float result may miss them by rounding only,
   hence the relative slack eps (1e-12 .. 1e-9) passed by the harness. *)
Definition lmtd_ok_b (eps a b m m' : Q) : list Z :=
  let lo := Qmin a b in let mean := (a + b) / 2 in
  if negb (qleb (lo * (1 - eps)) m) then [V_PROP_FALSE; 1%Z]
  else if negb (qleb m (mean * (1 + eps))) then [V_PROP_FALSE; 2%Z]
  else if negb (close eps m m') then [V_PROP_FALSE; 3%Z]
  else [V_AGREE].
(* refusal: the implementation must raise exactly when the smaller difference rounds (6 dp) to <= 0 *)
Definition round6_nonpos (x : Q) : bool := qleb x (1 # 2000000).
Definition round6_fragile (x : Q) : bool := qleb (Qabs (x - (1 # 2000000))) (1 # 1000000000000).
Definition lmtd_refusal_b (a b : Q) (raised : bool) : list Z :=
  if round6_fragile a || round6_fragile b then [V_FRAGILE]
  else if Bool.eqb raised (round6_nonpos a || round6_nonpos b) then [V_AGREE] else [V_PROP_FALSE; 4%Z].

(* ---- effectiveness clauses on the implementation's outputs ----
   es : effectiveness at increasing NTU (same arrangement, label, c, passes); ecf : counter-flow value at the same points;
   ec0 : optional expected value 1 - exp(-NTU) (as computed by the harness with math.exp) when c = 0. *)
Fixpoint nondecreasing (eps : Q) (l : list Q) (k : Z) : Z :=
  match l with
  | x :: ((y :: _) as r) => if qleb x (y + eps) then nondecreasing eps r (k + 1)%Z else k
  | _ => (-1)%Z
  end.
Fixpoint first_bad (p : Q -> Q -> bool) (l1 l2 : list Q) (k : Z) : Z :=
  match l1, l2 with
  | x :: r1, y :: r2 => if p x y then first_bad p r1 r2 (k + 1)%Z else k
  | _, _ => (-1)%Z
  end.
Definition in_unit (eps x : Q) : bool := qleb (- eps) x && qleb x (1 + eps).
Fixpoint first_out (eps : Q) (l : list Q) (k : Z) : Z :=
  match l with x :: r => if in_unit eps x then first_out eps r (k + 1)%Z else k | [] => (-1)%Z end.

Fixpoint first_bad_opt (p : Q -> Q -> bool) (l1 : list Q) (l2 : list (option Q)) (k : Z) : Z :=
  match l1, l2 with
  | x :: r1, Some y :: r2 => if p x y then first_bad_opt p r1 r2 (k + 1)%Z else k
  | _ :: r1, None :: r2 => first_bad_opt p r1 r2 (k + 1)%Z
  | _, _ => (-1)%Z
  end.

(* one row of the sweep = one (arrangement, label form, c, passes) with effectiveness `es` at increasing NTU `ns`.
   Result: six integers, one per clause, -1 = clause holds on the whole row, k >= 0 = index of the first point where it fails:
     1 range [0,1]; 2 non-decreasing in NTU; 3 <= counter-flow value `ecf`; 4 value at c = 0 (`c0` empty unless c = 0);
     5 HX_NTU(HX_Eff(N)) = N (`nb`, None where not applicable: numerically inverted arrangements, eff outside (0,1));
     6 HX_Eff(HX_NTU(e)) = e (`eb`).
   eps: slack for float rounding (1e-12); tn: relative tolerance of the NTU round trip; te: absolute tolerance of the
   effectiveness round trip (1e-9 closed form, passes * 1e-5 * 1.01 for the secant solver). *)
Definition judge_eff_row (eps tn te : Q) (ns es ecf c0 : list Q) (nb eb : list (option Q)) : list Z :=
  [ first_out eps es 0;
    nondecreasing eps es 0;
    first_bad (fun e cf => qleb e (cf + eps)) es ecf 0;
    first_bad (fun e v => close_abs (eps * 10) e v) es c0 0;
    first_bad_opt (fun n nb => close tn n nb) ns nb 0;
    first_bad_opt (fun e eb => close_abs te e eb) es eb 0 ].
