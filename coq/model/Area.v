(* C15 -- area target: executable model in Q of the parts of analysis/capital_cost_and_area_targeting.py that are
   rational (get_balanced_CC, _map_interval_resistances_to_tdf, the final sum of get_area_targets), the INDEPENDENT
   specification of the area target built from the streams and the utility duties (enthalpy intervals of the two
   composite curves, duty-weighted film resistances), and the judge functions.  The log-mean temperature difference
   is transcendental: every function here takes the LMTD values as data (floats of the implementation's own
   compute_LMTD_from_dts, the function verified in C20) and the judge checks each one against the proved bounds
   min <= LMTD <= arithmetic mean for ITS OWN exact end differences.  No proofs here. *)
From OP Require Import gen.Consts model.Base.
Local Open Scope Q_scope.

(* ------------------------------------------------------------------ get_balanced_CC *)
Fixpoint vadd (a b : list Q) : list Q :=
  match a, b with x :: r, y :: s => radd x y :: vadd r s | _, _ => [] end.
(* np.insert(H[:-1] - H[1:], 0, 0) *)
Fixpoint diffs (h : list Q) : list Q :=
  match h with x :: ((y :: _) as r) => rsub x y :: diffs r | _ => [] end.
Definition dH_col (h : list Q) : list Q := 0 :: diffs h.
(* R = (RCP + RCP_ut) * dT / dH where dH > tol, else 0 *)
Fixpoint r_bal (tolv : Q) (rcp rcput dT dH : list Q) : list Q :=
  match rcp, rcput, dT, dH with
  | a :: r1, b :: r2, t :: r3, d :: r4 =>
      (if qltb tolv d then rdiv (rmul (radd a b) t) d else 0) :: r_bal tolv r1 r2 r3 r4
  | _, _, _, _ => []
  end.
Record balanced := mkBal { b_hhot : list Q; b_hcold : list Q; b_rcph : list Q; b_rcpc : list Q; b_rhot : list Q; b_rcold : list Q }.
Definition balanced_cc (tolv : Q) (Hh Hc Hhu Hcu dT RCPh RCPc RCPhu RCPcu : list Q) : balanced :=
  let hb := vadd Hh Hhu in let cb := vadd Hc Hcu in
  mkBal hb cb (vadd RCPh RCPhu) (vadd RCPc RCPcu) (r_bal tolv RCPh RCPhu dT (dH_col hb)) (r_bal tolv RCPc RCPcu dT (dH_col cb)).
Definition span (h : list Q) : Q := rsub (hd 0 h) (last h 0).

Definition judge_balanced (Hh Hc Hhu Hcu dT RCPh RCPc RCPhu RCPcu : list Q) (o_hb o_cb o_rcph o_rcpc o_rh o_rc : list Q) : list Z :=
  let m := balanced_cc tol Hh Hc Hhu Hcu dT RCPh RCPc RCPhu RCPcu in
  if negb (close_list eps9 (b_hhot m) o_hb) then [V_MISMATCH; 1%Z]
  else if negb (close_list eps9 (b_hcold m) o_cb) then [V_MISMATCH; 2%Z]
  else if negb (close_list eps9 (b_rcph m) o_rcph && close_list eps9 (b_rcpc m) o_rcpc) then [V_MISMATCH; 3%Z]
  else if negb (close_list eps9 (b_rhot m) o_rh) then [V_MISMATCH; 4%Z]
  else if negb (close_list eps9 (b_rcold m) o_rc) then [V_MISMATCH; 5%Z]
  else [V_AGREE].

(* ------------------------------------------------------------------ _map_interval_resistances_to_tdf *)
(* temperature bands k = 1..n-1 of T_vals (descending): [T_k, T_{k-1}]; an enthalpy interval with hot ends t1 <= t2 takes the
   resistance of every band with  t1 >= lower - tol  and  t2 <= upper + tol  (summed) *)
Fixpoint band_sum (tolv : Q) (ts rs : list Q) (t1 t2 : Q) : Q :=
  match ts, rs with
  | up :: ((lo :: _) as tr), _ :: ((r :: _) as rr) =>
      radd (if qleb (lo - tolv) t1 && qleb t2 (up + tolv) then r else 0) (band_sum tolv tr rr t1 t2)
  | _, _ => 0
  end.
Fixpoint map_R (tolv : Q) (ts rh rc : list Q) (th1 th2 tc1 tc2 : list Q) : list Q :=
  match th1, th2, tc1, tc2 with
  | a :: r1, b :: r2, c :: r3, d :: r4 => radd (band_sum tolv ts rh a b) (band_sum tolv ts rc c d) :: map_R tolv ts rh rc r1 r2 r3 r4
  | _, _, _, _ => []
  end.

(* ------------------------------------------------------------------ final sum of get_area_targets *)
(* area = sum_i Q_i / (U_i * LMTD_i),  U_i = 1/R_i where R_i > tol, else 1 *)
Fixpoint area_sum (tolv : Q) (dh R lm : list Q) : Q :=
  match dh, R, lm with
  | q :: r1, r :: r2, l :: r3 => radd (rdiv (rmul q (if qltb tolv r then r else 1)) l) (area_sum tolv r1 r2 r3)
  | _, _, _ => 0
  end.

(* ------------------------------------------------------------------ independent specification from streams *)
(* a stream or a utility carrying duty, on real temperatures: [lo, hi], heat-capacity flow rate cp, film resistance r = 1/htc *)
Record seg := mkSeg { s_lo : Q; s_hi : Q; s_cp : Q; s_r : Q }.

Fixpoint ins (x : Q) (l : list Q) : list Q :=
  match l with
  | [] => [x]
  | y :: r => if qltb x y then x :: l else if qeqb x y then l else y :: ins x r
  end.
Definition temps (segs : list seg) : list Q := fold_right (fun s acc => ins (s_lo s) (ins (s_hi s) acc)) [] segs.
Definition covers (s : seg) (a b : Q) : bool := qleb (s_lo s) a && qleb b (s_hi s).
Definition cp_between (segs : list seg) (a b : Q) : Q := qsum (map s_cp (filter (fun s => covers s a b) segs)).
(* composite curve: points (T, H) with T ascending, H cumulative from 0 *)
Fixpoint cum (segs : list seg) (ts : list Q) (h : Q) : list (Q * Q) :=
  match ts with
  | a :: ((b :: _) as r) => (a, h) :: cum segs r (radd h (rmul (cp_between segs a b) (rsub b a)))
  | [a] => [(a, h)]
  | [] => []
  end.
Definition curve (segs : list seg) : list (Q * Q) := cum segs (temps segs) 0.

Definition interp (p0 p1 : Q * Q) (h : Q) : Q :=
  radd (fst p0) (rmul (rdiv (rsub h (snd p0)) (rsub (snd p1) (snd p0))) (rsub (fst p1) (fst p0))).
(* temperature at enthalpy h, upper side of a plateau (start of an interval): the last point with H <= h *)
Fixpoint t_hi (c : list (Q * Q)) (h : Q) : Q :=
  match c with
  | p0 :: ((p1 :: _) as r) =>
      if qleb (snd p1) h then t_hi r h
      else if qleb (snd p0) h then (if qeqb (snd p0) h then fst p0 else interp p0 p1 h) else fst p0
  | [p0] => fst p0
  | [] => 0
  end.
(* lower side (end of an interval): the first point with H >= h *)
Fixpoint t_lo_from (prev : Q * Q) (c : list (Q * Q)) (h : Q) : Q :=
  match c with
  | p :: r => if qleb h (snd p) then (if qeqb (snd p) h then fst p else interp prev p h) else t_lo_from p r h
  | [] => fst prev
  end.
Definition t_lo (c : list (Q * Q)) (h : Q) : Q :=
  match c with p0 :: r => if qleb h (snd p0) then fst p0 else t_lo_from p0 r h | [] => 0 end.

Definition hgrid (ch cc : list (Q * Q)) : list Q := fold_right ins [] (map snd ch ++ map snd cc).
(* duty-weighted film resistance of the segments present over [a, b] *)
Definition res_between (segs : list seg) (a b : Q) : Q :=
  let act := filter (fun s => covers s a b && qltb 0 (s_cp s)) segs in
  let w := qsum (map s_cp act) in
  if qltb 0 w then rdiv (qsum (map (fun s => rmul (s_cp s) (s_r s)) act)) w else 0.

Record ival := mkI { i_q : Q; i_R : Q; i_d1 : Q; i_d2 : Q }.
Definition qmin_duty : Q := 1 # 1000000000.     (* enthalpy slivers created by float noise in the utility duties are skipped *)
Fixpoint intervals (hot cold : list seg) (ch cc : list (Q * Q)) (hs : list Q) : list ival :=
  match hs with
  | h1 :: ((h2 :: _) as r) =>
      let rest := intervals hot cold ch cc r in
      let q := rsub h2 h1 in
      if qleb q qmin_duty then rest else
      let th1 := t_hi ch h1 in let th2 := t_lo ch h2 in let tc1 := t_hi cc h1 in let tc2 := t_lo cc h2 in
      mkI q (radd (res_between hot th1 th2) (res_between cold tc1 tc2)) (rsub th1 tc1) (rsub th2 tc2) :: rest
  | _ => []
  end.
Definition spec_intervals (hot cold : list seg) : list ival :=
  let ch := curve hot in let cc := curve cold in intervals hot cold ch cc (hgrid ch cc).
Fixpoint spec_area (iv : list ival) (lm : list Q) : Q :=
  match iv, lm with i :: r, l :: s => radd (rdiv (rmul (i_q i) (i_R i)) l) (spec_area r s) | _, _ => 0 end.

(* LMTD supplied as data: must lie within the proved bounds for the interval's own exact end differences *)
Definition lmtd_within (eps d1 d2 l : Q) : bool :=
  qltb 0 d1 && qltb 0 d2 && qleb (Qmin d1 d2 * (1 - eps)) l && qleb l ((d1 + d2) / 2 * (1 + eps)).
Fixpoint lmtds_ok (iv : list ival) (lm : list Q) : Z :=
  match iv, lm with
  | i :: r, l :: s => if lmtd_within eps9 (i_d1 i) (i_d2 i) l then (match lmtds_ok r s with (-1)%Z => (-1)%Z | k => (k + 1)%Z end) else 0%Z
  | [], [] => (-1)%Z
  | _, _ => (-2)%Z
  end.
Fixpoint all_pos_dt (iv : list ival) : bool := match iv with i :: r => qltb 0 (i_d1 i) && qltb 0 (i_d2 i) && all_pos_dt r | [] => true end.
Fixpoint differs (a b : list Q) : bool :=
  match a, b with x :: r, y :: s => negb (close_abs eps9 x y) || differs r s | [], [] => false | _, _ => true end.

(* one end-to-end case.
   hot, cold        : process streams and utilities with duty (real temperatures) as observed on the solved zone
   lm_spec          : LMTD of each specification interval (computed outside Coq from the end differences of THIS specification)
   Hhb, Hcb         : balanced composite columns passed by the implementation to get_area_targets
   dh R d1 d2 raw2  : the implementation's own enthalpy intervals (get_temperature_driving_forces and the resistance mapping),
                      raw2 = t_h2 - t_c2 before the discontinuity block; lm_own / lm_raw the LMTDs of (d1,d2) / (d1,raw2)
   area             : value returned by get_area_targets
   verdicts: [0] agree; [2;1] own interval sum <> area (model of the final sum); [2;2]/[2;3] LMTD list of the specification
   malformed / outside bounds; [3;1] balanced spans differ; [3;2] area not positive; [3;5] specification has a non-positive
   driving force; [3;3] area <> specification, the discontinuity block changed an end difference and WITHOUT it the own sum
   equals the specification (finding D36); [3;4] area <> specification otherwise *)
Definition judge_area (hot cold : list seg) (lm_spec Hhb Hcb dh R d1 d2 raw2 lm_own lm_raw : list Q) (area : Q) : list Z :=
  if negb (close_abs tol (span Hhb) (span Hcb)) then [V_PROP_FALSE; 1%Z]
  else if negb (qltb 0 area) then [V_PROP_FALSE; 2%Z]
  else if negb (close eps9 (area_sum tol dh R lm_own) area) then [V_MISMATCH; 1%Z]
  else
    let iv := spec_intervals hot cold in
    if negb (all_pos_dt iv) then [V_PROP_FALSE; 5%Z]
    else match lmtds_ok iv lm_spec with
    | (-2)%Z => [V_MISMATCH; 2%Z]
    | (-1)%Z =>
        let sp := spec_area iv lm_spec in
        if close eps6 sp area then [V_AGREE]
        else if differs d2 raw2 && close eps6 (area_sum tol dh R lm_raw) sp then [V_PROP_FALSE; 3%Z]
        else [V_PROP_FALSE; 4%Z]
    | k => [V_MISMATCH; 3%Z; k]
    end.

(* resistance mapping stage *)
Definition judge_map_R (ts rh rc th1 th2 tc1 tc2 o_R : list Q) : list Z :=
  if close_list eps9 (map_R tol ts rh rc th1 th2 tc1 tc2) o_R then [V_AGREE] else [V_MISMATCH; 4%Z].

(* both stages of one end-to-end case *)
Definition judge_e2e (ts rh rc th1 th2 tc1 tc2 o_R : list Q)
    (hot cold : list seg) (lm_spec Hhb Hcb dh d1 d2 raw2 lm_own lm_raw : list Q) (area : Q) : list Z :=
  match judge_map_R ts rh rc th1 th2 tc1 tc2 o_R with
  | [0%Z] => judge_area hot cold lm_spec Hhb Hcb dh o_R d1 d2 raw2 lm_own lm_raw area
  | v => v
  end.
