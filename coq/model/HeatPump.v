(* Executable model of OpenPinch/classes/simple_heat_pump.py (SimpleHeatPumpCycle.solve, _get_metrics,
   COP_h/COP_r, build_stream_collection with the sub-critical condenser profile and the evaporator profile)
   and of the first-law bookkeeping of the Carnot placement in analysis/heat_pump_targeting.py.
   The property library (CoolProp) is NOT modelled: it is a record of uninterpreted functions [lib];
   theorems quantify over every [lib] (under named hypotheses, proofs/HeatPump.v), and the correspondence
   instantiates it with a finite table of answers obtained from CoolProp by the harness ([lib_of_log]).
   Mirrors the code as it is in /repo (after the repairs 8aa2013 = D12 and fb8f317 = D27); the pre-repair
   forms are kept as [emit_old]/[ihx_dt_old] for the ..._prefix_refuted examples.  No proofs here. *)
From OP Require Import gen.Consts gen.HeatPumpConsts model.Base.
Local Open Scope Q_scope.

(* ------------------------------------------------------------------ property library *)
(* what _save_cycle_state reads from the AbstractState after an update *)
Record fstate := mkF { fh : Q; fs : Q; fp : Q; fT : Q }.

Record lib := mkLib {
  l_pcrit : Q;                          (* keyed_output(iP_critical) *)
  l_psat  : Q -> Q;                     (* _get_P_sat_from_T : T [K] -> p *)
  l_pT    : Q -> Q -> Q -> fstate;      (* fallback quality, p, T : update(PT_INPUTS), on exception update(PQ_INPUTS, p, quality);
                                           quality = NOFB means: no fallback (an exception leaves the cycle unsolved) *)
  l_ps    : Q -> Q -> fstate;           (* update(PSmass_INPUTS, p, s) *)
  l_ph    : Q -> Q -> fstate;           (* update(HmassP_INPUTS, h, p), arguments in the order p h *)
  l_pq    : Q -> Q -> fstate }.         (* update(PQ_INPUTS, p, q) *)
Definition NOFB : Q := -1.

(* ------------------------------------------------------------------ solve *)
Record cycle := mkC { c0 : fstate; c1 : fstate; c2 : fstate; c3 : fstate }.
Definition Hs (c : cycle) : list Q := [fh (c0 c); fh (c1 c); fh (c2 c); fh (c3 c)].
Definition Ss (c : cycle) : list Q := [fs (c0 c); fs (c1 c); fs (c2 c); fs (c3 c)].
Definition Ps (c : cycle) : list Q := [fp (c0 c); fp (c1 c); fp (c2 c); fp (c3 c)].
Definition Ts (c : cycle) : list Q := [fT (c0 c); fT (c1 c); fT (c2 c); fT (c3 c)].

(* self._ihx_gas_dt = max(0.0, min(ihx_gas_dt, Tc - Te - dT_sc - dT_sh - 5)) *)
Definition ihx_dt (req Te Tc sh sc : Q) : Q :=
  Qmax hp_ihx_floor (Qmin req (rsub (rsub (rsub (rsub Tc Te) sc) sh) hp_ihx_margin)).
(* before fb8f317 (D27): no lower clamp *)
Definition ihx_dt_old (req Te Tc sh sc : Q) : Q :=
  Qmin req (rsub (rsub (rsub (rsub Tc Te) sc) sh) hp_ihx_margin).

Definition solve_with (ihx : Q) (L : lib) (Te Tc sh sc eta : Q) : result cycle :=
  let TeK := radd Te hp_C_to_K in
  let TcK := radd Tc hp_C_to_K in
  let p0 := l_psat L TeK in
  let p2 := l_psat L TcK in
  if qltb p2 p0 then Err EValue                    (* raise ValueError('Evaporator pressure must be below ...') *)
  else
  let T0 := radd TeK sh in
  let T2 := rsub TcK sc in
  let st0 := l_pT L 1 p0 T0 in                     (* evaporator outlet *)
  let stc := l_pT L 1 p0 (radd T0 ihx) in          (* compressor inlet *)
  let dh := rsub (fh stc) (fh st0) in
  let sis := l_ps L p2 (fs stc) in                 (* isentropic discharge *)
  if is_zero eta then Err EZeroDiv
  else
  let h1 := radd (fh stc) (rdiv (rsub (fh sis) (fh stc)) eta) in
  let st1 := l_ph L p2 h1 in
  let st2a := l_pT L 0 p2 T2 in                    (* condenser outlet *)
  let st2 := if qltb (fh st0) (fh st2a)
             then let sx := l_ph L p2 (fh st0) in l_pT L NOFB p2 (rsub (fT sx) sc)
             else st2a in
  let st3 := l_ph L p0 (rsub (fh st2) dh) in       (* expansion valve outlet *)
  Ok (mkC st0 st1 st2 st3).

Definition solve (L : lib) (Te Tc sh sc eta ihx_req : Q) : result cycle :=
  solve_with (ihx_dt ihx_req Te Tc sh sc) L Te Tc sh sc eta.

(* ------------------------------------------------------------------ _get_metrics, COP_h, COP_r *)
Record metrics := mkM { m_w : Q; m_qe : Q; m_qc : Q; m_mdot : Q; m_Qe : Q; m_W : Q }.

Definition get_metrics (Qc H0 H1 H3 : Q) : result metrics :=
  let w := rdiv (rsub H1 H0) hp_kJ in
  let qe := rdiv (Qmax (rsub H0 H3) 0) hp_kJ in
  let qc := rdiv (rsub H1 H3) hp_kJ in
  if is_zero qc then Err EZeroDiv
  else let md := rdiv Qc qc in
       let Qe := rmul md qe in
       Ok (mkM w qe qc md Qe (rsub Qc Qe)).
Definition cop_h (m : metrics) : result Q := if is_zero (m_w m) then Err EZeroDiv else Ok (rdiv (m_qc m) (m_w m)).
Definition cop_r (m : metrics) : result Q := if is_zero (m_w m) then Err EZeroDiv else Ok (rdiv (m_qe m) (m_w m)).
Definition cycle_metrics (Qc : Q) (c : cycle) : result metrics := get_metrics Qc (fh (c0 c)) (fh (c1 c)) (fh (c3 c)).

(* the solved object: requested condenser duty, state points, and the attribute _m_dot (kg/s per kJ/kg) *)
Record hp := mkHP { hQc : Q; hc : cycle; hmdot : Q }.
Definition solve_hp (L : lib) (Te Tc sh sc eta ihx_req Qh : Q) : result (hp * metrics) :=
  bind (solve L Te Tc sh sc eta ihx_req) (fun c =>
  bind (cycle_metrics Qh c) (fun m => Ok (mkHP Qh c (m_mdot m), m))).

(* ------------------------------------------------------------------ profiles and streams *)
Record seg := mkSeg { g_ts : Q; g_tt : Q; g_q : Q }.      (* t_supply, t_target, heat_flow of an emitted Stream *)

Definition cond_profile (L : lib) (c : cycle) : result (list (Q * Q)) :=
  let ph := fp (c1 c) in
  if qltb ph (l_pcrit L) then
    let sv := l_pq L ph 1 in
    let sl := l_pq L ph 0 in
    let top := (fh (c1 c), rsub (fT (c1 c)) hp_C_to_K) in
    Ok [ top;
         (if qltb (fh sv) (fh (c1 c)) then (fh sv, rsub (fT sv) hp_C_to_K) else top);
         (fh sl, rsub (fT sl) hp_C_to_K);
         (fh (c2 c), rsub (fT (c2 c)) hp_C_to_K) ]
  else Err EFuel.        (* trans-critical gas cooler (piecewise linearisation): outside this model and outside the property's quantifier *)

Definition evap_profile (L : lib) (c : cycle) : list (Q * Q) :=
  let sv := l_pq L (fp (c0 c)) 1 in
  [ (fh (c3 c), rsub (fT (c3 c)) hp_C_to_K); (fh sv, rsub (fT sv) hp_C_to_K); (fh (c0 c), rsub (fT (c0 c)) hp_C_to_K) ].

Definition seg_target (hot : bool) (T1 T2 : Q) : Q :=
  if qltb (Qabs (T1 - T2)) hp_iso_window then (if hot then rsub T2 hp_iso_nudge else radd T2 hp_iso_nudge) else T2.

Fixpoint segs (md : Q) (hot : bool) (prof : list (Q * Q)) : list seg :=
  match prof with
  | (h1, T1) :: (((h2, T2) :: _) as rest) =>
      mkSeg T1 (seg_target hot T1 T2) (rmul md (Qabs (rsub h1 h2))) :: segs md hot rest
  | _ => []
  end.

(* m_dot = self._Q_cond / abs(H[1] - H[2]) *)
Definition mdot_J (Qc : Q) (c : cycle) : result Q :=
  let d := Qabs (rsub (fh (c1 c)) (fh (c2 c))) in
  if is_zero d then Err EZeroDiv else Ok (rdiv Qc d).

Definition cond_segs (L : lib) (s : hp) : result (list seg) :=
  bind (cond_profile L (hc s)) (fun pr => bind (mdot_J (hQc s) (hc s)) (fun md => Ok (segs md true pr))).
Definition evap_segs (L : lib) (s : hp) : result (list seg) :=
  bind (mdot_J (hQc s) (hc s)) (fun md => Ok (segs md false (evap_profile L (hc s)))).

(* build_stream_collection(include_cond, include_evap) *)
Inductive req : Set := RNone | RCond | REvap | RBoth.
Definition wants_cond (r : req) : bool := match r with RCond | RBoth => true | _ => false end.
Definition wants_evap (r : req) : bool := match r with REvap | RBoth => true | _ => false end.

Definition emission : Type := (list seg * list seg)%type.    (* Condenser_1.., Evaporator_1.. *)
Definition emit (L : lib) (s : hp) (r : req) : result emission :=
  bind (if wants_cond r then cond_segs L s else Ok []) (fun cs =>
  bind (if wants_evap r then evap_segs L s else Ok []) (fun es => Ok (cs, es))).

(* one request: new object state and what is returned (the repaired code writes nothing) *)
Definition step (L : lib) (s : hp) (r : req) : hp * result emission := (s, emit L s r).
Fixpoint run (L : lib) (s : hp) (rs : list req) : list (result emission) :=
  match rs with
  | [] => []
  | r :: t => let '(s', o) := step L s r in o :: run L s' t
  end.

(* before 8aa2013 (D12): a condenser request overwrote self._m_dot with a per-J/kg value computed from the
   profile end points, every stream used self._m_dot (per-kJ/kg after solve) *)
Definition last_h (pr : list (Q * Q)) : Q := fst (last pr (0, 0)).
Definition first_h (pr : list (Q * Q)) : Q := fst (hd (0, 0) pr).
Definition step_old (L : lib) (s : hp) (r : req) : hp * result emission :=
  let rc := if wants_cond r then
              bind (cond_profile L (hc s)) (fun pr =>
                let d := Qabs (rsub (first_h pr) (last_h pr)) in
                if is_zero d then Err EZeroDiv
                else let md := rdiv (hQc s) d in Ok (mkHP (hQc s) (hc s) md, segs md true pr))
            else Ok (s, []) in
  match rc with
  | Err e => (s, Err e)
  | Ok (s1, cs) =>
      (s1, if wants_evap r then Ok (cs, segs (hmdot s1) false (evap_profile L (hc s1))) else Ok (cs, []))
  end.
Fixpoint run_old (L : lib) (s : hp) (rs : list req) : list (result emission) :=
  match rs with
  | [] => []
  | r :: t => let '(s', o) := step_old L s r in o :: run_old L s' t
  end.

(* ------------------------------------------------------------------ property predicate (on observed outputs) *)
Record obs := mkObs {
  oH : list Q; oS : list Q; oP : list Q; oT : list Q;
  oQc : Q; oQe : Q; oW : Q; ow : Q; oqe : Q; ocoph : Q; ocopr : Q }.
Definition n4 (l : list Q) (i : nat) : Q := nth i l 0.

Definition duty (l : list seg) : Q := qsum (map g_q l).
(* a >= b up to eps *)
Definition ge_slack (eps a b : Q) : bool := qleb b (a + eps * qscale a b).

Fixpoint supplies_desc (eps : Q) (l : list seg) : bool :=
  match l with
  | a :: ((b :: _) as t) => ge_slack eps (g_ts a) (g_ts b) && supplies_desc eps t
  | _ => true
  end.
Fixpoint supplies_asc (eps : Q) (l : list seg) : bool :=
  match l with
  | a :: ((b :: _) as t) => ge_slack eps (g_ts b) (g_ts a) && supplies_asc eps t
  | _ => true
  end.
Definition hot_monotone (eps : Q) (l : list seg) : bool :=
  forallb (fun g => qltb (g_tt g) (g_ts g)) l && supplies_desc eps l.
Definition cold_monotone (eps : Q) (l : list seg) : bool :=
  forallb (fun g => qltb (g_ts g) (g_tt g)) l && supplies_asc eps l.

Definition seg_close (eps : Q) (a b : seg) : bool :=
  close eps (g_ts a) (g_ts b) && close eps (g_tt a) (g_tt b) && close eps (g_q a) (g_q b).
Fixpoint segs_close (eps : Q) (l1 l2 : list seg) : bool :=
  match l1, l2 with
  | [], [] => true
  | a :: r1, b :: r2 => seg_close eps a b && segs_close eps r1 r2
  | _, _ => false
  end.
Definition is_nil {A} (l : list A) : bool := match l with [] => true | _ => false end.

(* emissions of one side over a request sequence: empty when not requested, identical whenever requested *)
Fixpoint side_consistent (eps : Q) (want : req -> bool) (side : emission -> list seg)
         (ref : option (list seg)) (rs : list req) (es : list emission) : bool :=
  match rs, es with
  | [], [] => true
  | r :: rt, e :: et =>
      if want r then
        match ref with
        | None => negb (is_nil (side e)) && side_consistent eps want side (Some (side e)) rt et
        | Some l0 => segs_close eps l0 (side e) && side_consistent eps want side ref rt et
        end
      else is_nil (side e) && side_consistent eps want side ref rt et
  | _, _ => false
  end.

Definition all_side (want : req -> bool) (side : emission -> list seg) (f : list seg -> bool)
           (rs : list req) (es : list emission) : bool :=
  forallb (fun re => if want (fst re) then f (side (snd re)) else true) (combine rs es).

(* independent specification of the duties: one positive mass flow times state-point enthalpy differences *)
Definition spec_duties (eps : Q) (o : obs) : bool :=
  let H0 := n4 (oH o) 0 in let H1 := n4 (oH o) 1 in let H2 := n4 (oH o) 2 in let H3 := n4 (oH o) 3 in
  qltb H2 H1 &&
  (let m := oQc o / (H1 - H2) in
   close eps (oQe o) (m * (H0 - H3)) && close eps (oW o) (m * (H1 - H0))).

(* tolerances: eps9 for what is pure float arithmetic of the code; eps_lib for quantities that pass through an
   iterative flash of the property library (pressure / enthalpy / temperature read back from a solved state);
   eps_hyp for the sampled instances of the library hypotheses (ten times tighter than eps_lib) *)
Definition eps_lib : Q := eps6.
Definition eps_hyp : Q := 1 # 10000000.

(* the clauses of the property, in the order of its statement *)
Definition P_clauses (eta pe pc : Q) (o : obs) (rs : list req) (es : list emission) : list bool :=
  let H := oH o in let S := oS o in let P := oP o in
  [ close eps9 (oQc o) (oQe o + oW o);                                                     (* 1 first law *)
    qltb 0 (oW o);                                                                         (* 2 positive work *)
    close eps9 (ocoph o) (ocopr o + 1);                                                    (* 3 COP_h = COP_r + 1 *)
    ge_slack eps_lib (n4 S 1) (n4 S 0);                                                    (* 4 compression entropy *)
    ge_slack eps_lib (n4 S 3) (n4 S 2);                                                    (* 5 throttling entropy *)
    close eps_lib (n4 H 3) (n4 H 2);                                                       (* 6 throttling isenthalpic *)
    close eps_lib (n4 P 0) pe && close eps_lib (n4 P 3) pe;                                (* 7 evaporator pressure *)
    close eps_lib (n4 P 1) pc && close eps_lib (n4 P 2) pc;                                (* 8 condenser pressure *)
    all_side wants_cond fst (fun l => close eps_lib (duty l) (oQc o)) rs es;               (* 9 hot set carries Q_cond *)
    all_side wants_evap snd (fun l => close eps_lib (duty l) (oQe o)) rs es;               (* 10 cold set carries Q_evap *)
    all_side wants_cond fst (hot_monotone eps_lib) rs es;                                  (* 11 hot set cools *)
    all_side wants_evap snd (cold_monotone eps_lib) rs es;                                 (* 12 cold set heats *)
    side_consistent eps9 wants_cond fst None rs es && side_consistent eps9 wants_evap snd None rs es;   (* 13 request order *)
    spec_duties eps_lib o ].                                                               (* 14 duties = m * dh *)
(* which sampled hypothesis instances (numbering of hyp_clauses) a clause rests on: a false clause is attributed to
   the library (and the case skipped) only when one of ITS instances is false at this state *)
Definition clause_deps (k : Z) : list nat :=
  (if Z.eqb k 4 then [1; 2; 3; 4; 9] else if Z.eqb k 5 then [5; 6; 9] else if Z.eqb k 6 then [9]
  else if Z.eqb k 7 then [7] else if Z.eqb k 8 then [8] else if Z.eqb k 9 then [8; 10] else if Z.eqb k 10 then [7; 9; 10]
  else if Z.eqb k 11 then [8; 10] else if Z.eqb k 12 then [7; 10] else if Z.eqb k 14 then [9; 10] else [])%nat.
Definition excused (hs : list bool) (k : Z) : bool :=
  existsb (fun i => negb (nth (Nat.pred i) hs true)) (clause_deps k).
(* first false clause that is not excused / that is excused (0 if none) *)
Fixpoint first_bad (want_excused : bool) (hs : list bool) (k : Z) (l : list bool) : Z :=
  match l with
  | [] => 0%Z
  | b :: t => if negb b && Bool.eqb (excused hs k) want_excused then k else first_bad want_excused hs (k + 1)%Z t
  end.

Fixpoint first_false (k : Z) (l : list bool) : Z :=
  match l with [] => 0%Z | b :: t => if b then first_false (k + 1)%Z t else k end.
Fixpoint false_indices (k : Z) (l : list bool) : list Z :=
  match l with [] => [] | b :: t => if b then false_indices (k + 1)%Z t else k :: false_indices (k + 1)%Z t end.
Definition P_b (eta pe pc : Q) (o : obs) (rs : list req) (es : list emission) : bool :=
  forallb (fun b => b) (P_clauses eta pe pc o rs es).

(* triggers of the open findings: D35 (PT flash exactly on the saturation line returns the other root: bits 1, 2)
   and the degenerate cycle without refrigeration effect (bit 4) *)
Definition wrong_root_flags (L : lib) (sh sc : Q) (o : obs) : Z :=
  let v0 := fh (l_pq L (n4 (oP o) 0) 1) in let l0 := fh (l_pq L (n4 (oP o) 0) 0) in
  let v2 := fh (l_pq L (n4 (oP o) 1) 1) in let l2 := fh (l_pq L (n4 (oP o) 1) 0) in
  let liquid := is_zero sh && qltb (n4 (oH o) 0) (v0 - (1 # 1000) * (v0 - l0)) in
  let vapour := is_zero sc && qltb (l2 + (1 # 1000) * (v2 - l2)) (n4 (oH o) 2) in
  (* the evaporator inlet is not two-phase: saturated liquid at the condenser pressure has MORE enthalpy than the
     evaporator outlet (solve's `hmass() > H0` branch then puts the condenser outlet at H0: no refrigeration effect),
     or the throttle outlet lies above the saturated-vapour enthalpy of the evaporator pressure *)
  let norefr := qltb (n4 (oH o) 0) l2 || qltb (v0 + eps_lib * qscale v0 v0) (n4 (oH o) 3) in
  (bz liquid + 2 * bz vapour + 4 * bz norefr)%Z.

(* ------------------------------------------------------------------ library table supplied by the harness *)
(* kinds: 0 psat(T)  1 pT(q,p,T)  2 ps(p,s)  3 ph(p,h)  4 pq(p,q) *)
Record entry := mkE { e_kind : Z; e_a : Q; e_b : Q; e_c : Q; e_r : fstate }.
Definition poison : fstate :=
  let x := (-1000000000000000000000000000000 # 1) in mkF x x x x.
Fixpoint lookup (log : list entry) (k : Z) (a b c : Q) : fstate :=
  match log with
  | [] => poison
  | e :: t =>
      if Z.eqb (e_kind e) k && close eps9 (e_a e) a && close eps9 (e_b e) b && close eps9 (e_c e) c
      then e_r e else lookup t k a b c
  end.
Definition lib_of_log (pcrit : Q) (log : list entry) : lib :=
  mkLib pcrit (fun T => fp (lookup log 0 T 0 0)) (fun q p T => lookup log 1 q p T)
        (fun p s => lookup log 2 p s 0) (fun p h => lookup log 3 p h 0) (fun p q => lookup log 4 p q 0).

(* instances, at the states of THIS cycle as the library table gives them (independent of the implementation's
   outputs), of the hypotheses LibHyps under which the second-law theorems are proved *)
Definition rb_p_ok (p : Q) (e : entry) : bool :=        (* entries flashed at pressure p report p *)
  let at_p x := close eps9 x p in
  if Z.eqb (e_kind e) 1 then negb (at_p (e_b e)) || close eps_hyp (fp (e_r e)) (e_b e)
  else if Z.eqb (e_kind e) 0 then true
  else negb (at_p (e_a e)) || close eps_hyp (fp (e_r e)) (e_a e).
Definition rb_hs_ok (e : entry) : bool :=                (* PS / HP flashes report the s / h they were given *)
  if Z.eqb (e_kind e) 2 then close eps_hyp (fs (e_r e)) (e_b e)
  else if Z.eqb (e_kind e) 3 then close eps_hyp (fh (e_r e)) (e_b e)
  else true.
Definition hyp_clauses (L : lib) (log : list entry) (Te Tc sh eta : Q) (c : cycle) : list bool :=
  let p0 := l_psat L (radd Te hp_C_to_K) in
  let p2 := l_psat L (radd Tc hp_C_to_K) in
  let st0 := c0 c in
  let own := fh (l_ps L p0 (fs st0)) in
  let his := fh (l_ps L p2 (fs st0)) in
  let h1 := radd (fh st0) (rdiv (rsub his (fh st0)) eta) in
  let h2 := fh (c2 c) in
  [ close eps_hyp own (fh st0);                                                      (* 1 ps_own *)
    ge_slack eps_hyp his own;                                                        (* 2 h_incr_p *)
    close eps_hyp (fs (l_ph L p2 his)) (fs st0);                                     (* 3 ph_of_ps *)
    ge_slack eps_hyp (fs (l_ph L p2 h1)) (fs (l_ph L p2 his));                       (* 4 s_incr_h (his <= h1 for eta in (0,1]) *)
    close eps_hyp (fs (l_ph L p2 h2)) (fs (c2 c));                                   (* 5 ph_own *)
    ge_slack eps_hyp (fs (l_ph L p0 h2)) (fs (l_ph L p2 h2));                        (* 6 s_decr_p *)
    forallb (rb_p_ok p0) log;                                                        (* 7 read-back of p, evaporator side *)
    forallb (rb_p_ok p2) log;                                                        (* 8 read-back of p, condenser side *)
    forallb rb_hs_ok log;                                                            (* 9 read-back of s and h *)
    (* 10 phase identification of PT flashes OFF the saturation line (by more than 1 mK): a requested superheated
       evaporator outlet is not below saturated vapour, a requested subcooled condenser outlet is not above saturated liquid *)
    (let v0 := l_pq L (fp st0) 1 in let l2 := l_pq L (fp (c1 c)) 0 in
     (if qltb (fT v0 + (1 # 1000)) (fT st0) then ge_slack eps_hyp (fh st0) (fh v0) else true) &&
     (if qltb (fT (c2 c) + (1 # 1000)) (fT l2) then ge_slack eps_hyp (fh l2) h2 else true)) ].

(* ------------------------------------------------------------------ judge of one case *)
Definition near_window (T1 T2 : Q) : bool := close_abs eps9 (Qabs (T1 - T2)) hp_iso_window.
Fixpoint prof_fragile (pr : list (Q * Q)) : bool :=
  match pr with
  | (_, T1) :: (((_, T2) :: _) as rest) => near_window T1 T2 || prof_fragile rest
  | _ => false
  end.

Definition res_emission_close (m : result emission) (i : emission) : bool :=
  match m with Ok (cs, es) => segs_close eps9 cs (fst i) && segs_close eps9 es (snd i) | Err _ => false end.
Fixpoint emissions_mismatch (k : Z) (ms : list (result emission)) (is_ : list emission) : Z :=
  match ms, is_ with
  | [], [] => 0%Z
  | m :: mt, i :: it => if res_emission_close m i then emissions_mismatch (k + 1)%Z mt it else k
  | _, _ => 29%Z
  end.

Definition len4 (l : list Q) : bool := Nat.eqb (List.length l) 4.

(* verdicts: [0; kh] agree (kh = 0: every sampled hypothesis instance holds, 20+i: instance i does not, -1: not evaluable);
   [1; 0] fragile (a profile step within 1e-9 of the phase-change window); [1; kh; kp] clause kp is false at a state where
   the library itself violates a hypothesis instance that clause rests on (outside the trusted base: counted, skipped);
   [2; k ..] model <> implementation; [3; kp; flags; all false clauses] property clause kp false (flags: D35 triggers) *)
Definition judge_cycle (pcrit : Q) (log : list entry) (hyps : bool)
           (Te Tc sh sc eta Qh pe pc : Q) (o : obs) (rs : list req) (es : list emission) : list Z :=
  let L := lib_of_log pcrit log in
  if negb (len4 (oH o) && len4 (oS o) && len4 (oP o) && len4 (oT o) && Nat.eqb (List.length rs) (List.length es))
  then [V_MISMATCH; 91%Z]
  else
  match solve_hp L Te Tc sh sc eta 0 Qh with
  | Err e => [V_MISMATCH; 90%Z; errcode e]
  | Ok (s, m) =>
      let c := hc s in
      let hs := if hyps then hyp_clauses L log Te Tc sh eta c else repeat false 10 in
      let kh := if hyps then (let k := first_false 1 hs in if Z.eqb k 0 then 0 else 20 + k)%Z else (-1)%Z in
      let cl := P_clauses eta pe pc o rs es in
      let flags := wrong_root_flags L sh sc o in
      let kp := first_false 1 cl in
      let ku := first_bad false hs 1 cl in
      if negb (Z.eqb kp 0) && negb (Z.eqb flags 0) then V_PROP_FALSE :: kp :: flags :: false_indices 1 cl
      else if negb (Z.eqb ku 0) then V_PROP_FALSE :: ku :: 0%Z :: false_indices 1 cl
      else if negb (Z.eqb kp 0) then [V_FRAGILE; kh; kp]
      else
      let frag := match cond_profile L c with Ok pr => prof_fragile pr | Err _ => false end
                  || prof_fragile (evap_profile L c) in
      if frag then [V_FRAGILE; 0%Z]
      else
      let nums := Hs c ++ Ss c ++ Ps c ++ Ts c ++ [hQc s; m_Qe m; m_W m; m_w m; m_qe m] in
      let onums := oH o ++ oS o ++ oP o ++ oT o ++ [oQc o; oQe o; oW o; ow o; oqe o] in
      let kn := first_false 1 (map (fun ab => close eps9 (fst ab) (snd ab)) (combine nums onums)) in
      if negb (Z.eqb kn 0) then [V_MISMATCH; kn]
      else
      match cop_h m, cop_r m with
      | Ok a, Ok b =>
          if negb (close eps9 a (ocoph o)) then [V_MISMATCH; 22%Z]
          else if negb (close eps9 b (ocopr o)) then [V_MISMATCH; 23%Z]
          else let ke := emissions_mismatch 30 (run L s rs) es in
               if negb (Z.eqb ke 0) then [V_MISMATCH; ke] else [V_AGREE; kh]
      | _, _ => [V_MISMATCH; 24%Z]
      end
  end.

(* ------------------------------------------------------------------ Carnot placement: first-law bookkeeping
   (_get_optimal_min_evap_T_for_multi_temperature_carnot_hp, the two branches after `cop` is known) *)
Record carnot := mkCar { k_Qc : list Q; k_Qe : list Q; k_W : Q; k_Qc_tot : Q; k_Qe_tot : Q }.
Definition carnot_book (cop : Q) (Qc0 Qe0 : list Q) : result carnot :=
  let Qe_max := qsum Qe0 in
  let Qc_max := qsum Qc0 in
  if is_zero cop then Err EZeroDiv
  else if qltb (Qc_max * (1 - 1 / cop)) Qe_max then
    if is_zero Qe_max then Err EZeroDiv else       (* numpy: division by zero gives nan, no exception; not a solved placement *)
    let W := rdiv Qc_max cop in
    let Qe_tot := rsub Qc_max W in
    Ok (mkCar Qc0 (map (fun x => rmul x (rdiv Qe_tot Qe_max)) Qe0) W Qc_max Qe_tot)
  else
    if is_zero (cop - 1) then Err EZeroDiv
    else if is_zero Qc_max then Err EZeroDiv
    else
    let W := rdiv Qe_max (rsub cop 1) in
    let Qc_tot := radd Qe_max W in
    Ok (mkCar (map (fun x => rmul x (rdiv Qc_tot Qc_max)) Qc0) Qe0 W Qc_tot Qe_max).

Definition carnot_P_b (Qc Qe : list Q) (W : Q) : bool := close eps9 (qsum Qc) (qsum Qe + W).

Definition judge_carnot (cop : Q) (Qc0 Qe0 : list Q) (iQc iQe : list Q) (iW : Q) : list Z :=
  if negb (carnot_P_b iQc iQe iW) then [V_PROP_FALSE; 1%Z]
  else match carnot_book cop Qc0 Qe0 with
       | Err e => [V_MISMATCH; 90%Z; errcode e]
       | Ok k =>
           if close_abs eps9 (qsum Qc0 * (1 - 1 / cop)) (qsum Qe0) then [V_FRAGILE]
           else if negb (close_list eps9 (k_Qc k) iQc) then [V_MISMATCH; 1%Z]
           else if negb (close_list eps9 (k_Qe k) iQe) then [V_MISMATCH; 2%Z]
           else if negb (close eps9 (k_W k) iW) then [V_MISMATCH; 3%Z]
           else [V_AGREE]
       end.
