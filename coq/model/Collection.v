(* Executable model of OpenPinch/classes/stream_collection.py.
   Members carry an identity (Python object id), a name and the numeric attributes a sort key may read. *)
From OP Require Import model.Base.
From Coq Require Import String DecimalString DecimalNat Decimal.
Local Open Scope Q_scope.

Record member := mkM { mid : nat; mname : string; mattrs : list Q }.

Definition nat_str (n : nat) : string := NilEmpty.string_of_uint (Nat.to_uint n).
Definition cand (base : string) (n : nat) : string := (base ++ "_" ++ nat_str n)%string.
Definition kmem (k : string) (items : list (string * member)) : bool := existsb (fun p => String.eqb k (fst p)) items.

(* while prevent_overwrite and key in self._streams: key = f"{original}_{counter}"; counter += 1 *)
Fixpoint fresh (fuel : nat) (base : string) (counter : nat) (items : list (string * member)) : option string :=
  match fuel with
  | O => None
  | S f => let k := cand base counter in if kmem k items then fresh f base (S counter) items else Some k
  end.

(* dict assignment: existing key keeps its position *)
Fixpoint dict_set (k : string) (v : member) (items : list (string * member)) : list (string * member) :=
  match items with
  | [] => [(k, v)]
  | (k', v') :: r => if String.eqb k k' then (k, v) :: r else (k', v') :: dict_set k v r
  end.

Definition add_items (items : list (string * member)) (x : member) (key : option string) (prevent : bool)
  : result (list (string * member)) :=
  let k0 := match key with Some k => k | None => mname x end in
  if prevent && kmem k0 items then
    match fresh (S (List.length items)) k0 1 items with
    | Some k => Ok (items ++ [(k, x)])
    | None => Err EFuel
    end
  else Ok (dict_set k0 x items).

(* sort key: tuple of attributes, compared lexicographically as Python compares tuples of floats *)
Definition keyof (idxs : list nat) (m : member) : list Q := map (fun i => nth i (mattrs m) 0) idxs.
Fixpoint lex_cmp (a b : list Q) : comparison :=
  match a, b with
  | [], [] => Eq
  | [], _ => Lt
  | _, [] => Gt
  | x :: r, y :: s => match x ?= y with Eq => lex_cmp r s | c => c end
  end.
(* may y stay in front of a later-arriving x?  ascending: key y <= key x ; descending (reverse=True): key y >= key x *)
Definition keeps_front (idxs : list nat) (rev : bool) (y x : member) : bool :=
  match lex_cmp (keyof idxs y) (keyof idxs x) with
  | Eq => true | Lt => negb rev | Gt => rev end.
Fixpoint insert_by (le : member -> member -> bool) (x : member) (l : list member) : list member :=
  match l with
  | [] => [x]
  | y :: r => if le y x then y :: insert_by le x r else x :: l
  end.
Definition sort_by (le : member -> member -> bool) (l : list member) : list member :=
  fold_left (fun acc x => insert_by le x acc) l [].

Record coll := mkC { items : list (string * member); skey : list nat; srev : bool; cache : list member; dirty : bool }.
Definition empty_coll : coll := mkC [] [0%nat] true [] true.   (* default key: t_supply, reverse=True *)
Definition values (c : coll) : list member := map snd (items c).
Definition ensure_sorted (c : coll) : coll :=
  if dirty c then mkC (items c) (skey c) (srev c) (sort_by (keeps_front (skey c) (srev c)) (values c)) false else c.

Inductive cop : Type :=
  | CAdd (x : member) (key : option string) (prevent : bool)
  | CAddMany (xs : list member) (keys : option (list string)) (prevent : bool)
  | CRemove (k : string)
  | CReplace (xs : list member)
  | CSetKey (idxs : list nat) (rev : bool)
  | CConcat (other : list (string * member))
  | CIter | CLen | CIndex (id : nat) | CContains (k : string).
Inductive cout : Type := ONone | OIds (l : list nat) | ONat (n : nat) | OBool (b : bool).

Fixpoint add_all (items : list (string * member)) (xs : list member) (keys : option (list string)) (prevent : bool)
  : result (list (string * member)) :=
  match xs with
  | [] => Ok items
  | x :: r =>
      let '(k, ks) := match keys with
                      | None => (None, None)
                      | Some [] => (None, Some [])
                      | Some (k :: kr) => (Some k, Some kr) end in
      bind (add_items items x k prevent) (fun it => add_all it r ks prevent)
  end.

Fixpoint index_of (id : nat) (l : list member) (i : nat) : option nat :=
  match l with [] => None | m :: r => if Nat.eqb (mid m) id then Some i else index_of id r (S i) end.

Definition with_items (c : coll) (it : list (string * member)) : coll := mkC it (skey c) (srev c) (cache c) true.

Definition cstep (c : coll) (o : cop) : result (coll * cout) :=
  match o with
  | CAdd x key prevent => bind (add_items (items c) x key prevent) (fun it => Ok (with_items c it, ONone))
  | CAddMany xs keys prevent =>
      match keys with
      | Some ks => if negb (Nat.eqb (List.length xs) (List.length ks)) then Err EValue
                   else bind (add_all (items c) xs keys prevent) (fun it => Ok (with_items c it, ONone))
      | None => bind (add_all (items c) xs None prevent) (fun it => Ok (if Nat.eqb (List.length xs) 0 then c else with_items c it, ONone))
      end
  | CRemove k => if kmem k (items c)
                then Ok (with_items c (filter (fun p => negb (String.eqb k (fst p))) (items c)), ONone)
                else Err EKey
  | CReplace xs => bind (add_all [] xs None true) (fun it => Ok (with_items c it, ONone))
  | CSetKey idxs rev => Ok (mkC (items c) idxs rev (cache c) true, ONone)
  | CConcat other =>
      bind (add_all [] (values c) None true) (fun it1 =>
      bind (add_all it1 (map snd other) None true) (fun it2 => Ok (mkC it2 [0%nat] true [] true, ONone)))
  | CIter => let c' := ensure_sorted c in Ok (c', OIds (map mid (cache c')))
  | CLen => Ok (c, ONat (List.length (items c)))
  | CIndex id => let c' := ensure_sorted c in
                match index_of id (cache c') 0 with Some i => Ok (c', ONat i) | None => Err EValue end
  | CContains k => Ok (c, OBool (kmem k (items c)))
  end.

(* run an op list, collecting after every op: (error code or 0, keys in dict order, ids in iteration order, len) *)
Record obs := mkO { o_err : Z; o_keys : list string; o_iter : list nat; o_len : nat; o_out : cout }.
Definition observe (c : coll) (e : Z) (out : cout) : obs :=
  let c' := ensure_sorted c in mkO e (map fst (items c)) (map mid (cache c')) (List.length (items c)) out.
Fixpoint run_cops (c : coll) (ops : list cop) : list obs :=
  match ops with
  | [] => []
  | o :: r => match cstep c o with
              | Ok (c', out) => observe c' 0 out :: run_cops c' r
              | Err e => observe c (errcode e) ONone :: run_cops c r
              end
  end.

Definition cout_eqb (a b : cout) : bool :=
  match a, b with
  | ONone, ONone => true
  | OIds l, OIds m => if list_eq_dec Nat.eq_dec l m then true else false
  | ONat n, ONat m => Nat.eqb n m
  | OBool x, OBool y => Bool.eqb x y
  | _, _ => false
  end.
Definition obs_eqb (a b : obs) : bool :=
  Z.eqb (o_err a) (o_err b) && (if list_eq_dec string_dec (o_keys a) (o_keys b) then true else false)
  && (if list_eq_dec Nat.eq_dec (o_iter a) (o_iter b) then true else false) && Nat.eqb (o_len a) (o_len b)
  && cout_eqb (o_out a) (o_out b).
Fixpoint obs_list_eqb (a b : list obs) : bool :=
  match a, b with [], [] => true | x :: r, y :: s => obs_eqb x y && obs_list_eqb r s | _, _ => false end.

(* property predicate on an observed history (needs only the ops and what the implementation showed):
   len = number of keys = number of iterated members, keys duplicate-free, iteration sorted by the current key *)
Fixpoint sorted_b (le : member -> member -> bool) (l : list member) : bool :=
  match l with
  | x :: ((y :: _) as r) => le x y && sorted_b le r
  | _ => true
  end.
Fixpoint nodup_str (l : list string) : bool :=
  match l with [] => true | x :: r => negb (existsb (String.eqb x) r) && nodup_str r end.

(* ---- model-free step predicate on what the implementation showed before/after an operation ---- *)
Fixpoint ins_nat (x : nat) (l : list nat) : list nat :=
  match l with [] => [x] | y :: r => if Nat.leb x y then x :: l else y :: ins_nat x r end.
Definition sort_nat (l : list nat) : list nat := fold_right ins_nat [] l.
Definition same_ids (a b : list nat) : bool := if list_eq_dec Nat.eq_dec (sort_nat a) (sort_nat b) then true else false.
Fixpoint remove_one (x : nat) (l : list nat) : list nat :=
  match l with [] => [] | y :: r => if Nat.eqb x y then r else y :: remove_one x r end.
Definition lookup_member (ms : list member) (id : nat) : member :=
  match find (fun m => Nat.eqb (mid m) id) ms with Some m => m | None => mkM id "" [] end.

(* `universe` lists every member object of the test with its attributes; key/rev are the sort settings in force
   AFTER the operation (tracked from the op list itself, not from the model state). *)
Definition step_ok (universe : list member) (idxs : list nat) (rev : bool) (o : cop) (before after : obs) : bool :=
  let ok_shape :=
    Nat.eqb (o_len after) (List.length (o_iter after)) && Nat.eqb (o_len after) (List.length (o_keys after))
    && nodup_str (o_keys after)
    && sorted_b (keeps_front idxs rev) (map (lookup_member universe) (o_iter after)) in
  let unchanged := same_ids (o_iter before) (o_iter after) in
  ok_shape &&
  (if negb (Z.eqb (o_err after) 0) then unchanged else
   match o with
   | CAdd x _ true => same_ids (o_iter after) (mid x :: o_iter before)
   | CAdd x _ false => same_ids (o_iter after) (mid x :: o_iter before)
                      || (Nat.eqb (o_len after) (o_len before) && existsb (Nat.eqb (mid x)) (o_iter after))
   | CAddMany xs _ true => same_ids (o_iter after) (map mid xs ++ o_iter before)
   | CAddMany xs _ false => Nat.leb (o_len before) (o_len after)
   | CRemove _ => Nat.eqb (S (o_len after)) (o_len before)
                 && existsb (fun x => same_ids (o_iter after) (remove_one x (o_iter before))) (o_iter before)
   | CReplace xs => same_ids (o_iter after) (map mid xs)
   | CConcat other => same_ids (o_iter after) (o_iter before ++ map (fun p => mid (snd p)) other)
   | CSetKey _ _ | CIter | CLen | CIndex _ | CContains _ => unchanged
   end).

(* sort settings in force after running a prefix of ops (CConcat returns a fresh collection with defaults) *)
Definition key_after (st : list nat * bool) (o : cop) (err : Z) : list nat * bool :=
  if negb (Z.eqb err 0) then st else
  match o with CSetKey i r => (i, r) | CConcat _ => ([0%nat], true) | _ => st end.

Definition obs0 : obs := mkO 0 [] [] 0 ONone.
Fixpoint judge_steps (universe : list member) (st : list nat * bool) (prev : obs) (ops : list cop) (impl : list obs) (k : Z) : list Z :=
  match ops, impl with
  | o :: r, a :: s =>
      let st' := key_after st o (o_err a) in
      if step_ok universe (fst st') (snd st') o prev a then judge_steps universe st' a r s (k + 1)%Z else [V_PROP_FALSE; k]
  | [], [] => []
  | _, _ => [V_MISMATCH; (-1)%Z]
  end.
Fixpoint first_diff (a b : list obs) (k : Z) : list Z :=
  match a, b with
  | [], [] => []
  | x :: r, y :: s => if obs_eqb x y then first_diff r s (k + 1)%Z else [V_MISMATCH; k]
  | _, _ => [V_MISMATCH; (-1)%Z]
  end.
Definition judge_coll (universe : list member) (ops : list cop) (impl : list obs) : list Z :=
  match judge_steps universe ([0%nat], true) obs0 ops impl 0 with
  | [] => match first_diff (run_cops empty_coll ops) impl 0 with [] => [V_AGREE] | d => d end
  | d => d
  end.

(* ---- a member's own attribute is assigned while it sits in a collection (finding D60) ----
   The collection is not told: items and the cached sorted view hold the same object, whose attributes change; the dirty flag
   does not.  [cmutate] is that step; [judge_mutation] replays: the listed members added one by one, one iteration (which fills
   the cache), the assignment, a second iteration -- and compares the second iteration with what the implementation showed, then
   asks whether it is in the order of the sort key (default key: first attribute, descending). *)
Definition set_attrs (id : nat) (a : list Q) (m : member) : member := if Nat.eqb (mid m) id then mkM (mid m) (mname m) a else m.
Definition cmutate (c : coll) (id : nat) (a : list Q) : coll :=
  mkC (map (fun p => (fst p, set_attrs id a (snd p))) (items c)) (skey c) (srev c) (map (set_attrs id a) (cache c)) (dirty c).
Definition coll_of (ms : list member) : coll :=
  fold_left (fun c m => match cstep c (CAdd m None true) with Ok (c', _) => c' | Err _ => c end) ms empty_coll.
Definition iter_after_mutation (ms : list member) (id : nat) (a : list Q) : list member :=
  let c1 := ensure_sorted (coll_of ms) in cache (ensure_sorted (cmutate c1 id a)).
Definition judge_mutation (ms : list member) (id : nat) (a : list Q) (impl_iter : list nat) : list Z :=
  let l := iter_after_mutation ms id a in
  if negb (if list_eq_dec Nat.eq_dec (map mid l) impl_iter then true else false) then [V_MISMATCH; 1%Z]
  else if negb (sorted_b (keeps_front [0%nat] true) l) then [V_PROP_FALSE; 60%Z]
  else [V_AGREE].
