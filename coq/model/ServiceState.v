(* C11 -- the analysis service as a state machine with the hidden state the code COULD have.

   Mirrors (OpenPinch as it is now, after the `fix:` commits b4ad51d, ce0dc5c, c560ce5, 29d391b):
     main.pinch_analysis_service      validate / `if request_data is data: deep copy` / prepare / targets / extract
     analysis.graph_data.get_output_graph_data(zone, graph_sets=None)   fresh dict per call
     analysis.data_preparation        writes zone labels, utility fields, `active=False` into the object it is given
     classes.pinch_problem.PinchProblem   load / target (caches) / export_to_Excel

   The numeric pipeline is NOT modelled here: it is an arbitrary pure function (Section variables `core`,
   `graphs`, `prep`, `raises`).  Only what could break purity is modelled:
     * object identity of inputs (stores loc -> content; validation returns the caller's own loc for a model),
     * what preparation writes back into the object it works on,
     * the graph-set accumulator (a function default that would survive between calls),
     * objects returned earlier (heap of results; a cached result is the SAME object),
     * the PinchProblem wrapper state (loaded source, project name, cache).
   The pre-repair machines (D5, D6, D11, D51) are kept as separate definitions for the refutation examples.
   Executable definitions only; proofs are in proofs/ServiceStateInv.v. *)
From OP Require Import gen.Consts model.Base.
From Coq Require Import Arith PeanoNat.
Local Open Scope nat_scope.

Section Service.

Variable input : Type.          (* content of a problem description (what a TargetInput / dict holds) *)
Variable tout : Type.           (* the targets part of a TargetOutput *)
Variable gkey gset : Type.      (* key and value of one entry of TargetOutput.graphs *)
Variable gkey_eqb : gkey -> gkey -> bool.
(* the pure numeric pipeline, as functions of (project name, input content) *)
Variable core : nat -> input -> tout.
Variable graphs : nat -> input -> list (gkey * gset).   (* entries in the order the zone walk stores them *)
Variable prep : nat -> input -> input.                  (* what prepare_problem writes back into its argument *)
Variable raises : nat -> input -> bool.                 (* validation / preparation / targeting raises *)

Definition gdict := list (gkey * gset).
Definition output := (tout * gdict)%type.

(* dict item assignment `d[k] = v` and the loop of get_output_graph_data *)
Fixpoint gput (k : gkey) (v : gset) (d : gdict) : gdict :=
  match d with
  | [] => [(k, v)]
  | (k', v') :: r => if gkey_eqb k k' then (k, v) :: r else (k', v') :: gput k v r
  end.
Definition gupdate (d : gdict) (kvs : list (gkey * gset)) : gdict :=
  fold_left (fun acc kv => gput (fst kv) (snd kv) acc) kvs d.

(* ---------------------------------------------------------------- the specification: stateless *)
Definition service (pn : nat) (x : input) : output := (core pn x, gupdate [] (graphs pn x)).

(* ---------------------------------------------------------------- state *)
Inductive src := SModel (l : nat) | SFile (stem : nat) (x : input).   (* PinchProblem.load argument *)
Record pp := mkPP { pp_data : option src; pp_name : nat; pp_cache : option nat }.
Definition pp0 : pp := mkPP None 0 None.        (* project name 0 = 'Untitled' *)

(* Object identity of TargetInput objects: LC l = the l-th object the CALLER built and still holds,
   LT l = the l-th object the library created itself (validation of a dict, deep copy). *)
Inductive loc := LC (l : nat) | LT (l : nat).

Record state := mkSt {
  gdef : gdict;                 (* content of a dict held as a function default (module state) *)
  cstore : list input;          (* content of the caller's TargetInput objects *)
  tstore : list input;          (* content of TargetInput objects created by the library *)
  results : list output;        (* loc -> content of every TargetOutput object returned so far *)
  pps : nat -> pp               (* PinchProblem objects *)
}.
Definition init (st0 : list input) : state := mkSt [] st0 [] [] (fun _ => pp0).

Inductive call :=
  | CallDict (pn : nat) (x : input)      (* pinch_analysis_service(dict, project_name) *)
  | CallModel (pn : nat) (l : nat)       (* pinch_analysis_service(the caller's model object l, project_name) *)
  | PLoad (pid : nat) (s : src)
  | PTarget (pid : nat)
  | PExport (pid : nat).
Inductive reply := RResult (r : nat) | RNone | RErr.

Fixpoint set_nth {A} (n : nat) (v : A) (l : list A) : list A :=
  match l, n with
  | [], _ => []
  | _ :: r, O => v :: r
  | a :: r, S m => a :: set_nth m v r
  end.
Definition read (s : state) (w : loc) : option input :=
  match w with LC l => nth_error (cstore s) l | LT l => nth_error (tstore s) l end.
Definition write (s : state) (w : loc) (v : input) : state :=
  match w with
  | LC l => mkSt (gdef s) (set_nth l v (cstore s)) (tstore s) (results s) (pps s)
  | LT l => mkSt (gdef s) (cstore s) (set_nth l v (tstore s)) (results s) (pps s)
  end.
(* a new library-owned object *)
Definition alloc (s : state) (x : input) : state * loc :=
  (mkSt (gdef s) (cstore s) (tstore s ++ [x]) (results s) (pps s), LT (List.length (tstore s))).
Definition set_pp (s : state) (pid : nat) (p : pp) : state :=
  mkSt (gdef s) (cstore s) (tstore s) (results s) (fun q => if Nat.eqb q pid then p else pps s q).

(* ---------------------------------------------------------------- pinch_analysis_service *)
Inductive arg := ADict (x : input) | AModel (l : nat).

(* TargetInput.model_validate: a dict gives a new object, a TargetInput instance is returned as it is *)
Definition validate (s : state) (a : arg) : option (state * loc) :=
  match a with
  | ADict x => Some (alloc s x)
  | AModel l => match nth_error (cstore s) l with Some _ => Some (s, LC l) | None => None end
  end.
(* `request_data is data` *)
Definition is_same (a : arg) (w : loc) : bool :=
  match a, w with AModel l, LC l' => Nat.eqb l l' | _, _ => false end.
Definition deep_copy (s : state) (w : loc) : state * loc :=
  match read s w with Some x => alloc s x | None => (s, w) end.

(* prepare_problem .. extract_results on the request object w.
   `fresh_graphs = true`  : graph_sets=None -> a new dict per call (b4ad51d)
   `fresh_graphs = false` : the shared default dict is filled and returned; every result returned by an
                            earlier call holds that same dict object, so its graphs change too (D5). *)
Definition service_body (fresh_graphs : bool) (s : state) (pn : nat) (w : loc) : state * reply :=
  match read s w with
  | None => (s, RErr)
  | Some x =>
      let s1 := write s w (prep pn x) in
      if raises pn x then (s1, RErr)
      else if fresh_graphs then
        let out := (core pn x, gupdate [] (graphs pn x)) in
        (mkSt (gdef s1) (cstore s1) (tstore s1) (results s1 ++ [out]) (pps s1), RResult (List.length (results s1)))
      else
        let g := gupdate (gdef s1) (graphs pn x) in
        (mkSt g (cstore s1) (tstore s1) (map (fun r => (fst r, g)) (results s1) ++ [(core pn x, g)]) (pps s1),
         RResult (List.length (results s1)))
  end.

(* `copy = true`: `if request_data is data: request_data = data.model_copy(deep=True)` (ce0dc5c) *)
Definition service_gen (copy fresh_graphs : bool) (s : state) (pn : nat) (a : arg) : state * reply :=
  match validate s a with
  | None => (s, RErr)
  | Some (s1, w) =>
      let '(s2, w2) := if copy && is_same a w then deep_copy s1 w else (s1, w) in
      service_body fresh_graphs s2 pn w2
  end.

Definition pinch_service := service_gen true true.          (* the code as it is *)
Definition pinch_service_D5 := service_gen true false.      (* mutable default graph dict *)
Definition pinch_service_D6 := service_gen false true.      (* no deep copy of a model input *)

(* ---------------------------------------------------------------- PinchProblem *)
Definition src_arg (s : src) : arg := match s with SModel l => AModel l | SFile _ x => ADict x end.

(* the project name a source carries: the stem of a file, the class default 'Untitled' (0) for a TargetInput *)
Definition src_name (sr : src) : nat := match sr with SFile stem _ => stem | SModel _ => 0 end.

(* load: resets cache and project name first, a path then sets the project name to the file stem;
   `clear = true`    : `_results = None; _master_zone = None` (c560ce5)
   `keepname = false`: `_project_name = type(self)._project_name` (29d391b); before it a TargetInput source kept
                       the name left by an earlier file load (D51) *)
Definition p_load_gen (clear keepname : bool) (s : state) (pid : nat) (sr : src) : state * reply :=
  let p := pps s pid in
  let nm := match sr with SFile stem _ => stem | SModel _ => if keepname then pp_name p else 0 end in
  (set_pp s pid (mkPP (Some sr) nm (if clear then None else pp_cache p)), RNone).

Definition p_target_gen (svc : state -> nat -> arg -> state * reply) (s : state) (pid : nat) : state * reply :=
  let p := pps s pid in
  match pp_data p with
  | None => (s, RErr)                                   (* RuntimeError("No input loaded") *)
  | Some sr =>
      match pp_cache p with
      | Some r => (s, RResult r)                        (* the cached object itself *)
      | None =>
          let '(s1, rp) := svc s (pp_name p) (src_arg sr) in
          match rp with
          | RResult r => (set_pp s1 pid (mkPP (Some sr) (pp_name p) (Some r)), RResult r)
          | _ => (s1, rp)
          end
      end
  end.

(* export_to_Excel: target() when nothing is cached, then a workbook is written (outside the model);
   the observable is the cached result object *)
Definition step_gen (svc : state -> nat -> arg -> state * reply) (clear keepname : bool) (s : state) (c : call) : state * reply :=
  match c with
  | CallDict pn x => svc s pn (ADict x)
  | CallModel pn l => svc s pn (AModel l)
  | PLoad pid sr => p_load_gen clear keepname s pid sr
  | PTarget pid => p_target_gen svc s pid
  | PExport pid => p_target_gen svc s pid
  end.

Definition step := step_gen pinch_service true false.       (* the code as it is *)
Definition step_D5 := step_gen pinch_service_D5 true false.
Definition step_D6 := step_gen pinch_service_D6 true false.
Definition step_D11 := step_gen pinch_service false false.
Definition step_D51 := step_gen pinch_service true true.    (* load(TargetInput) keeps an earlier file's project name *)

Definition run_gen (stp : state -> call -> state * reply) (s : state) (h : list call) : state :=
  fold_left (fun s c => fst (stp s c)) h s.
Definition run := run_gen step.

(* replies of a whole history, in order *)
Fixpoint replies_gen (stp : state -> call -> state * reply) (s : state) (h : list call) : list reply :=
  match h with
  | [] => []
  | c :: r => let '(s1, rp) := stp s c in rp :: replies_gen stp s1 r
  end.

(* ---------------------------------------------------------------- specification of "its input as the caller built it" *)
(* what a PinchProblem holds according to the history alone: (source, project name) *)
Definition lview := nat -> (option src * nat)%type.
Definition view0 : lview := fun _ => (None, 0).
Definition view_step (v : lview) (c : call) : lview :=
  match c with
  | PLoad q sr => fun pid =>
      if Nat.eqb pid q then (Some sr, src_name sr) else v pid
  | _ => v
  end.
Definition view_of (h : list call) : lview := fold_left view_step h view0.

Definition src_input (st0 : list input) (sr : src) : option input :=
  match sr with SModel l => nth_error st0 l | SFile _ x => Some x end.

(* (project name, input content as the caller built it) of a call made after history h; None = the call has no analysis to return *)
Definition expected_v (st0 : list input) (v : lview) (c : call) : option (nat * input) :=
  match c with
  | CallDict pn x => Some (pn, x)
  | CallModel pn l => option_map (pair pn) (nth_error st0 l)
  | PLoad _ _ => None
  | PTarget pid | PExport pid =>
      match v pid with
      | (Some sr, n) => option_map (pair n) (src_input st0 sr)
      | (None, _) => None
      end
  end.
Definition expected (st0 : list input) (h : list call) (c : call) : option (nat * input) :=
  expected_v st0 (view_of h) c.

End Service.

Arguments SModel {input} l.
Arguments SFile {input} stem x.
Arguments CallDict {input} pn x.
Arguments CallModel {input} pn l.
Arguments PLoad {input} pid s.
Arguments PTarget {input} pid.
Arguments PExport {input} pid.
Arguments ADict {input} x.
Arguments AModel {input} l.
Arguments mkPP {input} pp_data pp_name pp_cache.
Arguments pp_data {input} p.
Arguments pp_name {input} p.
Arguments pp_cache {input} p.
Arguments pp0 {input}.
Arguments mkSt {input tout gkey gset} gdef cstore tstore results pps.
Arguments gdef {input tout gkey gset} s.
Arguments cstore {input tout gkey gset} s.
Arguments tstore {input tout gkey gset} s.
Arguments results {input tout gkey gset} s.
Arguments pps {input tout gkey gset} s pid.
Arguments init {input tout gkey gset} st0.
Arguments set_nth {A} n v l.
Arguments view0 {input}.
Arguments view_step {input} v c.
Arguments view_of {input} h.
Arguments src_name {input} sr.
Arguments expected_v {input} st0 v c.
Arguments expected {input} st0 h c.
Arguments src_input {input} st0 sr.

(* ======================================================================== the judge used by the check
   Concrete instantiation: contents are small integers handed out by the harness (equal integer <=> equal
   canonical JSON).  The pure pipeline is instantiated with the table of FRESH-INTERPRETER runs:
     core pn x   := targets id the fresh interpreter returned for (project name pn, problem x)
     graphs pn x := (key id, graph-set id) entries it returned, in dict order
     raises pn x := the fresh interpreter raised
   `prep` is instantiated with a function that changes every content (x -> -x-1): by the theorems the repaired
   machine's observable behaviour does not depend on it; the pre-repair machines' behaviour does. *)
Local Open Scope Z_scope.

Definition zout := (Z * list (Z * Z))%type.
Definition tblrow := ((nat * Z) * (Z * zout))%type.       (* ((pn, problem id), (error id or 0, result)) *)

Fixpoint tbl_find (t : list tblrow) (pn : nat) (x : Z) : option (Z * zout) :=
  match t with
  | [] => None
  | ((p, y), v) :: r => if Nat.eqb p pn && Z.eqb y x then Some v else tbl_find r pn x
  end.
Definition j_core (t : list tblrow) (pn : nat) (x : Z) : Z :=
  match tbl_find t pn x with Some (_, (c, _)) => c | None => -1 end.
Definition j_graphs (t : list tblrow) (pn : nat) (x : Z) : list (Z * Z) :=
  match tbl_find t pn x with Some (_, (_, g)) => g | None => [] end.
Definition j_raises (t : list tblrow) (pn : nat) (x : Z) : bool :=
  match tbl_find t pn x with Some (e, _) => negb (Z.eqb e 0) | None => true end.
Definition j_prep (pn : nat) (x : Z) : Z := - x - 1.

Definition jstate := state Z Z Z Z.
Definition j_step (t : list tblrow) : jstate -> call Z -> jstate * reply :=
  step Z Z Z Z Z.eqb (j_core t) (j_graphs t) j_prep (j_raises t).
Definition j_service (t : list tblrow) (pn : nat) (x : Z) : zout :=
  service Z Z Z Z Z.eqb (j_core t) (j_graphs t) pn x.
(* the pre-repair machines under the same instantiation (used by the harness self-test and the refutations) *)
Definition j_step_D5 (t : list tblrow) := step_D5 Z Z Z Z Z.eqb (j_core t) (j_graphs t) j_prep (j_raises t).
Definition j_step_D6 (t : list tblrow) := step_D6 Z Z Z Z Z.eqb (j_core t) (j_graphs t) j_prep (j_raises t).
Definition j_step_D11 (t : list tblrow) := step_D11 Z Z Z Z Z.eqb (j_core t) (j_graphs t) j_prep (j_raises t).
Definition j_step_D51 (t : list tblrow) := step_D51 Z Z Z Z Z.eqb (j_core t) (j_graphs t) j_prep (j_raises t).

(* what the harness observed around one call *)
Record obs := mkObs {
  o_err : Z;                   (* 0 = returned normally, otherwise id of the exception class *)
  o_robj : Z;                  (* which result object was returned: index among the distinct result objects seen so far (by id()), -1 = none *)
  o_heap : list zout;          (* content of every distinct result object seen so far, re-read AFTER the call *)
  o_store : list Z;            (* content of every caller-owned model object, re-read AFTER the call *)
  o_in_before : Z;             (* content of the call's own input object (dict or model; loaded source for the wrapper) before / after *)
  o_in_after : Z;
  o_def_before : Z; o_def_after : Z;       (* __defaults__/__kwdefaults__/closures of every OpenPinch function *)
  o_glob_before : Z; o_glob_after : Z      (* globals of every OpenPinch module *)
}.

Fixpoint zl_eqb (a b : list Z) : bool :=
  match a, b with [], [] => true | x :: r, y :: s => Z.eqb x y && zl_eqb r s | _, _ => false end.
Fixpoint zzl_eqb (a b : list (Z * Z)) : bool :=
  match a, b with
  | [], [] => true
  | (x1, x2) :: r, (y1, y2) :: s => Z.eqb x1 y1 && Z.eqb x2 y2 && zzl_eqb r s
  | _, _ => false
  end.
Definition zout_eqb (a b : zout) : bool := Z.eqb (fst a) (fst b) && zzl_eqb (snd a) (snd b).
Fixpoint heap_eqb (a b : list zout) : bool :=
  match a, b with [], [] => true | x :: r, y :: s => zout_eqb x y && heap_eqb r s | _, _ => false end.
(* a is a prefix of b *)
Fixpoint heap_prefixb (a b : list zout) : bool :=
  match a, b with [] , _ => true | x :: r, y :: s => zout_eqb x y && heap_prefixb r s | _ :: _, [] => false end.

(* flags, in the order they are tested; the number is returned as third element of the verdict *)
Definition F_INPUT : Z := 1.        (* caller's input object(s) changed *)
Definition F_DEFAULTS : Z := 2.     (* a function default / closure changed *)
Definition F_GLOBALS : Z := 3.      (* a module global changed *)
Definition F_EARLIER : Z := 4.      (* a result returned earlier changed *)
Definition F_RESULT : Z := 5.       (* result (or exception) differs from the fresh interpreter *)
Definition F_REPLY : Z := 6.        (* model: kind of reply / identity of the returned object differs *)
Definition F_HEAP : Z := 7.         (* model: predicted contents of result objects differ *)
Definition F_STORE : Z := 8.        (* model: predicted contents of caller objects differ *)
Definition F_TABLE : Z := 9.        (* harness error: no fresh-interpreter row for an expected (pn, problem) *)

(* the property predicate on the implementation's own observations; 0 = holds, otherwise the failing flag.
   Uses only the specification (`expected`, the fresh table, the caller's store st0), never the machine. *)
Definition P_flag (t : list tblrow) (st0 : list Z) (v : lview Z) (c : call Z)
                  (def0 glob0 : Z) (prev_heap : list zout) (o : obs) : Z :=
  if negb (zl_eqb (o_store o) st0 && Z.eqb (o_in_before o) (o_in_after o)) then F_INPUT
  else if negb (Z.eqb (o_def_before o) def0 && Z.eqb (o_def_after o) def0) then F_DEFAULTS
  else if negb (Z.eqb (o_glob_before o) glob0 && Z.eqb (o_glob_after o) glob0) then F_GLOBALS
  else if negb (heap_prefixb prev_heap (o_heap o)) then F_EARLIER
  else match expected_v st0 v c with
       | None => match c with
                 | PLoad _ _ => if Z.eqb (o_err o) 0 then 0 else F_RESULT
                 | _ => if Z.eqb (o_err o) 0 then F_RESULT else 0      (* nothing loaded / unknown object: must raise *)
                 end
       | Some (pn, x) =>
           match tbl_find t pn x with
           | None => F_TABLE
           | Some (e, want) =>
               if negb (Z.eqb e 0) then (if Z.eqb (o_err o) e then 0 else F_RESULT)
               else if negb (Z.eqb (o_err o) 0) then F_RESULT
               else match (if Z.ltb (o_robj o) 0 then None else nth_error (o_heap o) (Z.to_nat (o_robj o))) with
                    | Some got => if zout_eqb got want then 0 else F_RESULT
                    | None => F_RESULT
                    end
           end
       end.

(* agreement of the machine's step with the observation; 0 = agree *)
Definition M_flag (s1 : jstate) (rp : reply) (o : obs) : Z :=
  if negb (match rp with
           | RResult r => Z.eqb (o_err o) 0 && Z.eqb (o_robj o) (Z.of_nat r)
           | RNone => Z.eqb (o_err o) 0 && Z.eqb (o_robj o) (-1)
           | RErr => negb (Z.eqb (o_err o) 0)
           end) then F_REPLY
  else if negb (heap_eqb (results s1) (o_heap o)) then F_HEAP
  else if negb (zl_eqb (cstore s1) (o_store o) && match gdef s1 with [] => true | _ => false end) then F_STORE
  else 0.

Fixpoint judge_steps (stp : jstate -> call Z -> jstate * reply) (t : list tblrow) (st0 : list Z)
                     (s : jstate) (v : lview Z) (def0 glob0 : Z) (prev_heap : list zout)
                     (cs : list (call Z)) (os : list obs) (k : Z) : list Z :=
  match cs, os with
  | [], [] => [V_AGREE]
  | c :: cr, o :: or =>
      let pf := P_flag t st0 v c def0 glob0 prev_heap o in
      if negb (Z.eqb pf 0) then [V_PROP_FALSE; k; pf]
      else let '(s1, rp) := stp s c in
           let mf := M_flag s1 rp o in
           if negb (Z.eqb mf 0) then [V_MISMATCH; k; mf]
           else judge_steps stp t st0 s1 (view_step v c) def0 glob0 (o_heap o) cr or (k + 1)
  | _, _ => [V_MISMATCH; -1; F_REPLY]
  end.

(* verdict for one observed history: [0] | [2; k; flag] | [3; k; flag], k = index of the first offending call *)
Definition judge_history (t : list tblrow) (st0 : list Z) (cs : list (call Z)) (os : list obs) : list Z :=
  match os with
  | [] => match cs with [] => [V_AGREE] | _ => [V_MISMATCH; -1; F_REPLY] end
  | o0 :: _ => judge_steps (j_step t) t st0 (init st0) view0 (o_def_before o0) (o_glob_before o0) [] cs os 0
  end.

(* the observation sequence a machine itself would produce (all module-state ids 0 unless gdef is non-empty,
   input ids from its own store): used to show in Coq that the judge accepts the repaired machine and rejects
   each pre-repair machine on the witness histories *)
Definition input_loc (s : jstate) (c : call Z) : option nat :=
  match c with
  | CallModel _ l => Some l
  | PLoad _ (SModel l) => Some l
  | PTarget pid | PExport pid => match pp_data (pps s pid) with Some (SModel l) => Some l | _ => None end
  | _ => None
  end.
Definition content_at (s : jstate) (ol : option nat) : Z :=
  match ol with Some l => match nth_error (cstore s) l with Some x => x | None => -2 end | None => -3 end.
Definition gdef_id (s : jstate) : Z := match gdef s with [] => 0 | _ => 1 end.
Fixpoint simulate (stp : jstate -> call Z -> jstate * reply) (s : jstate)
                  (cs : list (call Z)) : list obs :=
  match cs with
  | [] => []
  | c :: cr =>
      let '(s1, rp) := stp s c in
      let il := input_loc s c in
      mkObs (match rp with RErr => 1 | _ => 0 end)
            (match rp with RResult r => Z.of_nat r | _ => -1 end)
            (results s1) (cstore s1)
            (content_at s il) (content_at s1 il)
            (gdef_id s) (gdef_id s1) 0 0
      :: simulate stp s1 cr
  end.
