(* Executable model for C16 (input channels, wrapper cache, sheet naming).  Mirrors, as they are in /repo:
     utils/export.py          _sanitize_sheet_name, _unique_sheet_name  (+ the loop of _write_problem_tables that threads `used`)
     utils/wkbook_to_json.py  _normalize_label and the record filter of _validate_stream_data (list branch)
     utils/miscellaneous.py   get_value
     classes/pinch_problem.py load / target / export_to_Excel with the result cache
   Every literal of the two sheet-name functions and of _normalize_label comes from gen/ChannelsGen.v
   (regenerated from the AST on each run).  Strings are Coq `string`s over all 256 `ascii` values, read as the
   Unicode code points 0..255 (Latin-1); what Python's str.strip()/str.isdigit() do on those code points is
   written out below.  No proofs in this file. *)
From Coq Require Import String Ascii DecimalString Decimal DecimalNat.
From OP Require Import gen.Consts gen.ChannelsGen model.Base.
Local Open Scope nat_scope.
Local Open Scope string_scope.

(* ------------------------------------------------------------------ characters and strings *)
Definition chr (n : nat) : ascii := ascii_of_nat n.
Definition code (c : ascii) : nat := nat_of_ascii c.
Fixpoint str_of_codes (l : list nat) : string :=
  match l with [] => EmptyString | n :: r => String (chr n) (str_of_codes r) end.

Definition is_char (k : nat) (c : ascii) : bool := Nat.eqb (code c) k.
(* str.isspace() for code points < 256: TAB LF VT FF CR, FS GS RS US, SPACE, NEL (0x85), NBSP (0xA0) *)
Definition is_space (c : ascii) : bool :=
  let n := code c in
  ((9 <=? n) && (n <=? 13) || (28 <=? n) && (n <=? 32) || (n =? 133) || (n =? 160))%nat.
(* str.isdigit() for code points < 256: 0-9 and the superscripts 2, 3, 1 (0xB2, 0xB3, 0xB9) *)
Definition is_digit_py (c : ascii) : bool :=
  let n := code c in ((48 <=? n) && (n <=? 57) || (n =? 178) || (n =? 179) || (n =? 185))%nat.

Definition is_empty (s : string) : bool := match s with EmptyString => true | _ => false end.
Fixpoint lstrip (p : ascii -> bool) (s : string) : string :=
  match s with
  | EmptyString => EmptyString
  | String c r => if p c then lstrip p r else s
  end.
Fixpoint rstrip (p : ascii -> bool) (s : string) : string :=
  match s with
  | EmptyString => EmptyString
  | String c r => match rstrip p r with
                  | EmptyString => if p c then EmptyString else String c EmptyString
                  | r' => String c r'
                  end
  end.
Definition strip (p : ascii -> bool) (s : string) : string := rstrip p (lstrip p s).
Fixpoint take (n : nat) (s : string) : string :=
  match n, s with
  | S m, String c r => String c (take m r)
  | _, _ => EmptyString
  end.
Fixpoint sall (p : ascii -> bool) (s : string) : bool :=
  match s with EmptyString => true | String c r => p c && sall p r end.
Fixpoint smap (f : ascii -> ascii) (s : string) : string :=
  match s with EmptyString => EmptyString | String c r => String (f c) (smap f r) end.
Definition first_is (p : ascii -> bool) (s : string) : bool :=
  match s with String c _ => p c | EmptyString => false end.
Fixpoint last_is (p : ascii -> bool) (s : string) : bool :=
  match s with
  | EmptyString => false
  | String c EmptyString => p c
  | String _ r => last_is p r
  end.
Definition or_fallback (s fb : string) : string := if is_empty s then fb else s.
Definition smem (k : string) (l : list string) : bool := existsb (String.eqb k) l.

(* ------------------------------------------------------------------ _sanitize_sheet_name *)
Definition in_class (c : ascii) : bool := existsb (Nat.eqb (code c)) sheet_class.
(* re.sub(class, repl, name): every matching character is replaced by the replacement text *)
Fixpoint subst_class (s : string) : string :=
  match s with
  | EmptyString => EmptyString
  | String c r => if in_class c then str_of_codes sheet_repl ++ subst_class r else String c (subst_class r)
  end.
(* re.sub(...).strip().strip("'") or "Sheet" *)
Definition sanitize (name : string) : string :=
  or_fallback (strip (is_char sheet_strip_char) (strip is_space (subst_class name))) (str_of_codes sheet_fallback_s).

(* ------------------------------------------------------------------ _unique_sheet_name *)
(* cleaned[:31].rstrip("'") or "Sheet" *)
Definition candidate (base : string) : string :=
  or_fallback (rstrip (is_char sheet_rstrip_char) (take sheet_trunc (sanitize base))) (str_of_codes sheet_fallback_u).
Definition nat_str (n : nat) : string := NilEmpty.string_of_uint (Nat.to_uint n).
(* f" ({idx})" *)
Definition suffix (k : nat) : string := str_of_codes sheet_sfx_pre ++ nat_str k ++ str_of_codes sheet_sfx_post.
(* trimmed = candidate[:31 - len(suffix)] if len(candidate) + len(suffix) > 31 else candidate ; alt = trimmed + suffix.
   (A negative slice bound would mean something else in Python; len(suffix) <= budget is one of the checked constant facts.) *)
Definition alt (cand : string) (k : nat) : string :=
  let sfx := suffix k in
  (if (sheet_limit <? String.length cand + String.length sfx)%nat
   then take (sheet_budget - String.length sfx) cand else cand) ++ sfx.
(* for idx in range(lo, hi): first alt not in used *)
Fixpoint try_alts (fuel k : nat) (cand : string) (used : list string) : option string :=
  match fuel with
  | O => None
  | S f => let a := alt cand k in if smem a used then try_alts f (S k) cand used else Some a
  end.
(* returns the name and the updated `used` set; the exhausted loop is the ValueError *)
Definition unique_sheet (base : string) (used : list string) : result (string * list string) :=
  let c := candidate base in
  if negb (smem c used) then Ok (c, c :: used)
  else match try_alts (sheet_hi - sheet_lo) sheet_lo c used with
       | Some a => Ok (a, a :: used)
       | None => Err EValue
       end.
(* _write_problem_tables: one `used` set threaded through all labels, in order *)
Fixpoint alloc (bases : list string) (used : list string) : result (list string) :=
  match bases with
  | [] => Ok []
  | b :: r => match unique_sheet b used with
              | Err e => Err e
              | Ok (n, used') => match alloc r used' with Ok ns => Ok (n :: ns) | Err e => Err e end
              end
  end.
(* names handed out before the first failure, and whether a failure happened *)
Fixpoint alloc_prefix (bases : list string) (used : list string) : list string * bool :=
  match bases with
  | [] => ([], false)
  | b :: r => match unique_sheet b used with
              | Err _ => ([], true)
              | Ok (n, used') => let '(ns, e) := alloc_prefix r used' in (n :: ns, e)
              end
  end.
(* every alternative the loop can try, in order *)
Definition alts (cand : string) : list string := map (alt cand) (seq sheet_lo (sheet_hi - sheet_lo)).

(* ---- the independent requirement on sheet names (Excel's rule; typed from the Excel documentation, not read from the code) *)
Definition excel_forbidden : list nat := [58; 92; 47; 63; 42; 91; 93].   (* : \ / ? * [ ] *)
Definition excel_max_len : nat := 31.
Definition apostrophe : nat := 39.
Definition forbidden_b (c : ascii) : bool := existsb (Nat.eqb (code c)) excel_forbidden.
Definition name_ok_b (n : string) : bool :=
  (1 <=? String.length n)%nat && (String.length n <=? excel_max_len)%nat
  && sall (fun c => negb (forbidden_b c)) n
  && negb (first_is (is_char apostrophe) n) && negb (last_is (is_char apostrophe) n).
Fixpoint nodup_b (l : list string) : bool :=
  match l with [] => true | x :: r => negb (smem x r) && nodup_b r end.
Definition names_ok_b (l : list string) : bool := forallb name_ok_b l && nodup_b l.

(* ---- verdicts for the naming suites *)
Fixpoint first_bad (l : list string) (k : Z) : option Z :=
  match l with [] => None | x :: r => if name_ok_b x then first_bad r (k + 1)%Z else Some k end.
Fixpoint first_diff (a b : list string) (k : Z) : option Z :=
  match a, b with
  | [], [] => None
  | x :: ra, y :: rb => if String.eqb x y then first_diff ra rb (k + 1)%Z else Some k
  | _, _ => Some k
  end.
(* impl = names the implementation returned (in call order, before it raised if it did).
   [0] agree; [3;k] name k violates Excel's rule; [3;-1] duplicate names; [2;k] model differs at k; [2;-1] only one side raises;
   [4;n] both raise ValueError after n names (loop exhausted: beyond the stated bound) *)
Definition judge_names (bases impl : list string) (impl_raised : bool) : list Z :=
  match first_bad impl 0 with
  | Some k => [V_PROP_FALSE; k]
  | None =>
    if negb (nodup_b impl) then [V_PROP_FALSE; (-1)%Z]
    else let '(m, e) := alloc_prefix bases [] in
         match first_diff m impl 0 with
         | Some k => [V_MISMATCH; k]
         | None => if Bool.eqb e impl_raised then (if e then [4%Z; Z.of_nat (List.length impl)] else [V_AGREE])
                   else [V_MISMATCH; (-1)%Z]
         end
  end.
(* one call with a given `used` set (the 1000-fold duplicate case is judged on its last step only; the full model run
   over 1000 names is cubic in a list-based set) *)
Definition judge_step (base : string) (used : list string) (impl : option string) : list Z :=
  match unique_sheet base used, impl with
  | Ok (n, _), Some i => if negb (name_ok_b i) || smem i used then [V_PROP_FALSE; 0%Z]
                         else if String.eqb n i then [V_AGREE] else [V_MISMATCH; 0%Z]
  | Err _, None => [4%Z; Z.of_nat (List.length used)]
  | _, _ => [V_MISMATCH; (-1)%Z]
  end.
Definition judge_sanitize (name impl : string) : list Z :=
  if String.eqb (sanitize name) impl then [V_AGREE] else [V_MISMATCH; 0%Z].
(* the direct predicate alone, for names read back from an exported workbook *)
Definition judge_sheets (labels sheets : list string) : list Z :=
  match first_bad sheets 0 with
  | Some k => [V_PROP_FALSE; k]
  | None => if negb (nodup_b sheets) then [V_PROP_FALSE; (-1)%Z]
            else match alloc labels [] with
                 | Ok m => match first_diff m sheets 0 with Some k => [V_MISMATCH; k] | None => [V_AGREE] end
                 | Err _ => [V_MISMATCH; (-1)%Z]
                 end
  end.

(* ------------------------------------------------------------------ _normalize_label, _validate_stream_data *)
Definition replace_char (a b : nat) (s : string) : string := smap (fun c => if is_char a c then chr b else c) s.
Definition all_digits (s : string) : bool := negb (is_empty s) && sall is_digit_py s.
(* text = str(value).strip(); text = text.replace(".", "-"); if text.isdigit(): text = prefix + text *)
Definition normalize_label (prefix text : string) : string :=
  let t := replace_char label_dot label_dash (strip is_space text) in
  if all_digits t then prefix ++ t else t.
Definition default_zone : string := "Process Zone".
Definition blank (s : string) : bool := is_empty (strip is_space s).
(* one record of the list branch: None = missing cell (None / NaN); a record without a usable name is dropped *)
Definition validate_record (zone name : option string) : option (string * string) :=
  match name with
  | None => None
  | Some n =>
    if blank n then None
    else let z := match zone with
                  | None => default_zone
                  | Some z0 => if blank z0 then default_zone else normalize_label (str_of_codes label_prefix_zone) z0
                  end in
         Some (z, normalize_label (str_of_codes label_prefix_name) n)
  end.
Definition opt_pair_eqb (a b : option (string * string)) : bool :=
  match a, b with
  | None, None => true
  | Some (z1, n1), Some (z2, n2) => String.eqb z1 z2 && String.eqb n1 n2
  | _, _ => false
  end.
Definition judge_record (zone name : option string) (impl : option (string * string)) : list Z :=
  if opt_pair_eqb (validate_record zone name) impl then [V_AGREE] else [V_MISMATCH; 0%Z].

(* ------------------------------------------------------------------ get_value *)
Inductive pyval :=
  | PFloat (x : Q)                       (* a Python float *)
  | PDict (has_value : bool) (x : option Q)   (* a dict; x = d["value"] when the key exists (None allowed) *)
  | PVU (x : option Q)                   (* ValueWithUnit(value = x) *)
  | POther.                              (* int, str, None, list ... *)
Definition get_value (v : pyval) : result (option Q) :=
  match v with
  | PFloat x => Ok (Some x)
  | PDict true x => Ok x
  | PDict false _ => Err EKey
  | PVU x => Ok x
  | POther => Err EType
  end.
Definition opt_q_eqb (a b : option Q) : bool :=
  match a, b with None, None => true | Some x, Some y => Qeq_bool x y | _, _ => false end.
(* impl: inl value | inr error code *)
Definition judge_get_value (v : pyval) (impl : option Q) (impl_err : Z) : list Z :=
  match get_value v with
  | Ok x => if (impl_err =? 0)%Z && opt_q_eqb x impl then [V_AGREE] else [V_MISMATCH; 0%Z]
  | Err e => if (impl_err =? errcode e)%Z then [V_AGREE] else [V_MISMATCH; 1%Z]
  end.

(* ------------------------------------------------------------------ PinchProblem: load / target / export_to_Excel *)
Inductive werr : Set := WNoInput | WNoDir.
Definition werr_code (e : werr) : Z := match e with WNoInput => 1 | WNoDir => 2 end%Z.
Section Wrapper.
  Variables input name output : Type.
  Variable service : input -> option name -> output.          (* pinch_analysis_service(data, project_name), abstract;
                                                                 None = the class default project name 'Untitled' *)

  (* w_res carries a stamp = ordinal of the service call that produced the object (its identity) *)
  Record wstate := mkW { w_data : option input; w_name : option name; w_res : option (nat * output); w_calls : nat; w_dir : bool }.
  (* load(source): the source determines the data and, when it is a file or directory, the project name (its stem) *)
  Inductive wop := WLoad (p : input) (nm : option name) | WTarget | WExport (dir : bool).
  Inductive wobs := ObsLoaded | ObsResult (stamp : nat) (o : output) | ObsErr (e : werr).
  Definition w_init : wstate := mkW None None None 0 false.

  (* target(): uses the cache, otherwise calls the service once and caches *)
  Definition w_target (s : wstate) : wstate * wobs :=
    match w_data s with
    | None => (s, ObsErr WNoInput)
    | Some p =>
      match w_res s with
      | Some (st, o) => (s, ObsResult st o)
      | None => let st := S (w_calls s) in
                (mkW (w_data s) (w_name s) (Some (st, service p (w_name s))) st (w_dir s), ObsResult st (service p (w_name s)))
      end
    end.
  Definition wstep (s : wstate) (o : wop) : wstate * wobs :=
    match o with
    | WLoad p nm => (mkW (Some p) nm None (w_calls s) (w_dir s), ObsLoaded)   (* load() drops the cached results and resets the project name *)
    | WTarget => w_target s
    | WExport d =>
      let s1 := mkW (w_data s) (w_name s) (w_res s) (w_calls s) (d || w_dir s) in
      if negb (w_dir s1) then (s1, ObsErr WNoDir) else w_target s1           (* exports what target() returns *)
    end.
  (* the behaviour before commit c560ce5: load() kept the cache *)
  Definition wstep_prefix (s : wstate) (o : wop) : wstate * wobs :=
    match o with
    | WLoad p nm => (mkW (Some p) nm (w_res s) (w_calls s) (w_dir s), ObsLoaded)
    | _ => wstep s o
    end.
  (* the behaviour before commit 29d391b: a source without a file name kept the project name of an earlier load *)
  Definition wstep_prename (s : wstate) (o : wop) : wstate * wobs :=
    match o with
    | WLoad p nm => (mkW (Some p) (match nm with Some _ => nm | None => w_name s end) None (w_calls s) (w_dir s), ObsLoaded)
    | _ => wstep s o
    end.
  Fixpoint wrun (step : wstate -> wop -> wstate * wobs) (s : wstate) (ops : list wop) : list wobs * wstate :=
    match ops with
    | [] => ([], s)
    | o :: r => let '(s1, ob) := step s o in let '(obs, s2) := wrun step s1 r in (ob :: obs, s2)
    end.
End Wrapper.
Arguments WLoad {input name} p nm.
Arguments WTarget {input name}.
Arguments WExport {input name} dir.
Arguments ObsLoaded {output}.
Arguments ObsResult {output} stamp o.
Arguments ObsErr {output} e.
Arguments w_init {input name output}.
Arguments mkW {input name output}.

(* correspondence instance: inputs are problem indices, names are stem indices, an output is the pair (which problem, which
   project name: 0 = 'Untitled') -- the harness recognises WHICH problem a result belongs to by comparing it with the service's
   answer for each loaded problem and reads the project name off the result *)
Definition nservice (p : nat) (nm : option nat) : nat * nat := (p, match nm with Some k => k | None => 0 end).
Definition nobs_eqb (a b : wobs (nat * nat)) : bool :=
  match a, b with
  | ObsLoaded, ObsLoaded => true
  | ObsResult s1 (p1, n1), ObsResult s2 (p2, n2) => Nat.eqb s1 s2 && Nat.eqb p1 p2 && Nat.eqb n1 n2
  | ObsErr e1, ObsErr e2 => Z.eqb (werr_code e1) (werr_code e2)
  | _, _ => false
  end.
Fixpoint first_obs_diff (a b : list (wobs (nat * nat))) (k : Z) : option Z :=
  match a, b with
  | [], [] => None
  | x :: ra, y :: rb => if nobs_eqb x y then first_obs_diff ra rb (k + 1)%Z else Some k
  | _, _ => Some k
  end.
(* spec, independent of the state machine: what op k must show given only the op list *)
Fixpoint last_load (ops : list (wop nat nat)) (acc : option (nat * nat)) : option (nat * nat) :=
  match ops with [] => acc | WLoad p nm :: r => last_load r (Some (nservice p nm)) | _ :: r => last_load r acc end.
Definition shows (x : nat * nat) (before : list (wop nat nat)) : bool :=
  match last_load before None with Some (p, n) => Nat.eqb (fst x) p && Nat.eqb (snd x) n | None => false end.
Fixpoint spec_ok (before : list (wop nat nat)) (ops : list (wop nat nat)) (obs : list (wobs (nat * nat))) (dir : bool) : bool :=
  match ops, obs with
  | [], [] => true
  | o :: r, ob :: robs =>
    let dir' := match o with WExport d => d || dir | _ => dir end in
    (match o, ob with
     | WLoad _ _, ObsLoaded => true
     | WTarget, ObsResult _ x => shows x before
     | WTarget, ObsErr WNoInput => match last_load before None with None => true | _ => false end
     | WExport _, ObsErr WNoDir => negb dir'
     | WExport _, ObsResult _ x => dir' && shows x before
     | WExport _, ObsErr WNoInput => dir' && match last_load before None with None => true | _ => false end
     | _, _ => false
     end) && spec_ok (before ++ [o]) r robs dir'
  | _, _ => false
  end.
(* impl_obs: observations of the real PinchProblem; impl_calls: how often it called the service *)
Definition nrun (ops : list (wop nat nat)) : list (wobs (nat * nat)) * wstate nat nat (nat * nat) :=
  wrun nat nat (nat * nat) (wstep nat nat (nat * nat) nservice) w_init ops.
Definition judge_wrapper (ops : list (wop nat nat)) (impl_obs : list (wobs (nat * nat))) (impl_calls : nat) : list Z :=
  let '(obs, s) := nrun ops in
  if negb (spec_ok [] ops impl_obs false) then
    [V_PROP_FALSE; match first_obs_diff obs impl_obs 0 with Some k => k | None => (-1)%Z end]
  else
    match first_obs_diff obs impl_obs 0 with
    | Some k => [V_MISMATCH; k]
    | None => if Nat.eqb (w_calls nat nat (nat * nat) s) impl_calls then [V_AGREE] else [V_MISMATCH; (-2)%Z]
    end.

(* ------------------------------------------------------------------ one problem through several channels *)
Record trec := mkT { t_name : string; t_nums : list (option Q); t_utils : list (string * Q) }.
Fixpoint optq_close (a b : list (option Q)) : bool :=
  match a, b with
  | [], [] => true
  | None :: ra, None :: rb => optq_close ra rb
  | Some x :: ra, Some y :: rb => close eps9 x y && optq_close ra rb
  | _, _ => false
  end.
Fixpoint utils_close (a b : list (string * Q)) : bool :=
  match a, b with
  | [], [] => true
  | (n1, x) :: ra, (n2, y) :: rb => String.eqb n1 n2 && close eps9 x y && utils_close ra rb
  | _, _ => false
  end.
Definition trec_agree (a b : trec) : bool :=
  String.eqb (t_name a) (t_name b) && optq_close (t_nums a) (t_nums b) && utils_close (t_utils a) (t_utils b).
Fixpoint recs_diff (a b : list trec) (k : Z) : option Z :=
  match a, b with
  | [], [] => None
  | x :: ra, y :: rb => if trec_agree x y then recs_diff ra rb (k + 1)%Z else Some k
  | _, _ => Some k
  end.
(* ref = the service on the plain dictionary; others = every other channel/runner; [3; channel; record] on the first difference
   (the property itself is the agreement, there is no separate model of a codec) *)
Fixpoint judge_channels_from (ref : list trec) (others : list (list trec)) (c : Z) : list Z :=
  match others with
  | [] => [V_AGREE]
  | o :: r => match recs_diff ref o 0 with
              | Some k => [V_PROP_FALSE; c; k]
              | None => judge_channels_from ref r (c + 1)%Z
              end
  end.
Definition judge_channels (ref : list trec) (others : list (list trec)) : list Z := judge_channels_from ref others 0.
