(* Executable model of OpenPinch/analysis/problem_table_analysis.py:
   temperature grid (create_problem_table_with_t_int), activity test with the tol*10 window
   (_sum_mcp_between_temperature_boundaries), the cascade and its shift (problem_table_algorithm),
   target read-out (set_zonal_targets), real-table shift (_shift_pt_to_set_heat_recovery);
   and the independent specification: exact heat content of the streams above / below a temperature. *)
From OP Require Import gen.Consts model.Base.
Local Open Scope Q_scope.

(* a stream seen on one temperature scale (shifted or real): [lo, hi], heat-capacity flow rate *)
Record view := mkV { lo : Q; hi : Q; vcp : Q }.

(* ---------- specification (independent of any grid) ---------- *)
Definition above (s : view) (T : Q) : Q := Qmax 0 (hi s - Qmax (lo s) T).      (* length of [lo,hi] above T *)
Definition below (s : view) (T : Q) : Q := Qmax 0 (Qmin (hi s) T - lo s).      (* length of [lo,hi] below T *)
Definition heat_above (ss : list view) (T : Q) : Q := fold_right (fun s a => vcp s * above s T + a) 0 ss.
Definition heat_below (ss : list view) (T : Q) : Q := fold_right (fun s a => vcp s * below s T + a) 0 ss.
Definition duty (ss : list view) : Q := fold_right (fun s a => vcp s * (hi s - lo s) + a) 0 ss.
(* net heat deficit above T *)
Definition Dnet (hot cold : list view) (T : Q) : Q := heat_above cold T - heat_above hot T.
Definition endpoints (ss : list view) : list Q := flat_map (fun s => [lo s; hi s]) ss.
Definition qmax_list (x : Q) (l : list Q) : Q := fold_left Qmax l x.
Definition qmin_list (x : Q) (l : list Q) : Q := fold_left Qmin l x.
(* Qh* = largest net deficit above any stream end point, or zero *)
Definition Qh_star (hot cold : list view) : Q :=
  Qred (qmax_list 0 (map (Dnet hot cold) (endpoints hot ++ endpoints cold))).
Definition Qc_star (hot cold : list view) : Q := Qred (Qh_star hot cold - duty cold + duty hot).
Definition Qr_star (hot cold : list view) : Q := Qred (duty hot - Qc_star hot cold).

(* ---------- grid ---------- *)
Definition pow10 (n : nat) : Z := Z.pow 10 (Z.of_nat n).
(* round half to even at dp decimals, on the exact rational *)
Definition round_half_even (x : Q) : Z :=
  let f := Qfloor x in
  let r := x - inject_Z f in
  match Qcompare r (1 # 2) with
  | Lt => f | Gt => (f + 1)%Z
  | Eq => if Z.even f then f else (f + 1)%Z
  end.
Definition round_dp (dp : nat) (x : Q) : Q :=
  Qred (inject_Z (round_half_even (x * inject_Z (pow10 dp))) / inject_Z (pow10 dp)).
Fixpoint ins (x : Q) (l : list Q) : list Q :=
  match l with
  | [] => [x]
  | y :: t => match Qcompare x y with Eq => l | Gt => x :: l | Lt => y :: ins x t end
  end.
(* sorted(set(round(T,6)), reverse=True) *)
Definition grid_of (es : list Q) : list Q := fold_right ins [] (map (round_dp grid_round_dp) es).

(* ---------- cascade ---------- *)
Section WithWindow.
Variable w : Q.     (* tol * 10 *)

Definition active (s : view) (up low : Q) : bool := qltb (low + w) (hi s) && qltb (lo s) (up - w).
Definition cpsum (ss : list view) (up low : Q) : Q :=
  fold_right (fun s a => if active s up low then Qred (vcp s + a) else a) 0 ss.

Record rrow := mkR { rT : Q; rdT : Q; rcph : Q; rdhh : Q; rch : Q; rcpc : Q; rdhc : Q; rcc : Q }.
Fixpoint rows_from (hot cold : list view) (prev ch cc : Q) (g : list Q) : list rrow :=
  match g with
  | [] => []
  | t :: g' =>
      let d := rsub prev t in
      let cph := cpsum hot prev t in let dhh := rmul d cph in let ch' := radd ch dhh in
      let cpc := cpsum cold prev t in let dhc := rmul d cpc in let cc' := radd cc dhc in
      mkR t d cph dhh ch' cpc dhc cc' :: rows_from hot cold t ch' cc' g'
  end.
Definition raw_rows (hot cold : list view) (g : list Q) : list rrow :=
  match g with [] => [] | t0 :: g' => mkR t0 0 0 0 0 0 0 0 :: rows_from hot cold t0 0 0 g' end.

(* the table after the final shift of problem_table_algorithm *)
Record ptab := mkPT { pT : list Q; pdT : list Q; pCPh : list Q; pdHh : list Q; pHh : list Q;
                      pCPc : list Q; pdHc : list Q; pHc : list Q; pCPn : list Q; pdHn : list Q; pHn : list Q }.
Definition lastq (l : list Q) : Q := last l 0.
Definition pta (hot cold : list view) (g : list Q) : ptab :=
  let rs := raw_rows hot cold g in
  let ch := map rch rs in let cc := map rcc rs in
  let nraw := map (fun r => rsub (rch r) (rcc r)) rs in        (* -cumsum(dT*(CPc-CPh)) *)
  let mn := match nraw with [] => 0 | x :: l => qmin_list x l end in
  let shift := rsub (lastq nraw) mn in
  mkPT (map rT rs) (map rdT rs) (map rcph rs) (map rdhh rs) (map (fun x => rsub (lastq ch) x) ch)
       (map rcpc rs) (map rdhc rs) (map (fun x => rsub (radd (lastq cc) shift) x) cc)
       (map (fun r => rsub (rcpc r) (rcph r)) rs) (map (fun r => rmul (rdT r) (rsub (rcpc r) (rcph r))) rs)
       (map (fun x => rsub x mn) nraw).

Definition Qh_of (p : ptab) : Q := hd 0 (pHn p).
Definition Qc_of (p : ptab) : Q := lastq (pHn p).
Definition Qr_of (p : ptab) : Q := rsub (hd 0 (pHh p)) (lastq (pHn p)).
End WithWindow.

(* real-temperature table: same cascade on the real scale, then H_cold and H_net moved by
   (own heat recovery - heat recovery of the shifted table) *)
Definition shift_real (p : ptab) (known_hr : Q) : ptab :=
  let d := rsub (Qr_of p) known_hr in
  mkPT (pT p) (pdT p) (pCPh p) (pdHh p) (pHh p) (pCPc p) (pdHc p) (map (fun x => radd x d) (pHc p))
       (pCPn p) (pdHn p) (map (fun x => radd x d) (pHn p)).

(* ---------- judges ---------- *)
Definition close_col (eps : Q) (a b : list Q) : bool := close_list eps a b.
(* enthalpy cells: the implementation's grid temperatures are the doubles nearest to the 6-decimal values, i.e. displaced by up
   to ~3e-14 K from the model's exact decimals; a cell may therefore differ by that displacement times the total CP *)
Fixpoint close_h (eps extra : Q) (l1 l2 : list Q) : bool :=
  match l1, l2 with
  | [], [] => true
  | a :: r1, b :: r2 => qleb (Qabs (a - b)) (eps * qscale a b + extra) && close_h eps extra r1 r2
  | _, _ => false
  end.
Definition cp_total (m : list Q) (n : list Q) : Q := fold_right (fun x a => Qabs x + a) 0 (m ++ n).
Definition agree_ptab (eps : Q) (m i : ptab) : bool :=
  let extra := Qred ((1 # 10000000000000) * (1 + cp_total (pCPh m) (pCPc m))) in
  close_col eps (pT m) (pT i) && close_col eps (pdT m) (pdT i) && close_col eps (pCPh m) (pCPh i)
  && close_h eps extra (pdHh m) (pdHh i) && close_h eps extra (pHh m) (pHh i) && close_col eps (pCPc m) (pCPc i)
  && close_h eps extra (pdHc m) (pdHc i) && close_h eps extra (pHc m) (pHc i) && close_col eps (pCPn m) (pCPn i)
  && close_h eps extra (pdHn m) (pdHn i) && close_h eps extra (pHn m) (pHn i).

(* absolute closeness scaled by the total duty of the problem *)
Definition dscale (hot cold : list view) : Q := Qmax 1 (duty hot + duty cold).
Definition near (eps : Q) (hot cold : list view) (a b : Q) : bool := qleb (Qabs (a - b)) (eps * dscale hot cold).

(* C01 predicate on reported targets *)
Definition c01_b (eps : Q) (hot cold : list view) (qh qc qr : Q) : bool :=
  near eps hot cold qh (Qh_star hot cold) && near eps hot cold qc (Qc_star hot cold) && near eps hot cold qr (Qr_star hot cold).

(* C05 predicates on a table (any rows, including rows inserted later): curves equal the stream heat contents *)
Fixpoint forall2b {A B} (f : A -> B -> bool) (a : list A) (b : list B) : bool :=
  match a, b with [], [] => true | x :: r, y :: s => f x y && forall2b f r s | _, _ => false end.
Definition c05_curves_b (eps : Q) (hot cold : list view) (offset : Q) (Ts Hh Hc Hn : list Q) : bool :=
  forall2b (fun T h => near eps hot cold h (heat_below hot T)) Ts Hh
  && forall2b (fun T h => near eps hot cold h (offset + heat_below cold T)) Ts Hc
  && forall2b (fun hn hc_hh => near eps hot cold hn hc_hh) Hn (map (fun p => fst p - snd p) (combine Hc Hh)).
Fixpoint desc_b (l : list Q) : bool :=
  match l with a :: ((b :: _) as t) => qltb b a && desc_b t | _ => true end.
Fixpoint widths_b (eps : Q) (prev : Q) (Ts dTs : list Q) : bool :=
  match Ts, dTs with
  | t :: r, d :: s => close_abs eps d (prev - t) && widths_b eps t r s
  | [], [] => true | _, _ => false end.
Definition c05_widths_b (eps : Q) (Ts dTs : list Q) : bool :=
  match Ts, dTs with t0 :: r, _ :: s => widths_b eps t0 r s | [], [] => true | _, _ => false end.
Fixpoint dh_b (eps : Q) (hot cold : list view) (dTs CPs dHs : list Q) : bool :=
  match dTs, CPs, dHs with
  | d :: r, c :: s, h :: t => near eps hot cold h (d * c) && dh_b eps hot cold r s t
  | [], [], [] => true | _, _, _ => false end.
(* cumulative column consistent with its increment column: H[i-1] - H[i] = dH[i] (hot/cold), H_net[i] - H_net[i-1] = ... *)
Fixpoint cum_b (eps : Q) (hot cold : list view) (prev : Q) (Hs dHs : list Q) : bool :=
  match Hs, dHs with
  | h :: r, d :: s => near eps hot cold (prev - h) d && cum_b eps hot cold h r s
  | [], [] => true | _, _ => false end.
Definition c05_cum_b (eps : Q) (hot cold : list view) (Hs dHs : list Q) : bool :=
  match Hs, dHs with h0 :: r, _ :: s => cum_b eps hot cold h0 r s | [], [] => true | _, _ => false end.
Definition nonneg_touch_b (eps : Q) (hot cold : list view) (Hn : list Q) : bool :=
  forallb (fun h => qleb (- (eps * dscale hot cold)) h) Hn && existsb (fun h => near eps hot cold h 0) Hn.

(* one stage-level case: streams (hot, cold, extra grid contributors = utilities), implementation table *)
Definition stage_model (w : Q) (hot cold extra : list view) : ptab :=
  pta w hot cold (grid_of (endpoints (hot ++ cold ++ extra))).
Definition w_lo : Q := Qred (act_window * (999 # 1000)).
Definition w_hi : Q := Qred (act_window * (1001 # 1000)).
Definition judge_stage (hot cold extra : list view) (impl : ptab) : list Z :=
  let m := stage_model act_window hot cold extra in
  if negb (agree_ptab eps9 m (stage_model w_lo hot cold extra) && agree_ptab eps9 m (stage_model w_hi hot cold extra))
  then [V_FRAGILE]
  else if negb (c01_b eps6 hot cold (Qh_of impl) (Qc_of impl) (Qr_of impl)) then [V_PROP_FALSE; 1%Z]
  else if negb (c05_curves_b eps6 hot cold (Qc_star hot cold) (pT impl) (pHh impl) (pHc impl) (pHn impl)
                && desc_b (pT impl) && c05_widths_b eps9 (pT impl) (pdT impl)
                && dh_b eps9 hot cold (pdT impl) (pCPh impl) (pdHh impl) && dh_b eps9 hot cold (pdT impl) (pCPc impl) (pdHc impl)
                && dh_b eps9 hot cold (pdT impl) (pCPn impl) (pdHn impl)
                && c05_cum_b eps9 hot cold (pHh impl) (pdHh impl) && c05_cum_b eps9 hot cold (pHc impl) (pdHc impl)
                && nonneg_touch_b eps9 hot cold (pHn impl))
  then [V_PROP_FALSE; 5%Z]
  else if negb (agree_ptab eps9 m impl) then [V_MISMATCH; 0%Z]
  else [V_AGREE].
