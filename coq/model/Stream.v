(* Executable model of OpenPinch/classes/stream.py (numeric constructor arguments):
   constructor, the public setters that recompute derived attributes, set_heat_flow.
   Mirrors the code as it is in /repo; tied to it by the C19 correspondence suite. *)
From OP Require Import gen.Consts model.Base.
Local Open Scope Q_scope.

Record stream := mkS {
  ts : Q; tt : Q; dt : Q; q : Q; htc : Q; htr : Q; price : Q;
  cold : bool;                       (* _type == "Cold" *)
  tmin : Q; tmax : Q; tmins : Q; tmaxs : Q;
  cp : Q; rcp : Q; utcost : Q }.

Definition set_hot (s : stream) : stream :=
  mkS (ts s) (tt s) (dt s) (q s) (htc s) (htr s) (price s) false
      (tt s) (ts s) (rsub (tt s) (dt s)) (rsub (ts s) (dt s)) (cp s) (rcp s) (utcost s).
Definition set_cold (s : stream) : stream :=
  mkS (ts s) (tt s) (dt s) (q s) (htc s) (htr s) (price s) true
      (ts s) (tt s) (radd (ts s) (dt s)) (radd (tt s) (dt s)) (cp s) (rcp s) (utcost s).
Definition with_tt (s : stream) (v : Q) : stream :=
  mkS (ts s) v (dt s) (q s) (htc s) (htr s) (price s) (cold s)
      (tmin s) (tmax s) (tmins s) (tmaxs s) (cp s) (rcp s) (utcost s).

Definition with_q (s : stream) (v : Q) : stream :=
  mkS (ts s) (tt s) (dt s) v (htc s) (htr s) (price s) (cold s)
      (tmin s) (tmax s) (tmins s) (tmaxs s) (cp s) (rcp s) (utcost s).

(* _update_attributes, for a stream whose temperatures, duty, price and coefficient are numbers *)
Definition update (s : stream) : stream :=
  let s1 :=
    if qltb (tt s) (ts s) then set_hot s
    else if qltb (ts s) (tt s) then set_cold s
    else if qleb 0 (q s) then set_cold (with_tt s (radd (ts s) latent_dT))
    else set_hot (with_q (with_tt s (rsub (ts s) latent_dT)) (Qred (- q s))) in
  let cp1 := rdiv (q s1) (rsub (tmax s1) (tmin s1)) in
  let ut1 := rmul (rdiv (q s1) 1000) (price s1) in
  let '(htr1, rcp1) :=
    if is_zero (htc s1) then (htr s1, rcp s1)
    else let h := rdiv 1 (htc s1) in (h, if qltb 0 (htc s1) then rmul cp1 h else 0) in
  mkS (ts s1) (tt s1) (dt s1) (q s1) (htc s1) htr1 (price s1) (cold s1)
      (tmin s1) (tmax s1) (tmins s1) (tmaxs s1) cp1 rcp1 ut1.

(* Stream(name, t_supply, t_target, dt_cont, heat_flow, htc, price) *)
Definition mk_stream (ts0 tt0 dt0 q0 htc0 price0 : Q) : stream :=
  let h := if is_zero htc0 then 1 else htc0 in
  update (mkS ts0 tt0 dt0 q0 h (rdiv 1 h) price0 false 0 0 0 0 0 0 0).

Inductive sop : Set :=
  | SetTs (v : Q) | SetTt (v : Q) | SetDt (v : Q) | SetQ (v : Q) | SetHtc (v : Q) | SetHeatFlow (v : Q).

Definition sstep (s : stream) (o : sop) : stream :=
  match o with
  | SetTs v => update (mkS v (tt s) (dt s) (q s) (htc s) (htr s) (price s) (cold s) (tmin s) (tmax s) (tmins s) (tmaxs s) (cp s) (rcp s) (utcost s))
  | SetTt v => update (with_tt s v)
  | SetDt v => update (mkS (ts s) (tt s) v (q s) (htc s) (htr s) (price s) (cold s) (tmin s) (tmax s) (tmins s) (tmaxs s) (cp s) (rcp s) (utcost s))
  | SetQ v => update (mkS (ts s) (tt s) (dt s) v (htc s) (htr s) (price s) (cold s) (tmin s) (tmax s) (tmins s) (tmaxs s) (cp s) (rcp s) (utcost s))
  | SetHtc v => update (mkS (ts s) (tt s) (dt s) (q s) v (htr s) (price s) (cold s) (tmin s) (tmax s) (tmins s) (tmaxs s) (cp s) (rcp s) (utcost s))
  | SetHeatFlow v =>
      let ut1 := rmul (rdiv v 1000) (price s) in
      let d := Qabs (ts s - tt s) in
      if qltb 0 d then
        let cp1 := rdiv v d in
        mkS (ts s) (tt s) (dt s) v (htc s) (htr s) (price s) (cold s) (tmin s) (tmax s) (tmins s) (tmaxs s) cp1 (rmul (htr s) cp1) ut1
      else
        mkS (ts s) (tt s) (dt s) v (htc s) (htr s) (price s) (cold s) (tmin s) (tmax s) (tmins s) (tmaxs s) (cp s) (rcp s) ut1
  end.

Definition run_ops (s : stream) (ops : list sop) : stream := fold_left sstep ops s.

(* the property predicate, boolean form, evaluated both on model states and on
   states observed from the implementation (eps = 0 gives the exact statement) *)
Definition inv_b (eps : Q) (s : stream) : bool :=
  close eps (cp s * (tmax s - tmin s)) (q s)
  && qleb (tmin s) (tmax s)
  && (if cold s then close eps (tmins s) (tmin s + dt s) && close eps (tmaxs s) (tmax s + dt s)
      else close eps (tmins s) (tmin s - dt s) && close eps (tmaxs s) (tmax s - dt s))
  && (is_zero (htc s) || close eps (htr s * htc s) 1).

(* agreement of a model state with an observed state *)
Definition agree_stream (eps : Q) (m i : stream) : bool :=
  close eps (ts m) (ts i) && close eps (tt m) (tt i) && close eps (dt m) (dt i) && close eps (q m) (q i)
  && close eps (htc m) (htc i) && close eps (htr m) (htr i) && Bool.eqb (cold m) (cold i)
  && close eps (tmin m) (tmin i) && close eps (tmax m) (tmax i) && close eps (tmins m) (tmins i)
  && close eps (tmaxs m) (tmaxs i) && close eps (cp m) (cp i) && close eps (rcp m) (rcp i)
  && close eps (utcost m) (utcost i).

(* ---- judge for one correspondence case: implementation states observed after the constructor and after every op ---- *)
Fixpoint judge_states (eps : Q) (m : stream) (ops : list sop) (impl : list stream) (k : Z) : list Z :=
  match impl with
  | [] => match ops with [] => [V_AGREE] | _ => [V_MISMATCH; (-1)%Z] end
  | i :: rest =>
      if negb (inv_b eps i) then [V_PROP_FALSE; k]
      else if negb (agree_stream eps m i) then [V_MISMATCH; k]
      else match ops with
           | [] => match rest with [] => [V_AGREE] | _ => [V_MISMATCH; (-1)%Z] end
           | o :: r => judge_states eps (sstep m o) r rest (k + 1)%Z
           end
  end.
Definition judge_stream (ts0 tt0 dt0 q0 htc0 price0 : Q) (ops : list sop) (impl : list stream) : list Z :=
  judge_states eps9 (mk_stream ts0 tt0 dt0 q0 htc0 price0) ops impl 0.
