(* Executable definitions for C14 (the service is total and well-formed on every valid problem).
   1. wf_output_b : the property predicate, evaluated INSIDE coqc on the exact rationals of what the implementation returned
      (finiteness flag, one direct-integration record per zone, temperature envelope, repeatability).
   2. models of the guards of the partial operations met on the way to a direct-integration record:
      CP = duty / span (Stream.v, read-only), linear_interpolation and its call site _get_T_start_on_opposite_cc,
      the option sanitiser _validate_config_data_completed, utility completion (t_target == t_supply), the extreme process
      temperatures with their +-1e9 sentinels and the default-utility placement (data_preparation.py), the temperature grid,
      the zone-type dispatch of main.py (which zone gets a direct-integration record; the KeyError of
      DO_INDIRECT_PROCESS_TARGETING falls out of the order of calls).
   No proofs in this file. *)
From Coq Require Import String.
From OP Require Import gen.Consts model.Base model.Stream.
Local Open Scope Q_scope.

(* ------------------------------------------------------------------ option sanitiser (_validate_config_data_completed) *)
Definition phase_fallback : Q := 5764607523034235 # 576460752303423488.   (* the double 0.01 *)
Definition sanitize_dt_cont (x : Q) : Q := if qltb x 0 then 0 else x.
Definition sanitize_dt_phase (x : Q) : Q := if qleb x 0 then phase_fallback else x.
Definition judge_cfg (dt_cont dt_phase impl_cont impl_phase : Q) : list Z :=
  if qeqb (sanitize_dt_cont dt_cont) impl_cont && qeqb (sanitize_dt_phase dt_phase) impl_phase then [V_AGREE] else [V_MISMATCH; 0%Z].

(* ------------------------------------------------------------------ guards *)
(* CP = heat_flow / (t_max - t_min) *)
Definition cp_guarded (s : stream) : result Q :=
  let span := rsub (tmax s) (tmin s) in
  if is_zero span then Err EZeroDiv else Ok (rdiv (q s) span).

(* utils/miscellaneous.linear_interpolation *)
Definition lin_interp (xi x1 x2 y1 y2 : Q) : result Q :=
  if qeqb x1 x2 then Err EValue
  else let m := (y1 - y2) / (x1 - x2) in Ok (Qred (m * xi + (y1 - m * x1))).

(* problem_table_analysis._get_T_start_on_opposite_cc on two columns of one table *)
Fixpoint transitions (tolv : Q) (temp : list Q) (i : nat) : list nat :=
  match temp with
  | a :: ((b :: _) as r) => (if qleb tolv a && qleb b (- tolv) then [i] else []) ++ transitions tolv r (S i)
  | _ => []
  end.
Definition t_start_on_opposite (tolv : Q) (cc Ts : list Q) (h0 : Q) : result (option Q) :=
  let temp := map (fun c => c - h0) cc in
  if (List.length temp <? 2)%nat then Ok None
  else if existsb (fun t => qltb (Qabs t) tolv) temp then Ok None
  else match transitions tolv temp 0 with
       | [idx] =>
         match nth_error cc idx, nth_error cc (S idx), nth_error Ts idx, nth_error Ts (S idx) with
         | Some c0, Some c1, Some t0, Some t1 => bind (lin_interp h0 c0 c1 t0 t1) (fun t => Ok (Some t))
         | _, _, _, _ => Err EIndex
         end
       | _ => Ok None
       end.
(* impl: None | Some T ; impl_err = error code (0 = returned) *)
Definition judge_t_start (cc Ts : list Q) (h0 : Q) (impl : option Q) (impl_err : Z) : list Z :=
  match t_start_on_opposite tol cc Ts h0 with
  | Err e => if (impl_err =? errcode e)%Z then [V_AGREE] else [V_MISMATCH; 1%Z]
  | Ok None => if (impl_err =? 0)%Z && match impl with None => true | _ => false end then [V_AGREE] else [V_MISMATCH; 2%Z]
  | Ok (Some t) => match impl with
                   | Some t' => if (impl_err =? 0)%Z && close eps9 t t' then [V_AGREE] else [V_MISMATCH; 3%Z]
                   | None => [V_MISMATCH; 4%Z]
                   end
  end.

(* utility completion (_complete_utility_data): a utility given with t_target = t_supply gets a glide of DT_PHASE_CHANGE *)
Definition complete_utility_tt (hot : bool) (dt_phase ts0 tt0 : Q) : Q :=
  if qeqb tt0 ts0 then (if hot then rsub ts0 dt_phase else radd ts0 dt_phase) else tt0.

(* _find_extreme_process_temperatures: sentinels when a side is empty *)
Definition sentinel : Q := 1000000000.
Definition hu_t_min (cold_tmaxs : list Q) : Q := fold_left (fun a t => if qltb a t then t else a) cold_tmaxs (- sentinel).
Definition cu_t_max (hot_tmins : list Q) : Q := fold_left (fun a t => if qltb t a then t else a) hot_tmins sentinel.
(* _create_default_utility: (t_supply, t_target) *)
Definition default_hu (dt_cont dt_phase hu_min : Q) : Q * Q := (radd hu_min (radd dt_cont dt_phase), radd hu_min dt_cont).
Definition default_cu (dt_cont dt_phase cu_max : Q) : Q * Q := (rsub cu_max (radd dt_cont dt_phase), rsub cu_max dt_cont).

(* create_problem_table_with_t_int before rounding: every stream contributes its two (shifted) bounds *)
Definition raw_grid (shifted : bool) (ss : list stream) : list Q :=
  flat_map (fun s => if shifted then [tmins s; tmaxs s] else [tmin s; tmax s]) ss.
(* a descending grid (as held by the problem table) has two different neighbours no further apart than tolv:
   delta_vals zeroes such a gap and _create_net_hot_and_cold_stream_collections_for_site_analysis raises *)
Fixpoint small_gap_b (tolv : Q) (g : list Q) : bool :=
  match g with
  | a :: ((b :: _) as r) => (qltb b a && qleb (a - b) tolv) || small_gap_b tolv r
  | _ => false
  end.

(* ------------------------------------------------------------------ zone-type dispatch of main.py *)
Inductive zkind : Set := KSite | KProcess | KOp | KOther.
Inductive ztree : Type := ZNode (k : zkind) (name : string) (subs : list ztree).
Definition zname (z : ztree) : string := match z with ZNode _ n _ => n end.
Definition zkind_of (z : ztree) : zkind := match z with ZNode k _ _ => k end.
Definition zsubs (z : ztree) : list ztree := match z with ZNode _ _ s => s end.
Definition di_key (n : string) : string := (n ++ "/Direct Integration")%string.
Definition smem (k : string) (l : list string) : bool := existsb (String.eqb k) l.

(* keys = the "<zone name>/Direct Integration" entries present in the `targets` dictionaries so far (the only entries the
   dispatch ever reads back; the summed records that compute_indirect adds are never read by it), newest first *)
Definition compute_direct (z : ztree) (keys : list string) : result (list string) := Ok (di_key (zname z) :: keys).
(* _sum_subzone_targets reads every subzone's DI record, then the zone's own *)
Definition compute_indirect (z : ztree) (keys : list string) : result (list string) :=
  if forallb (fun s => smem (di_key (zname s)) keys) (zsubs z) && smem (di_key (zname z)) keys then Ok keys else Err EKey.
Section FoldRes.
  Context {A : Type} (f : A -> list string -> result (list string)).
  Fixpoint fold_res (l : list A) (keys : list string) : result (list string) :=
    match l with [] => Ok keys | x :: r => bind (f x keys) (fold_res r) end.
End FoldRes.
(* _get_unit_operation_targets *)
Definition unit_op_targets (direct_op : bool) (z : ztree) (keys : list string) : result (list string) :=
  if direct_op then
    bind (fold_res (fun s k => match zkind_of s with KOp => compute_direct s k | _ => Err EValue end) (zsubs z) keys)
         (compute_direct z)
  else Ok keys.
(* _get_process_targets *)
Fixpoint process_targets (direct_op indirect_proc : bool) (z : ztree) (keys : list string) {struct z} : result (list string) :=
  match z with
  | ZNode _ _ subs =>
    let after_subs :=
      match subs with
      | [] => Ok keys
      | _ => bind (fold_res (fun s k => match zkind_of s with
                                        | KOp => unit_op_targets direct_op s k
                                        | KProcess => process_targets direct_op indirect_proc s k
                                        | _ => Err EValue
                                        end) subs keys)
                  (fun k => if indirect_proc then compute_indirect z k else Ok k)
      end in
    bind after_subs (compute_direct z)
  end.
(* _get_site_targets *)
Fixpoint site_targets (direct_op indirect_proc : bool) (z : ztree) (keys : list string) {struct z} : result (list string) :=
  match z with
  | ZNode _ _ subs =>
    bind (compute_direct z keys) (fun k0 =>
      match subs with
      | [] => Ok k0
      | _ => bind (fold_res (fun s k => match zkind_of s with
                                        | KOp => unit_op_targets direct_op s k
                                        | KProcess => process_targets direct_op indirect_proc s k
                                        | KSite => site_targets direct_op indirect_proc s k
                                        | KOther => Err EValue
                                        end) subs k0)
                  (compute_indirect z)
      end)
  end.

(* the independent statement of "one direct-integration record per zone": every site and process zone, and (only when
   DO_DIRECT_OPERATION_TARGETING) every unit-operation zone, exactly once *)
Fixpoint expected_di (direct_op : bool) (z : ztree) {struct z} : list string :=
  match z with
  | ZNode k n subs =>
    (match k with
     | KSite | KProcess => [di_key n]
     | KOp => if direct_op then [di_key n] else []
     | KOther => []
     end) ++ flat_map (expected_di direct_op) subs
  end.
Fixpoint count_s (x : string) (l : list string) : nat :=
  match l with [] => O | y :: r => ((if String.eqb x y then 1 else 0) + count_s x r)%nat end.
Definition same_multiset (a b : list string) : bool :=
  forallb (fun x => Nat.eqb (count_s x a) (count_s x b)) (a ++ b).

(* ------------------------------------------------------------------ the property predicate on an observed output *)
Record c14_in := mkIn {
  i_temps : list Q;        (* supply and target temperature of every stream and utility, as given *)
  i_dt_s : list Q;         (* contributions of the streams *)
  i_dt_u : list Q;         (* contributions of the utilities *)
  i_dt_cont : Q;           (* option DT_CONT as given (default utility contribution) *)
  i_dt_phase : Q;          (* option DT_PHASE_CHANGE as given *)
  i_tree : ztree;          (* the zone tree the implementation built *)
  i_direct_op : bool;      (* DO_DIRECT_OPERATION_TARGETING *)
  i_indirect_proc : bool   (* DO_INDIRECT_PROCESS_TARGETING *) }.
Record c14_obs := mkObs {
  o_nums : list (option Q);   (* every float of model_dump(); None = NaN or infinity *)
  o_nums2 : list (option Q);  (* the same for the repeated call *)
  o_di : list string;         (* names of the direct-integration records *)
  o_temps : list Q            (* every reported temperature: pinch temperatures and the temperature axis of every graph point *) }.

Definition qmax_list (d : Q) (l : list Q) : Q := fold_left (fun a t => if qltb a t then t else a) l d.
Definition qmin_list (d : Q) (l : list Q) : Q := fold_left (fun a t => if qltb t a then t else a) l d.
(* half a unit of the last reported decimal (graph points are rounded to graph_DECIMAL_PLACES) *)
(* ... plus 1e-9: a reported value is the double nearest to the rounded decimal, which may lie a few 1e-15 outside the exact bound *)
Definition round_slack : Q := (1 # (2 * Pos.pow 10 (Pos.of_nat graph_DECIMAL_PLACES))) + (1 # 1000000000).
(* widening: largest stream contribution + largest utility contribution (default utilities use DT_CONT) + phase-change glide
   + latent width of an isothermal stream + display rounding *)
Definition widening (x : c14_in) : Q :=
  qmax_list 0 (i_dt_s x) + qmax_list (sanitize_dt_cont (i_dt_cont x)) (i_dt_u x) + sanitize_dt_phase (i_dt_phase x) + latent_dT + round_slack.
Definition envelope (x : c14_in) : Q * Q :=
  match i_temps x with
  | [] => (0, 0)
  | t :: r => (Qred (qmin_list t r - widening x), Qred (qmax_list t r + widening x))
  end.
Fixpoint first_none (l : list (option Q)) (k : Z) : option Z :=
  match l with [] => None | None :: _ => Some k | Some _ :: r => first_none r (k + 1)%Z end.
Fixpoint first_outside (lo hi : Q) (l : list Q) (k : Z) : option Z :=
  match l with [] => None | t :: r => if qleb lo t && qleb t hi then first_outside lo hi r (k + 1)%Z else Some k end.
Fixpoint optq_eq (a b : list (option Q)) : bool :=
  match a, b with
  | [], [] => true
  | None :: ra, None :: rb => optq_eq ra rb
  | Some x :: ra, Some y :: rb => qeqb x y && optq_eq ra rb
  | _, _ => false
  end.
(* 0 = well-formed; (1,k) number k is not finite; (2,_) not exactly one DI record per zone; (3,k) temperature k outside the envelope;
   (4,_) repeated call differs *)
Definition wf_output_code (x : c14_in) (y : c14_obs) : Z * Z :=
  match first_none (o_nums y) 0 with
  | Some k => (1, k)
  | None =>
    if negb (same_multiset (expected_di (i_direct_op x) (i_tree x)) (o_di y)) then (2, 0)
    else let '(lo, hi) := envelope x in
         match first_outside lo hi (o_temps y) 0 with
         | Some k => (3, k)
         | None => if optq_eq (o_nums y) (o_nums2 y) then (0, 0) else (4, 0)
         end
  end%Z.
Definition wf_output_b (x : c14_in) (y : c14_obs) : bool := (fst (wf_output_code x y) =? 0)%Z.

(* verdict for a call that returned: [0]; [3; code; k] property false; [2; 0] the dispatch model predicts an exception or other records *)
Definition judge_c14 (x : c14_in) (y : c14_obs) : list Z :=
  let '(c, k) := wf_output_code x y in
  if negb (c =? 0)%Z then [V_PROP_FALSE; c; k]
  else match site_targets (i_direct_op x) (i_indirect_proc x) (i_tree x) [] with
       | Ok keys => if same_multiset keys (o_di y) then [V_AGREE] else [V_MISMATCH; 0%Z]
       | Err _ => [V_MISMATCH; 1%Z]
       end.
(* verdict for a call that raised (impl_err = exception class code): [4; code] model and implementation raise the same class;
   [2; ..] otherwise.  `grid` = the shifted temperature grid of a zone (descending) for the small-gap trigger: [5; 0] when the
   exception is the "infeasible interval" ValueError and the grid indeed has two neighbours within tol *)
Definition judge_c14_raise (x : c14_in) (impl_err : Z) (grids : list (list Q)) : list Z :=
  if (impl_err =? errcode EValue)%Z && existsb (small_gap_b tol) grids then [5%Z; 0%Z]   (* raised inside a direct-integration computation, which the dispatch model does not enter *)
  else match site_targets (i_direct_op x) (i_indirect_proc x) (i_tree x) [] with
       | Err e => if (impl_err =? errcode e)%Z then [4%Z; errcode e] else [V_MISMATCH; errcode e]
       | Ok _ => [V_MISMATCH; 0%Z]
       end.
