(* C15 -- executable model in Q of analysis/temperature_driving_force.py::get_temperature_driving_forces and of the helpers it
   calls: the 6-decimal rounding of the four input arrays, the three ValueError guards, _normalise_curve, _build_h_grid
   (np.union1d), utils/miscellaneous.py::interp_with_plateaus = np.interp over make_monotonic(side), _collect_discontinuities,
   _is_discontinuity and the backward min-propagation loop.  Everything is parameterised by the tolerance so that the judge can
   re-evaluate it at tol(1 +- 1e-3) (fragility monitor).  No proofs here. *)
From OP Require Import gen.Consts model.Base model.Area.
Local Open Scope Q_scope.

Inductive tdf_err : Set := TLen | TEmpty | TUnbalanced.
Inductive tdf_res (A : Type) : Type := TOk (a : A) | TErr (e : tdf_err).
Arguments TOk {A} a.
Arguments TErr {A} e.
Definition tdf_errcode (e : tdf_err) : Z := match e with TLen => 1 | TEmpty => 2 | TUnbalanced => 3 end%Z.

(* ------------------------------------------------------------------ np.round(x, dp), dp = int(-log10(tol)) = grid_round_dp *)
Definition rhe (y : Q) : Z :=
  let f := Qfloor y in
  match Qcompare (y - inject_Z f) (1 # 2) with Lt => f | Gt => (f + 1)%Z | Eq => if Z.even f then f else (f + 1)%Z end.
Definition p10 : Q := inject_Z (10 ^ Z.of_nat grid_round_dp).
Definition round_dp (x : Q) : Q := Qred (inject_Z (rhe (x * p10)) / p10).
(* the float product x * 10^dp may land on the other side of a half: such inputs are not compared *)
Definition round_tie (x : Q) : bool :=
  let y := x * p10 in
  qleb (Qabs ((y - inject_Z (Qfloor y)) - (1 # 2))) ((1 # 1000000000) + (1 # 1000000000000) * Qabs y).

(* ------------------------------------------------------------------ _normalise_curve *)
Definition normalise (tolv : Q) (h t : list Q) : list Q * list Q :=
  let '(h1, t1) := if qltb (last h 0) (hd 0 h) then (rev h, rev t) else (h, t) in
  let off := hd 0 h1 in
  (if qltb tolv (Qabs off) then map (fun x => rsub x off) h1 else h1, t1).

(* ------------------------------------------------------------------ make_monotonic *)
(* consecutive values belong to the same block unless |diff| > tol *)
Definition same_block (tolv a b : Q) : bool := qleb (Qabs (b - a)) tolv.
(* number of FOLLOWING elements in the same block (block_length - 1 - within_block) *)
Fixpoint afters (tolv : Q) (h : list Q) {struct h} : list nat :=
  match h with
  | [] => []
  | a :: r =>
      let ks := afters tolv r in
      match r, ks with
      | b :: _, k :: _ => (if same_block tolv a b then S k else O) :: ks
      | _, _ => [O]
      end
  end.
(* number of PRECEDING elements in the same block (within_block) *)
Fixpoint withins_from (tolv prev : Q) (w : nat) (h : list Q) : list nat :=
  match h with
  | a :: r => let w' := if same_block tolv prev a then S w else O in w' :: withins_from tolv a w' r
  | [] => []
  end.
Definition withins (tolv : Q) (h : list Q) : list nat := match h with a :: r => O :: withins_from tolv a O r | [] => [] end.
Definition eps_of (tolv : Q) : Q := tolv * (1 # 2).
Fixpoint shift (sgn : Q) (e : Q) (h : list Q) (k : list nat) : list Q :=
  match h, k with x :: r, n :: s => Qred (x + sgn * (inject_Z (Z.of_nat n) * e)) :: shift sgn e r s | _, _ => [] end.
Inductive side : Set := SLeft | SRight.
Definition make_monotonic (tolv : Q) (s : side) (h : list Q) : list Q :=
  match s with
  | SRight => shift (-1) (eps_of tolv) h (afters tolv h)     (* the LAST member of a block keeps its value *)
  | SLeft => shift 1 (eps_of tolv) h (withins tolv h)         (* the FIRST member of a block keeps its value *)
  end.

(* ------------------------------------------------------------------ np.interp (xp increasing) *)
Fixpoint interp_scan (xp fp : list Q) (x : Q) : Q :=
  match xp, fp with
  | x0 :: ((x1 :: _) as xr), f0 :: ((f1 :: _) as fr) =>
      if qleb x1 x then interp_scan xr fr x
      else if qeqb x0 x then f0 else Qred (f0 + (x - x0) * ((f1 - f0) / (x1 - x0)))
  | [x0], [f0] => f0
  | _, _ => 0
  end.
Definition np_interp (xp fp : list Q) (x : Q) : Q :=
  match xp, fp with x0 :: _, f0 :: _ => if qltb x x0 then f0 else interp_scan xp fp x | _, _ => 0 end.
Definition interp_with_plateaus (tolv : Q) (s : side) (h t : list Q) (targets : list Q) : list Q :=
  match h, t with
  | [_], [t0] => map (fun _ => t0) targets
  | _, _ => let xp := make_monotonic tolv s h in map (np_interp xp t) targets
  end.
Fixpoint strictly_asc (l : list Q) : bool :=
  match l with a :: ((b :: _) as r) => qltb a b && strictly_asc r | _ => true end.

(* ------------------------------------------------------------------ discontinuities *)
Fixpoint disc_values (tolv : Q) (h : list Q) : list Q :=
  match h with a :: ((b :: _) as r) => (if same_block tolv a b then [b] else []) ++ disc_values tolv r | _ => [] end.
Definition is_disc (tolv v : Q) (ds : list Q) : bool := existsb (fun d => qleb (Qabs (v - d)) tolv) ds.
(* for idx = len-2 downto 0: if is_disc(h_end[idx]): d2[idx] = min(d2[idx], d2[idx+1])   (d2[idx+1] already updated) *)
Fixpoint prop_min (tolv : Q) (ds he d2 : list Q) : list Q :=
  match he, d2 with
  | h :: hr, d :: dr =>
      match prop_min tolv ds hr dr with
      | [] => [d]
      | n :: r => (if is_disc tolv h ds then Qmin d n else d) :: n :: r
      end
  | _, _ => []
  end.

Fixpoint vsub (a b : list Q) : list Q := match a, b with x :: r, y :: s => rsub x y :: vsub r s | _, _ => [] end.
Definition starts (l : list Q) : list Q := removelast l.
Definition ends (l : list Q) : list Q := tl l.

Record tdf_out := mkTdf { o_h : list Q; o_dh : list Q; o_th1 : list Q; o_th2 : list Q; o_tc1 : list Q; o_tc2 : list Q;
                          o_d1 : list Q; o_d2 : list Q; o_raw2 : list Q; o_incr : bool }.

(* the function after rounding and guards *)
Definition tdf_core (tolv mindt : Q) (Th Hh Tc Hc : list Q) : tdf_out :=
  let '(hh, th) := normalise tolv Hh Th in
  let '(hc, tc) := normalise tolv Hc Tc in
  let hv := fold_right ins [] (hh ++ hc) in
  let hs := starts hv in let he := ends hv in
  let th1 := interp_with_plateaus tolv SRight hh th hs in
  let th2 := interp_with_plateaus tolv SLeft hh th he in
  let tc1 := interp_with_plateaus tolv SRight hc tc hs in
  let tc2 := interp_with_plateaus tolv SLeft hc tc he in
  let raw1 := vsub th1 tc1 in let raw2 := vsub th2 tc2 in
  let ds := disc_values tolv hh ++ disc_values tolv hc in
  let d2 := prop_min tolv ds he raw2 in
  mkTdf hv (vsub he hs) th1 th2 tc1 tc2 (map (fun x => rsub x mindt) raw1) (map (fun x => rsub x mindt) d2) raw2
        (strictly_asc (make_monotonic tolv SRight hh) && strictly_asc (make_monotonic tolv SLeft hh)
         && strictly_asc (make_monotonic tolv SRight hc) && strictly_asc (make_monotonic tolv SLeft hc)).

Definition lmax (l : list Q) : Q := fold_right Qmax (hd 0 l) l.
Definition lmin (l : list Q) : Q := fold_right Qmin (hd 0 l) l.
Definition isnil {A} (l : list A) : bool := match l with [] => true | _ => false end.

Definition tdf (tolv mindt : Q) (Th0 Hh0 Tc0 Hc0 : list Q) : tdf_res tdf_out :=
  let Th := map round_dp Th0 in let Hh := map round_dp Hh0 in let Tc := map round_dp Tc0 in let Hc := map round_dp Hc0 in
  if negb (Nat.eqb (length Th) (length Hh)) || negb (Nat.eqb (length Tc) (length Hc)) then TErr TLen
  else if isnil Th || isnil Tc then TErr TEmpty
  else if qltb tolv (Qabs ((lmax Hh - lmin Hh) - (lmax Hc - lmin Hc))) then TErr TUnbalanced
  else TOk (tdf_core tolv mindt Th Hh Tc Hc).

(* ------------------------------------------------------------------ judge *)
(* observation of one call of the real function: error code (1 length, 2 empty, 3 unbalanced, 9 anything else) or the arrays *)
Inductive tdf_obs : Type := ObsErr (code : Z) | ObsOk (h dh th1 th2 tc1 tc2 d1 d2 : list Q).

Definition same_len {A} (a b : list A) : bool := Nat.eqb (length a) (length b).
Definition out_close (a b : tdf_out) : bool :=
  close_list eps9 (o_h a) (o_h b) && close_list eps9 (o_th1 a) (o_th1 b) && close_list eps9 (o_th2 a) (o_th2 b)
  && close_list eps9 (o_tc1 a) (o_tc1 b) && close_list eps9 (o_tc2 a) (o_tc2 b) && close_list eps9 (o_d2 a) (o_d2 b).
Definition res_stable (a b : tdf_res tdf_out) : bool :=
  match a, b with
  | TErr e, TErr e' => Z.eqb (tdf_errcode e) (tdf_errcode e')
  | TOk x, TOk y => out_close x y
  | _, _ => false
  end.
Definition tol_lo : Q := tol * (999 # 1000).
Definition tol_hi : Q := tol * (1001 # 1000).

(* first array (1..8) of the observation that differs from the model; 0 = none *)
Definition first_diff_eps (e : Q) (m : tdf_out) (h dh th1 th2 tc1 tc2 d1 d2 : list Q) : Z :=
  if negb (close_list e (o_h m) h) then 1
  else if negb (close_list e (o_dh m) dh) then 2
  else if negb (close_list e (o_th1 m) th1) then 3
  else if negb (close_list e (o_th2 m) th2) then 4
  else if negb (close_list e (o_tc1 m) tc1) then 5
  else if negb (close_list e (o_tc2 m) tc2) then 6
  else if negb (close_list e (o_d1 m) d1) then 7
  else if negb (close_list e (o_d2 m) d2) then 8
  else 0.
Definition first_diff := first_diff_eps eps9.

(* float noise in a COMPUTED enthalpy (h - offset) can make np.union1d keep two grid values 1e-14 apart where the exact
   computation has one: the observation then has an extra interval of width <= 1e-9.  Such intervals are removed before the
   comparison and the case is counted as not compared (reason 4) when the rest agrees. *)
Record orow := mkRow { r_end : Q; r_dh : Q; r_a : list Q }.
Fixpoint zip_rows (he dh th1 th2 tc1 tc2 d1 d2 : list Q) : list orow :=
  match he, dh, th1, th2, tc1, tc2, d1, d2 with
  | e :: he', q :: dh', a :: th1', b :: th2', c :: tc1', d :: tc2', x :: d1', y :: d2' =>
      mkRow e q [a; b; c; d; x; y] :: zip_rows he' dh' th1' th2' tc1' tc2' d1' d2'
  | _, _, _, _, _, _, _, _ => []
  end.
Definition sliver_w : Q := 1 # 1000000000.
Definition col (k : nat) (rs : list orow) : list Q := map (fun r => nth k (r_a r) 0) rs.
Definition first_diff_desliver (m : tdf_out) (h dh th1 th2 tc1 tc2 d1 d2 : list Q) : Z :=
  let rs := filter (fun r => qltb sliver_w (r_dh r)) (zip_rows (tl h) dh th1 th2 tc1 tc2 d1 d2) in
  (* the noise of a sliver next to a vertical jump is amplified by jump / (tol/2) into its neighbour's end difference: 1e-6 here *)
  first_diff_eps eps6 m (hd 0 h :: map r_end rs) (map r_dh rs) (col 0 rs) (col 1 rs) (col 2 rs) (col 3 rs) (col 4 rs) (col 5 rs).

(* [0] model = implementation; [1; r] not compared (r = 1 rounding tie in an input, 2 a tolerance comparison sits on its
   threshold, 3 make_monotonic output not strictly increasing: outside np.interp's contract, 4 float-noise sliver interval in
   the observation); [2; k] arrays differ at array k (9: error / no error, 10: different error) *)
Definition judge_tdf (mindt : Q) (Th Hh Tc Hc : list Q) (obs : tdf_obs) : list Z :=
  if existsb round_tie (Th ++ Hh ++ Tc ++ Hc) then [V_FRAGILE; 1%Z] else
  let m := tdf tol mindt Th Hh Tc Hc in
  if negb (res_stable m (tdf tol_lo mindt Th Hh Tc Hc) && res_stable m (tdf tol_hi mindt Th Hh Tc Hc)) then [V_FRAGILE; 2%Z] else
  match m, obs with
  | TErr e, ObsErr c => if Z.eqb (tdf_errcode e) c then [V_AGREE] else [V_MISMATCH; 10%Z]
  | TOk o, ObsOk h dh th1 th2 tc1 tc2 d1 d2 =>
      if negb (o_incr o) then [V_FRAGILE; 3%Z]
      else match first_diff o h dh th1 th2 tc1 tc2 d1 d2 with
           | 0%Z => [V_AGREE]
           | k => if existsb (fun q => qleb q sliver_w) dh && Z.eqb (first_diff_desliver o h dh th1 th2 tc1 tc2 d1 d2) 0
                  then [V_FRAGILE; 4%Z] else [V_MISMATCH; k]
           end
  | _, _ => [V_MISMATCH; 9%Z]
  end.

(* ------------------------------------------------------------------ end-to-end: the interval data the area judge takes from the
   implementation's get_temperature_driving_forces must also be what the model computes from the captured balanced curves.
   Verdict = [t0; t1] ++ v : [t0; t1] the verdict of judge_tdf at min_dT = 0 padded to two numbers ([0;0] agree, [1;r] not
   compared, [2;k] array k differs), v the verdict of judge_e2e (model/Area.v) on the same case. *)
Definition judge_e2e_tdf (Th Hh Tc Hc : list Q) (h dh th1 th2 tc1 tc2 d1 d2 : list Q)
    (ts rh rc o_R : list Q) (hot cold : list seg) (lm_spec Hhb Hcb raw2 lm_own lm_raw : list Q) (area : Q) : list Z :=
  let t := match judge_tdf 0 Th Hh Tc Hc (ObsOk h dh th1 th2 tc1 tc2 d1 d2) with
           | a :: b :: _ => [a; b] | [a] => [a; 0%Z] | [] => [9%Z; 9%Z] end in
  t ++ judge_e2e ts rh rc th1 th2 tc1 tc2 o_R hot cold lm_spec Hhb Hcb dh d1 d2 raw2 lm_own lm_raw area.
