(* Executable model of zone-tree construction (property C10):
     OpenPinch/analysis/data_preparation.py  _validate_zone_tree_structure (tree synthesis from labels, two passes,
       generated O<k> names), _rewrite_stream_zones_from_tree (user trees), _create_nested_zones,
       _get_process_streams_in_each_subzone (placement by full path; by relative suffix only for unresolved labels),
       _set_utilities_for_zone_and_subzones (deep copy per zone)
     OpenPinch/classes/zone.py  import_hot_and_cold_streams_from_sub_zones (bottom-up import, key renaming through
       StreamCollection.add = model.Collection.add_items).
   Representation: the nested dict-of-dicts / Zone tree keyed by child name is its prefix-closed list of paths
   (relative to the root, root = []) in insertion order; the children of p in dict order are `kids L p`.
   No proofs here. *)
From OP Require Import gen.Consts gen.ZoneTreeConsts model.Base model.Collection.
From Coq Require Import String Ascii.
Local Open Scope Q_scope.

(* ------------------------------------------------------------------ strings *)
Definition sepc : ascii := label_sep_char.
Definition seps : string := String sepc EmptyString.

(* str.split(c): always at least one part *)
Fixpoint split_on (c : ascii) (s : string) : list string :=
  match s with
  | EmptyString => [EmptyString]
  | String a r => if Ascii.eqb a c then EmptyString :: split_on c r
                  else match split_on c r with h :: t => String a h :: t | [] => [String a EmptyString] end
  end.
Fixpoint has_char (c : ascii) (s : string) : bool :=
  match s with EmptyString => false | String a r => Ascii.eqb a c || has_char c r end.
(* str.isspace() on ASCII: 9..13, 28..31, 32 *)
Definition is_space (a : ascii) : bool :=
  let n := nat_of_ascii a in Nat.eqb n 32 || (Nat.leb 9 n && Nat.leb n 13) || (Nat.leb 28 n && Nat.leb n 31).
Fixpoint lstrip (s : string) : string :=
  match s with String a r => if is_space a then lstrip r else s | EmptyString => EmptyString end.
Fixpoint rstrip (s : string) : string :=
  match s with
  | EmptyString => EmptyString
  | String a r => match rstrip r with
                  | EmptyString => if is_space a then EmptyString else String a EmptyString
                  | r' => String a r'
                  end
  end.
Definition strip (s : string) : string := rstrip (lstrip s).
Definition nonempty (s : string) : bool := match s with EmptyString => false | _ => true end.
(* [part.strip() for part in label.split("/") if part.strip()] *)
Definition clean_parts (s : string) : list string := filter nonempty (map strip (split_on sepc s)).
(* _split_zone_name: labels without a separator are NOT stripped *)
Definition split_label (name : string) : list string := if has_char sepc name then clean_parts name else [name].
Definition join (l : list string) : string := String.concat seps l.
Definition mem_str (x : string) (l : list string) : bool := existsb (String.eqb x) l.
Definition str_leb (a b : string) : bool := match String.compare a b with Gt => false | _ => true end.

(* ------------------------------------------------------------------ paths *)
Definition path := list string.
Fixpoint path_eqb (a b : path) : bool :=
  match a, b with
  | [], [] => true
  | x :: r, y :: s => String.eqb x y && path_eqb r s
  | _, _ => false
  end.
Fixpoint strip_prefix (p q : path) : option path :=
  match p, q with
  | [], _ => Some q
  | a :: p', b :: q' => if String.eqb a b then strip_prefix p' q' else None
  | _ :: _, [] => None
  end.
Definition is_prefix (p q : path) : bool := match strip_prefix p q with Some _ => true | None => false end.
Definition is_suffix (p q : path) : bool := is_prefix (rev p) (rev q).
Definition pmem (p : path) (L : list path) : bool := existsb (path_eqb p) L.
(* children of p in dict (= insertion) order *)
Definition kids (L : list path) (p : path) : list string :=
  flat_map (fun q => match strip_prefix p q with Some [c] => [c] | _ => [] end) L.
Definition ensure (L : list path) (p : path) : list path := if pmem p L then L else L ++ [p].
(* non-empty prefixes, shortest first: the nodes visited by `for z_name in path: current = current.children[z_name]` *)
Fixpoint prefixes_ne (p : path) : list path :=
  match p with [] => [] | c :: r => [c] :: map (cons c) (prefixes_ne r) end.
Definition add_label_nodes (L : list path) (comps : path) : list path := fold_left ensure (prefixes_ne comps) L.
Definition pathstr (root : string) (p : path) : string := join (root :: p).

(* ------------------------------------------------------------------ input streams *)
(* sid = identity of the StreamSchema object; sts = supply temperature (sort key of collections) *)
Record istream := mkIS { sid : nat; slabel : string; sname : string; shot : bool; sts : Q; sduty : Q }.
Definition labelled (s : istream) : bool := nonempty (slabel s).

(* stable insertion sort = Python sorted() *)
Fixpoint insert_s {A} (le : A -> A -> bool) (x : A) (l : list A) : list A :=
  match l with [] => [x] | y :: r => if le y x then y :: insert_s le x r else x :: l end.
Definition sort_s {A} (le : A -> A -> bool) (l : list A) : list A := fold_left (fun acc x => insert_s le x acc) l [].
(* key=lambda s: (s.zone, s.name) *)
Definition key_le (a b : istream) : bool :=
  match String.compare (slabel a) (slabel b) with Lt => true | Gt => false | Eq => str_leb (sname a) (sname b) end.
Definition name_le (a b : istream) : bool := str_leb (sname a) (sname b).

(* ------------------------------------------------------------------ synthesis of the tree from labels *)
Definition oname (k : nat) : string := (gen_prefix ++ nat_str k)%string.
(* while subzone_name in current["children"]: counter += 1 *)
Fixpoint gen_loop (fuel : nat) (ks : list string) (k : nat) : option nat :=
  match fuel with
  | O => None
  | S f => if mem_str (oname k) ks then gen_loop f ks (S k) else Some k
  end.
Definition cnt_get (c : list (path * nat)) (p : path) : nat :=
  match find (fun e => path_eqb p (fst e)) c with Some e => snd e | None => O end.
Record st2 := mkSt2 { s_paths : list path; s_cnt : list (path * nat); s_asg : list (nat * path) }.
Definition step2 (st : st2) (s : istream) : result st2 :=
  let p := split_label (slabel s) in
  let L1 := add_label_nodes (s_paths st) p in
  let ks := kids L1 p in
  match gen_loop (S (List.length ks)) ks (S (cnt_get (s_cnt st) p)) with
  | Some k => Ok (mkSt2 (L1 ++ [p ++ [oname k]]) ((p, k) :: s_cnt st) (s_asg st ++ [(sid s, p ++ [oname k])]))
  | None => Err EFuel
  end.
Fixpoint fold_res {A B} (f : A -> B -> result A) (l : list B) (a : A) : result A :=
  match l with [] => Ok a | x :: r => bind (f a x) (fold_res f r) end.
Definition pass1 (it : list istream) : list path :=
  fold_left (fun L s => add_label_nodes L (split_label (slabel s))) it [].
Definition synth_order (ss : list istream) : list istream := sort_s key_le (filter labelled ss).
(* (all zone paths, sid -> generated leaf) *)
Definition synth_front_with (init : list istream -> list path) (ss : list istream) : result (list path * list (nat * path)) :=
  let it := synth_order ss in
  bind (fold_res step2 it (mkSt2 (init it) [] [])) (fun st => Ok (s_paths st, s_asg st)).
(* the repaired code (80225d1) creates every label node in a first pass *)
Definition synth_front : list istream -> result (list path * list (nat * path)) := synth_front_with pass1.
Definition asg_get (asg : list (nat * path)) (i : nat) : option path :=
  match find (fun e => Nat.eqb i (fst e)) asg with Some e => Some (snd e) | None => None end.

(* a stream together with the value of its .zone attribute after rewriting *)
Record zstream := mkZS { zs_s : istream; zs_zone : string }.
Definition synth_zone (root : string) (asg : list (nat * path)) (s : istream) : zstream :=
  mkZS s (match asg_get asg (sid s) with Some p => pathstr root p | None => slabel s end).

(* ------------------------------------------------------------------ user tree *)
Inductive utree := UT (name : string) (children : list utree).
Definition ut_name (t : utree) : string := match t with UT n _ => n end.
Definition ut_children (t : utree) : list utree := match t with UT _ k => k end.
(* all node paths below `pre` (relative to the root), parents before children, siblings in list order *)
Fixpoint ut_paths (pre : path) (t : utree) : list path :=
  match t with UT n ks => let p := pre ++ [n] in p :: flat_map (ut_paths p) ks end.
Definition ut_rel_paths (t : utree) : list path := flat_map (ut_paths []) (ut_children t).

(* while process_name in root_child_names or process_name == root_name: counter += 1; f"{base}_{counter}" *)
Fixpoint proc_loop (fuel : nat) (base root : string) (rcn : list string) (name : string) (counter : nat) : option string :=
  match fuel with
  | O => None
  | S f => if mem_str name rcn || String.eqb name root then proc_loop f base root rcn (cand base (S counter)) (S counter)
           else Some name
  end.
(* state: zone paths relative to the root (insertion order).  Result: new state and the new value of stream.zone *)
Definition rewrite_step (root : string) (L : list path) (s : istream) : result (list path * string) :=
  let label := slabel s in
  if negb (nonempty label) then Ok (L, label) else
  let comps := clean_parts label in
  match comps with
  | [] => Ok (L, label)
  | _ =>
    if path_eqb comps [root] then
      let base := if nonempty (sname s) then sname s else (root ++ root_process_suffix)%string in
      let rcn := kids L [] in
      match proc_loop (S (S (List.length rcn))) base root rcn base 1 with
      | Some pn => Ok (L ++ [[pn]], pathstr root [pn])
      | None => Err EFuel
      end
    else
      let full := [root] :: map (cons root) L in        (* path_to_node keys / canonical paths *)
      if mem_str (join comps) (map join full) || pmem comps full then Ok (L, join comps)
      else match filter (is_suffix comps) full with
           | [q] => Ok (L, join q)
           | _ => Ok (L, label)
           end
  end.
Fixpoint rewrite_all (root : string) (L : list path) (ss : list istream) : result (list path * list zstream) :=
  match ss with
  | [] => Ok (L, [])
  | s :: r => bind (rewrite_step root L s) (fun '(L1, z) =>
              bind (rewrite_all root L1 r) (fun '(L2, zs) => Ok (L2, mkZS s z :: zs)))
  end.

(* ------------------------------------------------------------------ placement (_get_process_streams_in_each_subzone) *)
Fixpoint tails_ne (l : list string) : list (list string) :=
  match l with [] => [] | _ :: r => match r with [] => [] | _ => r :: tails_ne r end end.
Definition rel_keys (z : string) : list string := map join (tails_ne (split_on sepc z)) ++ [z].
Fixpoint drop_to (c : ascii) (s : string) : string :=
  match s with EmptyString => EmptyString | String a r => if Ascii.eqb a c then r else drop_to c r end.
Definition after_first_sep (z : string) : string := if has_char sepc z then drop_to sepc z else z.
Fixpoint dedup_sid (seen : list nat) (l : list zstream) : list zstream :=
  match l with
  | [] => []
  | z :: r => if existsb (Nat.eqb (sid (zs_s z))) seen then dedup_sid seen r else z :: dedup_sid (sid (zs_s z) :: seen) r
  end.
(* zs: every stream with a non-empty .zone, in name order *)
Definition matched (root : string) (known : list string) (zs : list zstream) (p : path) : list zstream :=
  let zp := pathstr root p in
  let rel := after_first_sep zp in
  let full := filter (fun z => String.eqb (zs_zone z) zp) zs in
  let relm := filter (fun z => negb (mem_str (zs_zone z) known) && mem_str rel (rel_keys (zs_zone z))) zs in
  dedup_sid [] (full ++ relm).

Definition citems := list (string * member).
Definition mem_of (s : istream) : member := mkM (sid s) (sname s) [sts s].
Definition hot_key (z : zstream) : string := (zs_zone z ++ "." ++ sl_HotS ++ "." ++ sname (zs_s z))%string.
(* hot: zone.hot_streams.add(obj, key) ; cold: zone.cold_streams.add(obj)  (the computed cold key is not passed) *)
Definition place_one (acc : citems * citems) (z : zstream) : result (citems * citems) :=
  if shot (zs_s z)
  then bind (add_items (fst acc) (mem_of (zs_s z)) (Some (hot_key z)) true) (fun h => Ok (h, snd acc))
  else bind (add_items (snd acc) (mem_of (zs_s z)) None true) (fun c => Ok (fst acc, c)).
Definition placed (root : string) (known : list string) (zs : list zstream) (p : path) : result (citems * citems) :=
  fold_res place_one (matched root known zs p) ([], []).

(* ------------------------------------------------------------------ bottom-up import *)
(* iteration order of a StreamCollection: sorted by t_supply, descending, stable *)
Definition iter_items (it : citems) : list member := sort_by (keeps_front [0%nat] true) (map snd it).
Definition import_from (zname : string) (dst : citems) (src : citems) : result citems :=
  fold_res (fun d m => add_items d m (Some (zname ++ import_key_sep ++ mname m)%string) true) (iter_items src) dst.
Definition last_name (p : path) : string := last p EmptyString.
(* the root always rebuilds its collections; another zone only when it has subzones *)
Fixpoint zone_items (fuel : nat) (L : list path) (pl : path -> result (citems * citems)) (is_root : bool) (p : path)
  : result (citems * citems) :=
  match fuel with
  | O => Err EFuel
  | S f =>
      let ks := kids L p in
      if negb is_root && Nat.eqb (List.length ks) 0 then pl p
      else fold_res (fun acc c =>
             bind (zone_items f L pl false (p ++ [c])) (fun sub =>
             bind (import_from c (fst acc) (fst sub)) (fun h =>
             bind (import_from c (snd acc) (snd sub)) (fun cc => Ok (h, cc))))) ks ([], [])
  end.

(* ------------------------------------------------------------------ observable *)
(* one zone: path relative to the root, (sid, key) of hot / cold entries in dict order *)
Record zobs := mkZO { zo_path : path; zo_hot : list (nat * string); zo_cold : list (nat * string) }.
Definition entries (it : citems) : list (nat * string) := map (fun e => (mid (snd e), fst e)) it.
Definition max_len (L : list path) : nat := fold_right (fun p m => Nat.max (List.length p) m) O L.
Fixpoint map_res {A B} (f : A -> result B) (l : list A) : result (list B) :=
  match l with [] => Ok [] | x :: r => bind (f x) (fun y => bind (map_res f r) (fun ys => Ok (y :: ys))) end.
Definition backend_with (plf : string -> list string -> list zstream -> path -> result (citems * citems))
                        (root : string) (L : list path) (zs0 : list zstream) : result (list zobs) :=
  let zs := sort_s (fun a b => name_le (zs_s a) (zs_s b)) zs0 in           (* sorted(streams, key=name) *)
  let zs := filter (fun z => nonempty (zs_zone z)) zs in                 (* if not zone_path: continue *)
  let known := map (pathstr root) ([] :: L) in
  let fuel := S (max_len L) in
  map_res (fun p => bind (zone_items fuel L (plf root known zs) (Nat.eqb (List.length p) 0) p)
                         (fun hc => Ok (mkZO p (entries (fst hc)) (entries (snd hc))))) ([] :: L).
Definition backend : string -> list path -> list zstream -> result (list zobs) := backend_with placed.

Definition model_synth (root : string) (ss : list istream) : result (list zobs) :=
  bind (synth_front ss) (fun '(L, asg) => backend root L (map (synth_zone root asg) ss)).
Definition model_user (t : utree) (ss : list istream) : result (list zobs) :=
  bind (rewrite_all (ut_name t) (ut_rel_paths t) ss) (fun '(L, zs) => backend (ut_name t) L zs).
Definition model (root : string) (t : option utree) (ss : list istream) : result (list zobs) :=
  match t with Some u => model_user u ss | None => model_synth root ss end.

(* ---- pre-repair variants, kept only for the `..._prefix_refuted` examples ---- *)
(* before a2806c0 (D10): every label was also indexed by its path suffixes, resolved or not *)
Definition matched_prefix_D10 (root : string) (known : list string) (zs : list zstream) (p : path) : list zstream :=
  let zp := pathstr root p in
  let rel := after_first_sep zp in
  let full := filter (fun z => String.eqb (zs_zone z) zp) zs in
  let relm := filter (fun z => mem_str rel (rel_keys (zs_zone z))) zs in
  dedup_sid [] (full ++ relm).
Definition placed_prefix_D10 (root : string) (known : list string) (zs : list zstream) (p : path) : result (citems * citems) :=
  fold_res place_one (matched_prefix_D10 root known zs p) ([], []).
Definition model_synth_prefix_D10 (root : string) (ss : list istream) : result (list zobs) :=
  bind (synth_front ss) (fun '(L, asg) => backend_with placed_prefix_D10 root L (map (synth_zone root asg) ss)).
(* before 80225d1 (D29): a single pass, label nodes created while names are being generated *)
Definition model_synth_prefix_D29 (root : string) (ss : list istream) : result (list zobs) :=
  bind (synth_front_with (fun _ => []) ss) (fun '(L, asg) => backend root L (map (synth_zone root asg) ss)).

(* utilities: every zone gets fresh copies; locations are numbered in the order zones are listed *)
Definition util_locs (n_zones nh nc : nat) : list (list nat * list nat) :=
  map (fun i => (seq (i * (nh + nc)) nh, seq (i * (nh + nc) + nh) nc)) (seq 0 n_zones).

(* ------------------------------------------------------------------ property predicate on an OBSERVED tree *)
Definition members (z : zobs) : list nat := map fst (zo_hot z) ++ map fst (zo_cold z).
Definition count_nat (x : nat) (l : list nat) : nat := List.length (filter (Nat.eqb x) l).
Definition has_child (out : list zobs) (z : zobs) : bool :=
  existsb (fun z' => Nat.eqb (List.length (zo_path z')) (S (List.length (zo_path z))) && is_prefix (zo_path z) (zo_path z')) out.
Definition is_leaf (out : list zobs) (z : zobs) : bool := negb (has_child out z).
Definition find_stream (ss : list istream) (i : nat) : option istream := find (fun s => Nat.eqb (sid s) i) ss.
Fixpoint nodup_nat (l : list nat) : bool :=
  match l with [] => true | x :: r => negb (existsb (Nat.eqb x) r) && nodup_nat r end.
Fixpoint nodup_path (l : list path) : bool :=
  match l with [] => true | x :: r => negb (pmem x r) && nodup_path r end.
Fixpoint all_idx {A} (f : nat -> A -> bool) (k : nat) (l : list A) : option nat :=      (* index of the first failure *)
  match l with [] => None | x :: r => if f k x then all_idx f (S k) r else Some k end.

(* what the implementation showed for one zone beyond (sid,key): observed kind and duty per entry, utilities *)
Record zextra := mkZX { zx_hot : list (bool * Q); zx_cold : list (bool * Q);      (* (object is hot?, heat_flow) per entry *)
                        zx_hu : list (nat * string); zx_cu : list (nat * string) }. (* (location, name) per utility *)

(* clause 1: a labelled stream sits in exactly one leaf, once in every ancestor of it, nowhere else;
   an unlabelled stream sits nowhere *)
Definition leaf_of (out : list zobs) (i : nat) : list zobs :=
  filter (fun z => is_leaf out z && Nat.ltb 0 (count_nat i (members z))) out.
Definition stream_ok (out : list zobs) (s : istream) : bool :=
  if labelled s then
    match leaf_of out (sid s) with
    | [lf] => forallb (fun z => Nat.eqb (count_nat (sid s) (members z)) (if is_prefix (zo_path z) (zo_path lf) then 1 else 0)) out
    | _ => false
    end
  else forallb (fun z => Nat.eqb (count_nat (sid s) (members z)) 0) out.
(* clause 2: entries are known streams, hot ones in the hot collection with their input duty, cold likewise *)
Definition entry_ok (ss : list istream) (want_hot : bool) (e : nat * string) (x : bool * Q) : bool :=
  match find_stream ss (fst e) with
  | Some s => Bool.eqb (shot s) want_hot && Bool.eqb (fst x) want_hot && Qeq_bool (snd x) (sduty s)
  | None => false
  end.
Fixpoint forallb2 {A B} (f : A -> B -> bool) (a : list A) (b : list B) : bool :=
  match a, b with [], [] => true | x :: r, y :: s => f x y && forallb2 f r s | _, _ => false end.
Definition zone_entries_ok (ss : list istream) (z : zobs) (x : zextra) : bool :=
  forallb2 (entry_ok ss true) (zo_hot z) (zx_hot x) && forallb2 (entry_ok ss false) (zo_cold z) (zx_cold x).
(* clause 3 (per-zone conservation against the labels): count and hot/cold duty of a zone = those of the streams whose
   label path passes through it.  `through s z` says so; it is supplied per tree kind below. *)
Definition sumq (l : list Q) : Q := fold_right (fun x a => Qred (x + a)) 0 l.
Definition zone_conserves (ss : list istream) (through : istream -> zobs -> bool) (z : zobs) (x : zextra) : bool :=
  let want := filter (fun s => labelled s && through s z) ss in
  Nat.eqb (List.length (members z)) (List.length want)
  && Qeq_bool (sumq (map snd (zx_hot x))) (sumq (map sduty (filter shot want)))
  && Qeq_bool (sumq (map snd (zx_cold x))) (sumq (map sduty (filter (fun s => negb (shot s)) want))).
(* synthesised tree: zone p (not a generated leaf) is passed by the labels having p as a prefix; a leaf holds exactly
   one stream, labelled into its parent *)
Definition through_synth (out : list zobs) (s : istream) (z : zobs) : bool :=
  if is_leaf out z && Nat.ltb 0 (List.length (zo_path z))
  then path_eqb (removelast (zo_path z)) (split_label (slabel s)) && Nat.ltb 0 (count_nat (sid s) (members z))
  else is_prefix (zo_path z) (split_label (slabel s)).
Definition leaf_single (out : list zobs) (z : zobs) : bool :=
  negb (is_leaf out z && Nat.ltb 0 (List.length (zo_path z))) || Nat.eqb (List.length (members z)) 1.
(* user tree: the label (cleaned) must be a suffix of the full path of the leaf holding the stream, or name the root
   (then the stream gets its own zone directly under the root) *)
Definition label_fits_user (root : string) (out : list zobs) (s : istream) : bool :=
  negb (labelled s) ||
  match leaf_of out (sid s) with
  | [lf] => let cp := clean_parts (slabel s) in
            if path_eqb cp [root] then Nat.eqb (List.length (zo_path lf)) 1 else is_suffix cp (root :: zo_path lf)
  | _ => false
  end.
(* clause 4: sibling zones share no stream *)
Definition disjoint_nat (a b : list nat) : bool := negb (existsb (fun x => existsb (Nat.eqb x) b) a).
Definition siblings_disjoint_b (out : list zobs) : bool :=
  forallb (fun z1 => forallb (fun z2 =>
     path_eqb (zo_path z1) (zo_path z2)
     || negb (Nat.eqb (List.length (zo_path z1)) (List.length (zo_path z2)) && path_eqb (removelast (zo_path z1)) (removelast (zo_path z2))
              && Nat.ltb 0 (List.length (zo_path z1)))
     || disjoint_nat (members z1) (members z2)) out) out.
(* clause 5: utilities -- every location occurs once over the whole tree, every zone lists the root's utility names,
   which contain the names the caller supplied *)
Definition incl_str (a b : list string) : bool := forallb (fun x => mem_str x b) a.
Definition list_str_eqb (a b : list string) : bool := path_eqb a b.
Definition utilities_ok (xs : list zextra) (hu_in cu_in : list string) : bool :=
  nodup_nat (flat_map (fun x => map fst (zx_hu x) ++ map fst (zx_cu x)) xs)
  && match xs with
     | [] => false
     | r :: _ => incl_str hu_in (map snd (zx_hu r)) && incl_str cu_in (map snd (zx_cu r))
                 && forallb (fun x => list_str_eqb (map snd (zx_hu x)) (map snd (zx_hu r))
                                      && list_str_eqb (map snd (zx_cu x)) (map snd (zx_cu r))) xs
     end.

(* P_b: 0 = holds, otherwise the number of the first false clause *)
Definition P_code (root : string) (t : option utree) (ss : list istream) (hu_in cu_in : list string)
                  (out : list zobs) (xs : list zextra) : Z :=
  if negb (Nat.eqb (List.length out) (List.length xs) && nodup_path (map zo_path out)) then 9 else
  if negb (forallb (stream_ok out) ss) then 1 else
  if negb (forallb2 (zone_entries_ok ss) out xs) then 2 else
  if negb (match t with
           | None => forallb2 (zone_conserves ss (through_synth out)) out xs && forallb (leaf_single out) out
           | Some u => forallb (label_fits_user (ut_name u) out) ss
           end) then 3 else
  if negb (siblings_disjoint_b out) then 4 else
  if negb (utilities_ok xs hu_in cu_in) then 5 else 0.

(* ------------------------------------------------------------------ triggers of the open findings (user trees only) *)
(* 1: some labelled stream's label is not resolved by the user tree (rewritten zone is no zone path)
   2: every label resolves, but one resolves to a zone that has subzones
   0: neither *)
Definition trigger (t : option utree) (ss : list istream) : Z :=
  match t with
  | None => 0
  | Some u =>
      match rewrite_all (ut_name u) (ut_rel_paths u) ss with
      | Err _ => 0
      | Ok (L, zs) =>
          let known := map (pathstr (ut_name u)) ([] :: L) in
          let lab := filter (fun z => labelled (zs_s z)) zs in
          if negb (forallb (fun z => mem_str (zs_zone z) known) lab) then 1
          else if existsb (fun z => existsb (fun p => String.eqb (pathstr (ut_name u) p) (zs_zone z)
                                                       && (Nat.ltb 0 (List.length (kids L p)) || Nat.eqb (List.length p) 0)) ([] :: L)) lab
               then 2 else 0
      end
  end%Z.

(* ------------------------------------------------------------------ judge *)
Definition entry_eqb (a b : nat * string) : bool := Nat.eqb (fst a) (fst b) && String.eqb (snd a) (snd b).
Definition zobs_eqb (a b : zobs) : bool :=
  path_eqb (zo_path a) (zo_path b) && forallb2 entry_eqb (zo_hot a) (zo_hot b) && forallb2 entry_eqb (zo_cold a) (zo_cold b).
Definition find_zone (out : list zobs) (p : path) : option zobs := find (fun z => path_eqb p (zo_path z)) out.
(* zones are compared as a finite map path -> content (the order in which zones are listed is not part of the state);
   the order of children shows in the keys.  Result: -100 agree, otherwise index of the first implementation zone that
   differs, -1 different number of zones, -2 the model returned an error *)
Definition compare_model (m : result (list zobs)) (out : list zobs) : Z :=
  match m with
  | Err _ => (-2)%Z
  | Ok mo =>
      if negb (Nat.eqb (List.length mo) (List.length out)) then (-1)%Z else
      match all_idx (fun _ z => match find_zone mo (zo_path z) with Some z' => zobs_eqb z' z | None => false end) 0 out with
      | Some k => Z.of_nat k
      | None => (-100)%Z
      end
  end.
(* utilities: canonical numbering of object ids by first appearance must be 0,1,2,... (all distinct) with the root's
   count in every zone -- the store model `util_locs` *)
Definition utils_match (xs : list zextra) : bool :=
  match xs with
  | [] => false
  | r :: _ => let nh := List.length (zx_hu r) in let nc := List.length (zx_cu r) in
              forallb2 (fun x l => (if list_eq_dec Nat.eq_dec (map fst (zx_hu x)) (fst l) then true else false)
                                   && (if list_eq_dec Nat.eq_dec (map fst (zx_cu x)) (snd l) then true else false))
                       xs (util_locs (List.length xs) nh nc)
  end.

Definition judge_c10 (root : string) (t : option utree) (ss : list istream) (hu_in cu_in : list string)
                     (out : list zobs) (xs : list zextra) : list Z :=
  let c := P_code root t ss hu_in cu_in out xs in
  let m := compare_model (model root t ss) out in
  let m := if Z.eqb m (-100) && negb (utils_match xs) then (-3)%Z else m in
  if negb (Z.eqb c 0) then [V_PROP_FALSE; c; trigger t ss; m]
  else if negb (Z.eqb m (-100)) then [V_MISMATCH; m]
  else [V_AGREE].
