(* End-to-end judges: reported direct-integration targets versus the exact reference computed from the
   INPUT stream data (supply, target, contribution, duty) through the verified Stream model. *)
From OP Require Import gen.Consts model.Base model.Stream model.Cascade.
Local Open Scope Q_scope.

(* input stream: t_supply, t_target, dt_cont, heat_flow *)
Definition sin : Type := (Q * Q * Q * Q)%type.
Definition stream_of (x : sin) : stream :=
  let '(a, b, d, h) := x in mk_stream a b d h 1 0.
Definition shifted_view (x : sin) : view := let s := stream_of x in mkV (tmins s) (tmaxs s) (cp s).
Definition real_view (x : sin) : view := let s := stream_of x in mkV (tmin s) (tmax s) (cp s).
Definition is_cold (x : sin) : bool := cold (stream_of x).
Definition hot_views (f : sin -> view) (xs : list sin) : list view := map f (filter (fun x => negb (is_cold x)) xs).
Definition cold_views (f : sin -> view) (xs : list sin) : list view := map f (filter is_cold xs).

(* C01 on one reported record *)
(* trigger of finding D44: a stream narrower than twice the activity window (tol*10) can be judged inactive in every interval *)
Definition narrow_stream (ss : list view) : bool := existsb (fun s => qleb (hi s - lo s) (2 * act_window)) ss.
Definition judge_c01_record (xs : list sin) (qh qc qr : Q) : list Z :=
  let hot := hot_views shifted_view xs in let cold := cold_views shifted_view xs in
  if c01_b eps6 hot cold qh qc qr then [V_AGREE]
  else if narrow_stream (hot ++ cold) then [V_PROP_FALSE; 144%Z] else [V_PROP_FALSE; 1%Z].

(* stage judge restricted to what C01 states (targets), with model agreement on the whole table *)
Definition judge_stage_c01 (hot cold extra : list view) (impl : ptab) : list Z :=
  let m := stage_model act_window hot cold extra in
  if negb (agree_ptab eps9 m (stage_model w_lo hot cold extra) && agree_ptab eps9 m (stage_model w_hi hot cold extra))
  then [V_FRAGILE]
  else if negb (c01_b eps6 hot cold (Qh_of impl) (Qc_of impl) (Qr_of impl)) then [V_PROP_FALSE; 1%Z]
  else if negb (agree_ptab eps9 m impl) then [V_MISMATCH; 0%Z]
  else [V_AGREE].

(* C05 on tables observed end-to-end (rows may include later insertions; cells were rounded to 4 decimals by the
   pipeline, hence the absolute slack `cell`): every row against the exact stream heat contents *)
Definition near_abs (slack : Q) (a b : Q) : bool := qleb (Qabs (a - b)) slack.
Definition c05_rows_b (touch : bool) (slack : Q) (hot cold : list view) (offset : Q) (Ts Hh Hc Hn : list Q) : bool :=
  forall2b (fun T h => near_abs slack h (heat_below hot T)) Ts Hh
  && forall2b (fun T h => near_abs slack h (offset + heat_below cold T)) Ts Hc
  && forall2b (fun hn d => near_abs (2 * slack) hn d) Hn (map (fun p => fst p - snd p) (combine Hc Hh))
  && forallb (fun h => qleb (- slack) h) Hn && (negb touch || existsb (fun h => near_abs slack h 0) Hn).
Fixpoint widths_abs (slack prev : Q) (Ts dTs : list Q) : bool :=
  match Ts, dTs with
  | t :: r, d :: s => near_abs slack d (prev - t) && widths_abs slack t r s
  | [], [] => true | _, _ => false end.
Fixpoint dh_abs (slack : Q) (dTs CPs dHs : list Q) : bool :=
  match dTs, CPs, dHs with
  | d :: r, c :: s, h :: t => near_abs (slack * (1 + Qabs d + Qabs c)) h (d * c) && dh_abs slack r s t
  | [], [], [] => true | _, _, _ => false end.
Fixpoint noninc_b (l : list Q) : bool :=
  match l with a :: ((b :: _) as t) => qleb b a && noninc_b t | _ => true end.
Definition c05_table_b (strict touch : bool) (slack : Q) (hot cold : list view) (offset : Q) (t : ptab) : list Z :=
  if negb (c05_rows_b touch slack hot cold offset (pT t) (pHh t) (pHc t) (pHn t)) then [V_PROP_FALSE; 51%Z]
  else if negb (if strict then desc_b (pT t) else noninc_b (pT t)) then [V_PROP_FALSE; 52%Z]
  else if negb (match pT t, pdT t with t0 :: r, _ :: s => widths_abs slack t0 r s | [], [] => true | _, _ => false end) then [V_PROP_FALSE; 53%Z]
  else if negb (match pdT t, pCPh t, pdHh t with _ :: a, _ :: b, _ :: c => dh_abs slack a b c | _, _, _ => true end
                && match pdT t, pCPc t, pdHc t with _ :: a, _ :: b, _ :: c => dh_abs slack a b c | _, _, _ => true end
                && match pdT t, pCPn t, pdHn t with _ :: a, _ :: b, _ :: c => dh_abs slack a b c | _, _, _ => true end)
  then [V_PROP_FALSE; 54%Z]
  else [V_AGREE].
(* one zone end-to-end: shifted table and real table; the real table must report the same three targets *)
Definition cpscale (hot cold : list view) : Q := 1 + fold_right (fun s a => vcp s + a) 0 (hot ++ cold).
(* slack0 is the absolute error of one displayed cell (the pipeline rounds every cell, temperatures included, to 4 decimals):
   a curve evaluated at a rounded temperature is off by at most slack0 * (1 + total CP) *)
Definition judge_c05_zone (xs : list sin) (slack0 : Q) (pt ptr : ptab) : list Z :=
  let hs := hot_views shifted_view xs in let cs := cold_views shifted_view xs in
  let hr := hot_views real_view xs in let cr := cold_views real_view xs in
  let slack := Qred (slack0 * cpscale hs cs) in
  let qc := Qc_star hs cs in
  match c05_table_b false true slack hs cs qc pt with
  | [0%Z] =>
      match c05_table_b false false slack hr cr qc ptr with
      | [0%Z] =>
          if near_abs (4 * slack) (Qh_of pt) (Qh_of ptr) && near_abs (4 * slack) (Qc_of pt) (Qc_of ptr)
             && near_abs (4 * slack) (Qr_of pt) (Qr_of ptr) then [V_AGREE] else [V_PROP_FALSE; 55%Z]
      | v => map (fun z => if Z.eqb z 3 then 3%Z else (z + 100)%Z) v
      end
  | v => v
  end.

(* get_process_heat_cascade called directly (no display rounding): tight tolerances, rows inserted by the
   constant-enthalpy projection included *)
Definition judge_c05_cascade (hs cs hr cr : list view) (pt ptr : ptab) : list Z :=
  let slack := Qred (eps9 * dscale hs cs) in
  let qc := Qc_star hs cs in
  match c05_table_b true true slack hs cs qc pt with
  | [0%Z] =>
      match c05_table_b true false slack hr cr qc ptr with
      | [0%Z] =>
          if near_abs (4 * slack) (Qh_of pt) (Qh_of ptr) && near_abs (4 * slack) (Qc_of pt) (Qc_of ptr)
             && near_abs (4 * slack) (Qr_of pt) (Qr_of ptr) && c01_b eps6 hs cs (Qh_of pt) (Qc_of pt) (Qr_of pt)
          then [V_AGREE] else [V_PROP_FALSE; 55%Z]
      | v => map (fun z => if Z.eqb z 3 then 3%Z else (z + 100)%Z) v
      end
  | v => v
  end.
