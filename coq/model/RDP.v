(* Executable model of OpenPinch/utils/stream_linearisation.py:
     _rdp                         (iterative stack -> fuelled recursion on the interior of a chord)
     _get_piecewise_breakpoints   (control flow only; the SLSQP refinement is an ORACLE passed as a function)
     get_piecewise_data_points    (try breakpoints / except: _rdp / except: ValueError)
   plus the independent specification (Covered), the boolean property predicates evaluated on the
   implementation's outputs and the judge functions of the C17 correspondence.  No proofs here.

   Numbers: a point is (x, y) = (enthalpy h, temperature T) exactly as the rows of the numpy array.
   Distances are compared as squares so that the model is exact in Q:
     distance = |cross| / line_length           (perpendicular distance to the chord LINE, as the code computes it)
     distance > dmax     <->  cross^2 > cross_max^2            (same positive line_length)
     dmax > epsilon      <->  cross_max^2 > epsilon^2 * len2   (epsilon >= 0; the model is claimed for epsilon >= 0 only:
                                                                for epsilon < 0 the Python loop never terminates)   *)
From OP Require Import gen.Consts gen.CurvesConsts model.Base.
Local Open Scope Q_scope.

Definition pt := (Q * Q)%type.
Definition pt_eqb (p q : pt) : bool := qeqb (fst p) (fst q) && qeqb (snd p) (snd q).
Fixpoint pts_eqb (l1 l2 : list pt) : bool :=
  match l1, l2 with
  | [], [] => true
  | p :: r1, q :: r2 => pt_eqb p q && pts_eqb r1 r2
  | _, _ => false
  end.
(* index of the first difference of two point lists (length difference counts as a difference) *)
Fixpoint first_diff (k : Z) (l1 l2 : list pt) : Z :=
  match l1, l2 with
  | p :: r1, q :: r2 => if pt_eqb p q then first_diff (k + 1)%Z r1 r2 else k
  | _, _ => k
  end.

Definition sq (x : Q) : Q := rmul x x.
(* line_vector[0]*point_vector[1] - line_vector[1]*point_vector[0] *)
Definition cross (a b p : pt) : Q :=
  rsub (rmul (rsub (fst b) (fst a)) (rsub (snd p) (snd a))) (rmul (rsub (snd b) (snd a)) (rsub (fst p) (fst a))).
(* np.linalg.norm(line_vector)^2 *)
Definition len2 (a b : pt) : Q := radd (sq (rsub (fst b) (fst a))) (sq (rsub (snd b) (snd a))).
Definition dot (a b p : pt) : Q :=
  radd (rmul (rsub (fst p) (fst a)) (rsub (fst b) (fst a))) (rmul (rsub (snd p) (snd a)) (rsub (snd b) (snd a))).

(* ---------------------------------------------------------------- _rdp *)
(* the `for i in range(start + 1, end)` loop: running maximum of the squared numerator, strict `>` keeps the FIRST
   maximum; the split is remembered as (reversed prefix, point, suffix) of the interior *)
Fixpoint scan (a b : pt) (revpre : list pt) (d2 : Q) (best : option (list pt * pt * list pt)) (l : list pt)
  : Q * option (list pt * pt * list pt) :=
  match l with
  | [] => (d2, best)
  | p :: r =>
      let c2 := sq (cross a b p) in
      if qltb d2 c2 then scan a b (p :: revpre) c2 (Some (revpre, p, r)) r
      else scan a b (p :: revpre) d2 best r
  end.

(* kept interior points between the chord ends a and b; None = out of fuel *)
Fixpoint rdp_inner (fuel : nat) (eps : Q) (a b : pt) (inner : list pt) : option (list pt) :=
  match fuel with
  | O => None
  | S f =>
      if is_zero (len2 a b) then Some inner                 (* line_length == 0: continue (nothing removed) *)
      else
        let '(d2, best) := scan a b [] 0 None inner in
        if qltb (rmul (sq eps) (len2 a b)) d2 then          (* dmax > epsilon *)
          match best with
          | Some (revpre, p, r) =>
              match rdp_inner f eps a p (rev revpre), rdp_inner f eps p b r with
              | Some kl, Some kr => Some (kl ++ p :: kr)
              | _, _ => None
              end
          | None => None
          end
        else Some []                                        (* indices[start+1:end] = False *)
  end.

(* split a curve with >= 2 points into first, interior, last *)
Fixpoint split_last (a : pt) (l : list pt) : list pt * pt :=
  match l with
  | [] => ([], a)
  | b :: r => let '(i, z) := split_last b r in (a :: i, z)
  end.

Definition rdp_model (eps : Q) (curve : list pt) : result (list pt) :=
  match curve with
  | [] => Err EIndex                                        (* curve[end] on an empty array *)
  | [a] => Ok [a]                                           (* start = end: zero-length chord *)
  | a :: b0 :: r =>
      let '(inner, b) := split_last b0 r in
      match rdp_inner (S (List.length inner)) eps a b inner with
      | Some k => Ok (a :: k ++ [b])
      | None => Err EFuel
      end
  end.

(* ---------------------------------------------------------------- _get_piecewise_breakpoints *)
(* refine curve pw eps_lb hot = (optimised INTERIOR points res.x, max_err): the SLSQP call.  The code re-attaches the
   first and last point of pw itself (np.vstack((first_point, res.x, last_point))), so that is modelled, not assumed. *)
Definition oracle := list pt -> list pt -> Q -> bool -> (list pt * Q).

Definition reattach (pw inner : list pt) : list pt :=
  match pw with
  | [] => inner
  | a :: r => a :: inner ++ [last r a]
  end.

Fixpoint bp_loop (refine : oracle) (k : nat) (eps : Q) (hot : bool) (curve lastpw : list pt) : result (list pt) :=
  match k with
  | O => Ok lastpw                                          (* range exhausted: the last refined points are returned *)
  | S k' =>
      match rdp_model eps curve with
      | Err e => Err e
      | Ok pw =>
          if Nat.ltb rdp_refine_threshold (List.length pw) then
            let '(inner, maxerr) := refine curve pw (rdiv eps rdp_onesided_div) hot in
            let pw' := reattach pw inner in
            if qltb eps maxerr then bp_loop refine k' (rmul eps rdp_eps_shrink) hot curve pw' else Ok pw'
          else Ok pw
      end
  end.
Definition breakpoints (refine : oracle) (eps : Q) (hot : bool) (curve : list pt) : result (list pt) :=
  bp_loop refine rdp_max_iter eps hot curve [].

(* get_piecewise_data_points: any exception of the first attempt falls back to plain _rdp; a second exception is
   re-raised as ValueError("Piecewise linearisation failed.") *)
Definition piecewise_points (refine : oracle) (eps : Q) (hot : bool) (curve : list pt) : result (list pt) :=
  match breakpoints refine eps hot curve with
  | Ok r => Ok r
  | Err _ => match rdp_model eps curve with Ok r => Ok r | Err _ => Err EValue end
  end.

(* ---------------------------------------------------------------- specification *)
(* squared perpendicular distance of p to the LINE through a, b is at most eps^2 *)
Definition within (eps : Q) (a b p : pt) : Prop := sq (cross a b p) <= rmul (sq eps) (len2 a b).

(* CoveredW W a b inner kept: the interior `inner` of the chord a..b is partitioned by the kept points, and every
   dropped point p satisfies W u v p for the two consecutive kept points u, v that span it *)
Inductive CoveredW (W : pt -> pt -> pt -> Prop) : pt -> pt -> list pt -> list pt -> Prop :=
| cov_drop a b inner : Forall (W a b) inner -> CoveredW W a b inner []
| cov_split a b l p r kl kr :
    CoveredW W a p l kl -> CoveredW W p b r kr -> CoveredW W a b (l ++ p :: r) (kl ++ p :: kr).
(* ... within eps of the chord LINE (what the code computes) *)
Definition Covered (eps : Q) := CoveredW (within eps).
(* ... within eps of the chord SEGMENT: the foot of the perpendicular falls inside the chord *)
Definition within_seg (eps : Q) (a b p : pt) : Prop := within eps a b p /\ 0 <= dot a b p <= len2 a b.

Inductive subseq {A : Type} : list A -> list A -> Prop :=
| ss_nil l : subseq [] l
| ss_take x k l : subseq k l -> subseq (x :: k) (x :: l)
| ss_skip x k l : subseq k l -> subseq k (x :: l).

(* curves monotone in both coordinates (non-strictly, either direction): T-h profiles *)
Fixpoint mono_b (le : Q -> Q -> bool) (l : list Q) : bool :=
  match l with
  | a :: ((b :: _) as r) => le a b && mono_b le r
  | _ => true
  end.
Definition monotone1_b (l : list Q) : bool := mono_b qleb l || mono_b qgeb l.
Definition monotone2_b (c : list pt) : bool := monotone1_b (map fst c) && monotone1_b (map snd c).

(* ---------------------------------------------------------------- boolean predicates on observed outputs *)
(* squared distance of p to the line / to the SEGMENT a-b is at most e2 (e2 = eps^2) *)
Definition dist2_pt (a p : pt) : Q := len2 a p.
Definition line_le (e2 : Q) (a b p : pt) : bool :=
  let l2 := len2 a b in
  if is_zero l2 then qleb (dist2_pt a p) e2 else qleb (sq (cross a b p)) (rmul e2 l2).
Definition seg_le (e2 : Q) (a b p : pt) : bool :=
  let l2 := len2 a b in
  if is_zero l2 then qleb (dist2_pt a p) e2
  else let t := dot a b p in
       if qltb t 0 then qleb (dist2_pt a p) e2
       else if qltb l2 t then qleb (dist2_pt b p) e2
       else qleb (sq (cross a b p)) (rmul e2 l2).

(* decompose `curve` along the kept points `out`: Some [(a, dropped, b); ...] iff out is an in-order subsequence of
   curve (exact equality of points) that starts with the first and ends with the last point of curve *)
Fixpoint take_until (k : pt) (l acc : list pt) : option (list pt * list pt) :=
  match l with
  | [] => None
  | p :: r => if pt_eqb p k then Some (rev acc, r) else take_until k r (p :: acc)
  end.
Fixpoint gaps_from (a : pt) (out rest : list pt) : option (list (pt * list pt * pt)) :=
  match out with
  | [] => match rest with [] => Some [] | _ => None end
  | [k] =>                                                  (* the last kept point is the LAST point of the curve *)
      match rev rest with
      | z :: before => if pt_eqb z k then Some [(a, rev before, k)] else None
      | [] => None
      end
  | k :: out' =>
      match take_until k rest [] with
      | None => None
      | Some (skipped, rest') =>
          match gaps_from k out' rest' with
          | None => None
          | Some g => Some ((a, skipped, k) :: g)
          end
      end
  end.
Definition gaps (curve out : list pt) : option (list (pt * list pt * pt)) :=
  match curve, out with
  | a :: rest, a' :: out' => if pt_eqb a a' then gaps_from a out' rest else None
  | [], [] => Some []
  | _, _ => None
  end.

(* y of the chord a-b at abscissa of p minus y of p (None on a vertical chord) *)
Definition chord_excess (a b p : pt) : option Q :=
  if qeqb (fst a) (fst b) then None
  else Some (rsub (radd (snd a) (rdiv (rmul (rsub (snd b) (snd a)) (rsub (fst p) (fst a))) (rsub (fst b) (fst a)))) (snd p)).

(* one-sided bound: hot -> simplified profile at most `bound` ABOVE the original point, cold -> at most `bound` below *)
Definition onesided_ok (hot : bool) (bound : Q) (a b p : pt) : bool :=
  match chord_excess a b p with
  | None => true
  | Some d => if hot then qleb d bound else qleb (Qopp bound) d
  end.

Definition gap_all (f : pt -> pt -> pt -> bool) (g : pt * list pt * pt) : bool :=
  let '(a, l, b) := g in forallb (f a b) l.

(* property codes: 1 ends / order / subsequence, 3 deviation above eps, 4 one-sided tenth bound *)
Definition P_rdp_code (eps : Q) (curve out : list pt) : Z :=
  match gaps curve out with
  | None => 1%Z
  | Some g =>
      let e2 := sq eps in
      let f := if monotone2_b curve then seg_le e2 else line_le e2 in
      if forallb (gap_all f) g then 0%Z else 3%Z
  end.
Definition P_onesided (hot : bool) (eps : Q) (curve out : list pt) : bool :=
  match gaps curve out with
  | None => true
  | Some g => forallb (gap_all (onesided_ok hot (rdiv eps rdp_onesided_div))) g
  end.

(* refined outputs are not original points: distance of every original point to the nearest segment of `out`,
   order of the abscissas, one-sidedness by interpolation on the segment of `out` that contains the abscissa *)
Fixpoint segs_of (l : list pt) : list (pt * pt) :=
  match l with
  | a :: ((b :: _) as r) => (a, b) :: segs_of r
  | _ => []
  end.
Definition near_poly (e2 : Q) (out : list pt) (p : pt) : bool :=
  existsb (fun s => seg_le e2 (fst s) (snd s) p) (segs_of out).
Definition between (u v x : Q) : bool := (qleb u x && qleb x v) || (qleb v x && qleb x u).
Definition onesided_poly (hot : bool) (bound : Q) (out : list pt) (p : pt) : bool :=
  forallb (fun s => let '(a, b) := s in
                    if between (fst a) (fst b) (fst p) then onesided_ok hot bound a b p else true) (segs_of out).
Definition ends_ok (curve out : list pt) : bool :=
  match curve, out with
  | a :: r, a' :: r' => pt_eqb a a' && pt_eqb (last r a) (last r' a') && negb (Nat.ltb (List.length out) 2 && Nat.leb 2 (List.length curve))
  | _, _ => false
  end.
Definition same_direction (curve out : list pt) : bool :=
  let xc := map fst curve in let xo := map fst out in
  (mono_b qleb xc && mono_b qleb xo) || (mono_b qgeb xc && mono_b qgeb xo).
(* codes: 1 ends, 2 order, 3 deviation, 4 one-sided; evaluated with the bounds scaled by `slack` (>= 1) *)
Definition P_refined_code (slack : Q) (hot : bool) (eps : Q) (curve out : list pt) : Z :=
  if negb (ends_ok curve out) then 1%Z
  else if negb (same_direction curve out) then 2%Z
  else if negb (forallb (near_poly (sq (rmul eps slack)) out) curve) then 3%Z
  else if negb (forallb (onesided_poly hot (rmul (rdiv eps rdp_onesided_div) slack) out) curve) then 4%Z
  else 0%Z.

(* ---------------------------------------------------------------- judges *)
Definition res_pts_eqb (r1 r2 : result (list pt)) : bool :=
  match r1, r2 with
  | Ok a, Ok b => pts_eqb a b
  | Err e1, Err e2 => Z.eqb (errcode e1) (errcode e2)
  | _, _ => false
  end.
Definition rel_hi : Q := 1000000001 # 1000000000.
Definition rel_lo : Q := 999999999 # 1000000000.

(* _rdp(curve, eps) returned `out`:  [0] agree and property true, [1] fragile (the kept set changes when eps moves by
   1e-9 relative), [3;c] property predicate false on the implementation's output, [2;k] model <> implementation *)
Definition judge_rdp (eps : Q) (curve out : list pt) : list Z :=
  let m := rdp_model eps curve in
  if negb (res_pts_eqb m (rdp_model (rmul eps rel_hi) curve) && res_pts_eqb m (rdp_model (rmul eps rel_lo) curve))
  then [V_FRAGILE]
  else
    let c := P_rdp_code eps curve out in
    if negb (Z.eqb c 0) then [V_PROP_FALSE; c]
    else match m with
         | Ok k => if pts_eqb k out then [V_AGREE] else [V_MISMATCH; first_diff 0 k out]
         | Err e => [V_MISMATCH; (- errcode e)%Z]
         end.

(* the implementation raised: err = exception code (harness table); agree iff the model raises the same kind *)
Definition judge_rdp_err (eps : Q) (curve : list pt) (err : Z) : list Z :=
  match rdp_model eps curve with
  | Err e => if Z.eqb (errcode e) err then [V_AGREE] else [V_MISMATCH; (- errcode e)%Z]
  | Ok _ => [V_MISMATCH; 0%Z]
  end.

(* get_piecewise_data_points(curve, hot, eps) returned `out`.
   RDP keeps <= threshold points: out must be the RDP result; one-sided bound reported as code 4.
   RDP keeps more: the optimiser ran (oracle) - ends are proved fixed, the rest is explored: codes 11..14 (= 10 + code),
   with the bounds relaxed by 1 % for the optimiser's own convergence tolerance ([1] when only the exact bound fails). *)
Definition judge_pw (eps : Q) (hot : bool) (curve out : list pt) : list Z :=
  let m := rdp_model eps curve in
  if negb (res_pts_eqb m (rdp_model (rmul eps rel_hi) curve) && res_pts_eqb m (rdp_model (rmul eps rel_lo) curve))
  then [V_FRAGILE]
  else match m with
       | Err e => [V_MISMATCH; (- errcode e)%Z]
       | Ok k =>
           if Nat.ltb rdp_refine_threshold (List.length k) then
             let c := P_refined_code (101 # 100) hot eps curve out in
             if negb (Z.eqb c 0) then [V_PROP_FALSE; (10 + c)%Z]
             else if negb (Z.eqb (P_refined_code 1 hot eps curve out) 0) then [V_FRAGILE]
             else [V_AGREE]
           else
             let c := P_rdp_code eps curve out in
             if negb (Z.eqb c 0) then [V_PROP_FALSE; c]
             else if negb (pts_eqb k out) then [V_MISMATCH; first_diff 0 k out]
             else if negb (P_onesided hot (rmul eps rel_hi) curve out) then [V_PROP_FALSE; 4%Z]
             else if negb (P_onesided hot (rmul eps rel_lo) curve out) then [V_FRAGILE]
             else [V_AGREE]
       end.
