(* C08 -- executable model of ProblemTable.insert_temperature_interval
   (/repo/OpenPinch/classes/problem_table.py) and the boolean property predicate evaluated on the
   implementation's own before/after tables.  Definitions only; proofs live in proofs/Insert*.v.

   A table is a list of rows, hottest first.  A cell is `option Q` (None = NaN).  Columns are grouped by the role
   the code gives them:
     rT   the temperature                                  (never NaN)
     rDT  the interval width  (PT.DELTA_T)
     rH   the interpolated columns, in the order of INTERPOLATION_KEYS   (gen.Consts.interpolation_keys)
     rCP / rDH  the heat-capacity / enthalpy-change columns, in the order of HEAT_CAPACITY_PAIRS
     rX   every other column (the rCP and HTC families): copied from the lower neighbour inside, zero-or-NaN at the edges

   The model is structural (top-to-bottom walk over the old rows, with the sorted, filtered and de-duplicated
   requests), not a transcription of the numpy index arithmetic; what it keeps verbatim is every decision:
   `nanmin(|T_i - x|) > tol`, `x > T[0]`, `x < T[-1]`, `T[i-1] > x >= T[i]`, `abs(kept[-1] - x) > tol`,
   `abs(denom) <= tol`, NaN handling per cell, zero-or-NaN at the edges, and the first row's width as the code leaves it. *)
From OP Require Import gen.Consts model.Base.
From Coq Require Import String.
Local Open Scope Q_scope.

Definition cell := option Q.
Record row := mkRow { rT : Q; rDT : cell; rH : list cell; rCP : list cell; rDH : list cell; rX : list cell }.
Definition table := list row.

Definition zero_or_nan (c : cell) : cell := match c with Some _ => Some 0 | None => None end.
Definition omul (a b : cell) : cell := match a, b with Some x, Some y => Some (rmul x y) | _, _ => None end.

(* f applied position-wise; the shorter list is padded with None (rows of one table always have equal widths) *)
Fixpoint map2pad (f : cell -> cell -> cell) (a b : list cell) : list cell :=
  match a with
  | [] => map (f None) b
  | x :: a' => match b with
               | [] => f x None :: map2pad f a' []
               | y :: b' => f x y :: map2pad f a' b'
               end
  end.

(* descending insertion sort (np.sort(...)[::-1] / lexsort on -T) *)
Fixpoint ins_desc (x : Q) (l : list Q) : list Q :=
  match l with [] => [x] | y :: r => if qleb y x then x :: l else y :: ins_desc x r end.
Definition sort_desc (l : list Q) : list Q := fold_right ins_desc [] l.

Fixpoint span (p : Q -> bool) (xs : list Q) : list Q * list Q :=
  match xs with
  | [] => ([], [])
  | x :: r => if p x then (let (a, b) := span p r in (x :: a, b)) else ([], xs)
  end.

Section Model.
Variable tolv : Q.

(* _Ts_needing_insertion: keep x iff min_i |T_i - x| > tol *)
Definition far (rows : table) (x : Q) : bool := forallb (fun r => qltb tolv (Qabs (rT r - x))) rows.

(* _dedupe_monotonic / the bucket rule of _group_middle_inserts: greedy from the hottest *)
Fixpoint dd (last : Q) (l : list Q) : list Q :=
  match l with [] => [] | v :: r => if qltb tolv (Qabs (last - v)) then v :: dd v r else dd last r end.
Definition dedupe (l : list Q) : list Q := match l with [] => [] | x :: r => x :: dd x r end.

(* the temperatures that will really be inserted, hottest first *)
Definition plan (rows : table) (reqs : list Q) : list Q := dedupe (sort_desc (filter (far rows) reqs)).

(* _interpolate_heat_columns, one cell *)
Definition interp_cell (tu tl x : Q) (u l : cell) : cell :=
  if qleb (Qabs (tu - tl)) tolv then l else
  match l with
  | None => None
  | Some lv => match u with
               | None => Some lv
               | Some uv => Some (Qred (lv + ((x - tl) / (tu - tl)) * (uv - lv)))
               end
  end.

(* a row of a top or bottom block (_build_top_or_bottom_block + _populate_from_neighbor(copy, zero)) *)
Definition edge_row (n : row) (x : Q) : row :=
  mkRow x None (rH n) (map zero_or_nan (rCP n)) (map zero_or_nan (rDH n)) (map zero_or_nan (rX n)).
(* a row of a middle block (_initialise_insert_rows + _interpolate_heat_columns) *)
Definition mid_row (up lo : row) (x : Q) : row :=
  mkRow x None (map2pad (interp_cell (rT up) (rT lo) x) (rH up) (rH lo)) (rCP lo) (rDH lo) (rX lo).

(* old rows below `prev`, top to bottom; xs = remaining requests (all colder than prev), hottest first *)
Fixpoint walk (prev : row) (rest : table) (xs : list Q) : table :=
  match rest with
  | [] => map (edge_row prev) xs
  | r :: rs => let (here, below) := span (fun x => qleb (rT r) x) xs in
               map (mid_row prev r) here ++ r :: walk r rs below
  end.

(* step 7 of _apply_interval_map: widths and enthalpy changes of every row but the first *)
Fixpoint rederive (prevT : Q) (rows : table) : table :=
  match rows with
  | [] => []
  | r :: rs => let d := Some (rsub prevT (rT r)) in
               mkRow (rT r) d (rH r) (rCP r) (map (omul d) (rCP r)) (rX r) :: rederive (rT r) rs
  end.

Definition set_dt (r : row) (d : cell) : row := mkRow (rT r) d (rH r) (rCP r) (rDH r) (rX r).
Definition set_dt_dh (r : row) (d : cell) : row := mkRow (rT r) d (rH r) (rCP r) (map (omul d) (rCP r)) (rX r).

(* the rebuilt table for a non-empty plan.  First row, as the code leaves it:
   - a top block of one row keeps `temp - T_old_top`, of two or more rows gets 0.0 (the shift loop);
   - no top block but a middle block under the old first row: `top_adjusted` = gap below, dH = width * CP;
   - otherwise untouched. *)
Definition build (rows : table) (xs : list Q) : table :=
  match rows with
  | [] => []
  | r0 :: rs =>
      let (tops, others) := span (fun x => qltb (rT r0) x) xs in
      match tops with
      | t1 :: trest =>
          let d0 := match trest with [] => Some (rsub t1 (rT r0)) | _ => Some 0 end in
          set_dt (edge_row r0 t1) d0 :: rederive t1 (map (edge_row r0) trest ++ r0 :: walk r0 rs others)
      | [] =>
          let first := match rs with
                       | [] => r0
                       | r1 :: _ => match fst (span (fun x => qleb (rT r1) x) others) with
                                    | [] => r0
                                    | x1 :: _ => set_dt_dh r0 (Some (rsub (rT r0) x1))
                                    end
                       end in
          first :: rederive (rT r0) (walk r0 rs others)
      end
  end.

(* insert_temperature_interval: (new table, number of rows added).
   The entry guard `self.data.shape[0] < 2 == 0` is the chained comparison `(n < 2) and (2 == 0)`, i.e. always False:
   it never returns early, so it has no counterpart here; a one-row table is rebuilt like any other (corpus case).
   `self.data is None` (a table that was never given data) is outside the domain. *)
Definition insert_t (rows : table) (reqs : list Q) : table * nat :=
  match plan rows reqs with
  | [] => (rows, 0%nat)
  | xs => (build rows xs, List.length xs)
  end.

(* a history of calls *)
Definition run_t (rows : table) (reqss : list (list Q)) : table * nat :=
  fold_left (fun st reqs => let (t', n) := insert_t (fst st) reqs in (t', (snd st + n)%nat)) reqss (rows, 0%nat).

End Model.

Definition insert := insert_t tol.
Definition run := run_t tol.

(* ------------------------------------------------------------------ independent specification *)
(* the piecewise-linear curve through points (T, value), T strictly descending, end values outside *)
Definition lin (a b : Q * Q) (x : Q) : Q := snd b + ((x - fst b) / (fst a - fst b)) * (snd a - snd b).
Fixpoint plgo (prev : Q * Q) (rest : list (Q * Q)) (x : Q) : Q :=
  match rest with
  | [] => snd prev
  | r :: rs => if Qle_bool (fst r) x then lin prev r x else plgo r rs x
  end.
Definition pl (pts : list (Q * Q)) (x : Q) : Q :=
  match pts with
  | [] => 0
  | p0 :: rs => if Qle_bool (fst p0) x then snd p0 else plgo p0 rs x
  end.

Definition cv (c : cell) : Q := match c with Some q => q | None => 0 end.
Definition hcell (j : nat) (r : row) : cell := nth j (rH r) None.
Definition pts (j : nat) (t : table) : list (Q * Q) := map (fun r => (rT r, cv (hcell j r))) t.
Definition is_some (c : cell) : bool := match c with Some _ => true | None => false end.
Definition populated_b (j : nat) (t : table) : bool := forallb (fun r => is_some (hcell j r)) t.
Definition allnan_b (j : nat) (t : table) : bool := forallb (fun r => negb (is_some (hcell j r))) t.

(* ------------------------------------------------------------------ boolean predicates on observed tables *)
Definition ceq_b (eps : Q) (a b : cell) : bool :=
  match a, b with Some x, Some y => close eps x y | None, None => true | _, _ => false end.
Fixpoint cells_eq_b (eps : Q) (a b : list cell) : bool :=
  match a, b with
  | [], [] => true
  | x :: a', y :: b' => ceq_b eps x y && cells_eq_b eps a' b'
  | _, _ => false
  end.
Definition row_eq_b (eps : Q) (a b : row) : bool :=
  qeqb (rT a) (rT b) && ceq_b eps (rDT a) (rDT b) && cells_eq_b eps (rH a) (rH b) && cells_eq_b eps (rCP a) (rCP b)
  && cells_eq_b eps (rDH a) (rDH b) && cells_eq_b eps (rX a) (rX b).
(* position (1-based) of the first differing row, 0 when equal, length+1 when only the lengths differ *)
Fixpoint table_diff (eps : Q) (k : Z) (a b : table) : Z :=
  match a, b with
  | [], [] => 0%Z
  | x :: a', y :: b' => if row_eq_b eps x y then table_diff eps (k + 1)%Z a' b' else k
  | _, _ => k
  end.

Fixpoint sep_from_b (tolv a : Q) (l : list Q) : bool :=
  match l with [] => true | b :: r => qltb (b + tolv) a && sep_from_b tolv b r end.
Definition sepd_b (tolv : Q) (l : list Q) : bool := match l with [] => true | a :: r => sep_from_b tolv a r end.

Fixpoint widths_from_b (eps prevT : Q) (t : table) : bool :=
  match t with
  | [] => true
  | r :: rs => ceq_b eps (rDT r) (Some (prevT - rT r)) && widths_from_b eps (rT r) rs
  end.
Definition widths_b (eps : Q) (t : table) : bool := match t with [] => true | r :: rs => widths_from_b eps (rT r) rs end.
Definition dh_row_b (eps : Q) (r : row) : bool := cells_eq_b eps (rDH r) (map (omul (rDT r)) (rCP r)).
Definition dh_b (eps : Q) (t : table) : bool := match t with [] => true | _ :: rs => forallb (dh_row_b eps) rs end.

(* payload that an old row must keep: temperature, curve cells, heat capacities, other columns -- exactly *)
Definition payload_eq_b (a b : row) : bool :=
  qeqb (rT a) (rT b) && cells_eq_b 0 (rH a) (rH b) && cells_eq_b 0 (rCP a) (rCP b) && cells_eq_b 0 (rX a) (rX b).
Definition kept_b (before after : table) : bool := forallb (fun r => existsb (payload_eq_b r) after) before.
Definition new_requested_b (before after : table) (reqs : list Q) : bool :=
  forallb (fun r => existsb (fun o => qeqb (rT o) (rT r)) before || existsb (fun x => qeqb x (rT r)) reqs) after.
Definition present_b (tolv : Q) (after : table) (reqs : list Q) : bool :=
  forallb (fun x => existsb (fun r => qleb (Qabs (rT r - x)) tolv) after) reqs.

Fixpoint midpoints (l : list Q) : list Q :=
  match l with a :: ((b :: _) as r) => Qred ((a + b) / 2) :: midpoints r | _ => [] end.
Definition probe_points (before after : table) : list Q :=
  let ta := map rT after in
  map rT before ++ ta ++ midpoints ta ++
  match ta with [] => [] | a :: _ => [a + 1; last ta a - 1] end.
Definition curve_ok_b (eps : Q) (before after : table) (ys : list Q) (j : nat) : bool :=
  if populated_b j before then
    let pa := pts j after in
    let pb := pts j before in
    populated_b j after && forallb (fun y => close eps (pl pa y) (pl pb y)) ys
  else if allnan_b j before then allnan_b j after
  else true.
Definition width_of (t : table) : nat := match t with [] => 0%nat | r :: _ => List.length (rH r) end.
Definition curves_ok_b (eps : Q) (before after : table) : bool :=
  let ys := probe_points before after in
  forallb (curve_ok_b eps before after ys) (seq 0 (width_of before)).

(* clause number (1..7) of the first clause of the property that is false on the observed call, 0 when all hold.
   n = returned count, re_n / re_same = count returned by, and "matrix unchanged" after, re-inserting the same requests
   together with every temperature now present *)
Definition prop_clause (tolv eps : Q) (before after : table) (reqs : list Q) (n re_n : Z) (re_same : bool) : Z :=
  if negb (Z.eqb n (Z.of_nat (List.length after) - Z.of_nat (List.length before)) && Z.leb 0 n) then 1%Z
  else if negb (sepd_b tolv (map rT after)) then 2%Z
  else if negb (kept_b before after && new_requested_b before after reqs && present_b tolv after reqs) then 3%Z
  else if negb (curves_ok_b eps before after) then 4%Z
  else if negb (if Z.eqb n 0 then Z.eqb (table_diff 0 1 before after) 0 else widths_b eps after) then 5%Z
  else if negb (if Z.eqb n 0 then true else dh_b eps after) then 6%Z
  else if negb (Z.eqb re_n 0 && re_same) then 7%Z
  else 0%Z.

(* ------------------------------------------------------------------ matrix -> rows (column roles from gen.Consts) *)
Definition pt_eqb (a b : pt) : bool := String.eqb (pt_value a) (pt_value b).
Fixpoint pt_index_from (k : nat) (l : list pt) (p : pt) : nat :=
  match l with [] => k | q :: r => if pt_eqb p q then k else pt_index_from (S k) r p end.
Definition pt_index (p : pt) : nat := pt_index_from 0 pt_all p.
Definition idx_T : nat := Eval vm_compute in pt_index pt_T.
Definition idx_DT : nat := Eval vm_compute in pt_index pt_DELTA_T.
Definition idx_H : list nat := Eval vm_compute in map pt_index interpolation_keys.
Definition idx_CP : list nat := Eval vm_compute in map (fun p => pt_index (fst p)) heat_capacity_pairs.
Definition idx_DH : list nat := Eval vm_compute in map (fun p => pt_index (snd p)) heat_capacity_pairs.
Definition idx_X : list nat := Eval vm_compute in
  filter (fun k => negb (existsb (Nat.eqb k) (idx_T :: idx_DT :: idx_H ++ idx_CP ++ idx_DH))) (seq 0 (List.length pt_all)).
Fixpoint nodup_nat_b (l : list nat) : bool :=
  match l with [] => true | a :: r => negb (existsb (Nat.eqb a) r) && nodup_nat_b r end.
(* every column has exactly one role and every role column exists *)
Definition roles_ok : bool :=
  nodup_nat_b (idx_T :: idx_DT :: idx_H ++ idx_CP ++ idx_DH ++ idx_X)
  && forallb (fun k => Nat.ltb k (List.length pt_all)) (idx_T :: idx_DT :: idx_H ++ idx_CP ++ idx_DH ++ idx_X)
  && Nat.eqb (List.length (idx_T :: idx_DT :: idx_H ++ idx_CP ++ idx_DH ++ idx_X)) (List.length pt_all).

Definition parse_row (cells : list cell) : option row :=
  match nth idx_T cells None with
  | None => None
  | Some t =>
      let g := fun k => nth k cells None in
      if Nat.eqb (List.length cells) (List.length pt_all)
      then Some (mkRow t (g idx_DT) (map g idx_H) (map g idx_CP) (map g idx_DH) (map g idx_X))
      else None
  end.
Fixpoint parse_table (m : list (list cell)) : option table :=
  match m with
  | [] => Some []
  | c :: r => match parse_row c, parse_table r with Some x, Some t => Some (x :: t) | _, _ => None end
  end.

(* ------------------------------------------------------------------ verdicts *)
(* matrices arrive run-length encoded: V q = a number, G k = k NaN cells in a row *)
Inductive item := V (q : Q) | G (k : nat).
Definition expand (l : list item) : list cell :=
  flat_map (fun i => match i with V q => [Some q] | G k => repeat None k end) l.
Definition parse_matrix (m : list (list item)) : option table := parse_table (map expand m).
Record call := mkCall { c_reqs : list Q; c_after : list (list item); c_n : Z; c_re_n : Z; c_re_same : bool }.

Definition same_plan (a b : list Q) : bool :=
  Nat.eqb (List.length a) (List.length b) && forallb (fun p => qeqb (fst p) (snd p)) (combine a b).
(* no decision of this call sits within 0.1 % of the tolerance *)
Definition robust_call (t : table) (reqs : list Q) : bool :=
  let p := plan tol t reqs in
  same_plan p (plan (tol * (999 # 1000)) t reqs) && same_plan p (plan (tol * (1001 # 1000)) t reqs).

(* [0] agree | [1] fragile or outside the domain (NaN temperature, rows not strictly descending by more than tol)
   | [2; call; row] model <> implementation (row = 0: returned count) | [3; call; clause] property false on the implementation *)
Fixpoint judge_calls (k : Z) (model impl : table) (cs : list call) : list Z :=
  match cs with
  | [] => [V_AGREE]
  | c :: rest =>
      match parse_matrix (c_after c) with
      | None => [V_PROP_FALSE; k; 2%Z]      (* a NaN temperature appeared *)
      | Some after =>
          if negb (robust_call model (c_reqs c)) then [V_FRAGILE] else
          let cl := prop_clause tol eps9 impl after (c_reqs c) (c_n c) (c_re_n c) (c_re_same c) in
          if negb (Z.eqb cl 0) then [V_PROP_FALSE; k; cl] else
          let (m', n) := insert model (c_reqs c) in
          if negb (Z.eqb (Z.of_nat n) (c_n c)) then [V_MISMATCH; k; 0%Z] else
          let d := table_diff eps9 1 m' after in
          if negb (Z.eqb d 0) then [V_MISMATCH; k; d] else
          judge_calls (k + 1)%Z m' after rest
      end
  end.

Definition judge_insert (m0 : list (list item)) (cs : list call) : list Z :=
  if negb roles_ok then [V_MISMATCH; (-1)%Z; 0%Z] else
  match parse_matrix m0 with
  | None => [V_FRAGILE]
  | Some t0 => if sepd_b tol (map rT t0) && negb (Nat.eqb (List.length t0) 0) then judge_calls 0 t0 t0 cs else [V_FRAGILE]
  end.
