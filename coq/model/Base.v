(* Shared executable definitions: error values, boolean comparisons on Q,
   piecewise-linear interpolation, verdict codes.  No proofs here. *)
From Coq Require Export QArith Qabs Qminmax Qround ZArith List Bool.
Export ListNotations.
Local Open Scope Q_scope.

Inductive errkind : Set := EZeroDiv | EIndex | EKey | EAttr | EValue | EFuel | EType.
Inductive result (A : Type) : Type := Ok (a : A) | Err (e : errkind).
Arguments Ok {A} a.
Arguments Err {A} e.

Definition errcode (e : errkind) : Z :=
  match e with EZeroDiv => 1 | EIndex => 2 | EKey => 3 | EAttr => 4 | EValue => 5 | EFuel => 6 | EType => 7 end%Z.

Definition bind {A B} (r : result A) (f : A -> result B) : result B :=
  match r with Ok a => f a | Err e => Err e end.

(* boolean comparisons (exact) *)
Definition qltb (a b : Q) : bool := if Qlt_le_dec a b then true else false.
Definition qleb (a b : Q) : bool := Qle_bool a b.
Definition qeqb (a b : Q) : bool := Qeq_bool a b.
Definition qgtb (a b : Q) : bool := qltb b a.
Definition qgeb (a b : Q) : bool := qleb b a.

(* reduced arithmetic: every model operation keeps fractions in lowest terms *)
Definition radd (a b : Q) : Q := Qred (a + b).
Definition rsub (a b : Q) : Q := Qred (a - b).
Definition rmul (a b : Q) : Q := Qred (a * b).
Definition rdiv (a b : Q) : Q := Qred (a / b).
Definition is_zero (a : Q) : bool := qeqb a 0.

(* closeness used by the correspondence:  |a-b| <= eps * max(1,|a|,|b|) *)
Definition qscale (a b : Q) : Q := Qmax 1 (Qmax (Qabs a) (Qabs b)).
Definition close (eps a b : Q) : bool := qleb (Qabs (a - b)) (eps * qscale a b).
Definition close_abs (eps a b : Q) : bool := qleb (Qabs (a - b)) eps.
Fixpoint close_list (eps : Q) (l1 l2 : list Q) : bool :=
  match l1, l2 with
  | [], [] => true
  | a :: r1, b :: r2 => close eps a b && close_list eps r1 r2
  | _, _ => false
  end.
Definition eps9 : Q := 1 # 1000000000.
Definition eps6 : Q := 1 # 1000000.

(* sum of a list, reduced *)
Definition qsum (l : list Q) : Q := fold_right (fun x a => Qred (x + a)) 0 l.

(* piecewise-linear function through rows (xs strictly descending or ascending), end values outside *)
Fixpoint pl_desc (xs ys : list Q) (x : Q) : Q :=
  match xs, ys with
  | x0 :: ((x1 :: _) as xr), y0 :: ((y1 :: _) as yr) =>
      if qleb x0 x then y0
      else if qleb x1 x then Qred (y0 + (y1 - y0) * ((x - x0) / (x1 - x0)))
      else pl_desc xr yr x
  | [_], [y0] => y0
  | _, _ => 0
  end.

(* verdict codes printed by case shards *)
Definition V_AGREE : Z := 0%Z.
Definition V_FRAGILE : Z := 1%Z.
Definition V_MISMATCH : Z := 2%Z.
Definition V_PROP_FALSE : Z := 3%Z.
Definition bz (b : bool) : Z := if b then 1%Z else 0%Z.
