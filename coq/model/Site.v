(* Site-level records: sums over zones, the utility cascade of indirect integration
   (_get_site_utility_heat_cascade: H_NET_UT = max(h) - h on the cascade of the summed utilities), and the record
   predicates of C02 / C09 evaluated on what the service reports. *)
From OP Require Import gen.Consts model.Base model.Stream model.Cascade model.CascadeE2E.
Local Open Scope Q_scope.

(* ---- model of the site utility cascade ---- *)
Definition site_hnet_ut (w : Q) (hu cu : list view) (g : list Q) : list Q :=
  let h := pHn (pta w hu cu g) in
  let mx := match h with [] => 0 | x :: l => qmax_list x l end in
  map (fun x => rsub mx x) h.
Definition site_Qh (w : Q) (hu cu : list view) (g : list Q) : Q := hd 0 (site_hnet_ut w hu cu g).
Definition site_Qc (w : Q) (hu cu : list view) (g : list Q) : Q := lastq (site_hnet_ut w hu cu g).
(* heat recovery of the total-site record as the code defines it *)
Definition site_Qr (sum_qr sum_qh qh_ts : Q) : Q := radd sum_qr (rsub sum_qh qh_ts).

(* ---- C02: one reported record against the streams it covers ---- *)
(* [slack]: absolute allowance for the 6-dp rounding of the site grid (2e-6 K x heat-capacity flow rate of the utility pseudo-streams
   of a total-site record, 0 for every other record); computed by the harness from the record itself *)
Definition c02_b (eps slack : Q) (xs : list sin) (qh qc qr : Q) (hus cus : list Q) : list Z :=
  let hot := hot_views shifted_view xs in let cold := cold_views shifted_view xs in
  let H := duty hot in let C := duty cold in
  let sc := eps * dscale hot cold + slack in
  let near := fun a b => qleb (Qabs (a - b)) sc in
  if negb (near (qh - qc) (C - H)) then [V_PROP_FALSE; 21%Z]
  else if negb (near qr (H - qc)) then [V_PROP_FALSE; 22%Z]
  else if negb (qleb (- sc) qh && qleb (- sc) qc && qleb (- sc) qr) then [V_PROP_FALSE; 23%Z]
  else if negb (forallb (fun u => qleb (- sc) u) (hus ++ cus)) then [V_PROP_FALSE; 24%Z]
  else if negb (near (qsum hus - qsum cus) (qh - qc)) then [V_PROP_FALSE; 25%Z]
  else [V_AGREE].

(* ---- C09: the three site records and the zonal DI records ---- *)
Record rec := mkRec { r_qh : Q; r_qc : Q; r_qr : Q; r_hu : list Q; r_cu : list Q }.
Fixpoint sum_lists (ls : list (list Q)) : list Q :=
  match ls with
  | [] => []
  | [l] => l
  | l :: r => let s := sum_lists r in map (fun p => Qred (fst p + snd p)) (combine l s)
  end.
Definition c09_b (eps slack : Q) (xs_site : list sin) (zones : list rec) (di tz ts : rec) : list Z :=
  let hot := hot_views shifted_view xs_site in let cold := cold_views shifted_view xs_site in
  let sc := eps * dscale hot cold in
  let near := fun a b => qleb (Qabs (a - b)) sc in
  let sq := fun f => qsum (map f zones) in
  (* total-process record = sum of the zones' direct-integration records, value by value, utility by utility *)
  if negb (near (r_qh tz) (sq r_qh) && near (r_qc tz) (sq r_qc) && near (r_qr tz) (sq r_qr)) then [V_PROP_FALSE; 91%Z]
  else if negb (forall2b near (r_hu tz) (sum_lists (map r_hu zones)) && forall2b near (r_cu tz) (sum_lists (map r_cu zones)))
  then [V_PROP_FALSE; 92%Z]
  (* total-site targets never larger than the sum ... *)
  else if negb (qleb (r_qh ts) (r_qh tz + sc + slack) && qleb (r_qc ts) (r_qc tz + sc + slack)) then [V_PROP_FALSE; 93%Z]
  (* ... and never smaller than the site's own direct-integration targets *)
  else if negb (qleb (r_qh di - sc) (r_qh ts) && qleb (r_qc di - sc) (r_qc ts)) then [V_PROP_FALSE; 94%Z]
  (* site DI record is the exact optimum of all site streams (so the lower bound is the true one) *)
  else if negb (c01_b eps hot cold (r_qh di) (r_qc di) (r_qr di)) then [V_PROP_FALSE; 95%Z]
  (* heat recovery identity *)
  else if negb (near (r_qr ts) (r_qr tz + (r_qh tz - r_qh ts))) then [V_PROP_FALSE; 96%Z]
  else [V_AGREE].
