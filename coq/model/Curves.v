(* Executable model of
     OpenPinch/utils/miscellaneous.py : clean_composite_curve_ends, clean_composite_curve   (as written)
     OpenPinch/analysis/graph_data.py : _segment_bounds, _iter_gcc_segment_slices, _classify_segment,
                                        _build_gcc_segments, _graph_cc, _create_curve (rounding)
   plus the boolean property predicates of C13 / C17 evaluated on the implementation's outputs and the judges
   of the correspondence.  No proofs here.

   A curve is a list of points (x, y) = (enthalpy column value, temperature): the Python functions take
   (y_vals, x_vals) and return (y, x); the harness zips them.  NaN never enters: an all-NaN column is the
   constructor `AllNaN` of the judge input (the code returns no points for it), a partially-NaN column is
   rejected by the harness as unmodelled.  *)
From OP Require Import gen.Consts gen.CurvesConsts model.Base model.RDP.
Local Open Scope Q_scope.

(* ---------------------------------------------------------------- clean_composite_curve_ends *)
(* np.isclose(a, b, atol=tolv):  |a - b| <= atol + rtol * |b|   with numpy's default rtol *)
Definition isclose_np (tolv a b : Q) : bool :=
  qleb (Qabs (rsub a b)) (radd tolv (rmul np_isclose_rtol (Qabs b))).

Definition qlen (l : list Q) : Q := inject_Z (Z.of_nat (List.length l)).
Definition mean (l : list Q) : Q := rdiv (qsum l) (qlen l).
(* ndarray.var(): mean of squared deviations from the mean *)
Definition variance (l : list Q) : Q :=
  let m := mean l in rdiv (qsum (map (fun x => sq (rsub x m)) l)) (qlen l).

Fixpoint find_first {A} (f : A -> bool) (k : nat) (l : list A) : option nat :=
  match l with
  | [] => None
  | a :: r => if f a then Some k else find_first f (S k) r
  end.
Fixpoint find_last {A} (f : A -> bool) (k : nat) (l : list A) (acc : option nat) : option nat :=
  match l with
  | [] => acc
  | a :: r => find_last f (S k) r (if f a then Some k else acc)
  end.
(* l[i : j] for 0 <= i *)
Definition slice {A} (i j : nat) (l : list A) : list A := firstn (j - i) (skipn i l).

Definition clean_ends (tolv : Q) (c : list pt) : result (list pt) :=
  let xs := map fst c in
  match xs with
  | [] => Ok []                                             (* np.isnan([]).all() is True *)
  | x0 :: _ =>
      if forallb (fun x => isclose_np tolv x 0) xs || qltb (Qabs (variance xs)) tolv then Ok []
      else
        let xl := last xs 0 in
        match find_first (fun x => negb (isclose_np tolv x x0)) 0 xs,
              find_last (fun x => negb (isclose_np tolv x xl)) 0 xs None with
        | Some i, Some j => Ok (slice (i - 1) (j + 2) c)    (* start = i-1, end = j+1, x[start:end+1] *)
        | _, _ => Err EIndex                                (* np.flatnonzero(mask)[0] on an empty array *)
        end
  end.

(* ---------------------------------------------------------------- clean_composite_curve *)
(* the loop `for i in range(1, len-1)`: every interior point is tested against its ORIGINAL neighbours *)
Definition keep_mid (tolv : Q) (p1 p2 p3 : pt) : bool :=
  let '(x1, y1) := p1 in let '(x2, y2) := p2 in let '(x3, y3) := p3 in
  if qeqb x1 x3 then negb (qeqb x1 x2)
  else qltb tolv (Qabs (rsub y2 (radd y1 (rdiv (rmul (rsub y3 y1) (rsub x2 x1)) (rsub x3 x1))))).
Fixpoint interior_keep (tolv : Q) (l : list pt) : list pt :=
  match l with
  | p1 :: ((p2 :: ((p3 :: _) as t2)) as t1) =>
      if keep_mid tolv p1 p2 p3 then p2 :: interior_keep tolv t1 else interior_keep tolv t1
  | _ => []
  end.
Definition pop_first (tolv : Q) (l : list pt) : list pt :=
  match l with
  | p0 :: ((p1 :: _) as r) => if qltb (Qabs (rsub (fst p0) (fst p1))) tolv then r else l
  | _ => l
  end.
(* i = len-1; if abs(x[i] - x[i-1]) < tol: pop(i)   (Python's x[-1] when a single point is left) *)
Definition pop_last (tolv : Q) (l : list pt) : list pt :=
  match rev l with
  | pl :: ((pk :: _) as r) => if qltb (Qabs (rsub (fst pl) (fst pk))) tolv then rev r else l
  | [pl] => if qltb 0 tolv then [] else l
  | [] => l
  end.
Definition clean_core (tolv : Q) (t : list pt) : list pt :=
  match t with
  | p0 :: _ :: _ :: _ => p0 :: interior_keep tolv t ++ [last t p0]
  | _ => t                                                  (* len(x_vals) <= 2: returned as they are *)
  end.
Definition clean_curve (tolv : Q) (c : list pt) : result (list pt) :=
  match clean_ends tolv c with
  | Err e => Err e
  | Ok t =>
      match t with
      | _ :: _ :: _ :: _ => Ok (pop_last tolv (pop_first tolv (clean_core tolv t)))
      | _ => Ok t
      end
  end.

(* ---------------------------------------------------------------- graph_data.py *)
Inductive sloc : Set := HotS | ColdS | HotU | ColdU | Unassigned.
Definition sloc_code (s : sloc) : Z := match s with HotS => 0 | ColdS => 1 | HotU => 2 | ColdU => 3 | Unassigned => 4 end%Z.
Definition sloc_eqb (a b : sloc) : bool := Z.eqb (sloc_code a) (sloc_code b).

(* _classify_segment(enthalpy_diff, is_utility_profile) *)
Definition classify (vtol d : Q) (util : bool) : sloc :=
  if qleb (Qabs d) vtol then Unassigned
  else if qltb 0 d then (if util then HotU else ColdS)
  else if qltb d 0 then (if util then ColdU else HotS)
  else Unassigned.

(* _segment_bounds: first i with |x[i]-x[i+1]| > tol (else 0); last i >= 1 with |x[i]-x[i-1]| > tol (else len-1) *)
Fixpoint adj_flags (tolv : Q) (xs : list Q) : list bool :=
  match xs with
  | a :: ((b :: _) as r) => qltb tolv (Qabs (rsub a b)) :: adj_flags tolv r
  | _ => []
  end.
Definition segment_bounds (tolv : Q) (xs : list Q) : nat * nat :=
  let fl := adj_flags tolv xs in
  (match find_first (fun b => b) 0 fl with Some i => i | None => O end,
   match find_last (fun b => b) 0 fl None with Some i => S i | None => List.length xs - 1 end)%nat.

(* _iter_gcc_segment_slices on the points start..end: maximal runs of equal classification, sharing end points *)
Fixpoint group_segs (vtol : Q) (util : bool) (cur : option (sloc * list pt)) (prev : pt) (l : list pt)
  : list (sloc * list pt) :=
  match l with
  | [] => match cur with Some (c, rv) => [(c, rev rv)] | None => [] end
  | q :: r =>
      let c := classify vtol (rsub (fst prev) (fst q)) util in
      match cur with
      | None => group_segs vtol util (Some (c, [q; prev])) q r
      | Some (c0, rv) =>
          if sloc_eqb c c0 then group_segs vtol util (Some (c0, q :: rv)) q r
          else (c0, rev rv) :: group_segs vtol util (Some (c, [q; prev])) q r
      end
  end.
Definition gcc_slices (tolv vtol : Q) (util : bool) (pts : list pt) : list (sloc * list pt) :=
  match pts with
  | [] => []                                                (* end = -1: the loop body never runs *)
  | _ =>
      let '(s, e) := segment_bounds tolv (map fst pts) in
      match slice s (S e) pts with
      | [] => []
      | p :: r => group_segs vtol util None p r
      end
  end.

(* Python round(v, dp) on the exact rational: round half to even *)
Definition pow10 (dp : nat) : Q := inject_Z (10 ^ Z.of_nat dp).
Definition round_dp (dp : nat) (v : Q) : Q :=
  let s := pow10 dp in
  let w := Qred (v * s) in
  let f := Qfloor w in
  let r := Qred (w - inject_Z f) in
  let k := if qltb r (1 # 2) then f
           else if qltb (1 # 2) r then (f + 1)%Z
           else if Z.even f then f else (f + 1)%Z in
  Qred (inject_Z k / s).
Definition round_pt (dp : nat) (p : pt) : pt := (round_dp dp (fst p), round_dp dp (snd p)).

(* one emitted segment: stream location (colour), is_vertical, points *)
Definition seg := (sloc * bool * list pt)%type.

(* _graph_cc: one curve, all cleaned points, the location is the column's own *)
Definition graph_cc_raw (tolv : Q) (loc : sloc) (rows : list pt) : result (list seg) :=
  match clean_curve tolv rows with
  | Err e => Err e
  | Ok c => Ok [(loc, false, c)]
  end.
(* _build_gcc_segments: vertical pieces take the series' preferred location when it has one *)
Definition graph_gcc_raw (tolv vtol : Q) (util : bool) (pref : option sloc) (rows : list pt) : result (list seg) :=
  match clean_curve tolv rows with
  | Err e => Err e
  | Ok c =>
      Ok (map (fun s : sloc * list pt =>
                 let '(raw, pts) := s in
                 let vert := sloc_eqb raw Unassigned in
                 ((if vert then match pref with Some p => p | None => raw end else raw), vert, pts))
              (gcc_slices tolv vtol util c))
  end.
Definition round_segs (dp : nat) (l : list seg) : list seg :=
  map (fun s : seg => let '(c, v, pts) := s in (c, v, map (round_pt dp) pts)) l.

Inductive column : Type := AllNaN | Col (rows : list pt).
Definition graph_curve (tolv vtol : Q) (dp : nat) (gcc util : bool) (loc : sloc) (pref : option sloc) (col : column)
  : result (list seg) :=
  match col with
  | AllNaN => Ok (if gcc then [] else [(loc, false, [])])
  | Col rows =>
      match (if gcc then graph_gcc_raw tolv vtol util pref rows else graph_cc_raw tolv loc rows) with
      | Err e => Err e
      | Ok l => Ok (round_segs dp l)
      end
  end.

(* ================================================================ predicates and judges: clean (C17, C13) *)
Definition tol_hi (t : Q) : Q := rmul t (1001 # 1000).
Definition tol_lo (t : Q) : Q := rmul t (999 # 1000).

(* P_clean codes (0 = true):
     1  out is not an in-order subsequence of the curve
     2  a trimmed leading/trailing point is not flat (its x differs from the first/last kept x by more than 3*tol)
     5  ... and the trimmed point is within numpy's RELATIVE band of the end value (rtol finding)
     3  a removed interior point deviates from the kept chord by more than tol (y at its x)
     6  ... and it was removed together with at least one adjacent point (collinearity drift, D16)
     4  nothing is emitted although the abscissas spread by more than 2*tol (variance early return)
     7  (judge_clean_err) the call raises IndexError: all abscissas within numpy's relative band of the first one   *)
Fixpoint split_at_first (k : pt) (l acc : list pt) : option (list pt * list pt) :=
  match l with
  | [] => None
  | p :: r => if pt_eqb p k then Some (rev acc, r) else split_at_first k r (p :: acc)
  end.
Definition qmaxl (l : list Q) (d : Q) : Q := fold_right Qmax d l.
Definition qminl (l : list Q) (d : Q) : Q := fold_right Qmin d l.
Definition spread (l : list Q) : Q := match l with [] => 0 | a :: _ => Qred (qmaxl l a - qminl l a) end.

Definition dev_ok (bound : Q) (a b p : pt) : bool :=
  match chord_excess a b p with
  | None => qeqb (fst p) (fst a)                            (* vertical kept chord: the point must be on it *)
  | Some d => qleb (Qabs d) bound
  end.
Definition flat_to (bound x0 : Q) (l : list pt) : bool := forallb (fun p => qleb (Qabs (rsub (fst p) x0)) bound) l.

Definition P_clean_code (tolv : Q) (c out : list pt) : Z :=
  match out with
  | [] => if qltb (rmul 2 tolv) (spread (map fst c)) then 4%Z else 0%Z
  | k0 :: out' =>
      match split_at_first k0 c [] with
      | None => 1%Z
      | Some (lead, rest) =>
          match gaps_from k0 out' rest with
          | Some g =>
              (* out ends with the last point of the curve: no trailing trim *)
              if negb (flat_to (rmul 3 tolv) (fst k0) lead) then
                (if flat_to (radd tolv (rmul np_isclose_rtol (Qabs (fst (hd k0 c))))) (fst (hd k0 c)) lead then 5%Z else 2%Z)
              else if forallb (gap_all (dev_ok tolv)) g then 0%Z
              else if forallb (fun x : pt * list pt * pt => let '(a, l, b) := x in
                                 forallb (dev_ok tolv a b) l || Nat.leb 2 (List.length l)) g then 6%Z else 3%Z
          | None =>
              (* trailing points trimmed: find the longest prefix of rest that out' decomposes *)
              let kl := last out k0 in
              match split_at_first kl (rev c) [] with
              | None => 1%Z
              | Some (trail_rev, _) =>
                  let body := firstn (List.length rest - List.length trail_rev) rest in
                  match gaps_from k0 out' body with
                  | None => 1%Z
                  | Some g =>
                      let xl := fst (last c k0) in
                      if negb (flat_to (rmul 3 tolv) (fst k0) lead && flat_to (rmul 3 tolv) (fst kl) trail_rev) then
                        (if flat_to (radd tolv (rmul np_isclose_rtol (Qabs (fst (hd k0 c))))) (fst (hd k0 c)) lead
                            && flat_to (radd tolv (rmul np_isclose_rtol (Qabs xl))) xl trail_rev then 5%Z else 2%Z)
                      else if forallb (gap_all (dev_ok tolv)) g then 0%Z
                      else if forallb (fun x : pt * list pt * pt => let '(a, l, b) := x in
                                         forallb (dev_ok tolv a b) l || Nat.leb 2 (List.length l)) g then 6%Z else 3%Z
                  end
              end
          end
      end
  end.

(* clean_composite_curve_ends(c) = oe and clean_composite_curve(c) = oc observed on the implementation *)
Definition judge_clean (c oe oc : list pt) : list Z :=
  let me := clean_ends tol c in let mc := clean_curve tol c in
  if negb (res_pts_eqb me (clean_ends (tol_hi tol) c) && res_pts_eqb me (clean_ends (tol_lo tol) c)
           && res_pts_eqb mc (clean_curve (tol_hi tol) c) && res_pts_eqb mc (clean_curve (tol_lo tol) c))
  then [V_FRAGILE]
  else
    let code := P_clean_code tol c oc in
    if negb (Z.eqb code 0) then
      (if Z.eqb code (P_clean_code (tol_hi tol) c oc) && Z.eqb code (P_clean_code (tol_lo tol) c oc)
       then [V_PROP_FALSE; code] else [V_FRAGILE])
    else match me, mc with
         | Ok e, Ok k =>
             if negb (pts_eqb e oe) then [V_MISMATCH; first_diff 0 e oe]
             else if negb (pts_eqb k oc) then [V_MISMATCH; (100 + first_diff 0 k oc)%Z]
             else [V_AGREE]
         | Err e, _ | _, Err e => [V_MISMATCH; (- errcode e)%Z]
         end.
(* the implementation raised.  Raising is never "keeping the curve": when the model raises the same exception class the
   verdict is PROPERTY FALSE with code 7 (the only exception of the model is the IndexError of np.flatnonzero(mask)[0],
   reached when every abscissa is np.isclose to the first one although the variance test passed - numpy's relative band) *)
Definition judge_clean_err (c : list pt) (err : Z) : list Z :=
  match clean_curve tol c with
  | Err e => if Z.eqb (errcode e) err then [V_PROP_FALSE; 7%Z] else [V_MISMATCH; (- errcode e)%Z]
  | Ok _ => [V_MISMATCH; 0%Z]
  end.

(* ================================================================ predicates and judges: graph curves (C13) *)
Definition half_ulp (dp : nat) : Q := Qred ((1 # 2) / pow10 dp).
Definition tie_slack : Q := 1 # 1000000000.
(* r is an admissible rounding of v to dp places: a multiple of 10^-dp (to 1e-9) no further than half a unit (+1e-9) *)
Definition round_match (dp : nat) (v r : Q) : bool :=
  let w := Qred (r * pow10 dp) in
  qleb (Qabs (w - inject_Z (Qfloor (w + (1 # 2))))) (1 # 1000000)
  && qleb (Qabs (r - v)) (half_ulp dp + tie_slack).
Definition pt_round_match (dp : nat) (p r : pt) : bool := round_match dp (fst p) (fst r) && round_match dp (snd p) (snd r).
Fixpoint pts_round_match (dp : nat) (l o : list pt) : bool :=
  match l, o with
  | [], [] => true
  | p :: l', r :: o' => pt_round_match dp p r && pts_round_match dp l' o'
  | _, _ => false
  end.
Fixpoint segs_match (dp : nat) (m o : list seg) (k : Z) : Z :=      (* -1 = all match, else index of first difference *)
  match m, o with
  | [], [] => (-1)%Z
  | (c, v, pts) :: m', (c', v', pts') :: o' =>
      if sloc_eqb c c' && Bool.eqb v v' && pts_round_match dp pts pts' then segs_match dp m' o' (k + 1)%Z else k
  | _, _ => k
  end.
Definition raw_curve (tolv vtol : Q) (gcc util : bool) (loc : sloc) (pref : option sloc) (col : column) : result (list seg) :=
  match col with
  | AllNaN => Ok (if gcc then [] else [(loc, false, [])])
  | Col rows => if gcc then graph_gcc_raw tolv vtol util pref rows else graph_cc_raw tolv loc rows
  end.
Fixpoint seg_shape (l : list seg) : list (Z * nat) := match l with [] => [] | (c, _, p) :: r => (sloc_code c, List.length p) :: seg_shape r end.
Definition shape_eqb (a b : list (Z * nat)) : bool :=
  Nat.eqb (List.length a) (List.length b) && forallb (fun x : (Z * nat) * (Z * nat) => Z.eqb (fst (fst x)) (fst (snd x)) && Nat.eqb (snd (fst x)) (snd (snd x))) (combine a b).
Definition res_shape_eqb (a b : result (list seg)) : bool :=
  match a, b with
  | Ok x, Ok y => shape_eqb (seg_shape x) (seg_shape y)
  | Err e, Err e' => Z.eqb (errcode e) (errcode e')
  | _, _ => false
  end.

(* --- the property predicate on ONE emitted curve (independent of the model) ---
   rows : the table column as points (x = enthalpy, y = temperature), temperatures strictly descending
   segs : the emitted segments of that column, in order
   P13 codes (0 = true):
     1  an emitted point is not a (rounded) table row taken in table order
     2  consecutive segments do not share their end point / a segment has fewer than 2 points /
        a composite curve is not exactly one segment with its own location
     3  the emitted points do not span the whole non-flat extent: a row before the first / after the last emitted one,
        or the minimum / maximum enthalpy of the column, is further than the display rounding (0.01) away
     7  ... and that row is within numpy's relative band of the end value (relative-tolerance trimming)
     4  a table row between two emitted points is not recovered by linear interpolation to 0.005 * (1 + |dH/dT|)
     8  ... and it was removed together with at least one adjacent row (collinearity drift, D16)
     5  a segment's hot / cold / utility / vertical label disagrees with the sign of an enthalpy change inside it
     6  two adjacent segments carry the same classification (slices are not maximal)
     9  nothing is emitted although the enthalpy column spreads by more than the display rounding
    10  (judge_curve_err) the graph assembly raises IndexError (relative band, see judge_clean_err)                   *)
Definition disp : Q := 1 # 100.
Definition half_disp : Q := 1 # 200.

(* flatten the segments into one point list, checking that consecutive segments share their end point *)
Fixpoint join_segs (prev : option pt) (l : list seg) : option (list pt) :=
  match l with
  | [] => Some []
  | (_, _, pts) :: r =>
      match pts with
      | p0 :: ((_ :: _) as tl0) =>
          let ok := match prev with None => true | Some q => pt_eqb q p0 end in
          if ok then
            match join_segs (Some (last tl0 p0)) r with
            | Some rest => Some ((match prev with None => [p0] | Some _ => [] end) ++ tl0 ++ rest)
            | None => None
            end
          else None
      | _ => None
      end
  end.

(* greedy in-order matching of emitted points to rows (earliest row that rounds to the point) *)
Fixpoint match_rows (dp : nat) (k : nat) (rows pts : list pt) : option (list nat) :=
  match rows with
  | [] => match pts with [] => Some [] | _ => None end
  | r :: rr =>
      match pts with
      | [] => Some []
      | p :: pr =>
          if pt_round_match dp r p
          then match match_rows dp (S k) rr pr with Some l => Some (k :: l) | None => None end
          else match_rows dp (S k) rr pts
      end
  end.

Definition nth_pt (rows : list pt) (i : nat) : pt := nth i rows (0, 0).

(* H interpolated on the emitted segment a-b at temperature t, and the slope |dH/dT| of that segment *)
Definition recovered (a b row : pt) : bool :=
  let '(xa, ya) := a in let '(xb, yb) := b in let '(h, t) := row in
  if qeqb ya yb then
    qleb (Qabs (t - ya)) (half_disp + tie_slack)
    && qleb (Qmin xa xb - half_disp - tie_slack) h && qleb h (Qmax xa xb + half_disp + tie_slack)
  else
    let slope := Qred ((xb - xa) / (yb - ya)) in
    let tc := Qmax (Qmin t (Qmax ya yb)) (Qmin ya yb) in       (* clamp to the segment's temperature range *)
    let hi := Qred (xa + slope * (tc - ya)) in
    qleb (Qabs (hi - h)) ((half_disp + (2 # 1000000)) * (1 + Qabs slope)).

(* rows strictly between two matched indices must be recovered by the emitted segment *)
Fixpoint recover_gaps (rows : list pt) (idx : list nat) (pts : list pt) : Z :=   (* 0 ok, 4 single, 8 run *)
  match idx, pts with
  | i :: ((j :: _) as ir), a :: ((b :: _) as pr) =>
      let mid := slice (S i) j rows in
      if forallb (recovered a b) mid then recover_gaps rows ir pr
      else if Nat.leb 2 (List.length mid) then 8%Z else 4%Z
  | _, _ => 0%Z
  end.

(* classification of the emitted segments from the TABLE rows they were matched to *)
Definition expected_loc (vtol : Q) (util : bool) (pref : option sloc) (d : Q) : sloc * bool :=
  let c := classify vtol d util in
  if sloc_eqb c Unassigned then (match pref with Some p => p | None => Unassigned end, true) else (c, false).
Fixpoint diffs_ok (vtol : Q) (util : bool) (pref : option sloc) (lab : sloc) (vert : bool) (rows : list pt) (idx : list nat) : bool :=
  match idx with
  | i :: ((j :: _) as r) =>
      let '(c, v) := expected_loc vtol util pref (fst (nth_pt rows i) - fst (nth_pt rows j)) in
      sloc_eqb c lab && Bool.eqb v vert && diffs_ok vtol util pref lab vert rows r
  | _ => true
  end.
(* walk the segments, consuming their share of the matched indices (segments overlap in one index) *)
Fixpoint classes_ok (vtol : Q) (util : bool) (pref : option sloc) (rows : list pt) (idx : list nat) (l : list seg)
         (prevc : option (sloc * bool)) : Z :=
  match l with
  | [] => 0%Z
  | (lab, vert, pts) :: r =>
      let n := List.length pts in
      let mine := firstn n idx in
      if negb (diffs_ok vtol util pref lab vert rows mine) then 5%Z
      else if match prevc with Some (c, v) => sloc_eqb c lab && Bool.eqb v vert | None => false end then 6%Z
      else classes_ok vtol util pref rows (skipn (n - 1) idx) r (Some (lab, vert))
  end.

Definition P13_code (dp : nat) (vtol : Q) (gcc util : bool) (loc : sloc) (pref : option sloc) (col : column) (segs : list seg) : Z :=
  match col with
  | AllNaN => if gcc then (match segs with [] => 0 | _ => 2 end)%Z
              else (match segs with [(l, false, [])] => if sloc_eqb l loc then 0 else 2 | _ => 2 end)%Z
  | Col rows =>
      let xs := map fst rows in
      let shape_ok := if gcc then true
                      else match segs with [(l, false, _)] => sloc_eqb l loc | _ => false end in
      if negb shape_ok then 2%Z
      else
        let flat :=
          if gcc then match segs with [] => Some [] | _ => join_segs None segs end
          else match segs with [(_, _, pts)] => Some pts | _ => None end in
        match flat with
        | None => 2%Z
        | Some [] => if qltb disp (spread xs) then 9%Z else 0%Z
        | Some pts =>
            match match_rows dp 0 rows pts with
            | None => 1%Z
            | Some idx =>
                let i0 := hd O idx in let il := last idx O in
                let lead := firstn i0 rows in let trail := skipn (S il) rows in
                let x0 := fst (nth_pt rows i0) in let xl := fst (nth_pt rows il) in
                let xfirst := fst (nth_pt rows 0) in let xlast := fst (last rows (0, 0)) in
                let pxs := map fst pts in
                if negb (flat_to disp x0 lead && flat_to disp xl trail
                         && qleb (Qabs (qmaxl pxs x0 - qmaxl xs x0)) disp && qleb (Qabs (qminl pxs x0 - qminl xs x0)) disp)
                then (if flat_to (radd tol (rmul np_isclose_rtol (Qabs xfirst))) xfirst lead
                         && flat_to (radd tol (rmul np_isclose_rtol (Qabs xlast))) xlast trail then 7%Z else 3%Z)
                else
                  let rg := recover_gaps rows idx pts in
                  if negb (Z.eqb rg 0) then rg
                  else if gcc then classes_ok vtol util pref rows idx segs None else 0%Z
            end
        end
  end.

(* two adjacent rows that round to the same displayed point make the greedy matching ambiguous for the labels *)
Fixpoint dup_rows (dp : nat) (rows : list pt) : bool :=
  match rows with
  | a :: ((b :: _) as r) => (pt_eqb (round_pt dp a) (round_pt dp b)) || dup_rows dp r
  | _ => false
  end.

(* one curve of one graph:  [0] agree, [1] fragile, [2;k] model <> implementation at segment k, [3;c] P13 false *)
(* the property speaks of display rounding 0.01: the predicate uses ITS OWN two decimals, the model uses the source constant *)
Definition display_dp : nat := 2%nat.
Definition judge_curve (gcc util : bool) (loc : sloc) (pref : option sloc) (col : column) (segs : list seg) : list Z :=
  let dp := graph_DECIMAL_PLACES in
  let m := raw_curve tol gcc_vertical_tol gcc util loc pref col in
  if negb (res_shape_eqb m (raw_curve (tol_hi tol) gcc_vertical_tol gcc util loc pref col)
           && res_shape_eqb m (raw_curve (tol_lo tol) gcc_vertical_tol gcc util loc pref col))
  then [V_FRAGILE]
  else
    let code := P13_code display_dp gcc_vertical_tol gcc util loc pref col segs in
    if negb (Z.eqb code 0) then
      (if (Z.eqb code 5 || Z.eqb code 6) && match col with Col rows => dup_rows display_dp rows | AllNaN => false end
       then [V_FRAGILE] else [V_PROP_FALSE; code])
    else match m with
         | Err e => [V_MISMATCH; (- errcode e)%Z]
         | Ok ms => let k := segs_match dp ms segs 0 in if Z.eqb k (-1) then [V_AGREE] else [V_MISMATCH; k]
         end.
Definition judge_curve_err (gcc util : bool) (loc : sloc) (pref : option sloc) (col : column) (err : Z) : list Z :=
  match raw_curve tol gcc_vertical_tol gcc util loc pref col with
  | Err e => if Z.eqb (errcode e) err then [V_PROP_FALSE; 10%Z] else [V_MISMATCH; (- errcode e)%Z]   (* see judge_clean_err *)
  | Ok _ => [V_MISMATCH; 0%Z]
  end.

(* extents: |a - b| <= display rounding + table rounding (values compared are a displayed point and a target / duty) *)
Definition ext_tol : Q := half_disp + (1 # 10000) + tie_slack.
Definition ext_eq (a b : Q) : bool := qleb (Qabs (a - b)) ext_tol.
(* checks = list of (emitted value, expected value); returns the 1-based index of the first failing check *)
Fixpoint ext_first_bad (k : Z) (l : list (Q * Q)) : Z :=
  match l with
  | [] => 0%Z
  | (a, b) :: r => if ext_eq a b then ext_first_bad (k + 1) r else k
  end.
Definition judge_extents (l : list (Q * Q)) : list Z :=
  let k := ext_first_bad 1 l in if Z.eqb k 0 then [V_AGREE] else [V_PROP_FALSE; k].

(* ================================================================ graph sets per target record (C13) *)
From Coq Require String.
(* graph types of the graph set of a record, by the record's kind (TargetType value); names come from the generated enums *)
Definition doc_types (ident : String.string) : option (list String.string) :=
  if String.eqb ident (tt_value tt_DI) then Some (map gt_value [gt_CC; gt_SCC; gt_BCC; gt_GCC; gt_GCC_HP])
  else if String.eqb ident (tt_value tt_TS) then Some (map gt_value [gt_TSP; gt_SUGCC])
  else if String.eqb ident (tt_value tt_TZ) then Some []
  else None.
Fixpoint str_in (s : String.string) (l : list String.string) : bool :=
  match l with [] => false | a :: r => String.eqb s a || str_in s r end.
Fixpoint str_nodup (l : list String.string) : bool :=
  match l with [] => true | a :: r => negb (str_in a r) && str_nodup r end.
Fixpoint strs_eqb (a b : list String.string) : bool :=
  match a, b with [], [] => true | x :: a', y :: b' => String.eqb x y && strs_eqb a' b' | _, _ => false end.
Fixpoint str_lookup (k : String.string) (l : list (String.string * String.string)) : option String.string :=
  match l with [] => None | (a, v) :: r => if String.eqb k a then Some v else str_lookup k r end.
(* records: (record name, record kind) of the report; sets: (dictionary key, graph-set name, graph types in order)
   codes: 1 keys <> record names (missing, foreign or duplicated), 2 a set is not named after its key, 3 wrong graph types *)
Definition sets_code (records : list (String.string * String.string)) (sets : list (String.string * String.string * list String.string)) : Z :=
  let rn := map fst records in
  let keys := map (fun s : String.string * String.string * list String.string => fst (fst s)) sets in
  if negb (str_nodup rn && str_nodup keys && forallb (fun r => str_in r keys) rn && forallb (fun k => str_in k rn) keys) then 1%Z
  else if negb (forallb (fun s : String.string * String.string * list String.string => String.eqb (fst (fst s)) (snd (fst s))) sets) then 2%Z
  else if negb (forallb (fun s : String.string * String.string * list String.string =>
                           match str_lookup (fst (fst s)) records with
                           | Some ident => match doc_types ident with Some l => strs_eqb l (snd s) | None => false end
                           | None => false
                           end) sets) then 3%Z
  else 0%Z.
Definition judge_sets (records : list (String.string * String.string)) (sets : list (String.string * String.string * list String.string)) : list Z :=
  let c := sets_code records sets in if Z.eqb c 0 then [V_AGREE] else [V_PROP_FALSE; c].

(* ================================================================ specification-level definitions *)
(* the curve a table column denotes: piecewise-linear function through rows (abscissa, ordinate) whose abscissas are
   strictly descending (a problem table: abscissa = temperature), end values outside the range *)
Definition interp2 (a b : pt) (x : Q) : Q := snd b + (x - fst b) / (fst a - fst b) * (snd a - snd b).
Fixpoint pl_go (prev : pt) (rest : list pt) (x : Q) : Q :=
  match rest with
  | [] => snd prev
  | r :: rs => if Qle_bool (fst r) x then interp2 prev r x else pl_go r rs x
  end.
Definition plr (rows : list pt) (x : Q) : Q :=
  match rows with
  | [] => 0
  | r0 :: rs => if Qle_bool (fst r0) x then snd r0 else pl_go r0 rs x
  end.
Fixpoint desc_from (prev : Q) (rest : list pt) : Prop :=
  match rest with [] => True | r :: rs => fst r < prev /\ desc_from (fst r) rs end.
Definition strictly_desc (rows : list pt) : Prop :=
  match rows with [] => True | r0 :: rs => desc_from (fst r0) rs end.

(* segments glued back together: consecutive segments share their end point *)
Definition glue (l : list (list pt)) : list pt :=
  match l with [] => [] | s :: r => s ++ List.concat (map (@tl pt) r) end.
