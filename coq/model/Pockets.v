(* Executable model of the pocket-free grand composite curve
     OpenPinch/analysis/gcc_manipulation.py : get_GCC_without_pockets,
       _remove_pockets_on_one_side_of_the_pinch, _pocket_exit_index, get_additional_GCCs (derived columns),
       get_seperated_gcc_heat_load_profiles (+ utils.miscellaneous.delta_vals / delta_with_zero_at_start /
       linear_interpolation)
     OpenPinch/classes/problem_table.py : pinch_idx, insert_temperature_interval (one temperature, the three
       columns T / H_net / H_net_np that the sweep reads and writes)
   as the code IS in /repo, index bookkeeping included (section "index model").
   A second, functional form of the sweep (section "zipper form") is what the proofs reason about; proofs/PocketsSim.v
   shows that on Robust inputs both forms compute the same table.
   Independent specification: running minimum of the piecewise-linear input curve (section "specification").
   No proofs in this file. *)
From OP Require Import gen.Consts model.Base.
Local Open Scope Q_scope.

(* ------------------------------------------------------------------------------------------------ rows *)
Record row := mkR { rT : Q; rH : Q; rNP : Q }.
Definition r0 : row := mkR 0 0 0.
Definition Tat (t : list row) (i : nat) : Q := rT (nth i t r0).
Definition Hat (t : list row) (i : nat) : Q := rH (nth i t r0).
Definition with_np (r : row) (v : Q) : row := mkR (rT r) (rH r) v.
Definition init_rows (Ts Hs : list Q) : list row := map (fun p => mkR (fst p) (snd p) (snd p)) (combine Ts Hs).

(* ------------------------------------------------------------------------------------ ProblemTable.pinch_idx *)
Definition isz (tq h : Q) : bool := qltb (Qabs h) tq.
Fixpoint first_idx (f : Q -> bool) (l : list Q) (i : nat) : option nat :=
  match l with [] => None | x :: r => if f x then Some i else first_idx f r (S i) end.
Definition last_idx (f : Q -> bool) (l : list Q) : option nat :=
  match first_idx f (rev l) 0 with None => None | Some k => Some (List.length l - 1 - k)%nat end.
Definition pinch_idx (tq : Q) (h : list Q) : nat * nat * bool :=
  let n := List.length h in
  let has := existsb (isz tq) h in let all := forallb (isz tq) h in
  let '(rh, rc) :=
    if has && negb all then
      let fz := match first_idx (isz tq) h 0 with Some k => k | None => O end in
      let rh := if (0 <? fz)%nat then fz
                else match first_idx (fun x => negb (isz tq x)) h 0 with Some k => (k - 1)%nat | None => (n - 1)%nat end in
      let lz := match last_idx (isz tq) h with Some k => k | None => O end in
      let rc := if (lz <? n - 1)%nat then lz
                else match first_idx (fun x => negb (isz tq x)) (rev h) 0 with Some k => (n - k)%nat | None => O end in
      (rh, rc)
    else ((n - 1)%nat, O) in
  (rh, rc, (rh <=? rc)%nat).

(* ---------------------------------------------------------------- utils.miscellaneous.linear_interpolation *)
(* m = (y1-y2)/(x1-x2); c = y1 - m*x1; yi = m*xi + c.  The ValueError for x1 == x2 is unreachable from the sweep
   (proofs/PocketsFuel.v : exit_up_gap / exit_dn_gap). *)
Definition lin_interp (xi x1 x2 y1 y2 : Q) : Q :=
  let m := rdiv (rsub y1 y2) (rsub x1 x2) in
  let c := rsub y1 (rmul m x1) in
  radd (rmul m xi) c.

(* ------------------------------------------------ ProblemTable.insert_temperature_interval, one temperature *)
(* _interpolate_heat_columns for the two interpolation columns present (H_net, H_net_np) *)
Definition interp_row (tq : Q) (top bot : row) (t0 : Q) : row :=
  let denom := rsub (rT top) (rT bot) in
  if qleb (Qabs denom) tq then mkR t0 (rH bot) (rNP bot)
  else
    let ratio := rdiv (rsub t0 (rT bot)) denom in
    mkR t0 (radd (rH bot) (rmul ratio (rsub (rH top) (rH bot))))
           (radd (rNP bot) (rmul ratio (rsub (rNP top) (rNP bot)))).
(* _Ts_needing_insertion: min |T_col - T0| > tol *)
Definition far_from (tq t0 : Q) (t : list row) : bool := forallb (fun r => qltb tq (Qabs (rT r - t0))) t.
(* position by temperature (descending table): above the first row = "top" block (copies the neighbour's
   interpolation columns), below the last = "bottom" block (same), otherwise a middle block *)
Fixpoint ins_sorted (tq t0 : Q) (prev : option row) (l : list row) : list row :=
  match l with
  | [] => match prev with Some p => [mkR t0 (rH p) (rNP p)] | None => [] end
  | r :: rs =>
      if qltb (rT r) t0
      then match prev with
           | None => mkR t0 (rH r) (rNP r) :: l
           | Some p => interp_row tq p r t0 :: l
           end
      else r :: ins_sorted tq t0 (Some r) rs
  end.
Definition insert_T (tq : Q) (t : list row) (t0 : Q) : list row * nat :=
  if far_from tq t0 t then (ins_sorted tq t0 None t, 1%nat) else (t, 0%nat).

(* H_NP_vals[j] = v for j in range(a, b) *)
Fixpoint set_np (t : list row) (a b : nat) (v : Q) : list row :=
  match t with
  | [] => []
  | r :: rs =>
      match b with
      | O => t
      | S b' => match a with
                | O => with_np r v :: set_np rs O b' v
                | S a' => r :: set_np rs a' b' v
                end
      end
  end.

(* ============================================================================== index model (code as it is) *)
(* _pocket_exit_index, sgn > 0:  for i in range(i0+1, p+1): if H[i0] >= H[i] + tol: return i-1;  return p
   hs = H values from index i on *)
Fixpoint scan_up (tq L : Q) (hs : list Q) (i p : nat) : nat :=
  match hs with
  | [] => p
  | h :: r => if (p <? i)%nat then p else if qleb (h + tq) L then (i - 1)%nat else scan_up tq L r (S i) p
  end.
Definition exit_up (tq : Q) (t : list row) (i0 p : nat) : nat :=
  scan_up tq (Hat t i0) (skipn (S i0) (map rH t)) (S i0) p.
(* sgn < 0:  for i in range(i0-1, p-1, -1): if H[i0] >= H[i] + tol: return i+1;  return p
   hs = H values at indices k-1, k-2, ... *)
Fixpoint scan_dn (tq L : Q) (hs : list Q) (k p : nat) : nat :=
  match hs with
  | [] => p
  | h :: r => if (k <=? p)%nat then p else if qleb (h + tq) L then k else scan_dn tq L r (k - 1)%nat p
  end.
Definition exit_dn (tq : Q) (t : list row) (i0 p : nat) : nat :=
  scan_dn tq (Hat t i0) (rev (firstn i0 (map rH t))) i0 p.

(* the while loop of _remove_pockets_on_one_side_of_the_pinch, is_above_pinch = True.
   State: table, i, hot_pinch_loc, cold_pinch_loc, pinch_loc.  One unit of fuel per loop iteration. *)
Fixpoint loop_up (tq : Q) (fuel : nat) (t : list row) (i hp cp p : nat) : result (list row * nat * nat) :=
  match fuel with
  | O => Err EFuel
  | S f =>
      if (p <=? i)%nat then Ok (t, hp, cp)
      else if qltb (Hat t i) (Hat t (S i) - tq) then
        let i0 := i in
        let e := exit_up tq t i0 p in
        let '(t1, n) := if (e =? p)%nat then (t, O)
                        else insert_T tq t (lin_interp (Hat t i0) (Hat t e) (Hat t (S e)) (Tat t e) (Tat t (S e))) in
        let '(hp1, cp1, p1) := if (0 <? n)%nat then ((hp + n)%nat, (cp + n)%nat, (p + n)%nat) else (hp, cp, p) in
        let t2 := set_np t1 (S i0) (S e) (Hat t1 i0) in
        loop_up tq f t2 (e + n)%nat hp1 cp1 p1
      else loop_up tq f t (S i) hp cp p
  end.
(* is_above_pinch = False: i runs downwards, pinch indices do not move, i_0 is shifted instead *)
Fixpoint loop_dn (tq : Q) (fuel : nat) (t : list row) (i hp cp p : nat) : result (list row * nat * nat) :=
  match fuel with
  | O => Err EFuel
  | S f =>
      if (i <=? p)%nat then Ok (t, hp, cp)
      else if qltb (Hat t i) (Hat t (i - 1) - tq) then
        let i0 := i in
        let e := exit_dn tq t i0 p in
        let '(t1, n) := if (e =? p)%nat then (t, O)
                        else insert_T tq t (lin_interp (Hat t i0) (Hat t e) (Hat t (e - 1)) (Tat t e) (Tat t (e - 1))) in
        let i0' := if (0 <? n)%nat then (i0 + n)%nat else i0 in
        (* when nothing was inserted although the pocket closes before the pinch (closing point within tol of an existing row) the exit
           row itself is flattened too (repair of D56) *)
        let a := if (0 <? n)%nat || (e =? p)%nat then S e else e in
        let t2 := set_np t1 a i0' (Hat t1 i0') in
        loop_dn tq f t2 (e - n)%nat hp cp p
      else loop_dn tq f t (i - 1)%nat hp cp p
  end.

(* fuel handed to the loops: the distance to the pinch strictly decreases in every iteration (PocketsFuel.v) *)
Definition remove_up (tq : Q) (t : list row) (hp cp : nat) : result (list row * nat * nat) :=
  if qltb (Hat t 0) tq then Ok (t, hp, cp) else loop_up tq (S hp) t 0 hp cp hp.
Definition remove_dn (tq : Q) (t : list row) (hp cp : nat) : result (list row * nat * nat) :=
  let i := (List.length t - 1)%nat in
  if qltb (Hat t i) tq then Ok (t, hp, cp) else loop_dn tq (S (i - cp)) t i hp cp cp.

(* get_GCC_without_pockets on a table holding T and H_net *)
Definition gcc_np (tq : Q) (Ts Hs : list Q) : result (list row) :=
  let t0 := init_rows Ts Hs in
  match t0 with
  | [] => Err EIndex
  | _ =>
    let '(hp, cp, valid) := pinch_idx tq (map rH t0) in
    if negb valid then Ok t0
    else
      let t1 := if (hp + 1 <? cp)%nat then set_np t0 (hp + 1) cp 0 else t0 in
      bind (remove_up tq t1 hp cp) (fun s1 => let '(t2, hp2, cp2) := s1 in
      bind (remove_dn tq t2 hp2 cp2) (fun s2 => let '(t3, _, _) := s2 in Ok t3))
  end.

(* ------------------------------------------------ get_seperated_gcc_heat_load_profiles (is_process_stream) *)
(* delta_with_zero_at_start: [0] ++ (x[k-1] - x[k], zeroed when |.| <= tol) *)
Fixpoint deltas (tq : Q) (prev : Q) (l : list Q) : list Q :=
  match l with
  | [] => []
  | x :: r => (let d := rsub prev x in if qleb (Qabs d) tq then 0 else d) :: deltas tq x r
  end.
Definition delta0 (tq : Q) (l : list Q) : list Q := match l with [] => [] | x :: r => 0 :: deltas tq x r end.
Fixpoint cumsum (acc : Q) (l : list Q) : list Q :=
  match l with [] => [] | x :: r => let a := radd acc x in a :: cumsum a r end.
(* hot_profile = -cumsum(-dh * is_hot), is_hot = dh <= 0;  cold = cumsum(-dh * is_cold) - (its last value) *)
Definition profiles (tq : Q) (np : list Q) : list Q * list Q :=
  let dh := delta0 tq np in
  let hot := map Qopp (cumsum 0 (map (fun d => if qleb d 0 then Qopp d else 0) dh)) in
  let c0 := cumsum 0 (map (fun d => if qleb d 0 then 0 else Qopp d) dh) in
  let hut := Qopp (last c0 0) in
  (map Qred hot, map (fun c => radd c hut) c0).

(* derived columns of get_additional_GCCs: H_net_pockets = H_net - H_net_np; H_net_actual = H_net_np;
   vertical GCC from the composite-curve columns (rowwise) *)
Definition pockets_col (t : list row) : list Q := map (fun r => rsub (rH r) (rNP r)) t.
Definition vertical_col (hcold hhot hnet : list Q) : list Q :=
  let hcc := hd 0 hhot in let cu := last hnet 0 in
  map (fun p => let '(c, h) := p in if qltb h cu then rsub cu h else if qltb hcc c then rsub c hcc else 0) (combine hcold hhot).

(* ======================================================================================== zipper form *)
(* The same sweep written over (current row, rows still to visit in sweep order).  `mk prev next t0` builds the
   breakpoint row: interp_row prev next above the pinch, interp_row next prev below it. *)
Definition mk_up (tq : Q) (prev next : row) (t0 : Q) : row := interp_row tq prev next t0.
Definition mk_dn (tq : Q) (prev next : row) (t0 : Q) : row := interp_row tq next prev t0.

Fixpoint zpocket (tq : Q) (mk : row -> row -> Q -> row) (L : Q) (prev : row) (rest : list row)
  : list row * option (row * list row) :=
  match rest with
  | [] => ([], None)
  | r :: rs =>
      if qleb (rH r + tq) L then
        let t0 := lin_interp L (rH prev) (rH r) (rT prev) (rT r) in
        let ins := if qltb tq (Qabs (rT prev - t0)) && qltb tq (Qabs (rT r - t0)) then [mk prev r t0] else [] in
        (ins, Some (r, rs))
      else
        let '(out, k) := zpocket tq mk L r rs in (with_np r L :: out, k)
  end.
Fixpoint zsweep (tq : Q) (mk : row -> row -> Q -> row) (fuel : nat) (cur : row) (rest : list row) : list row :=
  match fuel with
  | O => rest
  | S f =>
      match rest with
      | [] => []
      | r :: rs =>
          if qltb (rH cur) (rH r - tq) then
            let '(out, k) := zpocket tq mk (rH cur) cur rest in
            match k with
            | None => out
            | Some (r', rs') => out ++ r' :: zsweep tq mk f r' rs'
            end
          else r :: zsweep tq mk f r rs
      end
  end.
(* whole table in zipper form: rows 0..hp swept from row 0 towards the hot pinch, rows cp..n-1 swept from the last
   row towards the cold pinch, rows strictly between the pinches set to 0.  When both pinches are one row it belongs
   to both sweeps; neither changes it. *)
Definition zside (tq : Q) (mk : row -> row -> Q -> row) (side : list row) : list row :=
  match side with
  | [] => []
  | c :: rest => if qltb (rH c) tq then side else c :: zsweep tq mk (List.length rest) c rest
  end.
Definition gcc_np_z (tq : Q) (Ts Hs : list Q) : list row :=
  let t0 := init_rows Ts Hs in
  let '(hp, cp, valid) := pinch_idx tq (map rH t0) in
  if negb valid then t0
  else
    let above := firstn (S hp) t0 in
    let mid := firstn (cp - S hp) (skipn (S hp) t0) in
    let below := skipn cp t0 in
    let dn := rev (zside tq (mk_dn tq) (rev below)) in
    zside tq (mk_up tq) above ++ map (fun r => with_np r 0) mid ++ (if (hp <? cp)%nat then dn else List.tl dn).

(* ======================================================================================= specification *)
(* the input curve as a function of temperature, and its running minimum towards either end *)
Definition gcc_at (Ts Hs : list Q) (x : Q) : Q := pl_desc Ts Hs x.
Definition vals_where (f : Q -> bool) (Ts Hs : list Q) : list Q :=
  map snd (filter (fun p => f (fst p)) (combine Ts Hs)).
Definition qmin_list (d : Q) (l : list Q) : Q := fold_right Qmin d l.
(* min over T' >= x of GCC(T'): the curve is piecewise linear, so the minimum over [x, T_top] is attained at x or at a row *)
Definition runmin_above (Ts Hs : list Q) (x : Q) : Q := qmin_list (gcc_at Ts Hs x) (vals_where (fun t => qleb x t) Ts Hs).
Definition runmin_below (Ts Hs : list Q) (x : Q) : Q := qmin_list (gcc_at Ts Hs x) (vals_where (fun t => qleb t x) Ts Hs).
Definition zero_Ts (tq : Q) (Ts Hs : list Q) : list Q := map fst (filter (fun p => isz tq (snd p)) (combine Ts Hs)).
(* pinch temperatures = hottest and coldest temperature at which the curve is zero *)
Definition spec_np (tq : Q) (Ts Hs : list Q) (x : Q) : Q :=
  match zero_Ts tq Ts Hs with
  | [] => gcc_at Ts Hs x                      (* no pinch: the code leaves the curve as it is *)
  | th :: zr =>
      let tc := last zr th in
      if qleb th x then runmin_above Ts Hs x
      else if qleb x tc then runmin_below Ts Hs x
      else 0
  end.

(* where a pocket closes strictly inside an interval (sweep order: prev row visited before next row).
   M = minimum of the rows visited so far; the interval prev -> next needs a breakpoint iff H prev > M > H next *)
Definition cross_at (M : Q) (prev next : Q * Q) : Q :=
  Qred (fst next + (M - snd next) / (snd prev - snd next) * (fst prev - fst next)).
Fixpoint bps_from (M : Q) (prev : Q * Q) (rest : list (Q * Q)) : list Q :=
  match rest with
  | [] => []
  | nx :: r =>
      (if qltb M (snd prev) && qltb (snd nx) M then [cross_at M prev nx] else [])
      ++ bps_from (Qmin M (snd nx)) nx r
  end.
Definition bps_sweep (rows : list (Q * Q)) : list Q :=
  match rows with [] => [] | a :: r => bps_from (snd a) a r end.
(* expected breakpoints, hottest first (for a non-negative curve nothing is found between the pinches: M = 0 there) *)
Definition expected_bps (tq : Q) (Ts Hs : list Q) : list Q :=
  match zero_Ts tq Ts Hs with
  | [] => []
  | _ => bps_sweep (combine Ts Hs) ++ rev (bps_sweep (rev (combine Ts Hs)))
  end.
(* merge of two descending lists *)
Fixpoint merge_desc (fuel : nat) (a b : list Q) : list Q :=
  match fuel with
  | O => a ++ b
  | S f => match a, b with
           | [], _ => b
           | _, [] => a
           | x :: a', y :: b' => if qleb y x then x :: merge_desc f a' b else y :: merge_desc f a b'
           end
  end.

(* --------------------------------------------------------------------------- Robust inputs (decidable) *)
(* no two enthalpy levels within tol unless equal; every level is 0 or > tol (in particular >= 0); temperatures
   strictly descending by more than tol; every temperature at which the curve crosses one of its own row levels
   strictly inside an interval is more than tol away from both ends of that interval *)
Definition sep (tq a b : Q) : bool := qeqb a b || qltb tq (Qabs (a - b)).
Fixpoint levels_ok (tq : Q) (hs : list Q) : bool :=
  match hs with [] => true | h :: r => forallb (sep tq h) r && levels_ok tq r end.
Definition zeros_ok (tq : Q) (hs : list Q) : bool := forallb (fun h => qeqb h 0 || qltb tq h) hs.
Fixpoint desc_gap (tq : Q) (ts : list Q) : bool :=
  match ts with a :: ((b :: _) as r) => qltb tq (a - b) && desc_gap tq r | _ => true end.
Definition cross_ok (tq L : Q) (a b : Q * Q) : bool :=   (* a = upper row (T, H), b = lower row *)
  (if qltb (snd b) L && qltb L (snd a)
   then let t0 := lin_interp L (snd a) (snd b) (fst a) (fst b) in qltb tq (fst a - t0) && qltb tq (t0 - fst b) else true)
  && (if qltb (snd a) L && qltb L (snd b)
      then let t0 := lin_interp L (snd b) (snd a) (fst b) (fst a) in qltb tq (fst a - t0) && qltb tq (t0 - fst b) else true).
Fixpoint crossings_ok (tq : Q) (Ls : list Q) (rows : list (Q * Q)) : bool :=
  match rows with
  | a :: ((b :: _) as r) => forallb (fun L => cross_ok tq L a b) Ls && crossings_ok tq Ls r
  | _ => true
  end.
Definition robust_b (tq : Q) (Ts Hs : list Q) : bool :=
  (List.length Ts =? List.length Hs)%nat && (0 <? List.length Ts)%nat
  && desc_gap tq Ts && zeros_ok tq Hs && levels_ok tq Hs && crossings_ok tq Hs (combine Ts Hs).
Definition has_pinch (tq : Q) (Hs : list Q) : bool := existsb (isz tq) Hs.

(* ============================================================= property predicate on observed outputs (P_b) *)
Fixpoint desc_b (l : list Q) : bool :=
  match l with a :: ((b :: _) as r) => qltb b a && desc_b r | _ => true end.
Fixpoint all_idx {A} (f : A -> bool) (l : list A) (k : Z) : Z :=   (* -1 when f holds everywhere, else first failing index *)
  match l with [] => (-1)%Z | x :: r => if f x then all_idx f r (k + 1)%Z else k end.
Fixpoint close_idx (eps : Q) (a b : list Q) (k : Z) : Z :=          (* -1 when equally long and close, else index *)
  match a, b with
  | [], [] => (-1)%Z
  | x :: a', y :: b' => if close eps x y then close_idx eps a' b' (k + 1)%Z else k
  | _, _ => k
  end.
Fixpoint midpoints (l : list Q) : list Q :=
  match l with a :: ((b :: _) as r) => Qred ((a + b) / 2) :: midpoints r | _ => [] end.
Fixpoint noninc_b (l : list Q) : bool :=
  match l with a :: ((b :: _) as r) => qleb b a && noninc_b r | _ => true end.

(* P_b: what the property says, evaluated on the OUTPUT columns (oT, oH, oNP, hot, cold) against the INPUT curve only.
   Returns 0 when true, otherwise the number of the first clause that fails:
   1 temperatures descending, same ends; 2 output rows = input rows + exactly the pocket-closing temperatures;
   3 H_net still on the input curve; 4 NP at a row is the running minimum; 5 NP at a midpoint is the running minimum;
   6 ends keep Qh and Qc; 7 load profiles monotone; 8 zero at the pinch side; 9 end at Qh / Qc *)
Definition P_np (tq eps : Q) (Ts Hs oT oH oNP : list Q) : Z :=
  let n := List.length oT in
  if negb ((List.length oH =? n)%nat && (List.length oNP =? n)%nat && desc_b oT
           && qeqb (hd 0 oT) (hd 0 Ts) && qeqb (last oT 0) (last Ts 0)) then 1%Z
  else if negb (Z.eqb (close_idx eps oT (merge_desc (List.length Ts + List.length Ts) Ts (expected_bps tq Ts Hs)) 0) (-1)) then 2%Z
  else if negb (Z.eqb (close_idx eps oH (map (gcc_at Ts Hs) oT) 0) (-1)) then 3%Z
  else if negb (Z.eqb (close_idx eps oNP (map (spec_np tq Ts Hs) oT) 0) (-1)) then 4%Z
  else if negb (Z.eqb (close_idx eps (midpoints oNP) (map (spec_np tq Ts Hs) (midpoints oT)) 0) (-1)) then 5%Z
  else if negb (close eps (hd 0 oNP) (hd 0 Hs) && close eps (last oNP 0) (last Hs 0)) then 6%Z
  else 0%Z.
Definition P_prof (tq eps : Q) (Hs hot cold : list Q) (n : nat) : Z :=
  if negb ((List.length hot =? n)%nat && (List.length cold =? n)%nat && noninc_b hot && noninc_b cold) then 7%Z
  else if negb (qeqb (hd 1 hot) 0 && qeqb (last cold 1) 0) then 8%Z
  else if has_pinch tq Hs && negb (close eps (hd 0 cold) (hd 0 Hs) && close eps (Qopp (last hot 0)) (last Hs 0)) then 9%Z
  else 0%Z.

(* for inputs that are not Robust (a level, or a crossing, within tol of another) only the rows are judged, with an
   absolute slack of 4 tol: a suppressed breakpoint or a sub-tol step moves the curve by at most that much there *)
Fixpoint rows_slack (slack eps : Q) (np sp : list Q) (k : Z) : Z :=
  match np, sp with
  | [], [] => (-1)%Z
  | x :: a, y :: b => if qleb (Qabs (x - y)) (slack + eps * qscale x y) then rows_slack slack eps a b (k + 1)%Z else k
  | _, _ => k
  end.
Definition P_rows_slack (tq eps : Q) (Ts Hs oT oNP : list Q) : Z :=
  if Z.eqb (rows_slack (4 * tq) eps oNP (map (spec_np tq Ts Hs) oT) 0) (-1) then 0%Z else 14%Z.

(* ====================================================================================== correspondence *)
Definition rows_close (eps : Q) (m : list row) (oT oH oNP : list Q) : Z :=
  let a := close_idx eps (map rT m) oT 0 in
  if negb (Z.eqb a (-1)) then a
  else let b := close_idx eps (map rH m) oH 0 in
       if negb (Z.eqb b (-1)) then (100 + b)%Z
       else let c := close_idx eps (map rNP m) oNP 0 in
            if negb (Z.eqb c (-1)) then (200 + c)%Z else (-1)%Z.
Definition same_rows (eps : Q) (a b : list row) : bool :=
  Z.eqb (rows_close eps a (map rT b) (map rH b) (map rNP b)) (-1).

(* optional derived columns of get_additional_GCCs: (input H_cold, input H_hot) and observed (pockets, vertical, actual) *)
Definition derived := option (list Q * list Q * (list Q * list Q * list Q)).

(* verdict of one case.  [1] fragile: the model at tol(1-1e-3), tol, tol(1+1e-3) does not agree with itself;
   [3; c] property clause c false on the implementation's output (Robust inputs: all clauses; other inputs: clause 14 =
   H_net_np at a row further than 4 tol from the running minimum; decided first);
   [2; k] model and implementation differ (k: 0.. T, 100.. H_net, 200.. H_net_np, 300.. hot, 400.. cold profile,
   500.. pockets, 600.. vertical, 700.. actual, 900 zipper form differs from index model on a Robust input,
   999 model raised);
   [0; r] agree (r = 1: input Robust at all three tolerances, property predicate evaluated and true). *)
Definition judge_np (Ts Hs oT oH oNP hot cold : list Q) (d : derived) : list Z :=
  let lo := rmul tol (999 # 1000) in let hi := rmul tol (1001 # 1000) in
  match gcc_np tol Ts Hs, gcc_np lo Ts Hs, gcc_np hi Ts Hs with
  | Ok m, Ok m1, Ok m2 =>
      let np := map rNP m in
      let '(mh, mc) := profiles tol np in
      let '(mh1, mc1) := profiles lo (map rNP m1) in
      let '(mh2, mc2) := profiles hi (map rNP m2) in
      (* exact comparison: away from a tolerance tie the three runs take the same decisions and are identical *)
      if negb (same_rows 0 m m1 && same_rows 0 m m2
               && Z.eqb (close_idx 0 mh mh1 0) (-1) && Z.eqb (close_idx 0 mh mh2 0) (-1)
               && Z.eqb (close_idx 0 mc mc1 0) (-1) && Z.eqb (close_idx 0 mc mc2 0) (-1)) then [V_FRAGILE]
      else
        let rb := robust_b tol Ts Hs && robust_b lo Ts Hs && robust_b hi Ts Hs in
        let p1 := if rb then P_np tol eps9 Ts Hs oT oH oNP else P_rows_slack tol eps9 Ts Hs oT oNP in
        let p2 := if rb then P_prof tol eps9 Hs hot cold (List.length oT) else 0%Z in
        if negb (Z.eqb p1 0) then [V_PROP_FALSE; p1]
        else if negb (Z.eqb p2 0) then [V_PROP_FALSE; p2]
        else
        let rc := rows_close eps9 m oT oH oNP in
        if negb (Z.eqb rc (-1)) then [V_MISMATCH; rc]
        else let a := close_idx eps9 mh hot 0 in
        if negb (Z.eqb a (-1)) then [V_MISMATCH; 300 + a]%Z
        else let b := close_idx eps9 mc cold 0 in
        if negb (Z.eqb b (-1)) then [V_MISMATCH; 400 + b]%Z
        else
          let dv := match d with
                    | None => (-1)%Z
                    | Some (hcold, hhot, (opk, ov, oa)) =>
                        let c1 := close_idx eps9 (pockets_col m) opk 0 in
                        if negb (Z.eqb c1 (-1)) then (500 + c1)%Z
                        else let hc := map (pl_desc Ts hcold) (map rT m) in
                             let hh := map (pl_desc Ts hhot) (map rT m) in
                             let c2 := close_idx eps9 (vertical_col hc hh (map rH m)) ov 0 in
                             if negb (Z.eqb c2 (-1)) then (600 + c2)%Z
                             else let c3 := close_idx eps9 np oa 0 in
                                  if negb (Z.eqb c3 (-1)) then (700 + c3)%Z else (-1)%Z
                    end in
          if negb (Z.eqb dv (-1)) then [V_MISMATCH; dv]
          else if negb rb then [V_AGREE; 0%Z]
          else if negb (same_rows 0 m (gcc_np_z tol Ts Hs)) then [V_MISMATCH; 900%Z]
          else [V_AGREE; 1%Z]
  | _, _, _ => [V_MISMATCH; 999%Z]
  end.

(* the same predicate on the model's own output (used by the harness to cross-check the generators and by props/C07.v
   for non-vacuity examples) *)
Definition model_ok (Ts Hs : list Q) : bool :=
  match gcc_np tol Ts Hs with
  | Ok m => let '(h, c) := profiles tol (map rNP m) in
            Z.eqb (P_np tol 0 Ts Hs (map rT m) (map rH m) (map rNP m)) 0 && Z.eqb (P_prof tol 0 Hs h c (List.length m)) 0
  | Err _ => false
  end.
