(* Executable model of OpenPinch/analysis/utility_targeting.py (all of it), of the utility cascade
   `get_utility_heat_cascade` (problem_table_analysis.py), of `ProblemTable.pinch_idx`, of the
   process variant of `get_seperated_gcc_heat_load_profiles`, and of the default-utility logic of
   data_preparation.py (`_find_extreme_process_temperatures`, `_complete_utility_data`,
   `_add_default_utilities`, `_create_default_utility`, `_create_utilities_list` + the iteration
   order of StreamCollection).  Mirrors the code AS IT IS in /repo; tied to it by the C03/C04
   correspondence suites.  Also: the independent specification (demand at a level, closed-form
   duties, step form of the utility profile), the boolean property predicates and the judges.
   Definitions only -- proofs are in proofs/Utility*.v. *)
From OP Require Import gen.Consts model.Base model.Stream.
Local Open Scope Q_scope.

(* ------------------------------------------------------------------------------------------ *)
(* small list helpers                                                                          *)
(* ------------------------------------------------------------------------------------------ *)
Fixpoint maxl (x : Q) (l : list Q) : Q := match l with [] => x | y :: r => Qmax x (maxl y r) end.
Fixpoint minl (x : Q) (l : list Q) : Q := match l with [] => x | y :: r => Qmin x (minl y r) end.
Definition lmax (d : Q) (l : list Q) : Q := match l with [] => d | x :: r => maxl x r end.
Definition lmin (d : Q) (l : list Q) : Q := match l with [] => d | x :: r => minl x r end.
Definition lastq (l : list Q) : Q := List.last l 0.
Definition headq (l : list Q) : Q := List.hd 0 l.
Fixpoint first_idx (b : bool) (m : list bool) : option nat :=
  match m with
  | [] => None
  | x :: r => if Bool.eqb x b then Some 0%nat else option_map S (first_idx b r)
  end.
Definition zeros {A} (l : list A) : list Q := map (fun _ => 0) l.

(* ------------------------------------------------------------------------------------------ *)
(* ProblemTable.pinch_idx  (tolv = tol)                                                        *)
(* ------------------------------------------------------------------------------------------ *)
Definition zmask (tolv : Q) (h : list Q) : list bool := map (fun x => qltb (Qabs x) tolv) h.

Definition pinch_idx (tolv : Q) (h : list Q) : nat * nat * bool :=
  let m := zmask tolv h in
  let n := List.length m in
  match first_idx true m, first_idx false m, first_idx true (rev m), first_idx false (rev m) with
  | Some fz, Some fnz, Some lzr, Some lnzr =>
      let row_h := if (0 <? fz)%nat then fz else (fnz - 1)%nat in
      let last_zero := (n - 1 - lzr)%nat in
      let row_c := if (last_zero <? n - 1)%nat then last_zero else (n - lnzr)%nat in
      (row_h, row_c, (row_h <=? row_c)%nat)
  | _, _, _, _ => ((n - 1)%nat, 0%nat, (n - 1 <=? 0)%nat)
  end.

(* ------------------------------------------------------------------------------------------ *)
(* get_seperated_gcc_heat_load_profiles(H, is_process_stream=True)                             *)
(*   dh_0 = 0, dh_i = H[i-1]-H[i];  hot rows: dh <= 0                                          *)
(*   H_hot_net[i]  = sum_{j<=i, dh_j<=0} dh_j          H_cold_net[i] = sum_{j>i, dh_j>0} dh_j   *)
(* ------------------------------------------------------------------------------------------ *)
Fixpoint deltas (prev : Q) (h : list Q) : list Q :=
  match h with [] => [] | x :: r => rsub prev x :: deltas x r end.
Definition dh_of (h : list Q) : list Q := match h with [] => [] | x :: r => 0 :: deltas x r end.
Fixpoint cumsum (acc : Q) (l : list Q) : list Q :=
  match l with [] => [] | x :: r => let a := radd acc x in a :: cumsum a r end.
Definition sep_hot (h : list Q) : list Q :=
  cumsum 0 (map (fun d => if qleb d 0 then d else 0) (dh_of h)).
Definition sep_cold (h : list Q) : list Q :=
  let c := cumsum 0 (map (fun d => if qleb d 0 then 0 else d) (dh_of h)) in
  let tot := lastq c in map (fun x => rsub tot x) c.

(* ------------------------------------------------------------------------------------------ *)
(* _maximise_utility_duty on normalised intervals.                                             *)
(* An interval of the segment is (ia, ib, hadj, hcur): ia = coordinate of the end the SUPPLY    *)
(* temperature must reach, ib = coordinate of the end the TARGET temperature is compared with,  *)
(* in the coordinate x = T for hot utilities and x = -T for cold utilities, so that in both     *)
(* cases  dt_sup = s - ia,  dt_tar = t - ib  with (s, t) the utility's supply/target coordinate *)
(* (hot: Ts, Tt;  cold: -Ts, -Tt).  hadj/hcur = adjacent_H / current_H.                         *)
(* ------------------------------------------------------------------------------------------ *)
Record iv := mkIv { ia : Q; ib : Q; hadj : Q; hcur : Q }.

Fixpoint ivs_hot (T H : list Q) : list iv :=
  match T, H with
  | t0 :: ((t1 :: _) as Tr), h0 :: ((h1 :: _) as Hr) => mkIv t0 t1 h0 h1 :: ivs_hot Tr Hr
  | _, _ => []
  end.
Fixpoint ivs_cold (T H : list Q) : list iv :=
  match T, H with
  | t0 :: ((t1 :: _) as Tr), h0 :: ((h1 :: _) as Hr) => mkIv (- t1) (- t0) h1 h0 :: ivs_cold Tr Hr
  | _, _ => []
  end.

Definition qpot (qa : Q) (v : iv) : Q := rsub (hadj v) qa.
Definition dtar (t : Q) (v : iv) : Q := rsub t (ib v).
Definition dsup (s : Q) (v : iv) : Q := rsub s (ia v).
Definition changing (v : iv) : bool := negb (qeqb (hadj v) (hcur v)).
Definition reachv (tolv s : Q) (v : iv) : bool := changing v && qleb (- tolv) (dsup s v).
Definition valid (tolv s qa : Q) (v : iv) : bool := reachv tolv s v && qltb tolv (qpot qa v).

(* largest enthalpy reachable from supply coordinate s (0 when no changing interval is reachable) *)
Definition pgen (tolv : Q) (ivs : list iv) (s : Q) : Q :=
  fold_right (fun v m => Qmax (hadj v) m) 0 (filter (reachv tolv s) ivs).

(* slope-limited bound of one valid interval: None = +inf *)
Definition qtt_of (tolv s t qa : Q) (v : iv) : option Q :=
  if qltb tolv (- dtar t v) then Some (rmul (rdiv (qpot qa v) (- dtar t v)) (Qabs (t - s))) else None.
Fixpoint omin (l : list (option Q)) : option Q :=
  match l with
  | [] => None
  | None :: r => omin r
  | Some x :: r => match omin r with None => Some x | Some y => Some (Qmin x y) end
  end.

Definition max_duty (tolv : Q) (ivs : list iv) (s t qa : Q) : Q :=
  match filter (valid tolv s qa) ivs with
  | [] => 0
  | v0 :: vr =>
      if qltb (maxl (dtar t v0) (map (dtar t) vr)) 0 then 0
      else let qts := maxl (qpot qa v0) (map (qpot qa) vr) in
           match omin (map (qtt_of tolv s t qa) (v0 :: vr)) with
           | None => qts
           | Some m => Qmin qts m
           end
  end.

(* ------------------------------------------------------------------------------------------ *)
(* _assign_utility: the loop over utilities (already in iteration order, normalised (s,t))      *)
(* ------------------------------------------------------------------------------------------ *)
Record ut := mkU { us : Q; utg : Q }.

Fixpoint assign_loop (tolv : Q) (ivs : list iv) (limit : Q) (l : list ut) (qa : Q) : list Q :=
  match l with
  | [] => []
  | u :: r =>
      let q := max_duty tolv ivs (us u) (utg u) qa in
      let set := qltb tolv q in
      let qa' := if set then radd qa q else qa in
      (if set then q else 0) ::
      (if qltb (Qabs (rsub limit qa')) tolv then zeros r else assign_loop tolv ivs limit r qa')
  end.

(* utilities as the targeting sees them: shifted bounds of the Stream, collection order          *)
Record ustar := mkUS { u_tmins : Q; u_tmaxs : Q; u_span : Q }.   (* t_min_star, t_max_star, |t_supply - t_target| *)

Definition assign_hot (tolv : Q) (T H : list Q) (pinch_row : nat) (l : list ustar) : list Q :=
  let Ts := firstn (S pinch_row) T in
  let Hs := firstn (S pinch_row) H in
  rev (assign_loop tolv (ivs_hot Ts Hs) (headq Hs)
                   (map (fun u => mkU (u_tmaxs u) (u_tmins u)) (rev l)) 0).
Definition assign_cold (tolv : Q) (T H : list Q) (pinch_row : nat) (l : list ustar) : list Q :=
  let k := Nat.max (pinch_row - 1) 0 in
  let Ts := skipn k T in
  let Hs := skipn k H in
  assign_loop tolv (ivs_cold Ts Hs) (lastq Hs)
              (map (fun u => mkU (- u_tmins u) (- u_tmaxs u)) l) 0.

(* _target_utility: sign flip of the profile, the |H| > tol entry tests *)
Definition flip (tolv : Q) (H : list Q) : list Q :=
  if qltb (lmin 0 H) (- tolv) then map Qopp H else H.
Definition target_hot (tolv : Q) (T H : list Q) (row : nat) (l : list ustar) : list Q :=
  match l with
  | [] => []
  | _ => let H' := flip tolv H in
         if qltb tolv (Qabs (headq H')) then assign_hot tolv T H' row l else zeros l
  end.
Definition target_cold (tolv : Q) (T H : list Q) (row : nat) (l : list ustar) : list Q :=
  match l with
  | [] => []
  | _ => let H' := flip tolv H in
         if qltb tolv (Qabs (lastq H')) then assign_cold tolv T H' row l else zeros l
  end.

(* get_utility_targets(is_direct_integration=True), the duties: pinch rows from H_net_actual,
   hot utilities against H_cold_net, cold utilities against H_hot_net *)
Definition di_duties (tolv : Q) (T HA Hhotnet Hcoldnet : list Q) (hus cus : list ustar) : list Q * list Q :=
  let '(rh, rc, _) := pinch_idx tolv HA in
  (target_hot tolv T Hcoldnet rh hus, target_cold tolv T Hhotnet rc cus).

(* ------------------------------------------------------------------------------------------ *)
(* get_utility_heat_cascade: problem table of the utilities on the grid T, H_NET_UT = max - h    *)
(* ------------------------------------------------------------------------------------------ *)
Definition cp_of (u : ustar) (q : Q) : Q := if qltb 0 (u_span u) then rdiv q (u_span u) else 0.
Definition active (lower upper : Q) (u : ustar) : bool :=
  qltb (radd lower act_window) (u_tmaxs u) && qltb (u_tmins u) (rsub upper act_window).
Definition cp_sum (lower upper : Q) (l : list (ustar * Q)) : Q :=
  qsum (map (fun p => if active lower upper (fst p) then cp_of (fst p) (snd p) else 0) l).
Fixpoint ut_raw (acc : Q) (T : list Q) (hot cold : list (ustar * Q)) : list Q :=
  match T with
  | up :: ((lo :: _) as Tr) =>
      let a := rsub acc (rmul (rsub up lo) (rsub (cp_sum lo up cold) (cp_sum lo up hot))) in
      a :: ut_raw a Tr hot cold
  | _ => []
  end.
Definition hut_model (T : list Q) (hus cus : list ustar) (dh dc : list Q) : list Q :=
  match T with
  | [] => []
  | _ => let raw := 0 :: ut_raw 0 T (combine hus dh) (combine cus dc) in
         let m := lmax 0 raw in map (fun x => rsub m x) raw
  end.

(* ------------------------------------------------------------------------------------------ *)
(* default utilities (data_preparation.py)                                                      *)
(* ------------------------------------------------------------------------------------------ *)
Inductive utype : Set := UHot | UCold | UBoth.
Record uin := mkUin { ui_id : nat; ui_type : utype; ui_ts : Q; ui_tt : option Q; ui_dt : option Q; ui_active : bool }.
Record ucomp := mkUc { uc_id : nat; uc_type : utype; uc_ts : Q; uc_tt : Q; uc_dt : Q; uc_active : bool }.
Definition BIG : Q := 1000000000.
Definition ID_DEFAULT_HU : nat := 1000.
Definition ID_DEFAULT_CU : nat := 1001.

(* streams of the master zone: (t_supply, t_target, dt_cont, heat_flow) -> model/Stream.v *)
Definition pstream := (Q * Q * Q * Q)%type.
Definition mk_ps (p : pstream) : stream := let '(a, b, c, d) := p in mk_stream a b c d 1 0.
Definition extremes (ss : list pstream) : Q * Q :=
  fold_left (fun acc p =>
               let s := mk_ps p in
               let '(hu, cu) := acc in
               if cold s then ((if qltb hu (tmaxs s) then tmaxs s else hu), cu)
               else (hu, (if qltb (tmins s) cu then tmins s else cu)))
            ss (- BIG, BIG).

Definition complete (u : uin) : ucomp :=
  let tt := match ui_tt u with
            | None => None
            | Some x => if qeqb x (ui_ts u) then None else Some x
            end in
  let tt' := match tt with
             | Some x => x
             | None => match ui_type u with
                       | UHot => radd (ui_ts u) (- cfg_DT_PHASE_CHANGE)
                       | _ => radd (ui_ts u) cfg_DT_PHASE_CHANGE
                       end
             end in
  mkUc (ui_id u) (ui_type u) (ui_ts u) tt' (match ui_dt u with Some d => d | None => cfg_DT_CONT end) (ui_active u).

Definition is_hotish (t : utype) : bool := match t with UCold => false | _ => true end.
Definition is_coldish (t : utype) : bool := match t with UHot => false | _ => true end.
Definition reach_hot (hu_tmin : Q) (u : ucomp) : bool :=
  is_hotish (uc_type u) && uc_active u && qleb hu_tmin (rsub (Qmin (uc_ts u) (uc_tt u)) (uc_dt u)).
Definition reach_cold (cu_tmax : Q) (u : ucomp) : bool :=
  is_coldish (uc_type u) && uc_active u && qleb (radd (Qmin (uc_ts u) (uc_tt u)) (uc_dt u)) cu_tmax.

Definition default_hu (T : Q) : ucomp :=
  mkUc ID_DEFAULT_HU UHot (radd T (radd cfg_DT_CONT cfg_DT_PHASE_CHANGE)) (radd T cfg_DT_CONT) cfg_DT_CONT true.
Definition default_cu (T : Q) : ucomp :=
  mkUc ID_DEFAULT_CU UCold (radd T (- (radd cfg_DT_CONT cfg_DT_PHASE_CHANGE))) (radd T (- cfg_DT_CONT)) cfg_DT_CONT true.

Definition with_defaults (ss : list pstream) (us : list uin) : list ucomp :=
  let '(hu, cu) := extremes ss in
  let cs := map complete us in
  cs ++ (if existsb (reach_hot hu) cs then [] else [default_hu hu])
     ++ (if existsb (reach_cold cu) cs then [] else [default_cu cu]).

(* stable insertion: x goes after every element whose key is >= key x  (descending, stable) *)
Fixpoint ins_desc {A} (key : A -> Q) (x : A) (l : list A) : list A :=
  match l with
  | [] => [x]
  | y :: r => if qleb (key x) (key y) then y :: ins_desc key x r else x :: l
  end.
Definition sort_desc {A} (key : A -> Q) (l : list A) : list A := fold_left (fun acc x => ins_desc key x acc) l [].

(* one created utility Stream: id, t_supply, t_target, dt_cont (real scale, supply/target already ordered by kind) *)
Record ucr := mkUcr { cr_id : nat; cr_ts : Q; cr_tt : Q; cr_dt : Q }.
Definition created (hot : bool) (all : list ucomp) : list ucr :=
  let cands := filter (fun u => uc_active u && (if hot then is_hotish (uc_type u) else is_coldish (uc_type u))) all in
  let sorted := sort_desc (fun u => if hot then uc_ts u else - uc_ts u) cands in          (* sorted(key = -+ t_supply), stable *)
  let strs := map (fun u => if hot then mkUcr (uc_id u) (Qmax (uc_ts u) (uc_tt u)) (Qmin (uc_ts u) (uc_tt u)) (uc_dt u)
                            else mkUcr (uc_id u) (Qmin (uc_ts u) (uc_tt u)) (Qmax (uc_ts u) (uc_tt u)) (uc_dt u)) sorted in
  sort_desc cr_ts strs.                                                                   (* StreamCollection: t_supply descending, stable *)
Definition star_of (hot : bool) (c : ucr) : ustar :=
  if hot then mkUS (rsub (cr_tt c) (cr_dt c)) (rsub (cr_ts c) (cr_dt c)) (Qabs (cr_ts c - cr_tt c))
  else mkUS (radd (cr_ts c) (cr_dt c)) (radd (cr_tt c) (cr_dt c)) (Qabs (cr_ts c - cr_tt c)).

(* ------------------------------------------------------------------------------------------ *)
(* Independent specification                                                                    *)
(* ------------------------------------------------------------------------------------------ *)
(* demand reachable from level s: value of the pocket-free profile at the first (= highest, T descending)
   row whose temperature is at or below s; 0 when no row is *)
Fixpoint prow (tolv : Q) (T H : list Q) (s : Q) : Q :=
  match T, H with
  | t0 :: Tr, h0 :: Hr => if qleb (- tolv) (rsub s t0) then h0 else prow tolv Tr Hr s
  | _, _ => 0
  end.
(* the same on the cold side: value of the profile at the LOWEST row whose temperature is at or above the level x
   (descend while the next row is still at or above x); 0 when not even the first row is *)
Fixpoint prow_cold (tolv : Q) (T H : list Q) (x : Q) : Q :=
  match T, H with
  | t0 :: Tr, h0 :: Hr =>
      if qleb (- tolv) (rsub t0 x) then
        match Tr with
        | t1 :: _ => if qleb (- tolv) (rsub t1 x) then prow_cold tolv Tr Hr x else h0
        | [] => h0
        end
      else 0
  | _, _ => 0
  end.

Definition thr (tolv x : Q) : Q := if qltb tolv x then x else 0.
(* lowest-grade-first greedy loop on the list of reachable demands (the design spike's `assign`) *)
Fixpoint greedy (tolv a : Q) (P : list Q) : list Q :=
  match P with
  | [] => []
  | p :: r => let q := thr tolv (p - a) in q :: greedy tolv (a + q) r
  end.
Fixpoint prefix_sums (acc : Q) (l : list Q) : list Q :=
  match l with [] => [] | x :: r => (acc + x) :: prefix_sums (acc + x) r end.
Fixpoint runmax (acc : Q) (l : list Q) : list Q :=
  match l with [] => [] | x :: r => Qmax acc x :: runmax (Qmax acc x) r end.
(* closed form for levels in ascending order of grade: P_k - P_{k-1} *)
Fixpoint diffs (prev : Q) (P : list Q) : list Q :=
  match P with [] => [] | p :: r => (p - prev) :: diffs p r end.
(* closed form in an arbitrary iteration order: increase of the running maximum *)
Fixpoint incs (prev : Q) (P : list Q) : list Q :=
  match P with [] => [] | p :: r => (Qmax prev p - prev) :: incs (Qmax prev p) r end.

(* a utility is `clear` of the grid: no row coordinate lies strictly between its target and supply
   coordinate, and none within tol above the supply coordinate *)
Definition clear_row (tolv s t x : Q) : bool := qleb x t || (qleb s x && (qleb x s || qltb (s + tolv) x)).
Definition clear_hot (tolv : Q) (T : list Q) (u : ustar) : bool := forallb (clear_row tolv (u_tmaxs u) (u_tmins u)) T.
Definition clear_cold (tolv : Q) (T : list Q) (u : ustar) : bool :=
  forallb (fun x => clear_row tolv (- u_tmins u) (- u_tmaxs u) (- x)) T.

Fixpoint noninc (l : list Q) : bool :=
  match l with a :: ((b :: _) as r) => qleb b a && noninc r | _ => true end.
Fixpoint strict_desc (l : list Q) : bool :=
  match l with a :: ((b :: _) as r) => qltb b a && strict_desc r | _ => true end.
Fixpoint asc_levels (l : list Q) : bool :=        (* strictly ascending = distinct levels, lowest grade first *)
  match l with a :: ((b :: _) as r) => qltb a b && asc_levels r | _ => true end.

(* cooling demand read off the pocket-free GCC: the GCC below the cold pinch row rc, zero above it
   (the heating demand is the GCC itself on the rows 0..rh that the hot side uses) *)
Definition cold_demand (HA : list Q) (rc : nat) : list Q := zeros (firstn rc HA) ++ skipn rc HA.

(* closed-form duties of one side, in collection order.  hot side: iteration = reverse collection order *)
Definition spec_hot (tolv : Q) (T HA : list Q) (rh : nat) (hus : list ustar) : list Q :=
  let Ts := firstn (S rh) T in let Hs := firstn (S rh) HA in
  rev (greedy tolv 0 (map (fun u => prow tolv Ts Hs (u_tmaxs u)) (rev hus))).
Definition spec_cold (tolv : Q) (T HA : list Q) (rc : nat) (cus : list ustar) : list Q :=
  let k := Nat.max (rc - 1) 0 in
  let Ts := skipn k T in let Hs := skipn k HA in
  greedy tolv 0 (map (fun u => prow_cold tolv Ts Hs (u_tmins u)) cus).
(* P(T_k) - P(T_{k-1}) with the utilities sorted by their shifted level (independent of the code's order) *)
Definition spec_sorted_hot (tolv : Q) (T HA : list Q) (rh : nat) (hus : list ustar) : list (Q * Q) :=
  let Ts := firstn (S rh) T in let Hs := firstn (S rh) HA in
  let lv := rev (sort_desc (fun x => x) (map u_tmaxs hus)) in              (* ascending levels *)
  combine lv (diffs 0 (map (fun s => prow tolv Ts Hs s) lv)).
Definition spec_sorted_cold (tolv : Q) (T HA : list Q) (rc : nat) (cus : list ustar) : list (Q * Q) :=
  let k := Nat.max (rc - 1) 0 in
  let Ts := skipn k T in let Hs := skipn k HA in
  let lv := sort_desc (fun x => x) (map u_tmins cus) in                    (* descending levels = ascending grade *)
  combine lv (diffs 0 (map (fun s => prow_cold tolv Ts Hs s) lv)).
Fixpoint lookup_level (s : Q) (l : list (Q * Q)) : Q :=
  match l with [] => 0 | (x, q) :: r => if qeqb x s then q else lookup_level s r end.

(* step form of the utility grand composite at a row (all utilities clear of the grid): hot utilities
   wholly at or below the row + cold utilities wholly at or above it *)
Definition hut_step (x : Q) (hus cus : list ustar) (dh dc : list Q) : Q :=
  qsum (map (fun p => if qleb (u_tmaxs (fst p)) x then snd p else 0) (combine hus dh))
  + qsum (map (fun p => if qleb x (u_tmins (fst p)) then snd p else 0) (combine cus dc)).

(* ------------------------------------------------------------------------------------------ *)
(* Property predicates (boolean) on observed outputs and the judges                              *)
(* ------------------------------------------------------------------------------------------ *)
Definition scale_of (qh qc : Q) : Q := Qmax 1 (qh + qc).
Definition sum_ok (eps target : Q) (sc : Q) (d : list Q) : bool := qleb (Qabs (qsum d - target)) (eps * sc).
Definition all_nonneg (d : list Q) : bool := forallb (fun q => qleb 0 q) d.
(* a hot utility with duty can reach: some row of the segment at or below its supply level carries demand *)
Definition reach_ok_hot (tolv : Q) (T HA : list Q) (rh : nat) (u : ustar) (q : Q) : bool :=
  negb (qltb tolv q) || qltb 0 (prow tolv (firstn (S rh) T) (firstn (S rh) HA) (u_tmaxs u)).
Definition reach_ok_cold (tolv : Q) (T HA : list Q) (rc : nat) (u : ustar) (q : Q) : bool :=
  let k := Nat.max (rc - 1) 0 in
  negb (qltb tolv q) || qltb 0 (prow_cold tolv (skipn k T) (skipn k HA) (u_tmins u)).
Fixpoint forallb2 {A B} (f : A -> B -> bool) (l1 : list A) (l2 : list B) : bool :=
  match l1, l2 with
  | [], [] => true
  | a :: r1, b :: r2 => f a b && forallb2 f r1 r2
  | _, _ => false
  end.
Definition feas_lo (eps sc : Q) (hut : list Q) : bool := forallb (fun x => qleb (- (eps * sc)) x) hut.
Definition feas_hi (eps sc : Q) (hut ha : list Q) : bool := forallb2 (fun u a => qleb u (a + eps * sc)) hut ha.

Definition pattern (d : list Q) : list bool := map (fun q => qltb 0 q) d.
Fixpoint beq_list (a b : list bool) : bool :=
  match a, b with
  | [], [] => true
  | x :: r, y :: s => Bool.eqb x y && beq_list r s
  | _, _ => false
  end.
Definition tol_lo : Q := Qred (tol * (999 # 1000)).
Definition tol_hi : Q := Qred (tol * (1001 # 1000)).

(* the D24 trigger: on the cold side, some utility with a glide (not clear of the grid, i.e. it reaches into the
   process range) is cut by the slope bound or zeroed by the early return of _maximise_utility_duty *)
Definition glide_cut (tolv : Q) (ivs : list iv) (u : ut) (qa : Q) : bool :=
  match filter (valid tolv (us u) qa) ivs with
  | [] => false
  | v0 :: vr => qltb (max_duty tolv ivs (us u) (utg u) qa) (maxl (qpot qa v0) (map (qpot qa) vr))
  end.
Fixpoint any_glide_cut (tolv : Q) (ivs : list iv) (limit : Q) (l : list ut) (qa : Q) : bool :=
  match l with
  | [] => false
  | u :: r =>
      let q := max_duty tolv ivs (us u) (utg u) qa in
      let set := qltb tolv q in
      let qa' := if set then radd qa q else qa in
      glide_cut tolv ivs u qa
      || (if qltb (Qabs (rsub limit qa')) tolv then false else any_glide_cut tolv ivs limit r qa')
  end.
Definition d24_trigger_cold (tolv : Q) (T H : list Q) (rc : nat) (cus : list ustar) : bool :=
  let H' := flip tolv H in
  let k := Nat.max (rc - 1) 0 in
  let Ts := skipn k T in let Hs := skipn k H' in
  negb (forallb (clear_cold tolv T) cus)
  && any_glide_cut tolv (ivs_cold Ts Hs) (lastq Hs) (map (fun u => mkU (- u_tmins u) (- u_tmaxs u)) cus) 0.
Definition d24_trigger_hot (tolv : Q) (T H : list Q) (rh : nat) (hus : list ustar) : bool :=
  let H' := flip tolv H in
  let Ts := firstn (S rh) T in let Hs := firstn (S rh) H' in
  negb (forallb (clear_hot tolv T) hus)
  && any_glide_cut tolv (ivs_hot Ts Hs) (headq Hs) (map (fun u => mkU (u_tmaxs u) (u_tmins u)) (rev hus)) 0.

(* One observed direct-integration target.
   T, HA (H_net_actual), Hhn (H_hot_net), Hcn (H_cold_net), Hut (H_net_ut) : columns of the shifted table as they are
   right after get_utility_targets; hus/cus utilities in collection order with the duties dh/dc the implementation
   assigned; qh/qc the reported targets. *)
Record obs := mkObs { o_T : list Q; o_HA : list Q; o_Hhn : list Q; o_Hcn : list Q; o_Hut : list Q;
                      o_hus : list ustar; o_cus : list ustar; o_dh : list Q; o_dc : list Q; o_qh : Q; o_qc : Q }.

Definition model_duties (tolv : Q) (o : obs) : list Q * list Q :=
  di_duties tolv (o_T o) (o_HA o) (o_Hhn o) (o_Hcn o) (o_hus o) (o_cus o).

Definition fragile (o : obs) : bool :=
  let '(h0, c0) := model_duties tol o in
  let '(h1, c1) := model_duties tol_lo o in
  let '(h2, c2) := model_duties tol_hi o in
  negb (beq_list (pattern h0) (pattern h1) && beq_list (pattern h0) (pattern h2)
        && beq_list (pattern c0) (pattern c1) && beq_list (pattern c0) (pattern c2)
        && Nat.eqb (fst (fst (pinch_idx tol (o_HA o)))) (fst (fst (pinch_idx tol_lo (o_HA o))))
        && Nat.eqb (fst (fst (pinch_idx tol (o_HA o)))) (fst (fst (pinch_idx tol_hi (o_HA o))))
        && Nat.eqb (snd (fst (pinch_idx tol (o_HA o)))) (snd (fst (pinch_idx tol_lo (o_HA o))))
        && Nat.eqb (snd (fst (pinch_idx tol (o_HA o)))) (snd (fst (pinch_idx tol_hi (o_HA o))))).

(* correspondence: 21 separated profiles, 23 hot duties, 24 cold duties, 25 utility profile *)
Definition corr_codes (o : obs) : list Z :=
  let '(mh, mc) := model_duties tol o in
  let sc := scale_of (o_qh o) (o_qc o) in
  let cl := fun a b => close_abs (eps9 * sc) a b in
  (if forallb2 cl (sep_hot (o_HA o)) (o_Hhn o) && forallb2 cl (sep_cold (o_HA o)) (o_Hcn o) then [] else [21%Z])
  ++ (if forallb2 cl mh (o_dh o) then [] else [23%Z])
  ++ (if forallb2 cl mc (o_dc o) then [] else [24%Z])
  ++ (if forallb2 cl (hut_model (o_T o) (o_hus o) (o_cus o) (o_dh o) (o_dc o)) (o_Hut o) then [] else [25%Z]).

(* C03 predicate on the implementation's outputs: 31 hot sum, 32 cold sum, 33 negative duty, 34 duty out of reach *)
Definition c03_codes (o : obs) : list Z :=
  let sc := scale_of (o_qh o) (o_qc o) in
  let '(rh, rc, _) := pinch_idx tol (o_HA o) in
  (if sum_ok eps6 (o_qh o) sc (o_dh o) then [] else [31%Z])
  ++ (if sum_ok eps6 (o_qc o) sc (o_dc o) then [] else [32%Z])
  ++ (if all_nonneg (o_dh o) && all_nonneg (o_dc o) then [] else [33%Z])
  ++ (if forallb2 (reach_ok_hot tol (o_T o) (o_HA o) rh) (o_hus o) (o_dh o)
         && forallb2 (reach_ok_cold tol (o_T o) (cold_demand (o_HA o) rc) rc) (o_cus o) (o_dc o) then [] else [34%Z]).

(* is the closed form applicable to a side: profile pocket-free on that side (monotone), rows strictly descending,
   every utility clear of the grid *)
Definition side_hot_ok (o : obs) (rh : nat) : bool :=
  strict_desc (o_T o) && noninc (firstn (S rh) (o_HA o)) && forallb (clear_hot tol (o_T o)) (o_hus o)
  && qleb 0 (lastq (firstn (S rh) (o_HA o))) && qleb (lastq (firstn (S rh) (o_HA o))) tol.
Definition side_cold_ok (o : obs) (rc : nat) : bool :=
  strict_desc (o_T o) && noninc (rev (skipn (Nat.max (rc - 1) 0) (cold_demand (o_HA o) rc))) && forallb (clear_cold tol (o_T o)) (o_cus o)
  && qleb 0 (headq (skipn (Nat.max (rc - 1) 0) (cold_demand (o_HA o) rc)))
  && qleb (headq (skipn (Nat.max (rc - 1) 0) (cold_demand (o_HA o) rc))) tol.
Definition sorted_hot_ok (o : obs) : bool := asc_levels (map u_tmaxs (rev (o_hus o))).
Definition sorted_cold_ok (o : obs) : bool := asc_levels (map (fun u => - u_tmins u) (o_cus o)).

Fixpoint distinct_q (l : list Q) : bool :=
  match l with [] => true | x :: r => negb (existsb (qeqb x) r) && distinct_q r end.
(* C04 predicate: 35 H_ut < 0, 36 H_ut > H_np, 37 / 38 closed-form optimum (hot / cold side),
   39 the utility profile is not the step form of the duties (clear ladders) *)
Definition c04_codes (o : obs) : list Z :=
  let sc := scale_of (o_qh o) (o_qc o) in
  let '(rh, rc, _) := pinch_idx tol (o_HA o) in
  let cl := fun a b => close_abs (eps6 * sc) a b in
  (if feas_lo eps6 sc (o_Hut o) then [] else [35%Z])
  ++ (if feas_hi eps6 sc (o_Hut o) (o_HA o) then [] else [36%Z])
  ++ (let srt := forallb2 (fun u q => cl (lookup_level (u_tmaxs u) (spec_sorted_hot tol (o_T o) (o_HA o) rh (o_hus o))) q)
                          (o_hus o) (o_dh o) in
      if negb (side_hot_ok o rh) then []
      else if negb (forallb2 cl (spec_hot tol (o_T o) (o_HA o) rh (o_hus o)) (o_dh o)) then [37%Z]
      else if sorted_hot_ok o then (if srt then [] else [37%Z])
      (* the loop visits the utilities by REAL supply temperature; with different contributions that is not the order of their
         shifted levels: the duties follow the code's order (checked above) but are not lowest-grade-first (finding D61) *)
      else if distinct_q (map u_tmaxs (o_hus o)) && negb srt then [45%Z] else [])
  ++ (let srt := forallb2 (fun u q => cl (lookup_level (u_tmins u) (spec_sorted_cold tol (o_T o) (cold_demand (o_HA o) rc) rc (o_cus o))) q)
                          (o_cus o) (o_dc o) in
      if negb (side_cold_ok o rc) then []
      else if negb (forallb2 cl (spec_cold tol (o_T o) (cold_demand (o_HA o) rc) rc (o_cus o)) (o_dc o)) then [38%Z]
      else if sorted_cold_ok o then (if srt then [] else [38%Z])
      else if distinct_q (map u_tmins (o_cus o)) && negb srt then [46%Z] else [])
  ++ (if negb (side_hot_ok o rh && side_cold_ok o rc) then []
      else if forallb2 (fun x h => cl (hut_step x (o_hus o) (o_cus o) (o_dh o) (o_dc o)) h) (o_T o) (o_Hut o)
           then [] else [39%Z]).

(* shape flags reported with every verdict (for the histogram and the D24 classification):
   bit0 hot closed form applicable, bit1 cold closed form applicable, bit2 hot order = level order, bit3 cold idem,
   bit4 D24 trigger (cold), bit5 D24 trigger (hot), bit6 cold sum is SHORT (under-supplied), bit7 hot sum short,
   bit8 some hot utility clear of the grid reaches the top row, bit9 some cold one the bottom row,
   bit10 hot sum exceeds Qh, bit11 cold sum exceeds Qc,
   bit12 every row where H_ut exceeds the pocket-free GCC lies strictly inside the temperature range of a utility
         that carries duty and is NOT clear of the grid (a glide reaching into the process range) *)
Definition inside_glide (x : Q) (l : list (ustar * Q)) : bool :=
  existsb (fun p => qltb tol (snd p) && qltb (u_tmins (fst p)) x && qltb x (u_tmaxs (fst p))) l.
Definition viol_inside_glide (o : obs) : bool :=
  let sc := scale_of (o_qh o) (o_qc o) in
  forallb2 (fun x ua => qleb (fst ua) (snd ua + eps6 * sc)
                        || inside_glide x (combine (o_hus o) (o_dh o)) || inside_glide x (combine (o_cus o) (o_dc o)))
           (o_T o) (combine (o_Hut o) (o_HA o)).
Definition reach_top_hot (o : obs) : bool :=
  existsb (fun u => clear_hot tol (o_T o) u && qleb (- tol) (u_tmaxs u - headq (o_T o))) (o_hus o).
Definition reach_bot_cold (o : obs) : bool :=
  existsb (fun u => clear_cold tol (o_T o) u && qleb (- tol) (lastq (o_T o) - u_tmins u)) (o_cus o).
Definition flags (o : obs) : Z :=
  let '(rh, rc, _) := pinch_idx tol (o_HA o) in
  let sc := scale_of (o_qh o) (o_qc o) in
  (bz (side_hot_ok o rh) + 2 * bz (side_cold_ok o rc) + 4 * bz (sorted_hot_ok o) + 8 * bz (sorted_cold_ok o)
   + 16 * bz (d24_trigger_cold tol (o_T o) (o_Hhn o) rc (o_cus o))
   + 32 * bz (d24_trigger_hot tol (o_T o) (o_Hcn o) rh (o_hus o))
   + 64 * bz (qltb (qsum (o_dc o)) (o_qc o - eps6 * sc))
   + 128 * bz (qltb (qsum (o_dh o)) (o_qh o - eps6 * sc))
   + 256 * bz (reach_top_hot o) + 512 * bz (reach_bot_cold o)
   + 1024 * bz (qltb (o_qh o + eps6 * sc) (qsum (o_dh o)))
   + 2048 * bz (qltb (o_qc o + eps6 * sc) (qsum (o_dc o)))
   + 4096 * bz (viol_inside_glide o))%Z.

(* verdict = [status; flags; codes...] *)
Definition judge_with (prop_codes : obs -> list Z) (o : obs) : list Z :=
  if fragile o then [V_FRAGILE; flags o]
  else match prop_codes o with
       | (_ :: _) as pc => V_PROP_FALSE :: flags o :: pc ++ corr_codes o
       | [] => match corr_codes o with
               | (_ :: _) as cc => V_MISMATCH :: flags o :: cc
               | [] => [V_AGREE; flags o]
               end
       end.
Definition judge_c03 : obs -> list Z := judge_with c03_codes.
Definition judge_c04 : obs -> list Z := judge_with c04_codes.

(* ---- default utilities: decision, placement, order.  impl_* : created utilities observed on the implementation
   in collection order (id, t_supply, t_target, dt_cont).  41 hot list differs, 42 cold list differs;
   property (C03 "defaults are added so that the sums can close"): 43 no hot utility passes the reach test after
   completion, 44 no cold one *)
Definition ucr_close (a b : ucr) : bool :=
  Nat.eqb (cr_id a) (cr_id b) && close eps9 (cr_ts a) (cr_ts b) && close eps9 (cr_tt a) (cr_tt b) && close eps9 (cr_dt a) (cr_dt b).
(* a reach test within 1e-9 of its threshold (but not exactly on it) is decided by float rounding of `t_supply -+ 0.1`: fragile *)
Definition near_tie (a b : Q) : bool := negb (qeqb a b) && qltb (Qabs (a - b)) (eps9 * Qmax 1 (Qabs b)).
Definition defaults_fragile (ss : list pstream) (us : list uin) : bool :=
  let '(hu, cu) := extremes ss in
  existsb (fun u => (is_hotish (uc_type u) && near_tie (rsub (Qmin (uc_ts u) (uc_tt u)) (uc_dt u)) hu)
                    || (is_coldish (uc_type u) && near_tie (radd (Qmin (uc_ts u) (uc_tt u)) (uc_dt u)) cu)) (map complete us).
(* two sort keys that differ by less than 1e-9 without being equal: the order is decided by float rounding (T + 5.1 vs 255.1) *)
Fixpoint near_tie_in (l : list Q) : bool :=
  match l with [] => false | x :: r => existsb (fun y => near_tie x y) r || near_tie_in r end.
Definition order_fragile (ss : list pstream) (us : list uin) : bool :=
  let all := with_defaults ss us in
  near_tie_in (map uc_ts (filter (fun u => uc_active u && is_hotish (uc_type u)) all))
  || near_tie_in (map uc_ts (filter (fun u => uc_active u && is_coldish (uc_type u)) all))
  || near_tie_in (map cr_ts (created true all)) || near_tie_in (map cr_ts (created false all)).
Definition judge_defaults (ss : list pstream) (us : list uin) (impl_hot impl_cold : list ucr) : list Z :=
  if defaults_fragile ss us || order_fragile ss us then [V_FRAGILE; 0%Z] else
  let all := with_defaults ss us in
  let '(hu, cu) := extremes ss in
  let reach_h := existsb (fun c => qleb (hu - eps9 * Qmax 1 (Qabs hu)) (rsub (cr_tt c) (cr_dt c))) impl_hot in
  let reach_c := existsb (fun c => qleb (radd (cr_ts c) (cr_dt c)) (cu + eps9 * Qmax 1 (Qabs cu))) impl_cold in
  match (if reach_h then [] else [43%Z]) ++ (if reach_c then [] else [44%Z]) with
  | (_ :: _) as pc => V_PROP_FALSE :: 0%Z :: pc
  | [] =>
      match (if forallb2 ucr_close (created true all) impl_hot then [] else [41%Z])
            ++ (if forallb2 ucr_close (created false all) impl_cold then [] else [42%Z]) with
      | (_ :: _) as cc => V_MISMATCH :: 0%Z :: cc
      | [] => [V_AGREE; 0%Z]
      end
  end.

(* ---- Total Process Target: utility by utility, the sum of the zones' duties (51 hot, 52 cold) *)
Fixpoint vsum (ls : list (list Q)) (n : nat) : list Q :=
  match ls with [] => repeat 0 n | l :: r => map (fun p => fst p + snd p) (combine l (vsum r n)) end.
Definition judge_tz (zones_h zones_c : list (list Q)) (tz_h tz_c : list Q) : list Z :=
  let sc := Qmax 1 (qsum tz_h + qsum tz_c) in
  let cl := fun a b => close_abs (eps6 * sc) a b in
  match (if forallb (fun l => Nat.eqb (List.length l) (List.length tz_h)) zones_h
            && forallb2 cl (vsum zones_h (List.length tz_h)) tz_h then [] else [51%Z])
        ++ (if forallb (fun l => Nat.eqb (List.length l) (List.length tz_c)) zones_c
               && forallb2 cl (vsum zones_c (List.length tz_c)) tz_c then [] else [52%Z]) with
  | (_ :: _) as pc => V_PROP_FALSE :: 0%Z :: pc
  | [] => [V_AGREE; 0%Z]
  end.
