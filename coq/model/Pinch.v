(* Executable model of ProblemTable.pinch_idx / pinch_temperatures and of the pinch serialisation rule
   (EnergyTarget.serialize_json), plus the exact-residual predicate used on reported pinches. *)
From OP Require Import gen.Consts model.Base model.Cascade.
Local Open Scope Q_scope.

Section P.
Variable tolv : Q.
Definition isz (h : Q) : bool := qltb (Qabs h) tolv.
Fixpoint first_idx (f : Q -> bool) (l : list Q) (i : nat) : option nat :=
  match l with [] => None | x :: r => if f x then Some i else first_idx f r (S i) end.
Definition nz (x : Q) : bool := negb (isz x).
Definition pinch_idx (h : list Q) : nat * nat * bool :=
  let n := List.length h in
  let has := existsb isz h in let all := forallb isz h in
  let '(rh, rc) :=
    if has && negb all then
      let fz := match first_idx isz h 0 with Some k => k | None => O end in
      let rh := if (0 <? fz)%nat then fz
                else match first_idx nz h 0 with Some k => (k - 1)%nat | None => (n - 1)%nat end in
      let lz := match first_idx isz (rev h) 0 with Some k => (n - 1 - k)%nat | None => O end in
      let rc := if (lz <? n - 1)%nat then lz
                else match first_idx nz (rev h) 0 with Some k => (n - k)%nat | None => O end in
      (rh, rc)
    else ((n - 1)%nat, O) in
  (rh, rc, (rh <=? rc)%nat).
Definition pinch_temperatures (Ts h : list Q) : option (Q * Q) :=
  let '(rh, rc, v) := pinch_idx h in
  if v then Some (nth rh Ts 0, nth rc Ts 0) else None.
(* serialisation: equal pinches collapse to cold_temp only *)
Definition serialise_pinch (pp : option (Q * Q)) : option Q * option Q (* cold_temp, hot_temp *) :=
  match pp with
  | None => (None, None)
  | Some (th, tc) => if qltb (Qabs (tc - th)) tolv then (Some tc, None) else (Some tc, Some th)
  end.
End P.

Definition agree_idx (m i : nat * nat * bool) : bool :=
  let '(a, b, c) := m in let '(x, y, z) := i in Nat.eqb a x && Nat.eqb b y && Bool.eqb c z.
Definition tol_lo : Q := Qred (tol * (999 # 1000)).
Definition tol_hi : Q := Qred (tol * (1001 # 1000)).
Definition judge_pinch_idx (h : list Q) (impl : nat * nat * bool) : list Z :=
  let m := pinch_idx tol h in
  if negb (agree_idx m (pinch_idx tol_lo h) && agree_idx m (pinch_idx tol_hi h)) then [V_FRAGILE]
  else if agree_idx m impl then [V_AGREE] else [V_MISMATCH; 0%Z].

(* ---- property predicate on a reported pinch pair, against the exact residual R(T) = Qh* - D(T) ---- *)
Definition residual (hot cold : list view) (T : Q) : Q := Qh_star hot cold - Dnet hot cold T.
(* `cands` are the temperatures at which rows can exist (stream and utility end points on the shifted scale);
   zslack is the absolute slack for "is zero" (float noise and the 1e-6 tolerance of the code) *)
Definition c06_b (zslack : Q) (hot cold : list view) (cands : list Q) (cold_temp hot_temp : option Q) : list Z :=
  let qh := Qh_star hot cold in
  let R := fun T => Qred (qh - Dnet hot cold T) in
  let rs := map (fun T => (T, Qabs (R T))) cands in                 (* residual at every candidate, computed once *)
  let zr := fun (p : Q * Q) => qleb (snd p) zslack in
  let surer := fun (p : Q * Q) => qleb (snd p) (zslack / 4) in
  let top := qmax_list (hd 0 cands) cands in let bot := qmin_list (hd 0 cands) cands in
  match cold_temp with
  | None =>
      (* absent: allowed only when no candidate is a clear zero, or (D18) the residual vanishes on every candidate *)
      if negb (existsb surer rs) then [V_AGREE]
      else if forallb zr rs then [V_PROP_FALSE; 618%Z] else [V_PROP_FALSE; 61%Z]
  | Some tc =>
      let th := match hot_temp with Some t => t | None => tc end in
      if negb (qleb (Qabs (R th)) zslack && qleb (Qabs (R tc)) zslack) then [V_PROP_FALSE; 62%Z]
      else if qltb th tc then [V_PROP_FALSE; 63%Z]
      else
        (* every clear zero outside [tc, th] must belong to a zero run reaching that end of the range *)
        let run_above := forallb (fun p => negb (qleb th (fst p)) || zr p) rs in
        let run_below := forallb (fun p => negb (qleb (fst p) tc) || zr p) rs in
        (* "outside" means by more than the grid's rounding unit: reported pinches are 6-decimal grid values while the
           candidates are unrounded stream bounds, so a candidate may sit ~1e-14 beside the reported temperature *)
        let tsl := 2 # 1000000 in
        let above_ok := run_above || negb (existsb (fun p => surer p && qltb (th + tsl) (fst p)) rs) in
        let below_ok := run_below || negb (existsb (fun p => surer p && qltb (fst p) (tc - tsl)) rs) in
        if negb (above_ok && below_ok) then [V_PROP_FALSE; 64%Z]
        else
          (* threshold: when the residual is clearly zero at the top (bottom) end of the range, the run of zeros from that
             end must reach the reported hot (cold) pinch *)
          let thr_top := negb (existsb (fun p => surer p && qeqb (fst p) top) rs) || run_above in
          let thr_bot := negb (existsb (fun p => surer p && qeqb (fst p) bot) rs) || run_below in
          if negb (thr_top && thr_bot) then [V_PROP_FALSE; 65%Z] else [V_AGREE]
  end.

(* boolean form of proofs/PinchFacts.pinch_rows_spec, evaluated on what the implementation returned *)
Definition zbb (h : list Q) (j : nat) : bool := isz tol (nth j h 1).
Definition range (n : nat) : list nat := seq 0 n.
Definition pinch_rows_b (h : list Q) (impl : nat * nat * bool) : list Z :=
  let '(rh, rc, v) := impl in
  let n := List.length h in
  let has := existsb (isz tol) h in let all := forallb (isz tol) h in
  if negb has then (if v && Nat.leb 2 n then [V_PROP_FALSE; 60%Z] else [V_AGREE])
  else if all then (if v then [V_AGREE] else [V_PROP_FALSE; 618%Z])
  else if negb v then [V_PROP_FALSE; 61%Z]
  else if negb (Nat.ltb rh n && Nat.ltb rc n && zbb h rh && zbb h rc) then [V_PROP_FALSE; 62%Z]
  else if negb (Nat.leb rh rc) then [V_PROP_FALSE; 63%Z]
  else if negb (forallb (fun k => negb (Nat.ltb k rh && zbb h k) || forallb (fun j => negb (Nat.leb j rh) || zbb h j) (range n)) (range n)
                && forallb (fun k => negb (Nat.ltb rc k && zbb h k) || forallb (fun j => negb (Nat.leb rc j) || zbb h j) (range n)) (range n))
  then [V_PROP_FALSE; 64%Z]
  else if negb ((negb (zbb h 0) || (forallb (fun j => negb (Nat.leb j rh) || zbb h j) (range n) && negb (zbb h (S rh))))
                && (negb (zbb h (n - 1)) || (forallb (fun j => negb (Nat.leb rc j) || zbb h j) (range n) && Nat.ltb 0 rc && negb (zbb h (rc - 1)))))
  then [V_PROP_FALSE; 65%Z]
  else [V_AGREE].
Definition judge_pinch_stage (h : list Q) (impl : nat * nat * bool) : list Z :=
  match judge_pinch_idx h impl with
  | [1%Z] => [V_FRAGILE]
  | v => match pinch_rows_b h impl with [0%Z] => v | w => w end
  end.
