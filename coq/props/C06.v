(* C06 -- Reported pinch temperatures are where the exact cascade is pinched (statements only). *)
From OP Require Import gen.Consts model.Base model.Cascade model.Pinch proofs.CascadeSpec proofs.CascadeExact proofs.CascadeGrid proofs.PinchFacts proofs.PinchResidual proofs.ComposePinchStage.
From Coq Require Import Lia.
Local Open Scope Q_scope.

(* For EVERY residual column h that has a zero (|h_k| < tol) and is not zero everywhere, pinch_idx returns a valid pair
   (row_h, row_c) such that: both rows are zeros; row_h <= row_c (so on a descending table T_hot >= T_cold); any zero above
   row_h belongs to a run of zeros covering rows 0..row_h (symmetrically below row_c), i.e. every other zero lies between
   the two rows or in a zero run touching that end; and in a threshold column (zero on the first/last row) the pinch row on
   that side is the process-side end of the run: the next row is not a zero. *)
Theorem C06_pinch_rows :
  forall tolv h, existsb (isz tolv) h = true -> forallb (isz tolv) h = false ->
  exists rh rc, pinch_idx tolv h = (rh, rc, true) /\ pinch_rows_spec tolv h rh rc.
Proof. exact pinch_idx_spec. Qed.
Print Assumptions C06_pinch_rows.

(* A pinch is absent exactly when the column has no zero -- or is zero on every row.  The second disjunct is the
   deviation from the property statement recorded as finding D18. *)
Theorem C06_absent_iff :
  forall tolv h, (2 <= List.length h)%nat ->
  (snd (pinch_idx tolv h) = false <-> (existsb (isz tolv) h = false \/ forallb (isz tolv) h = true)).
Proof. exact absent_iff. Qed.
Print Assumptions C06_absent_iff.

(* The residual column of the table IS the exact residual: on every row H_net = Qh - (net deficit above T) >= 0. *)
Theorem C06_table_residual_is_exact :
  forall hot cold extra, wfs hot -> wfs cold -> hot ++ cold <> [] ->
  on_lattice (endpoints (hot ++ cold ++ extra)) ->
  gaps_b act_window (grid_of (endpoints (hot ++ cold ++ extra))) = true ->
  let p := stage_model act_window hot cold extra in
  forall i T hh hc hn,
  nth_error (pT p) i = Some T -> nth_error (pHh p) i = Some hh -> nth_error (pHc p) i = Some hc -> nth_error (pHn p) i = Some hn ->
  hn == Qh_of p - Dnet hot cold T /\ 0 <= hn.
Proof. intros. destruct (stage_curves_exact hot cold extra H H0 H1 H2 H3 i T hh hc hn H4 H5 H6 H7) as [_ [_ [_ [A B]]]]. split; assumption. Qed.
Print Assumptions C06_table_residual_is_exact.

(* A zero of the exact residual strictly between two consecutive rows forces zeros on both rows: no pinch can hide inside
   an interval, so the restriction of the statements above to table rows loses nothing. *)
Theorem C06_no_pinch_hidden_between_rows :
  forall hot cold g pre a b post T Q,
  wfs hot -> wfs cold -> g = pre ++ a :: b :: post -> desc g -> covers g (eps_all hot cold) ->
  b < T -> T < a -> Dnet hot cold a <= Q -> Dnet hot cold b <= Q -> Dnet hot cold T == Q ->
  Dnet hot cold a == Q /\ Dnet hot cold b == Q.
Proof. exact residual_zero_on_rows. Qed.
Print Assumptions C06_no_pinch_hidden_between_rows.

(* D18 witness: an identically-zero residual column reports no pinch although every row is a zero. *)
Theorem C06_all_zero_absent_refuted : snd (pinch_idx tol [0; 0; 0]) = false /\ forallb (isz tol) [0; 0; 0] = true.
Proof. vm_compute. split; reflexivity. Qed.
Print Assumptions C06_all_zero_absent_refuted.

(* non-vacuity: a multi-pinch column with zero runs at both ends *)
Example C06_example : pinch_idx tol [0; 0; 5; 0; 3; 0; 0] = (1%nat, 5%nat, true).
Proof. vm_compute. reflexivity. Qed.

(* ------------------------------------------------------------------ THE COMPOSED PROPERTY (proofs/ComposePinchStage.v)
   `residual hot cold T` = Qh* - (net deficit above T) is the exact residual of the streams (model/Pinch.v; Qh* is the
   independent reference value of C01), a function of EVERY real temperature T.  p = the table of the cascade model,
   pT p its row temperatures (descending), pHn p its H_net column; `pinch_temperatures tol (pT p) (pHn p)` is what
   ProblemTable.pinch_temperatures reports.  Hypotheses: those of C06_table_residual_is_exact, plus: some row is a zero of
   the residual (< tol) and some row is not.  Then a pair (T_h, T_c) = (row rh, row rc) is reported and
     1  rh <= rc < number of rows;
     2  0 <= residual(T_h) < tol and 0 <= residual(T_c) < tol;                       3  T_c <= T_h;
     4  for every REAL temperature T > T_h with residual(T) < tol: either residual < tol at EVERY temperature >= T_h (a zero
        run touching the top end: threshold problem), or T lies in the single interval directly above row rh, whose upper
        row is not a zero (the residual rises linearly from < tol at T_h to >= tol there);     5  symmetrically below T_c;
     6  for every real T > T_h (T < T_c) with residual(T) == 0 EXACTLY only the first alternative remains
        (C06_no_pinch_hidden_between_rows: an exact zero inside an interval forces exact zeros on both of its rows);
     7  threshold: if the residual is a zero at the top (bottom) row, it is a zero everywhere from T_h upwards (T_c downwards)
        and the next row below T_h (above T_c) exists and is NOT a zero: the reported pinch is the process-side end of the run.
   Nothing is claimed about zeros between T_c and T_h: every other pinch lies there. *)
Theorem C06_reported_pinches_are_exact_pinches :
  forall hot cold extra, wfs hot -> wfs cold -> hot ++ cold <> [] ->
  on_lattice (endpoints (hot ++ cold ++ extra)) ->
  gaps_b act_window (grid_of (endpoints (hot ++ cold ++ extra))) = true ->
  let p := stage_model act_window hot cold extra in
  let R := residual hot cold in
  (exists T, In T (pT p) /\ R T < tol) -> (exists T, In T (pT p) /\ tol <= R T) ->
  exists rh rc, pinch_idx tol (pHn p) = (rh, rc, true)
    /\ pinch_temperatures tol (pT p) (pHn p) = Some (nth rh (pT p) 0, nth rc (pT p) 0)
    /\ let g := pT p in let n := List.length g in let Th := nth rh g 0 in let Tc := nth rc g 0 in
       ((rh <= rc)%nat /\ (rc < n)%nat)
       /\ (0 <= R Th /\ R Th < tol)
       /\ (0 <= R Tc /\ R Tc < tol)
       /\ Tc <= Th
       /\ (forall T, Th < T -> R T < tol ->
             (forall T', Th <= T' -> R T' < tol)
             \/ ((0 < rh)%nat /\ T < nth (rh - 1) g 0 /\ tol <= R (nth (rh - 1) g 0)))
       /\ (forall T, T < Tc -> R T < tol ->
             (forall T', T' <= Tc -> R T' < tol)
             \/ ((S rc < n)%nat /\ nth (S rc) g 0 < T /\ tol <= R (nth (S rc) g 0)))
       /\ (forall T, Th < T -> R T == 0 -> forall T', Th <= T' -> R T' < tol)
       /\ (forall T, T < Tc -> R T == 0 -> forall T', T' <= Tc -> R T' < tol)
       /\ (R (nth 0 g 0) < tol -> (forall T', Th <= T' -> R T' < tol) /\ (S rh < n)%nat /\ tol <= R (nth (S rh) g 0))
       /\ (R (nth (n - 1) g 0) < tol -> (forall T', T' <= Tc -> R T' < tol) /\ (0 < rc)%nat /\ tol <= R (nth (rc - 1) g 0)).
Proof. exact stage_pinch_composed. Qed.
Print Assumptions C06_reported_pinches_are_exact_pinches.

(* absent, in terms of the exact residual: no pinch is reported iff no row of the table is a zero of the residual -- or every
   row is (the second disjunct is finding D18, kept as it is) *)
Theorem C06_absent_iff_exact_residual :
  forall hot cold extra, wfs hot -> wfs cold -> hot ++ cold <> [] ->
  on_lattice (endpoints (hot ++ cold ++ extra)) ->
  gaps_b act_window (grid_of (endpoints (hot ++ cold ++ extra))) = true ->
  let p := stage_model act_window hot cold extra in
  (snd (pinch_idx tol (pHn p)) = false <->
   ((forall T, In T (pT p) -> tol <= residual hot cold T) \/ (forall T, In T (pT p) -> residual hot cold T < tol))).
Proof. exact stage_pinch_absent_iff. Qed.
Print Assumptions C06_absent_iff_exact_residual.

(* The same for ARBITRARY doubles (not on the 6-decimal lattice): the residual is that of the streams with end points rounded
   to the grid's decimals (roundv), under the hypotheses of C01_targets_exact_for_rounded_streams; the ten clauses are
   `pinch_real_spec` (proofs/ComposePinchStage.v), literally the clause list spelled out above. *)
Theorem C06_reported_pinches_are_exact_pinches_rounded :
  forall hot cold extra, wfs_b (map roundv hot) = true -> wfs_b (map roundv cold) = true -> hot ++ cold <> [] ->
  gaps_b (act_window + delta6) (grid_of (endpoints (hot ++ cold ++ extra))) = true ->
  let p := stage_model act_window hot cold extra in
  let R := residual (map roundv hot) (map roundv cold) in
  (exists T, In T (pT p) /\ R T < tol) -> (exists T, In T (pT p) /\ tol <= R T) ->
  exists rh rc, pinch_idx tol (pHn p) = (rh, rc, true)
    /\ pinch_temperatures tol (pT p) (pHn p) = Some (nth rh (pT p) 0, nth rc (pT p) 0)
    /\ pinch_real_spec tol R (pT p) rh rc.
Proof. exact stage_rounded_pinch_composed. Qed.
Print Assumptions C06_reported_pinches_are_exact_pinches_rounded.

Theorem C06_absent_iff_exact_residual_rounded :
  forall hot cold extra, wfs_b (map roundv hot) = true -> wfs_b (map roundv cold) = true -> hot ++ cold <> [] ->
  gaps_b (act_window + delta6) (grid_of (endpoints (hot ++ cold ++ extra))) = true ->
  let p := stage_model act_window hot cold extra in
  (snd (pinch_idx tol (pHn p)) = false <->
   ((forall T, In T (pT p) -> tol <= residual (map roundv hot) (map roundv cold) T)
    \/ (forall T, In T (pT p) -> residual (map roundv hot) (map roundv cold) T < tol))).
Proof. exact stage_rounded_pinch_absent_iff. Qed.
Print Assumptions C06_absent_iff_exact_residual_rounded.

(* the same on ANY descending grid that covers the end points of grid-aligned streams (the common root of the two above) *)
Theorem C06_composed_on_any_covering_grid :
  forall tolv, 0 < tolv -> forall w d, 0 <= d -> d < w -> forall hot cold hotR coldR,
  Forall2 (nearv d) hot hotR -> Forall2 (nearv d) cold coldR -> wfs hotR -> wfs coldR ->
  forall g, desc g -> g <> [] -> covers g (eps_all hotR coldR) -> gaps_ok w d g ->
  (exists T, In T g /\ residual hotR coldR T < tolv) -> (exists T, In T g /\ tolv <= residual hotR coldR T) ->
  exists rh rc, pinch_idx tolv (pHn (pta w hot cold g)) = (rh, rc, true)
    /\ pinch_temperatures tolv g (pHn (pta w hot cold g)) = Some (nth rh g 0, nth rc g 0)
    /\ pinch_real_spec tolv (residual hotR coldR) g rh rc.
Proof. exact pinch_composed. Qed.
Print Assumptions C06_composed_on_any_covering_grid.

(* non-vacuity: a problem with TWO pinches (net deficit above T = 0, 10, 5, 10, 0 at 300, 250, 200, 150, 100; Qh = 10): every
   hypothesis of C06_reported_pinches_are_exact_pinches holds, the reported pair is (250, 150), the residual between them
   is not zero (2.5 at 225) *)
Theorem C06_two_pinch_example :
  let p := stage_model act_window ex2_hot ex2_cold [] in
  wfs_b ex2_hot = true /\ wfs_b ex2_cold = true
  /\ forallb (fun e => qeqb (round_dp grid_round_dp e) e) (endpoints (ex2_hot ++ ex2_cold ++ [])) = true
  /\ gaps_b act_window (grid_of (endpoints (ex2_hot ++ ex2_cold ++ []))) = true
  /\ pT p = [300; 250; 200; 150; 100] /\ pHn p = [10; 0; 5; 0; 10]
  /\ map (fun T => Qred (residual ex2_hot ex2_cold T)) (pT p) = [10; 0; 5; 0; 10]
  /\ pinch_idx tol (pHn p) = (1%nat, 3%nat, true)
  /\ pinch_temperatures tol (pT p) (pHn p) = Some (250, 150)
  /\ Qred (residual ex2_hot ex2_cold 225) = 5 # 2.
Proof. exact ex2_two_pinches. Qed.
Print Assumptions C06_two_pinch_example.

(* ... and a threshold problem (Qh = 0): the residual is zero from the top row down to 250, both pinches are reported at 250 *)
Theorem C06_threshold_example :
  let p := stage_model act_window ex3_hot ex3_cold [] in
  gaps_b act_window (grid_of (endpoints (ex3_hot ++ ex3_cold ++ []))) = true
  /\ pT p = [300; 250; 100] /\ pHn p = [0; 0; 15]
  /\ pinch_temperatures tol (pT p) (pHn p) = Some (250, 250).
Proof. exact ex3_threshold. Qed.
Print Assumptions C06_threshold_example.
