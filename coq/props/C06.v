(* C06 -- Reported pinch temperatures are where the exact cascade is pinched (statements only). *)
From OP Require Import gen.Consts model.Base model.Cascade model.Pinch proofs.CascadeSpec proofs.CascadeGrid proofs.PinchFacts proofs.PinchResidual.
From Coq Require Import Lia.
Local Open Scope Q_scope.

(* For EVERY residual column h that has a zero (|h_k| < tol) and is not zero everywhere, pinch_idx returns a valid pair
   (row_h, row_c) such that: both rows are zeros; row_h <= row_c (so on a descending table T_hot >= T_cold); any zero above
   row_h belongs to a run of zeros covering rows 0..row_h (symmetrically below row_c), i.e. every other zero lies between
   the two rows or in a zero run touching that end; and in a threshold column (zero on the first/last row) the pinch row on
   that side is the process-side end of the run: the next row is not a zero. *)
Theorem C06_pinch_rows :
  forall tolv h, existsb (isz tolv) h = true -> forallb (isz tolv) h = false ->
  exists rh rc, pinch_idx tolv h = (rh, rc, true) /\ pinch_rows_spec tolv h rh rc.
Proof. exact pinch_idx_spec. Qed.
Print Assumptions C06_pinch_rows.

(* A pinch is absent exactly when the column has no zero -- or is zero on every row.  The second disjunct is the
   deviation from the property statement recorded as finding D18. *)
Theorem C06_absent_iff :
  forall tolv h, (2 <= List.length h)%nat ->
  (snd (pinch_idx tolv h) = false <-> (existsb (isz tolv) h = false \/ forallb (isz tolv) h = true)).
Proof. exact absent_iff. Qed.
Print Assumptions C06_absent_iff.

(* The residual column of the table IS the exact residual: on every row H_net = Qh - (net deficit above T) >= 0. *)
Theorem C06_table_residual_is_exact :
  forall hot cold extra, wfs hot -> wfs cold -> hot ++ cold <> [] ->
  on_lattice (endpoints (hot ++ cold ++ extra)) ->
  gaps_b act_window (grid_of (endpoints (hot ++ cold ++ extra))) = true ->
  let p := stage_model act_window hot cold extra in
  forall i T hh hc hn,
  nth_error (pT p) i = Some T -> nth_error (pHh p) i = Some hh -> nth_error (pHc p) i = Some hc -> nth_error (pHn p) i = Some hn ->
  hn == Qh_of p - Dnet hot cold T /\ 0 <= hn.
Proof. intros. destruct (stage_curves_exact hot cold extra H H0 H1 H2 H3 i T hh hc hn H4 H5 H6 H7) as [_ [_ [_ [A B]]]]. split; assumption. Qed.
Print Assumptions C06_table_residual_is_exact.

(* A zero of the exact residual strictly between two consecutive rows forces zeros on both rows: no pinch can hide inside
   an interval, so the restriction of the statements above to table rows loses nothing. *)
Theorem C06_no_pinch_hidden_between_rows :
  forall hot cold g pre a b post T Q,
  wfs hot -> wfs cold -> g = pre ++ a :: b :: post -> desc g -> covers g (eps_all hot cold) ->
  b < T -> T < a -> Dnet hot cold a <= Q -> Dnet hot cold b <= Q -> Dnet hot cold T == Q ->
  Dnet hot cold a == Q /\ Dnet hot cold b == Q.
Proof. exact residual_zero_on_rows. Qed.
Print Assumptions C06_no_pinch_hidden_between_rows.

(* D18 witness: an identically-zero residual column reports no pinch although every row is a zero. *)
Theorem C06_all_zero_absent_refuted : snd (pinch_idx tol [0; 0; 0]) = false /\ forallb (isz tol) [0; 0; 0] = true.
Proof. vm_compute. split; reflexivity. Qed.
Print Assumptions C06_all_zero_absent_refuted.

(* non-vacuity: a multi-pinch column with zero runs at both ends *)
Example C06_example : pinch_idx tol [0; 0; 5; 0; 3; 0; 0] = (1%nat, 5%nat, true).
Proof. vm_compute. reflexivity. Qed.
