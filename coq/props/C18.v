(* C18 -- Solved heat-pump cycles obey the first and second laws.
   Only statements; every proof is `exact <lemma>` from proofs/HeatPump.v and proofs/HeatPumpLaws.v.
   The property library (CoolProp) is an arbitrary record [L : lib]; the second-law, throttle and saturation
   theorems hold for every L satisfying [LibHyps L] (read-back consistency, consistency between the flash
   routines, (ds/dh)_p > 0, (dh/dp)_s > 0, (ds/dp)_h < 0 -- see proofs/HeatPumpLaws.v); instances of these
   hypotheses are checked numerically by the harness on every sampled state. *)
From OP Require Import gen.Consts gen.HeatPumpConsts model.Base model.HeatPump proofs.HeatPump proofs.HeatPumpLaws.
Local Open Scope Q_scope.

(* First law of _get_metrics: q_cond = q_evap + w_net and Q_cond = Q_evap + work, for all state-point enthalpies
   with H3 <= H0 (the evaporator takes up heat; without it the code clamps q_evap to 0 and the balance is lost). *)
Theorem C18_first_law :
  forall Qc H0 H1 H3 m, get_metrics Qc H0 H1 H3 = Ok m -> H3 <= H0 ->
  m_qc m == m_qe m + m_w m /\ Qc == m_Qe m + m_W m.
Proof. exact first_law. Qed.
Print Assumptions C18_first_law.

(* The work is the (single) mass flow times the specific compressor work. *)
Theorem C18_work_is_mass_flow_times_specific_work :
  forall Qc H0 H1 H3 m, get_metrics Qc H0 H1 H3 = Ok m -> H3 <= H0 -> m_W m == m_mdot m * m_w m.
Proof. exact work_is_mdot_w. Qed.
Print Assumptions C18_work_is_mass_flow_times_specific_work.

(* COP_h = COP_r + 1 whenever both are defined (w_net <> 0, see C18_cop_defined) and H3 <= H0. *)
Theorem C18_cop_relation :
  forall Qc H0 H1 H3 m a b, get_metrics Qc H0 H1 H3 = Ok m -> H3 <= H0 -> cop_h m = Ok a -> cop_r m = Ok b -> a == b + 1.
Proof. exact cop_relation. Qed.
Print Assumptions C18_cop_relation.

Theorem C18_cop_defined : forall m, ~ m_w m == 0 -> exists a b, cop_h m = Ok a /\ cop_r m = Ok b.
Proof. exact cop_defined. Qed.
Print Assumptions C18_cop_defined.

(* Without H3 <= H0 the relation fails (the outcome of D27 before the clamp: H0 < H3, COP_h = 2/3, COP_r = 0). *)
Theorem C18_cop_relation_refuted :
  exists m a b, get_metrics 1 400000 430000 410000 = Ok m /\ cop_h m = Ok a /\ cop_r m = Ok b /\ ~ a == b + 1.
Proof. exact cop_relation_refuted. Qed.
Print Assumptions C18_cop_relation_refuted.

(* Positive work from the bookkeeping alone: positive duty, H3 <= H0 < H1. *)
Theorem C18_work_positive :
  forall Qc H0 H1 H3 m, get_metrics Qc H0 H1 H3 = Ok m -> 0 < Qc -> H3 <= H0 -> H0 < H1 ->
  0 < m_w m /\ 0 < m_mdot m /\ 0 < m_W m.
Proof. exact work_positive. Qed.
Print Assumptions C18_work_positive.

(* "Without an internal heat exchanger": when 0 K is requested, 0 K is used, for every lift (repaired D27);
   the pre-repair formula gave -2 K for a 3 K lift. *)
Theorem C18_no_ihx_requested_none_used : forall Te Tc sh sc, ihx_dt 0 Te Tc sh sc == 0.
Proof. exact ihx_none_requested. Qed.
Print Assumptions C18_no_ihx_requested_none_used.
Theorem C18_ihx_prefix_refuted : ihx_dt_old 0 10 13 0 0 == -2.
Proof. exact ihx_prefix_refuted. Qed.
Print Assumptions C18_ihx_prefix_refuted.

(* State-point sequence of `solve`, any library satisfying LibHyps, nothing requested from the internal exchanger: *)
(* the evaporator and condenser pressures are the library's saturation pressures of the requested temperatures *)
Theorem C18_pressures_are_psat :
  forall L, LibHyps L -> forall Te Tc sh sc eta c, solve L Te Tc sh sc eta 0 = Ok c ->
  fp (c0 c) == l_psat L (radd Te hp_C_to_K) /\ fp (c3 c) == l_psat L (radd Te hp_C_to_K) /\
  fp (c1 c) == l_psat L (radd Tc hp_C_to_K) /\ fp (c2 c) == l_psat L (radd Tc hp_C_to_K).
Proof. exact pressures_are_psat. Qed.
Print Assumptions C18_pressures_are_psat.

(* throttling conserves enthalpy *)
Theorem C18_throttle_isenthalpic :
  forall L, LibHyps L -> forall Te Tc sh sc eta c, solve L Te Tc sh sc eta 0 = Ok c -> fh (c3 c) == fh (c2 c).
Proof. exact throttle_isenthalpic. Qed.
Print Assumptions C18_throttle_isenthalpic.

(* throttling does not decrease specific entropy *)
Theorem C18_throttle_entropy :
  forall L, LibHyps L -> forall Te Tc sh sc eta c, solve L Te Tc sh sc eta 0 = Ok c -> fs (c2 c) <= fs (c3 c).
Proof. exact throttle_entropy. Qed.
Print Assumptions C18_throttle_entropy.

(* compression does not decrease specific entropy, for every isentropic efficiency in (0, 1] *)
Theorem C18_compression_entropy :
  forall L, LibHyps L -> forall Te Tc sh sc eta c, solve L Te Tc sh sc eta 0 = Ok c ->
  0 < eta -> eta <= 1 -> fs (c0 c) <= fs (c1 c).
Proof. exact compression_entropy. Qed.
Print Assumptions C18_compression_entropy.

(* positive work and the first law for the solved cycle: positive lift, strictly increasing saturation pressure
   and h(p, s), and a condenser outlet whose enthalpy does not exceed the evaporator outlet's *)
Theorem C18_cycle_work_positive_first_law :
  forall L, LibHyps L -> forall Te Tc sh sc eta c, solve L Te Tc sh sc eta 0 = Ok c ->
  forall Qh m, h_strict_p L -> psat_strict L -> Te < Tc -> 0 < eta -> eta <= 1 -> 0 < Qh ->
  fh (c2 c) <= fh (c0 c) -> cycle_metrics Qh c = Ok m ->
  0 < m_W m /\ Qh == m_Qe m + m_W m /\ m_qc m == m_qe m + m_w m.
Proof. exact cycle_work_positive. Qed.
Print Assumptions C18_cycle_work_positive_first_law.

(* the hypotheses are satisfiable and `solve` succeeds under them (non-vacuity) *)
Theorem C18_hypotheses_satisfiable :
  LibHyps toy2 /\ (h_strict_p toy2 /\ psat_strict toy2) /\ exists c, solve toy2 10 13 0 0 (1 # 2) 0 = Ok c.
Proof. exact (conj toy2_hyps (conj toy2_strict toy2_solves)). Qed.
Print Assumptions C18_hypotheses_satisfiable.

(* Streams.  For ANY profile whose enthalpy falls (rises) along it, the duties of the emitted streams add up to
   mass flow x (first - last) enthalpy ... *)
Theorem C18_duty_of_any_falling_profile :
  forall md hot pr, h_desc pr -> duty (segs md hot pr) == md * (first_h pr - last_h pr).
Proof. exact duty_desc. Qed.
Print Assumptions C18_duty_of_any_falling_profile.
Theorem C18_duty_of_any_rising_profile :
  forall md hot pr, h_asc pr -> duty (segs md hot pr) == md * (last_h pr - first_h pr).
Proof. exact duty_asc. Qed.
Print Assumptions C18_duty_of_any_rising_profile.

(* ... hence the hot set carries exactly Q_cond ... *)
Theorem C18_condenser_streams_carry_Q_cond :
  forall L s pr l, cond_profile L (hc s) = Ok pr -> h_desc pr -> cond_segs L s = Ok l -> duty l == hQc s.
Proof. exact cond_streams_carry_duty. Qed.
Print Assumptions C18_condenser_streams_carry_Q_cond.

(* ... and the cold set exactly Q_evap (isenthalpic throttle, condenser rejecting heat). *)
Theorem C18_evaporator_streams_carry_Q_evap :
  forall L s m l, h_asc (evap_profile L (hc s)) -> fh (c3 (hc s)) == fh (c2 (hc s)) -> fh (c2 (hc s)) < fh (c1 (hc s)) ->
  cycle_metrics (hQc s) (hc s) = Ok m -> evap_segs L s = Ok l -> duty l == m_Qe m.
Proof. exact evap_streams_carry_duty. Qed.
Print Assumptions C18_evaporator_streams_carry_Q_evap.

(* Monotone: on a profile with falling (rising) temperatures every hot (cold) stream cools (heats) strictly and the
   supply temperatures fall (rise); stated with the predicate the check evaluates on the implementation, zero slack. *)
Theorem C18_hot_streams_cool_monotonically :
  forall md pr, T_desc pr -> hot_monotone 0 (segs md true pr) = true.
Proof. exact hot_streams_monotone. Qed.
Print Assumptions C18_hot_streams_cool_monotonically.
Theorem C18_cold_streams_heat_monotonically :
  forall md pr, T_asc pr -> cold_monotone 0 (segs md false pr) = true.
Proof. exact cold_streams_monotone. Qed.
Print Assumptions C18_cold_streams_heat_monotonically.

(* Request order: for ALL request sequences (condenser / evaporator / both / neither, any order, any repetition) the
   answers are the answers to the single requests ... *)
Theorem C18_requests_are_history_free : forall L s rs, run L s rs = map (emit L s) rs.
Proof. exact run_is_map. Qed.
Print Assumptions C18_requests_are_history_free.

(* ... so the streams emitted for one side are identical at every position of every two sequences. *)
Theorem C18_request_order_irrelevant :
  forall L s rs rs' i j r r' cs es cs' es',
  nth_error rs i = Some r -> nth_error (run L s rs) i = Some (Ok (cs, es)) ->
  nth_error rs' j = Some r' -> nth_error (run L s rs') j = Some (Ok (cs', es')) ->
  (wants_cond r = true -> wants_cond r' = true -> cs = cs') /\
  (wants_evap r = true -> wants_evap r' = true -> es = es').
Proof. exact request_order_irrelevant. Qed.
Print Assumptions C18_request_order_irrelevant.

(* The pre-repair machine (self._m_dot rewritten by a condenser request, D12): [evap] carries 1000 x the duty that
   [cond; evap] gives to the same evaporator request; the repaired machine gives 16/19 in both. *)
Theorem C18_request_order_prefix_refuted :
  evap_duty_of (nth_error (run_old toy_lib toy_hp [REvap]) 0) == 16000 # 19 /\
  evap_duty_of (nth_error (run_old toy_lib toy_hp [RCond; REvap]) 1) == 16 # 19 /\
  evap_duty_of (nth_error (run toy_lib toy_hp [REvap]) 0) == 16 # 19 /\
  evap_duty_of (nth_error (run toy_lib toy_hp [RCond; REvap]) 1) == 16 # 19.
Proof. exact request_order_prefix_refuted. Qed.
Print Assumptions C18_request_order_prefix_refuted.

(* Carnot placement: in both branches Q_cond_tot = Q_evap_tot + work, the scaled duty arrays add up to the totals,
   and work * cop = Q_cond_tot. *)
Theorem C18_carnot_first_law :
  forall cop Qc0 Qe0 k, carnot_book cop Qc0 Qe0 = Ok k ->
  k_Qc_tot k == k_Qe_tot k + k_W k /\ qsum (k_Qc k) == k_Qc_tot k /\ qsum (k_Qe k) == k_Qe_tot k.
Proof. exact carnot_first_law. Qed.
Print Assumptions C18_carnot_first_law.
Theorem C18_carnot_work_cop : forall cop Qc0 Qe0 k, carnot_book cop Qc0 Qe0 = Ok k -> k_W k * cop == k_Qc_tot k.
Proof. exact carnot_work_cop. Qed.
Print Assumptions C18_carnot_work_cop.
