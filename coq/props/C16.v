(* C16 -- all input channels describe the same problem identically; the wrapper returns the cached result; exported sheet
   names are unique, at most 31 characters, free of the characters Excel forbids, for any zone names.
   Only statements; every proof is `exact <lemma>` from proofs/.
   Strings range over ALL strings of the 256 `ascii` values (read as code points 0..255); model/Channels.v says what Python's
   str.strip()/str.isdigit() do on them, and the check compares that with Python on every run.
   The codec half of the property (pandas/openpyxl/json decode what was encoded) is not a theorem: it is checked per run by
   materialising every generated problem through every channel (harness/props/c16.py, suite `channels`). *)
From Coq Require Import String Ascii List Arith.
From OP Require Import gen.Consts gen.ChannelsGen model.Base model.Channels
  proofs.ChannelsNames proofs.ChannelsLabel proofs.ChannelsWrapper.
Import ListNotations.
Local Open Scope string_scope.
Local Open Scope nat_scope.

(* ------------------------------------------------------------------ sheet names *)

(* what the boolean predicate evaluated on the implementation's names means: 1..31 characters, none of : \ / ? * [ ],
   no apostrophe at either end *)
Theorem C16_name_ok_meaning : forall n, name_ok_b n = true <->
   (1 <= String.length n <= excel_max_len
    /\ (forall c, In c (list_ascii_of_string n) -> ~ In (code c) excel_forbidden)
    /\ first_is (is_char apostrophe) n = false /\ last_is (is_char apostrophe) n = false).
Proof. exact name_ok_b_spec. Qed.
Print Assumptions C16_name_ok_meaning.

(* MAIN (soundness): for ANY list of base names and ANY set of names already in use, if the allocation loop of
   _write_problem_tables returns, it returns one name per base, pairwise distinct, none already in use, each satisfying Excel's rule *)
Theorem C16_sheet_names : forall bases used names, alloc bases used = Ok names ->
   List.length names = List.length bases /\ NoDup names /\ (forall n, In n names -> ~ In n used /\ name_ok_b n = true).
Proof. exact alloc_sound. Qed.
Print Assumptions C16_sheet_names.

(* one call: the returned name is new, legal, and is the candidate or one of its ' (k)' alternatives; `used` grows by exactly it *)
Theorem C16_unique_sheet_sound : forall b used n used', unique_sheet b used = Ok (n, used') ->
   used' = n :: used /\ ~ In n used /\ name_ok_b n = true /\ (n = candidate b \/ In n (alts (candidate b))).
Proof. exact unique_sheet_sound. Qed.
Print Assumptions C16_unique_sheet_sound.

(* MAIN (totality below the bound): with fewer than range(2,1000) = 998 of a base's alternatives already taken, the call returns *)
Theorem C16_unique_sheet_total : forall b used, collisions b used < sheet_hi - sheet_lo -> exists n, unique_sheet b used = Ok (n, n :: used).
Proof. exact unique_sheet_total. Qed.
Print Assumptions C16_unique_sheet_total.

(* hence any workbook with at most 998 sheets in total is always named successfully, whatever the names *)
Theorem C16_alloc_total : forall bases used, List.length used + List.length bases <= sheet_hi - sheet_lo -> exists names, alloc bases used = Ok names.
Proof. exact alloc_total. Qed.
Print Assumptions C16_alloc_total.

(* a failure is always the ValueError of the exhausted loop and happens only when, for some base, the candidate and at least 998
   alternatives are already taken (D21 bound; open finding `sheet-name-999th-collision` only beyond it) *)
Theorem C16_alloc_fails_only_beyond_bound : forall bases used e, alloc bases used = Err e ->
   e = EValue /\ exists pre b post names, bases = (pre ++ b :: post)%list /\ alloc pre used = Ok names
      /\ In (candidate b) (rev names ++ used)%list /\ sheet_hi - sheet_lo <= collisions b (rev names ++ used)%list.
Proof. exact alloc_fails_only_beyond_bound. Qed.
Print Assumptions C16_alloc_fails_only_beyond_bound.

(* exact failure condition of one call *)
Theorem C16_unique_sheet_err_iff : forall b used, unique_sheet b used = Err EValue <->
   (In (candidate b) used /\ forall a, In a (alts (candidate b)) -> In a used).
Proof. exact unique_sheet_err_iff. Qed.
Print Assumptions C16_unique_sheet_err_iff.

(* the alternatives of one candidate are pairwise different (decimal rendering is injective, the '(' before it is no digit) *)
Theorem C16_alternatives_distinct : forall c, NoDup (alts c) /\ List.length (alts c) = sheet_hi - sheet_lo.
Proof. intro c. split; [exact (alts_nodup c)|exact (alts_length c)]. Qed.
Print Assumptions C16_alternatives_distinct.

(* refutation beyond the bound: 1000 zones/targets with the same label ALWAYS raise *)
Theorem C16_sheet_names_beyond_bound_refuted : forall b used, alloc (repeat b (S (S (sheet_hi - sheet_lo)))) used = Err EValue.
Proof. exact alloc_repeat_raises. Qed.
Print Assumptions C16_sheet_names_beyond_bound_refuted.

(* the bound 998 is tight: a 31-character label ending in " (100)" is its own 100th alternative, so 998 taken names suffice to fail *)
Theorem C16_bound_is_tight : let c := "AAAAAAAAAAAAAAAAAAAAAAAAA (100)" in
   candidate c = c /\ alt c 100 = c /\ List.length (alts c) = 998 /\ unique_sheet c (alts c) = Err EValue.
Proof. exact tight_bound_example. Qed.
Print Assumptions C16_bound_is_tight.

(* _sanitize_sheet_name alone: never empty, no forbidden character, no apostrophe at either end *)
Theorem C16_sanitize_ok : forall name, sanitize name <> EmptyString /\ sall (fun c => negb (forbidden_b c)) (sanitize name) = true
   /\ first_is (is_char apostrophe) (sanitize name) = false /\ last_is (is_char apostrophe) (sanitize name) = false.
Proof. exact sanitize_ok. Qed.
Print Assumptions C16_sanitize_ok.

(* regression witness for the apostrophe defect (3d9bb68): cutting at 31 alone leaves an illegal name, the re-strip repairs it *)
Theorem C16_trailing_apostrophe_witness :
  let b := "'Zone'''''''''''''''''''''''''''''''''x" in
  sanitize b = "Zone'''''''''''''''''''''''''''''''''x"
  /\ take sheet_trunc (sanitize b) = "Zone'''''''''''''''''''''''''''"
  /\ name_ok_b (take sheet_trunc (sanitize b)) = false
  /\ candidate b = "Zone" /\ name_ok_b (candidate b) = true
  /\ alt (candidate b) 2 = "Zone (2)".
Proof. exact prefix_trailing_apostrophe_example. Qed.
Print Assumptions C16_trailing_apostrophe_witness.

(* ------------------------------------------------------------------ label normalisation of the workbook channel *)

(* normalising twice = normalising once (for any prefix that is not all digits, has no '.', does not start with a blank;
   the two prefixes in the source, "Z" and "S", qualify) *)
Theorem C16_normalize_label_idem : forall prefix t, prefix_ok prefix -> normalize_label prefix (normalize_label prefix t) = normalize_label prefix t.
Proof. exact normalize_label_idem. Qed.
Print Assumptions C16_normalize_label_idem.

Theorem C16_normalize_zone_idem : forall t, let p := str_of_codes label_prefix_zone in normalize_label p (normalize_label p t) = normalize_label p t.
Proof. exact normalize_zone_idem. Qed.
Print Assumptions C16_normalize_zone_idem.

Theorem C16_normalize_name_idem : forall t, let p := str_of_codes label_prefix_name in normalize_label p (normalize_label p t) = normalize_label p t.
Proof. exact normalize_name_idem. Qed.
Print Assumptions C16_normalize_name_idem.

(* the precondition under which the workbook channel keeps a label unchanged: no surrounding blanks, no '.', not all digits *)
Theorem C16_normalize_label_id : forall prefix t, strip is_space t = t -> sall (fun c => negb (is_char label_dot c)) t = true ->
  all_digits t = false -> normalize_label prefix t = t.
Proof. exact normalize_label_id. Qed.
Print Assumptions C16_normalize_label_id.

(* a record that survived the filter is a fixed point of it (re-loading an exported problem changes nothing) *)
Theorem C16_validate_record_idem : forall z n z' n', validate_record z n = Some (z', n') -> validate_record (Some z') (Some n') = Some (z', n').
Proof. exact validate_record_idem. Qed.
Print Assumptions C16_validate_record_idem.

(* ------------------------------------------------------------------ value-with-unit unwrapping *)
Theorem C16_get_value_cases : forall v,
  match v with
  | PFloat x => get_value v = Ok (Some x)
  | PDict true x => get_value v = Ok x
  | PDict false _ => get_value v = Err EKey
  | PVU x => get_value v = Ok x
  | POther => get_value v = Err EType
  end.
Proof. exact get_value_cases. Qed.
Print Assumptions C16_get_value_cases.

Theorem C16_get_value_wrapping_invariant : forall x,
  get_value (PVU (Some x)) = get_value (PFloat x) /\ get_value (PDict true (Some x)) = get_value (PFloat x).
Proof. exact get_value_wrapping_invariant. Qed.
Print Assumptions C16_get_value_wrapping_invariant.

(* ------------------------------------------------------------------ the wrapper (service abstract) *)

(* MAIN: for ANY service function and ANY sequence of load/target/export calls on a fresh PinchProblem: a target() shows the
   service's result for the LAST loaded problem under the project name of THAT load (RuntimeError if none), an export with a
   directory exports exactly that, an export without any directory is the ValueError *)
Theorem C16_wrapper_refines : forall (input name output : Type) (service : input -> option name -> output) pre post,
    (forall p nm, last_loaded input name pre None = Some (p, nm) ->
       exists st, nth_error (fst (wrun input name output (wstep input name output service) w_init (pre ++ WTarget :: post))) (List.length pre)
                  = Some (ObsResult st (service p nm)))
    /\ (last_loaded input name pre None = None ->
       nth_error (fst (wrun input name output (wstep input name output service) w_init (pre ++ WTarget :: post))) (List.length pre) = Some (ObsErr WNoInput))
    /\ (forall d p nm, last_loaded input name pre None = Some (p, nm) -> d || w_dir _ _ _ (reach input name output service w_init pre) = true ->
       exists st, nth_error (fst (wrun input name output (wstep input name output service) w_init (pre ++ WExport d :: post))) (List.length pre)
                  = Some (ObsResult st (service p nm)))
    /\ (forall d, d || w_dir _ _ _ (reach input name output service w_init pre) = false ->
       nth_error (fst (wrun input name output (wstep input name output service) w_init (pre ++ WExport d :: post))) (List.length pre) = Some (ObsErr WNoDir)).
Proof. exact wrapper_refines. Qed.
Print Assumptions C16_wrapper_refines.

(* the cache: a second target() returns the same object (same stamp), leaves the state unchanged and calls nothing *)
Theorem C16_second_target_is_cached : forall (input name output : Type) (service : input -> option name -> output) s,
    WInv input name output service s -> w_data _ _ _ s <> None ->
    let '(s1, ob1) := wstep input name output service s WTarget in
    let '(s2, ob2) := wstep input name output service s1 WTarget in
    ob1 = ob2 /\ s2 = s1 /\ w_calls _ _ _ s1 <= S (w_calls _ _ _ s).
Proof. exact second_target_same_object. Qed.
Print Assumptions C16_second_target_is_cached.

(* load drops the cache and sets the project name of the new source; the next target() produces a NEW object for the new problem *)
Theorem C16_load_resets : forall (input name output : Type) (service : input -> option name -> output) s p nm,
    w_res _ _ _ (fst (wstep input name output service s (WLoad p nm))) = None
    /\ w_name _ _ _ (fst (wstep input name output service s (WLoad p nm))) = nm
    /\ snd (wstep input name output service (fst (wstep input name output service s (WLoad p nm))) WTarget) = ObsResult (S (w_calls _ _ _ s)) (service p nm).
Proof.
  intros. split; [exact (proj1 (load_resets_cache input name output service s p nm))|].
  split; [exact (proj2 (proj2 (load_resets_cache input name output service s p nm)))|exact (target_after_load_is_fresh input name output service s p nm)].
Qed.
Print Assumptions C16_load_resets.

(* whatever the sequence, the service is called at most once per load *)
Theorem C16_calls_le_loads : forall (input name output : Type) (service : input -> option name -> output) ops,
    w_calls _ _ _ (reach input name output service w_init ops) <= loads input name ops.
Proof. exact calls_le_loads. Qed.
Print Assumptions C16_calls_le_loads.

(* the behaviour before commit c560ce5 (load kept the cache) violates the refinement: the second problem shows the first one's result *)
Theorem C16_wrapper_refines_prefix_refuted :
  fst (wrun nat nat (nat * nat) (wstep_prefix nat nat (nat * nat) nservice) w_init [WLoad 0 (Some 1); WTarget; WLoad 1 (Some 2); WTarget])
  = [ObsLoaded; ObsResult 1 (0, 1); ObsLoaded; ObsResult 1 (0, 1)].
Proof. exact wrapper_refines_prefix_refuted. Qed.
Print Assumptions C16_wrapper_refines_prefix_refuted.

(* the behaviour before commit 29d391b (a source without a file name kept the project name of an earlier load) violates it too *)
Theorem C16_wrapper_refines_prename_refuted :
  fst (wrun nat nat (nat * nat) (wstep_prename nat nat (nat * nat) nservice) w_init [WLoad 0 (Some 1); WTarget; WLoad 1 None; WTarget])
  = [ObsLoaded; ObsResult 1 (0, 1); ObsLoaded; ObsResult 2 (1, 1)].
Proof. exact wrapper_refines_prename_refuted. Qed.
Print Assumptions C16_wrapper_refines_prename_refuted.

(* non-vacuity of the refinement on a concrete history *)
Theorem C16_wrapper_witness :
  fst (wrun nat nat (nat * nat) (wstep nat nat (nat * nat) nservice) w_init
         [WLoad 0 (Some 1); WTarget; WTarget; WLoad 1 None; WTarget; WExport true])
  = [ObsLoaded; ObsResult 1 (0, 1); ObsResult 1 (0, 1); ObsLoaded; ObsResult 2 (1, 0); ObsResult 2 (1, 0)].
Proof. exact wrapper_refines_witness. Qed.
Print Assumptions C16_wrapper_witness.
