(* C14 -- the service is total and well-formed on every valid problem.
   Only statements; every proof is `exact <lemma>` from proofs/.

   (* OPEN: service_total :
        forall x, WF_input x -> exists y, service x = Ok y /\ wf_output x y
      where `service` is the whole pipeline main.pinch_analysis_service (preparation, cascades, pocket removal, utility targeting,
      site aggregation, graph payloads) and wf_output is the meaning of wf_output_b below.  The pipeline model is spread over
      the stage models of other properties (Cascade.v, Pockets.v, Utility.v, Site.v ...) and is not composed into one `service`
      function; in particular "the +-1e9 sentinel of an empty side never reaches a reported temperature" needs the composed fact
      "an empty side has zero utility demand" (C01 cascade) + "a zero-duty utility is never a pinch or a plotted point" (C03/C13).
      What IS proved here is named `..._partial` / per stage below; the whole-pipeline clause is carried, on every run, by the
      predicate wf_output_b evaluated inside coqc on the implementation's own outputs (harness/props/c14.py, suite `service`). *)

   Determinism ("identical when the call is repeated") is trivial for every Gallina function below (they are functions); for the
   implementation it is part of wf_output_b (second call compared number by number). *)
From Coq Require Import String List Permutation.
From OP Require Import gen.Consts model.Base model.Stream model.Totality proofs.StreamInv proofs.Totality proofs.TotalityDispatch.
Import ListNotations.
Local Open Scope Q_scope.

(* ------------------------------------------------------------------ the predicate the check evaluates on the implementation *)

(* [0] from the judge means: every reported number is finite, there is exactly one direct-integration record for every zone that
   must have one, every reported temperature lies in the envelope [min T - W, max T + W], the repeated call returned the same numbers *)
Theorem C14_wf_output_meaning : forall x y, wf_output_b x y = true ->
  (forall v, In v (o_nums y) -> v <> None)
  /\ (forall n, count_s n (expected_di (i_direct_op x) (i_tree x)) = count_s n (o_di y))
  /\ (forall t, In t (o_temps y) -> fst (envelope x) <= t <= snd (envelope x))
  /\ optq_eq (o_nums y) (o_nums2 y) = true.
Proof. exact wf_output_b_sound. Qed.
Print Assumptions C14_wf_output_meaning.

(* ------------------------------------------------------------------ stage guards: Ok under WF_input (service_total_partial) *)

(* span <> 0 after the latent rule: every stream the real constructor and ANY setter sequence can produce (isothermal and zero-duty
   ones included -- D13) has a defined CP = duty / (t_max - t_min) *)
Theorem C14_cp_total_partial : forall a b c d e f ops, exists x, cp_guarded (run_ops (mk_stream a b c d e f) ops) = Ok x.
Proof. exact cp_total. Qed.
Print Assumptions C14_cp_total_partial.

(* ... and a ZeroDivisionError can only come from a zero span *)
Theorem C14_cp_err_only_zero_span : forall s e, cp_guarded s = Err e -> e = EZeroDiv /\ tmax s == tmin s.
Proof. exact cp_guarded_err. Qed.
Print Assumptions C14_cp_err_only_zero_span.

(* linear_interpolation raises exactly when x1 = x2 *)
Theorem C14_lin_interp_guard : forall xi x1 x2 y1 y2,
  (~ x1 == x2 -> exists y, lin_interp xi x1 x2 y1 y2 = Ok y) /\ (x1 == x2 -> lin_interp xi x1 x2 y1 y2 = Err EValue).
Proof. intros. split; [apply lin_interp_ok|apply lin_interp_err]. Qed.
Print Assumptions C14_lin_interp_guard.

(* its call site in the real-temperature cascade (_get_T_start_on_opposite_cc) never raises, for ANY two columns of one table and
   any positive tolerance: the interpolation is only reached across a strict sign change *)
Theorem C14_t_start_total_partial : forall tolv cc Ts h0, 0 < tolv -> List.length Ts = List.length cc ->
  exists r, t_start_on_opposite tolv cc Ts h0 = Ok r.
Proof. exact t_start_total. Qed.
Print Assumptions C14_t_start_total_partial.

(* the option sanitiser leaves DT_CONT >= 0 and DT_PHASE_CHANGE > 0 whatever was supplied *)
Theorem C14_sanitize_cfg : forall x y, 0 <= sanitize_dt_cont x /\ 0 < sanitize_dt_phase y.
Proof. exact sanitize_cfg_ok. Qed.
Print Assumptions C14_sanitize_cfg.

(* hence every utility (given isothermal or not) has a non-zero span after completion *)
Theorem C14_utility_span_partial : forall hot dp ts0 tt0, 0 < dp -> ~ complete_utility_tt hot dp ts0 tt0 == ts0.
Proof. exact complete_utility_span. Qed.
Print Assumptions C14_utility_span_partial.

(* non-empty grids: with at least one stream the (shifted or real) grid holds two different temperatures *)
Theorem C14_grid_nonempty_partial : forall shifted args, args <> [] ->
  let ss := map (fun '(a, b, c, d, e, f) => mk_stream a b c d e f) args in
  exists a b, In a (raw_grid shifted ss) /\ In b (raw_grid shifted ss) /\ a < b.
Proof. exact raw_grid_of_constructed. Qed.
Print Assumptions C14_grid_nonempty_partial.

(* a grid whose neighbours are more than tol apart passes the "infeasible interval" guard (the converse is the listed finding
   grid-gap-within-tol-raises: two different grid temperatures within tol make the service raise) *)
Theorem C14_no_small_gap : forall tolv g, gaps_above tolv g -> small_gap_b tolv g = false.
Proof. exact no_small_gap. Qed.
Print Assumptions C14_no_small_gap.

(* sentinels (D26): the +-1e9 sentinel is the extreme temperature exactly when that side has no stream; otherwise the extreme is a real
   stream temperature bounding the side *)
Theorem C14_sentinel_only_when_side_empty : forall l, (forall t, In t l -> - sentinel < t) ->
  (l = [] -> hu_t_min l = - sentinel) /\ (l <> [] -> In (hu_t_min l) l /\ forall t, In t l -> t <= hu_t_min l).
Proof. exact hu_t_min_spec. Qed.
Print Assumptions C14_sentinel_only_when_side_empty.

Theorem C14_sentinel_only_when_side_empty_cold : forall l, (forall t, In t l -> t < sentinel) ->
  (l = [] -> cu_t_max l = sentinel) /\ (l <> [] -> In (cu_t_max l) l /\ forall t, In t l -> cu_t_max l <= t).
Proof. exact cu_t_max_spec. Qed.
Print Assumptions C14_sentinel_only_when_side_empty_cold.

(* default utilities are placed wholly outside the process range (they always reach it) with a non-zero span *)
Theorem C14_default_hu_outside : forall dc dp l, 0 <= dc -> 0 < dp ->
  let '(s, t) := default_hu dc dp (hu_t_min l) in t < s /\ forall x, In x l -> x <= t.
Proof. exact default_hu_outside. Qed.
Print Assumptions C14_default_hu_outside.

Theorem C14_default_cu_outside : forall dc dp l, 0 <= dc -> 0 < dp ->
  let '(s, t) := default_cu dc dp (cu_t_max l) in s < t /\ forall x, In x l -> t <= x.
Proof. exact default_cu_outside. Qed.
Print Assumptions C14_default_cu_outside.

(* ... and, when that side is not empty, inside the envelope of the side widened by stream contribution + DT_CONT + glide *)
Theorem C14_default_hu_in_envelope : forall dc dp l Tmax ds, l <> [] -> (forall t, In t l -> - sentinel < t) ->
  (forall t, In t l -> t <= Tmax + ds) -> fst (default_hu dc dp (hu_t_min l)) <= Tmax + (ds + dc + dp).
Proof. exact default_hu_in_envelope. Qed.
Print Assumptions C14_default_hu_in_envelope.

Theorem C14_default_cu_in_envelope : forall dc dp l Tmin ds, l <> [] -> (forall t, In t l -> t < sentinel) ->
  (forall t, In t l -> Tmin - ds <= t) -> Tmin - (ds + dc + dp) <= fst (default_cu dc dp (cu_t_max l)).
Proof. exact default_cu_in_envelope. Qed.
Print Assumptions C14_default_cu_in_envelope.

(* ------------------------------------------------------------------ zone-type dispatch: one direct-integration record per zone *)

(* MAIN: for EVERY well-nested zone tree (sites hold sites and process zones, process zones hold process zones and unit operations)
   and either value of DO_DIRECT_OPERATION_TARGETING, the dispatch of main.py returns and leaves exactly the expected
   direct-integration records, each once *)
Theorem C14_dispatch_total : forall dop z, ok_site z ->
  exists keys, site_targets dop false z [] = Ok keys /\ Permutation keys (expected_di dop z).
Proof. exact dispatch_total. Qed.
Print Assumptions C14_dispatch_total.

(* non-vacuity: a three-level tree with nested process zones *)
Theorem C14_dispatch_witness :
  site_targets true false (ZNode KSite "Project" [ZNode KProcess "Z0" [ZNode KOp "O1" []; ZNode KOp "O2" []]; ZNode KProcess "Z1" [ZNode KProcess "Sub" [ZNode KOp "O1" []]]]) []
  = Ok ["Z1/Direct Integration"; "Sub/Direct Integration"; "O1/Direct Integration"; "Z0/Direct Integration"; "O2/Direct Integration";
        "O1/Direct Integration"; "Project/Direct Integration"]%string
  /\ ok_site (ZNode KSite "Project" [ZNode KProcess "Z0" [ZNode KOp "O1" []; ZNode KOp "O2" []]; ZNode KProcess "Z1" [ZNode KProcess "Sub" [ZNode KOp "O1" []]]]).
Proof. exact dispatch_witness. Qed.
Print Assumptions C14_dispatch_witness.

(* REFUTED (D30, open finding indirect-process-targeting-keyerror): with DO_INDIRECT_PROCESS_TARGETING every process zone whose subzones are
   unit operations named differently from it -- the shape synthesised for every problem without a user tree -- raises KeyError *)
Theorem C14_indirect_process_targeting_refuted : forall dop nm ops keys, ops <> [] -> Forall leaf_op ops ->
  (forall o, In o ops -> zname o <> nm) -> ~ In (di_key nm) keys -> (dop = false -> forall o, In o ops -> ~ In (di_key (zname o)) keys) ->
  process_targets dop true (ZNode KProcess nm ops) keys = Err EKey.
Proof. exact indirect_process_keyerror. Qed.
Print Assumptions C14_indirect_process_targeting_refuted.

Theorem C14_indirect_process_targeting_witness :
  site_targets false true (ZNode KSite "Project" [ZNode KProcess "Z0" [ZNode KOp "O1" []]]) [] = Err EKey
  /\ site_targets true true (ZNode KSite "Project" [ZNode KProcess "Z0" [ZNode KOp "O1" []]]) [] = Err EKey.
Proof. exact indirect_process_targeting_refuted. Qed.
Print Assumptions C14_indirect_process_targeting_witness.

(* REFUTED (open finding separator-only-zone-label-keyerror): a zone label made only of separators puts a unit operation directly under
   the site; its record is read by the site aggregation although it is only computed under DO_DIRECT_OPERATION_TARGETING *)
Theorem C14_unit_operation_under_site_witness :
  site_targets false false (ZNode KSite "Project" [ZNode KProcess "B" [ZNode KOp "O1" []]; ZNode KOp "O1" []]) [] = Err EKey
  /\ site_targets true false (ZNode KSite "Project" [ZNode KProcess "B" [ZNode KOp "O1" []]; ZNode KOp "O1" []]) []
     = Ok ["O1/Direct Integration"; "B/Direct Integration"; "O1/Direct Integration"; "Project/Direct Integration"]%string.
Proof. exact unit_operation_under_site_witness. Qed.
Print Assumptions C14_unit_operation_under_site_witness.
