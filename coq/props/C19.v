(* C19 -- Stream and stream-collection objects stay consistent under any use.
   Only statements; every proof is `exact <lemma>` from proofs/. *)
From OP Require Import gen.Consts model.Base model.Stream model.Collection proofs.StreamInv proofs.CollectionRefine.
From Coq Require Import String Permutation.
Local Open Scope Q_scope.

(* Stream: after ANY finite sequence of setter calls (temperatures, duty, contribution, coefficient,
   set_heat_flow) on a stream built from ANY numeric arguments: CP*(t_max - t_min) = duty, t_min < t_max,
   bounds are supply/target by kind, shifted bounds are the real ones moved by the contribution in the
   direction of the kind, and (for a non-zero coefficient) resistance * coefficient = 1. *)
Theorem C19_stream_invariant :
  forall ts0 tt0 dt0 q0 htc0 price0 ops, Inv (run_ops (mk_stream ts0 tt0 dt0 q0 htc0 price0) ops).
Proof. exact inv_reachable. Qed.
Print Assumptions C19_stream_invariant.

Theorem C19_stream_kind_follows_temperatures :
  forall s, Inv s -> (cold s = true <-> ts s < tt s).
Proof. exact kind_follows. Qed.
Print Assumptions C19_stream_kind_follows_temperatures.

(* the boolean predicate the check evaluates on states observed from the implementation is implied by Inv *)
Theorem C19_stream_predicate_complete : forall s, Inv s -> inv_b 0 s = true.
Proof. exact inv_b_sound. Qed.
Print Assumptions C19_stream_predicate_complete.

(* Collection: every state reachable from the empty collection by ANY operation sequence (failed operations
   leave the state unchanged) has duplicate-free keys and a coherent lazy sort cache. *)
Theorem C19_collection_invariant : forall ops, CInv (reach empty_coll ops).
Proof. intro ops. exact (reach_inv ops empty_coll empty_inv). Qed.
Print Assumptions C19_collection_invariant.

Theorem C19_add_never_loses_or_replaces :
  forall c x key, CInv c ->
  exists c', cstep c (CAdd x key true) = Ok (c', ONone) /\ values c' = values c ++ [x] /\ skey c' = skey c /\ srev c' = srev c.
Proof. exact add_spec. Qed.
Print Assumptions C19_add_never_loses_or_replaces.

Theorem C19_add_many_keeps_all :
  forall c xs, CInv c -> exists c', cstep c (CAddMany xs None true) = Ok (c', ONone) /\ values c' = values c ++ xs.
Proof. exact add_many_spec. Qed.
Print Assumptions C19_add_many_keeps_all.

Theorem C19_replace_keeps_all :
  forall c xs, exists c', cstep c (CReplace xs) = Ok (c', ONone) /\ values c' = xs.
Proof. exact replace_spec. Qed.
Print Assumptions C19_replace_keeps_all.

Theorem C19_concat_holds_both :
  forall c other, exists c', cstep c (CConcat other) = Ok (c', ONone) /\ values c' = values c ++ map snd other.
Proof. exact concat_spec. Qed.
Print Assumptions C19_concat_holds_both.

Theorem C19_len_is_member_count : forall c, cstep c CLen = Ok (c, ONat (List.length (values c))).
Proof. exact len_spec. Qed.
Print Assumptions C19_len_is_member_count.

Theorem C19_iter_is_sorted_permutation :
  forall c, CInv c ->
  exists c' ids, cstep c CIter = Ok (c', OIds ids) /\ ids = map mid (cache c')
    /\ Permutation (cache c') (values c) /\ sorted_b (keeps_front (skey c) (srev c)) (cache c') = true
    /\ items c' = items c.
Proof. exact iter_spec. Qed.
Print Assumptions C19_iter_is_sorted_permutation.

Theorem C19_remove_removes_only_that_key :
  forall c k, CInv c -> In k (keys (items c)) ->
  exists c', cstep c (CRemove k) = Ok (c', ONone) /\
    items c' = filter (fun p => negb (String.eqb k (fst p))) (items c) /\ ~ In k (keys (items c')).
Proof. exact remove_spec. Qed.
Print Assumptions C19_remove_removes_only_that_key.

Theorem C19_fresh_key_always_found :
  forall base it, exists k, fresh (S (List.length it)) base 1 it = Some k /\ ~ In k (keys it).
Proof. exact fresh_total. Qed.
Print Assumptions C19_fresh_key_always_found.

(* D60: iteration in key order is NOT preserved when a member's own sort attribute is assigned while it sits in the collection
   (the collection's cached order is not invalidated): members with t_supply 200 and 150, iterate, assign 300 to the second,
   iterate again -> still [first; second] although the default order is descending t_supply.  Replayed on the implementation
   by the member_mutation suite on every run. *)
Theorem C19_member_assignment_stale_order_refuted :
  let ms := [mkM 0 "A" [200; 100; 10]; mkM 1 "B" [150; 100; 10]] in
  map mid (iter_after_mutation ms 1 [300; 100; 10]) = [0%nat; 1%nat]
  /\ sorted_b (keeps_front [0%nat] true) (iter_after_mutation ms 1 [300; 100; 10]) = false.
Proof. vm_compute. split; reflexivity. Qed.
Print Assumptions C19_member_assignment_stale_order_refuted.
