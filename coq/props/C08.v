(* C08 -- Inserting temperature intervals never changes any curve.
   Only statements; every proof is `exact <lemma>` from proofs/Insert*.v.

   `insert t reqs` = model of ProblemTable.insert_temperature_interval at the tolerance of the source (gen.Consts.tol):
   (new table, number of rows added).  `run t reqss` = a history of calls.  A table is a list of rows, hottest first;
   cells are `option Q` (None = NaN); `hcell j r` is the j-th interpolated column (order of INTERPOLATION_KEYS) of row r;
   `pl (pts j t)` is that column read as a piecewise-linear function of temperature (end values outside the table).
   `WF tol t` = the table is not empty and every row is more than tol colder than the row above it.
   All theorems hold for EVERY table of any size and EVERY request list (induction; no size bound). *)
From OP Require Import gen.Consts model.Base model.Insert proofs.BaseFacts proofs.Insert proofs.InsertCurve proofs.InsertSeq proofs.InsertPL proofs.ComposeInsertCalls.
From Coq Require Import Permutation.
Local Open Scope Q_scope.

(* every column role of the 43-column table is covered exactly once by the generated role lists *)
Theorem C08_roles : roles_ok = true.
Proof. exact roles_wellformed. Qed.
Print Assumptions C08_roles.

(* curves_unchanged: a fully populated curve column stays fully populated and, as a function of temperature, is the same
   function at EVERY abscissa y (not only at row temperatures): above, inside and below the old range. *)
Theorem C08_curves_unchanged :
  forall t reqs j, WF tol t -> populated j t ->
  populated j (fst (insert t reqs)) /\ forall y, pl (pts j (fst (insert t reqs))) y == pl (pts j t) y.
Proof. intros t reqs j. exact (insert_curves tol tol_nonneg j t reqs). Qed.
Print Assumptions C08_curves_unchanged.

(* NaN rule: a curve column that is NaN in every row is NaN in every row afterwards (cell rule of the code: a new inside
   cell is NaN iff the cell of the lower neighbour is NaN; edge cells copy the old first/last row). *)
Theorem C08_nan_stays_nan : forall t reqs j, allnan j t -> allnan j (fst (insert t reqs)).
Proof. intros t reqs j. exact (insert_allnan tol j t reqs). Qed.
Print Assumptions C08_nan_stays_nan.

Theorem C08_nan_cell_rule :
  forall u l x j,
  (hcell j (mid_row tol u l x) = None <-> hcell j l = None)
  /\ (hcell j u = None -> hcell j (mid_row tol u l x) = hcell j l)
  /\ (forall n, hcell j (edge_row n x) = hcell j n).
Proof. exact (nan_cell_rule tol). Qed.
Print Assumptions C08_nan_cell_rule.

(* sorted_sep: rows stay strictly descending with gaps > tol (no duplicates within tolerance), table stays non-empty *)
Theorem C08_sorted_sep : forall t reqs, WF tol t -> WF tol (fst (insert t reqs)).
Proof. exact (insert_WF tol). Qed.
Print Assumptions C08_sorted_sep.

(* old_rows_kept: every old row is still there with the same temperature, curve cells, heat capacities and other cells
   (only its width and enthalpy change are re-derived) *)
Theorem C08_old_rows_kept : forall t reqs r, In r t -> exists r', In r' (fst (insert t reqs)) /\ core r' = core r.
Proof. exact (insert_keeps tol). Qed.
Print Assumptions C08_old_rows_kept.

(* every row temperature afterwards is an old one or a requested one *)
Theorem C08_new_rows_requested :
  forall t reqs z, t <> [] -> In z (map rT (fst (insert t reqs))) -> In z (map rT t) \/ In z reqs.
Proof. exact (insert_new_requested tol). Qed.
Print Assumptions C08_new_rows_requested.

(* every requested temperature is afterwards within tol of a row *)
Theorem C08_requests_present :
  forall t reqs x, t <> [] -> In x reqs -> exists r, In r (fst (insert t reqs)) /\ Qabs (rT r - x) <= tol.
Proof. exact (insert_requests_present tol tol_nonneg). Qed.
Print Assumptions C08_requests_present.

(* count: the returned number is the number of rows added *)
Theorem C08_count :
  forall t reqs, t <> [] -> List.length (fst (insert t reqs)) = (List.length t + snd (insert t reqs))%nat.
Proof. exact (insert_length tol). Qed.
Print Assumptions C08_count.

(* a call that returns 0 leaves the table untouched *)
Theorem C08_zero_means_untouched : forall t reqs, snd (insert t reqs) = 0%nat -> fst (insert t reqs) = t.
Proof. exact (insert_zero tol). Qed.
Print Assumptions C08_zero_means_untouched.

(* widths: after a call that added a row (or on a table whose widths were right), every row but the first has
   width = temperature of the row above - own temperature.  (The first row has no row above; the code leaves it 0, the gap
   below it, or untouched -- modelled as is, outside the statement.) *)
Theorem C08_widths :
  forall t reqs, (0 < snd (insert t reqs))%nat \/ widths_ok t -> widths_ok (fst (insert t reqs)).
Proof. exact (insert_widths tol). Qed.
Print Assumptions C08_widths.

(* dh: ... and enthalpy change = heat capacity * width for each of the three pairs (NaN * x = NaN) *)
Theorem C08_dh :
  forall t reqs, (0 < snd (insert t reqs))%nat \/ dh_ok t -> dh_ok (fst (insert t reqs)).
Proof. exact (insert_dh tol). Qed.
Print Assumptions C08_dh.

Theorem C08_dh_cellwise : forall r, dh_row r -> forall j, nth j (rDH r) None = omul (rDT r) (nth j (rCP r) None).
Proof. exact dh_row_cells. Qed.
Print Assumptions C08_dh_cellwise.

(* idempotent: repeating a call adds nothing and changes nothing *)
Theorem C08_idempotent :
  forall t reqs, t <> [] -> insert (fst (insert t reqs)) reqs = (fst (insert t reqs), 0%nat).
Proof. exact (insert_idempotent tol tol_nonneg). Qed.
Print Assumptions C08_idempotent.

(* re-inserting temperatures already present (within tol of a row) adds nothing *)
Theorem C08_present_adds_nothing :
  forall t reqs, (forall x, In x reqs -> exists r, In r t /\ Qabs (rT r - x) <= tol) -> insert t reqs = (t, 0%nat).
Proof. exact (insert_present_noop tol). Qed.
Print Assumptions C08_present_adds_nothing.

(* sequence: over ANY history of calls, relative to the initial table t0 and with n = total of the returned counts:
   rows strictly descending with gaps > tol; |table| = |t0| + n; every populated curve column is the same function of
   temperature as at the start; all-NaN columns stay NaN; every initial row is kept; and as soon as one row was added
   (or if the initial table was consistent) widths and enthalpy changes are consistent. *)
Theorem C08_sequence :
  forall t0 reqss, WF tol t0 -> history_inv tol t0 (fst (run t0 reqss)) (snd (run t0 reqss)).
Proof. intros t0 reqss. exact (history_invariant tol tol_nonneg t0 reqss). Qed.
Print Assumptions C08_sequence.

(* OPEN: order_irrelevant -- "the final table depends only on the set of requested temperatures modulo tol-clustering,
   whatever the order of requests and their split into calls".  Not true as stated for the code: clustering within tol is
   greedy from the hottest request of a call, so which member of a cluster survives depends on what else is in the same
   call, and a request placed between a previously added top row and the old first row copies the old first row's heat
   capacity instead of 0.  Proved part: inside one call the order of pairwise different requests is irrelevant
   (in particular of requests more than 2*tol apart).  ACROSS calls the strongest true statements are at the end of this
   file: C08_any_split_same_rows / C08_calls_vs_one_call (under a spacing condition that C08_split_needs_spacing_refuted
   shows is needed) and C08_histories_agree_on_interpolated_cells (no condition). *)
Theorem C08_order_irrelevant_partial :
  forall t r1 r2, Permutation r1 r2 -> distinct r1 -> insert t r1 = insert t r2.
Proof. exact (insert_perm tol). Qed.
Print Assumptions C08_order_irrelevant_partial.

(* witness for the OPEN clause: the same two requests in one call or in two calls give different heat-capacity cells *)
Theorem C08_order_across_calls_refuted :
  map rCP (fst (run ex_t2 [[110]; [105]])) = [[Some 0]; [Some 2]; [Some 2]; [Some 2]]
  /\ map rCP (fst (run ex_t2 [[110; 105]])) = [[Some 0]; [Some 0]; [Some 2]; [Some 2]].
Proof. exact ex_split_calls_differ. Qed.
Print Assumptions C08_order_across_calls_refuted.

Theorem C08_apart_is_distinct : forall l, apart tol l -> distinct l.
Proof. exact (apart_distinct tol tol_nonneg). Qed.
Print Assumptions C08_apart_is_distinct.

(* the boolean predicates the check evaluates on tables observed from the implementation are implied by the Prop ones *)
Theorem C08_predicates_complete :
  forall t, (WF tol t -> sepd_b tol (map rT t) = true) /\ (widths_ok t -> widths_b 0 t = true) /\ (dh_ok t -> dh_b 0 t = true).
Proof. intro t. exact (conj (WF_b_complete tol t) (conj (widths_b_complete t) (dh_b_complete t))). Qed.
Print Assumptions C08_predicates_complete.

(* non-vacuity: a 4-row table in the domain with a populated and an all-NaN curve column; one call with a duplicate, a
   present temperature, an off-centre inside insert, one above and two below adds exactly 4 rows with the right widths *)
Theorem C08_example_in_domain : WF tol ex_t /\ (populated 0 ex_t /\ allnan 1 ex_t /\ widths_ok ex_t /\ dh_ok ex_t).
Proof. exact (conj ex_wf ex_populated). Qed.
Print Assumptions C08_example_in_domain.

Theorem C08_example_call :
  let r := insert ex_t [50; 120; 50; -10; -30; 60 + (1 # 2097152)] in
  map rT (fst r) = [120; 100; 60; 50; 20; 0; -10; -30] /\ snd r = 4%nat
  /\ map rDT (fst r) = [Some 20; Some 20; Some 40; Some 10; Some 30; Some 20; Some 10; Some 20]
  /\ map (hcell 0) (fst r) = [Some 130; Some 130; Some 50; Some 40; Some 10; Some 0; Some 0; Some 0].
Proof. exact ex_insert. Qed.
Print Assumptions C08_example_call.

(* ------------------------------------------------------------------ across calls (proofs/ComposeInsertCalls.v)
   `spaced tol l`: the members of l are pairwise more than tol apart.  `concat reqss` = all requests of a history in one list.
   `far tol t x` = x is more than tol away from every row of t (requests that are not are dropped by every call). *)

(* ANY split of the requests into calls, in any order, gives the same temperature column and the same total count as ONE
   call with all of them -- provided the requests that are not within tol of an original row are pairwise more than tol
   apart.  (No condition relative to the original rows: such requests are dropped either way.) *)
Theorem C08_any_split_same_rows :
  forall t reqss, WF tol t -> spaced tol (filter (far tol t) (concat reqss)) ->
  map rT (fst (run t reqss)) = map rT (fst (insert t (concat reqss)))
  /\ snd (run t reqss) = snd (insert t (concat reqss)).
Proof. exact (run_T_one_call tol tol_nonneg). Qed.
Print Assumptions C08_any_split_same_rows.

(* the spacing condition is needed: two requests 2.4e-7 apart -- in two calls the first call's request survives, in one call
   the hotter one *)
Theorem C08_split_needs_spacing_refuted :
  map rT (fst (run ex_t2 [[80]; [80 + (1 # 4194304)]])) = [100; 80; 60]
  /\ map rT (fst (insert ex_t2 [80; 80 + (1 # 4194304)])) = [100; 335544321 # 4194304; 60].
Proof. exact split_needs_spacing. Qed.
Print Assumptions C08_split_needs_spacing_refuted.

(* with NO side condition: two arbitrary histories A and B from the same table agree on every interpolated cell of rows that
   have the same temperature: equal numbers (==) in every populated column, NaN in every all-NaN column *)
Theorem C08_histories_agree_on_interpolated_cells :
  forall j t0 A B rA rB, WF tol t0 ->
  In rA (fst (run t0 A)) -> In rB (fst (run t0 B)) -> rT rA = rT rB ->
  (populated j t0 -> exists qa qb, hcell j rA = Some qa /\ hcell j rB = Some qb /\ qa == qb)
  /\ (allnan j t0 -> hcell j rA = None /\ hcell j rB = None).
Proof. exact (histories_agree_on_cells tol tol_nonneg). Qed.
Print Assumptions C08_histories_agree_on_interpolated_cells.

(* together: any split into calls against one call -- the two tables have the same rows (temperatures), position by position,
   with == cells in every populated interpolated column and NaN in every all-NaN one (cells_agree), and the same count.
   What may differ is confined to the heat-capacity / other columns (C08_order_across_calls_refuted) and, through them,
   the enthalpy-change columns, and to the width of the first row (below). *)
Theorem C08_calls_vs_one_call :
  forall t reqss, WF tol t -> spaced tol (filter (far tol t) (concat reqss)) ->
  Forall2 (cells_agree t) (fst (run t reqss)) (fst (insert t (concat reqss)))
  /\ snd (run t reqss) = snd (insert t (concat reqss)).
Proof. exact (calls_vs_one_call tol tol_nonneg). Qed.
Print Assumptions C08_calls_vs_one_call.

(* the first row's width after ONE call on a table r0 :: rs, by cases (first_row_cases):
   A nothing added above or directly below the first row: it keeps temperature and width (whatever the width was);
   B exactly one row added above: it is the new first row, width = its temperature - the old first temperature;
   C two or more rows added above: the new first row has width 0;
   D none above, a row added directly below (rs not empty): width = first temperature - new second temperature. *)
Theorem C08_first_row_width_one_call :
  forall r0 rs reqs, first_row_cases r0 rs (fst (insert (r0 :: rs) reqs)).
Proof. exact (insert_first_row_cases tol tol_nonneg). Qed.
Print Assumptions C08_first_row_width_one_call.

(* ... and after ANY history: the width of the first row is the width the ORIGINAL first row carried (never recomputed), or 0,
   or the distance from the first row to the row directly below it *)
Theorem C08_first_row_width_any_history :
  forall t0 reqss,
  match fst (run t0 reqss) with
  | [] => True
  | r0 :: rs => rDT r0 = match t0 with a :: _ => rDT a | [] => None end \/ rDT r0 = Some 0
                \/ (exists r1 rest d, rs = r1 :: rest /\ rDT r0 = Some d /\ d == rT r0 - rT r1)
  end.
Proof. exact (history_first_width tol tol_nonneg). Qed.
Print Assumptions C08_first_row_width_any_history.

(* all cases occur: a table whose first row carries the width 7 *)
Theorem C08_first_row_width_examples :
  map rDT (fst (insert ex_t3 [50; 30])) = [Some 7; Some 40; Some 10; Some 20]
  /\ map rDT (fst (insert ex_t3 [120])) = [Some 20; Some 20; Some 40]
  /\ map rDT (fst (insert ex_t3 [120; 130])) = [Some 0; Some 10; Some 20; Some 40]
  /\ map rDT (fst (insert ex_t3 [80; 90])) = [Some 10; Some 10; Some 10; Some 20]
  /\ map rDT (fst (run ex_t3 [[90]; [95]; [20]])) = [Some 5; Some 5; Some 5; Some 30; Some 40].
Proof. exact first_width_witnesses. Qed.
Print Assumptions C08_first_row_width_examples.
