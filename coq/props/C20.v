(* C20 -- Effectiveness-NTU and LMTD relations are mutually consistent.
   Only statements; every proof is `exact <lemma>` from proofs/.  The functions HX_Eff_R, HX_NTU_R, eff_*, ntu_*,
   MultiPass*_R, compute_LMTD_from_dts_R, secant and the dispatch tables are GENERATED from /repo on every run
   (gen/Scalar.v, gen/HxDispatch.v), over Coq's real numbers. *)
From Coq Require Import Reals Bool.
From OP Require Import gen.Consts gen.HxDispatch gen.Scalar model.HX
  proofs.HXBase proofs.HXBranch proofs.HXShell proofs.HXFull proofs.HXSecant proofs.HXRefute proofs.HXLeCF proofs.HXLeCF2 proofs.HXRange2 proofs.LMTD proofs.LMTDts.
Local Open Scope R_scope.

(* Every arrangement the library names, passed as the enum member or as its text, reaches its own branch of HX_Eff and
   its own branch of HX_NTU (the table is computed from the if/elif chains and the normalisation line of the source). *)
Theorem C20_dispatch_total : forall a f,
  Some (eff_dispatch (mk_label a f)) = eff_own a /\ Some (ntu_dispatch (mk_label a f)) = ntu_own a.
Proof. exact dispatch_total. Qed.
Print Assumptions C20_dispatch_total.

(* NTU computed from an effectiveness returns that NTU: for the six arrangements inverted in closed form, either label
   form, every NTU > 0, every capacity ratio in [0,1] (c = 0 and c = 1 branches included), every number of passes > 0
   (so in particular 1..4), through the multi-pass conversion in both functions. *)
Theorem C20_ntu_of_eff : forall a f N c P, closed_form a = true -> 0 < N -> 0 <= c <= 1 -> 0 < P ->
  HX_NTU_R (mk_label a f) (HX_Eff_R (mk_label a f) N c P) c P = Some N.
Proof. exact HX_ntu_eff. Qed.
Print Assumptions C20_ntu_of_eff.

(* ... and vice versa, for every effectiveness whose single-pass equivalent is reachable by the arrangement at ratio c *)
Theorem C20_eff_of_ntu : forall a f e c P n, closed_form a = true -> 0 < e < 1 -> 0 <= c <= 1 -> 0 < P ->
  (c <> 0 -> reach a c (single e c P)) ->
  HX_NTU_R (mk_label a f) e c P = Some n -> HX_Eff_R (mk_label a f) n c P = e.
Proof. exact HX_eff_ntu. Qed.
Print Assumptions C20_eff_of_ntu.

(* the reachable range is exactly what the effectiveness function attains (so the previous theorem is not vacuous):
   single-pass effectiveness of each closed-form arrangement lies strictly inside it *)
Theorem C20_reach_attained : forall N c, 0 < N -> 0 < c <= 1 ->
  reach hx_PF c (eff_PF N c) /\ reach hx_CrFMUmax c (eff_CrFMUmax N c) /\ reach hx_CrFMUmin c (eff_CrFMUmin N c)
  /\ reach hx_ShellTube c (eff_ShellTube N c).
Proof. exact reach_attained. Qed.
Print Assumptions C20_reach_attained.

(* the multi-pass conversion pair is an inverse pair in both directions, for any real number of passes > 0 *)
Theorem C20_multipass_inverse : forall e c P, 0 < e < 1 -> 0 <= c <= 1 -> 0 < P ->
  MultiPassNTU_R (MultiPassEff_R e c P) c P = e /\ MultiPassEff_R (MultiPassNTU_R e c P) c P = e.
Proof. exact multipass_inverse_both. Qed.
Print Assumptions C20_multipass_inverse.

(* effectiveness lies in (0,1) for NTU > 0 (closed-form arrangements, any passes) and is 0 for NTU <= 0 (any label) *)
Theorem C20_eff_range : forall a f N c P, closed_form a = true -> 0 < N -> 0 <= c <= 1 -> 0 < P ->
  0 < HX_Eff_R (mk_label a f) N c P < 1.
Proof. exact HX_eff_range. Qed.
Print Assumptions C20_eff_range.
Theorem C20_eff_zero_below : forall l N c, N <= 0 -> HX_Eff_R l N c 1 = 0.
Proof. exact HX_eff_nonpos. Qed.
Print Assumptions C20_eff_zero_below.

(* effectiveness strictly increases with NTU (closed-form arrangements, any passes) *)
Theorem C20_eff_monotone : forall a f N1 N2 c P, closed_form a = true -> 0 < N1 -> N1 < N2 -> 0 <= c <= 1 -> 0 < P ->
  HX_Eff_R (mk_label a f) N1 c P < HX_Eff_R (mk_label a f) N2 c P.
Proof. exact HX_eff_monotone. Qed.
Print Assumptions C20_eff_monotone.

(* at zero capacity ratio every label (even an unknown text) gives 1 - exp(-NTU), for any number of passes >= 1 *)
Theorem C20_eff_c0 : forall l N P, 0 < N -> 1 <= P -> HX_Eff_R l N 0 P = 1 - exp (- N).
Proof. exact HX_Eff_c0. Qed.
Print Assumptions C20_eff_c0.

(* numerical inversion (cross-flow both unmixed / both mixed): whatever is returned has residual <= the tolerance read
   from the source (the double 1e-5); convergence is not claimed *)
Theorem C20_secant_postcondition : forall g e n, secant g e = Some n -> Rabs (e - g n) <= sec_eps.
Proof. exact secant_postcondition. Qed.
Print Assumptions C20_secant_postcondition.
Theorem C20_numerical_ntu_post : forall l e c n, HX_NTU_Numerical_R l e c = Some n -> Rabs (e - HX_Eff_R l n c 1) <= sec_eps.
Proof. exact HX_NTU_Numerical_post. Qed.
Print Assumptions C20_numerical_ntu_post.

(* REFUTED clauses (open findings) *)
(* D15: "never exceeds the counter-flow value" is false for cross-flow both unmixed: eps(2, 1/2) > counter-flow + 0.02 *)
Theorem C20_eff_le_cf_CrFUU_refuted : ~ (forall N c, 0 < N -> 0 <= c <= 1 -> eff_CrFUU N c <= eff_CF N c).
Proof. exact eff_le_cf_CrFUU_refuted. Qed.
Print Assumptions C20_eff_le_cf_CrFUU_refuted.
(* D34: "does not decrease with NTU" is false for cross-flow both mixed: eps(10, 1/20) < eps(8, 1/20) *)
Theorem C20_eff_monotone_CrFMM_refuted : ~ (forall N1 N2 c, 0 < N1 -> N1 < N2 -> 0 <= c <= 1 -> eff_CrFMM N1 c <= eff_CrFMM N2 c).
Proof. exact eff_monotone_CrFMM_refuted. Qed.
Print Assumptions C20_eff_monotone_CrFMM_refuted.

(* LMTD: every accepted pair is positive and the result lies between the smaller end difference and the arithmetic mean
   (both the logarithmic branch and the np.isclose branch) *)
Theorem C20_lmtd_bounds : forall a b m, compute_LMTD_from_dts_R a b = Some m -> 0 < a /\ 0 < b /\ Rmin a b <= m <= (a + b) / 2.
Proof. exact lmtd_bounds. Qed.
Print Assumptions C20_lmtd_bounds.
(* refused for non-positive differences *)
Theorem C20_lmtd_refuses : forall a b, a <= 0 \/ b <= 0 -> compute_LMTD_from_dts_R a b = None.
Proof. exact lmtd_refuses. Qed.
Print Assumptions C20_lmtd_refuses.
(* equal differences give that difference *)
Theorem C20_lmtd_equal_branch : forall a m, compute_LMTD_from_dts_R a a = Some m -> m = a.
Proof. exact lmtd_equal_branch. Qed.
Print Assumptions C20_lmtd_equal_branch.
(* symmetric: acceptance always; the value whenever both argument orders take the same branch of np.isclose; in the
   remaining sliver (np.isclose is asymmetric in its relative term) the two results differ by at most |a-b|/2 <= 5e-6 |b| *)
Theorem C20_lmtd_sym : forall a b,
  (compute_LMTD_from_dts_R a b = None <-> compute_LMTD_from_dts_R b a = None) /\
  (forall m m', compute_LMTD_from_dts_R a b = Some m -> compute_LMTD_from_dts_R b a = Some m' ->
     (LMTD_isclose a b = LMTD_isclose b a -> m = m') /\ Rabs (m - m') <= Rabs (a - b) / 2).
Proof. exact lmtd_sym_all. Qed.
Print Assumptions C20_lmtd_sym.

(* the four-temperature entry point compute_LMTD_from_ts (also generated): what it accepts, what it refuses, its value,
   and invariance under a common shift of all four temperatures *)
Theorem C20_lmtd_ts_bounds : forall Thi Tho Tci Tco m, compute_LMTD_from_ts_R Thi Tho Tci Tco = Some m ->
  Tho <= Thi /\ Tci <= Tco /\ 0 < Thi - Tco /\ 0 < Tho - Tci /\
  Rmin (Thi - Tco) (Tho - Tci) <= m <= ((Thi - Tco) + (Tho - Tci)) / 2.
Proof. exact lmtd_ts_bounds. Qed.
Print Assumptions C20_lmtd_ts_bounds.
Theorem C20_lmtd_ts_refuses : forall Thi Tho Tci Tco, Thi < Tho \/ Tco < Tci \/ Thi <= Tco \/ Tho <= Tci ->
  compute_LMTD_from_ts_R Thi Tho Tci Tco = None.
Proof. exact lmtd_ts_refuses. Qed.
Print Assumptions C20_lmtd_ts_refuses.
Theorem C20_lmtd_ts_is_dts : forall Thi Tho Tci Tco, Tho <= Thi -> Tci <= Tco ->
  compute_LMTD_from_ts_R Thi Tho Tci Tco = compute_LMTD_from_dts_R (Thi - Tco) (Tho - Tci).
Proof. exact lmtd_ts_is_dts. Qed.
Print Assumptions C20_lmtd_ts_is_dts.
Theorem C20_lmtd_ts_translate : forall Thi Tho Tci Tco d,
  compute_LMTD_from_ts_R (Thi + d) (Tho + d) (Tci + d) (Tco + d) = compute_LMTD_from_ts_R Thi Tho Tci Tco.
Proof. exact lmtd_ts_translate. Qed.
Print Assumptions C20_lmtd_ts_translate.

(* "never exceeds the counter-flow value", branch by branch (single pass, same NTU, same capacity ratio).
   Parallel flow (all NTU > 0, all c in [0,1], via sinh(cN) <= c sinh N) and the condensing/evaporating arrangement,
   which ignores c and equals counter flow at c = 0 (and therefore lies ABOVE counter flow at the same c > 0: the sweep
   compares it with counter flow at c = 0). *)
Theorem C20_eff_le_cf_partial : forall N c, 0 < N -> 0 <= c <= 1 -> eff_PF N c <= eff_CF N c /\ eff_CondEvap N c = eff_CF N 0.
Proof. exact eff_le_cf_PF_CondEvap. Qed.
Print Assumptions C20_eff_le_cf_partial.

(* ... the two one-fluid-mixed cross-flow correlations and the shell-and-tube correlation, for every NTU > 0 and every
   0 < c <= 1 (the c = 1 branch N/(1+N) of counter flow included).  Each is a mean-value argument on a logarithm-free
   form G(N) >= 0, G(0) = 0, whose derivative has the sign of (1-c) e^{cN} + c e^{-(1-c)N} - 1 >= 0 (cross flow), resp. on
   u coth u being non-decreasing (shell and tube: d coth(N d/2) >= (1-c) coth(N (1-c)/2) with d = sqrt(1+c^2) >= 1-c). *)
Theorem C20_eff_le_cf_closed_forms : forall N c, 0 < N -> 0 < c <= 1 ->
  eff_CrFMUmax N c <= eff_CF N c /\ eff_CrFMUmin N c <= eff_CF N c /\ eff_ShellTube N c <= eff_CF N c.
Proof. exact eff_le_cf_closed_forms. Qed.
Print Assumptions C20_eff_le_cf_closed_forms.

(* ... and cross flow with both fluids mixed (numerically inverted arrangement): with phi(u) = u coth u - 1 >= 0
   non-decreasing, 1/eps_mm - 1/eps_cf = (phi(N/2) + phi(cN/2) - phi((1-c)N/2)) / N >= 0 *)
Theorem C20_eff_le_cf_CrFMM : forall N c, 0 < N -> 0 < c <= 1 -> eff_CrFMM N c <= eff_CF N c.
Proof. exact eff_CrFMM_le_CF. Qed.
Print Assumptions C20_eff_le_cf_CrFMM.

(* the same through the whole function: every arrangement except cross-flow-both-unmixed (refuted above, D15) and
   CondEvap (compared at c = 0, next theorem), either label form on either side, every NTU > 0, every c in [0,1] (c = 0
   branch included), (a) any real number of passes P > 0 on both sides, (b) P >= 1 passes against SINGLE-pass counter flow
   at the same total NTU -- what clause 3 of judge_eff_row evaluates on the implementation -- because P counter-flow
   passes in series are one counter-flow exchanger: MultiPassEff(eff_CF(N/P, c), c, P) = eff_CF(N, c). *)
Theorem C20_eff_le_cf : forall a f f' N c P, le_cf_form a = true -> 0 < N -> 0 <= c <= 1 -> 0 < P ->
  HX_Eff_R (mk_label a f) N c P <= HX_Eff_R (mk_label hx_CF f') N c P.
Proof. exact HX_eff_le_cf. Qed.
Print Assumptions C20_eff_le_cf.
Theorem C20_eff_le_cf_single_pass_reference : forall a f f' N c P, le_cf_form a = true -> 0 < N -> 0 <= c <= 1 -> 1 <= P ->
  HX_Eff_R (mk_label a f) N c P <= HX_Eff_R (mk_label hx_CF f') N c 1.
Proof. exact HX_eff_le_cf1. Qed.
Print Assumptions C20_eff_le_cf_single_pass_reference.
Theorem C20_counter_flow_passes : forall f N c P, 0 < N -> 0 <= c <= 1 -> 1 <= P ->
  HX_Eff_R (mk_label hx_CF f) N c P = HX_Eff_R (mk_label hx_CF f) N c 1.
Proof. exact HX_Eff_CF_passes. Qed.
Print Assumptions C20_counter_flow_passes.
(* the set `le_cf_form` is exactly: all arrangements but CrFUU and CondEvap *)
Theorem C20_le_cf_form_spec : forall a, le_cf_form a = true <-> (a <> hx_CrFUU /\ a <> hx_CondEvap).
Proof. exact le_cf_form_spec. Qed.
Print Assumptions C20_le_cf_form_spec.
(* CondEvap, single pass, any c: equals counter flow at c = 0 (whole function, either label form on either side) *)
Theorem C20_eff_CondEvap_cf0 : forall f f' N c, 0 < N -> 0 <= c <= 1 ->
  HX_Eff_R (mk_label hx_CondEvap f) N c 1 = HX_Eff_R (mk_label hx_CF f') N 0 1.
Proof. exact HX_eff_CondEvap_cf0. Qed.
Print Assumptions C20_eff_CondEvap_cf0.

(* range (0,1) of the both-mixed cross-flow correlation: branch (every NTU > 0, every c > 0) and whole function (either
   label form, c in [0,1], any passes P > 0).  Its monotonicity in NTU is REFUTED above (D34). *)
Theorem C20_eff_range_CrFMM_branch : forall N c, 0 < N -> 0 < c -> 0 < eff_CrFMM N c < 1.
Proof. exact eff_CrFMM_range. Qed.
Print Assumptions C20_eff_range_CrFMM_branch.
Theorem C20_eff_range_CrFMM : forall f N c P, 0 < N -> 0 <= c <= 1 -> 0 < P -> 0 < HX_Eff_R (mk_label hx_CrFMM f) N c P < 1.
Proof. exact HX_eff_range_CrFMM. Qed.
Print Assumptions C20_eff_range_CrFMM.

(* for c > 0 the CondEvap formula (which ignores c) lies strictly ABOVE counter flow at the same c: for this arrangement
   "never exceeds the counter-flow value" holds only against counter flow at c = 0 (previous theorem), which is how the
   sweep evaluates it *)
Theorem C20_eff_CondEvap_above_cf_same_c : forall N c, 0 < N -> 0 < c <= 1 -> eff_CF N c < eff_CondEvap N c.
Proof. exact eff_CF_lt_CondEvap. Qed.
Print Assumptions C20_eff_CondEvap_above_cf_same_c.

(* range of the 20-term series of cross flow both unmixed AS IT IS in the source (inner sum stops at j = i - 1, D15), for
   every NTU >= 0 and every c >= 0:  (1 - e^{-N}) e^{-cN} <= eps <= 1 - e^{-N}  (the upper bound is counter flow at c = 0);
   so 0 < eps < 1 for NTU > 0.  The generated expression is first proved equal to a generic double sum. *)
Theorem C20_eff_CrFUU_bounds : forall N c, 0 <= N -> 0 <= c -> (1 - exp (- N)) * exp (- (c * N)) <= eff_CrFUU N c <= 1 - exp (- N).
Proof. exact eff_CrFUU_bounds. Qed.
Print Assumptions C20_eff_CrFUU_bounds.
Theorem C20_eff_range_CrFUU_branch : forall N c, 0 < N -> 0 <= c -> 0 < eff_CrFUU N c < 1.
Proof. exact eff_CrFUU_range. Qed.
Print Assumptions C20_eff_range_CrFUU_branch.

(* effectiveness lies in (0,1) for EVERY arrangement (the two numerically inverted ones included), either label form,
   every NTU > 0, every c in [0,1], any passes P > 0 *)
Theorem C20_eff_range_all : forall a f N c P, 0 < N -> 0 <= c <= 1 -> 0 < P -> 0 < HX_Eff_R (mk_label a f) N c P < 1.
Proof. exact HX_eff_range_all. Qed.
Print Assumptions C20_eff_range_all.

(* the 20-term series of cross flow both unmixed, as it is in the source, is STRICTLY increasing in NTU on [0, oo) for every
   c in [0,1]: its NTU-derivative is e^{-(1+c)N} (e^{cN} - (S' - (1+c) S)) and S' - (1+c) S <= e^{cN} - 1 (row-wise
   coefficient identities of the series, AM-GM on the boundary terms, partial sums of exp below exp) *)
Theorem C20_eff_monotone_CrFUU_branch : forall N1 N2 c, 0 <= N1 -> N1 < N2 -> 0 <= c <= 1 -> eff_CrFUU N1 c < eff_CrFUU N2 c.
Proof. exact eff_CrFUU_mono. Qed.
Print Assumptions C20_eff_monotone_CrFUU_branch.

(* effectiveness strictly increases with NTU for every arrangement except cross flow both mixed (refuted above, D34),
   either label form, every c in [0,1], any passes P > 0 *)
Theorem C20_eff_monotone_all : forall a f N1 N2 c P, mono_form a = true -> 0 < N1 -> N1 < N2 -> 0 <= c <= 1 -> 0 < P ->
  HX_Eff_R (mk_label a f) N1 c P < HX_Eff_R (mk_label a f) N2 c P.
Proof. exact HX_eff_monotone_all. Qed.
Print Assumptions C20_eff_monotone_all.
Theorem C20_mono_form_spec : forall a, mono_form a = true <-> a <> hx_CrFMM.
Proof. exact mono_form_spec. Qed.
Print Assumptions C20_mono_form_spec.

(* Nothing of "range / monotone in NTU / never exceeds counter flow" is OPEN any more: for each of the eight arrangements
   every clause is either proved for all NTU > 0, c in [0,1] (theorems above) or refuted by an interval-checked witness
   (D15: CrFUU exceeds counter flow; D34: CrFMM is not monotone).  CondEvap is compared with counter flow at c = 0.
   Still outside the theorems: convergence of the secant inversion (only its postcondition), IEEE rounding. *)
