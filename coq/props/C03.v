(* C03 -- multi-utility targeting allocates exactly the target duty.
   Only statements; every proof is `exact <lemma>` from proofs/Utility*.v.  All theorems are about the executable model
   coq/model/Utility.v (tied to /repo by the correspondence suites of harness/props/c03.py), instantiated at the
   generated constant `tol`; none bounds the number of rows or utilities. *)
From OP Require Import gen.Consts model.Base model.Stream model.Utility
  proofs.BaseFacts proofs.UtilityLadder proofs.UtilityDuty proofs.UtilityProfile proofs.UtilityWitness.
Local Open Scope Q_scope.

(* Every duty the loop of _assign_utility writes is non-negative: any profile, any ladder (glides included),
   any starting total. *)
Theorem C03_duties_nonneg :
  forall ivs limit l qa, Forall (fun q => 0 <= q) (assign_loop tol ivs limit l qa).
Proof. exact (assign_nonneg tol tol_pos). Qed.
Print Assumptions C03_duties_nonneg.

Theorem C03_duties_nonneg_hot : forall T H rh hus, Forall (fun q => 0 <= q) (assign_hot tol T H rh hus).
Proof. exact (assign_hot_nonneg tol tol_pos). Qed.
Print Assumptions C03_duties_nonneg_hot.
Theorem C03_duties_nonneg_cold : forall T H rc cus, Forall (fun q => 0 <= q) (assign_cold tol T H rc cus).
Proof. exact (assign_cold_nonneg tol tol_pos). Qed.
Print Assumptions C03_duties_nonneg_cold.

(* No duty out of reach: a utility that receives duty has a segment interval whose supply-side end its supply
   temperature reaches (within tol), whose enthalpy changes, and which carries more than tol of demand. *)
Theorem C03_no_duty_out_of_reach :
  forall ivs limit l qa, 0 <= qa ->
  Forall2 (fun u q => 0 < q -> exists v, In v ivs /\ reachv tol (us u) v = true /\ tol < hadj v)
          l (assign_loop tol ivs limit l qa).
Proof. exact (assign_reach tol tol_pos). Qed.
Print Assumptions C03_no_duty_out_of_reach.

(* Never over-allocated: on a pocket-free segment (rows strictly descending, demand monotone towards the pinch) the
   duties of ANY ladder -- gliding utilities, any order, any levels -- sum to at most the target. *)
Theorem C03_never_over_allocated_hot :
  forall T H rh hus, let Ts := firstn (S rh) T in let Hs := firstn (S rh) H in
  strict_desc Ts = true -> noninc Hs = true -> 0 <= headq Hs -> qsum (assign_hot tol T H rh hus) <= headq Hs.
Proof. exact (assign_hot_sum_le tol tol_pos). Qed.
Print Assumptions C03_never_over_allocated_hot.
Theorem C03_never_over_allocated_cold :
  forall T H rc cus, let k := Nat.max (rc - 1) 0 in let Ts := skipn k T in let Hs := skipn k H in
  strict_desc Ts = true -> noninc (rev Hs) = true -> 0 <= lastq Hs -> qsum (assign_cold tol T H rc cus) <= lastq Hs.
Proof. exact (assign_cold_sum_le tol tol_pos). Qed.
Print Assumptions C03_never_over_allocated_cold.

(* The sum closes (C03_sum, telescoping): if ONE utility of the ladder is clear of the grid (its end points are rows: no row
   strictly inside its temperature range) and its supply level reaches the top row of the hot segment, the hot duties sum
   to Qh = H[0] up to tol -- whatever the other utilities are.  Symmetric for the cold side and Qc = H[last].
   OPEN: "for every direct-integration target the sums close" (the property's full clause) is NOT proved as one theorem.
   (i) DISCHARGED AS FAR AS IT IS TRUE by the composition with the grid model at the end of this file
   (proofs/ComposeGridUtility.v): the grid built by create_problem_table_with_t_int (model: grid_of) is strictly descending,
   consists of rounded input end points only and contains both rounded end points of every utility (C03_model_grid_rows);
   `clear of the grid` is EQUIVALENT to the input-level condition `isolated` = no stream/utility end point rounds strictly
   inside the utility's range nor within tol above its top (C03_clear_iff_isolated_hot, _cold); hence the sums close on the model
   grid for the entry points target_hot / target_cold (C03_sum_closes_on_model_grid_hot_partial, _cold_partial).  Being a row is NOT enough
   for being clear (a process end point may round into the 0.1 K range of an isothermal utility; the slope bound then acts),
   so `isolated` -- decidable on the input -- is the precise residual hypothesis, next to the profile hypotheses
   (pocket-free, within tol of zero at the pinch row: C06's model) and to `default_reaches` yielding an EXTREME utility.
   (ii) on the cold side the code's reach test looks at the SUPPLY end only, so a reaching utility with a glide need not be
   clear: that is defect D24 (C03_glide_refuted). *)
Theorem C03_sum_hot_partial :
  forall T H rh hus u, let Ts := firstn (S rh) T in let Hs := firstn (S rh) H in
  strict_desc Ts = true -> noninc Hs = true -> List.length Ts = List.length Hs -> 0 <= lastq Hs -> lastq Hs <= tol ->
  tol < headq Hs ->
  In u hus -> u_tmins u <= u_tmaxs u -> clear_hot tol Ts u = true -> - tol <= u_tmaxs u - List.hd 0 Ts ->
  headq Hs - tol <= qsum (assign_hot tol T H rh hus) /\ qsum (assign_hot tol T H rh hus) <= headq Hs.
Proof. exact (assign_hot_sum_closes tol tol_pos). Qed.
Print Assumptions C03_sum_hot_partial.
Theorem C03_sum_cold_partial :
  forall T H rc cus u, let k := Nat.max (rc - 1) 0 in let Ts := skipn k T in let Hs := skipn k H in
  strict_desc Ts = true -> noninc (rev Hs) = true -> List.length Ts = List.length Hs -> 0 <= headq Hs -> headq Hs <= tol ->
  tol < lastq Hs ->
  In u cus -> u_tmins u <= u_tmaxs u -> clear_cold tol Ts u = true -> (forall y, In y Ts -> - tol <= y - u_tmins u) ->
  lastq Hs - tol <= qsum (assign_cold tol T H rc cus) /\ qsum (assign_cold tol T H rc cus) <= lastq Hs.
Proof. exact (assign_cold_sum_closes tol tol_pos). Qed.
Print Assumptions C03_sum_cold_partial.

(* assign_closed_form: every utility clear of the grid, pocket-free segment: the duties the code's loop assigns (iteration
   order incl. `reversed` for hot, the > tol tests, the early break) ARE the lowest-grade-first closed form on
   P(level) = value of the pocket-free profile at the utility's level. *)
Theorem C03_assign_closed_form_hot :
  forall T H rh hus, let Ts := firstn (S rh) T in let Hs := firstn (S rh) H in
  strict_desc Ts = true -> noninc Hs = true -> List.length Ts = List.length Hs -> 0 <= lastq Hs -> lastq Hs <= tol ->
  (forall u, In u hus -> u_tmins u <= u_tmaxs u /\ clear_hot tol Ts u = true) ->
  Forall2 Qeq (assign_hot tol T H rh hus) (spec_hot tol T H rh hus).
Proof. exact (assign_hot_closed_form tol tol_pos). Qed.
Print Assumptions C03_assign_closed_form_hot.
Theorem C03_assign_closed_form_cold :
  forall T H rc cus, let k := Nat.max (rc - 1) 0 in let Ts := skipn k T in let Hs := skipn k H in
  strict_desc Ts = true -> noninc (rev Hs) = true -> List.length Ts = List.length Hs -> 0 <= headq Hs -> headq Hs <= tol ->
  (forall u, In u cus -> u_tmins u <= u_tmaxs u /\ clear_cold tol Ts u = true) ->
  Forall2 Qeq (assign_cold tol T H rc cus) (spec_cold tol T H rc cus).
Proof. exact (assign_cold_closed_form tol tol_pos). Qed.
Print Assumptions C03_assign_closed_form_cold.

(* assign_prefix: after serving utility k the assigned total is the running maximum of the reachable demands P_1..P_k --
   exactly on a Robust ladder (every step is 0 or > tol), to within tol on any ladder. *)
Theorem C03_assign_prefix :
  forall a P, steps_ok tol a P -> Forall2 Qeq (prefix_sums a (greedy tol a P)) (runmax a P).
Proof. exact (greedy_prefix tol tol_pos). Qed.
Print Assumptions C03_assign_prefix.
Theorem C03_assign_prefix_tol :
  forall a P, Forall2 (fun s r => r - tol <= s /\ s <= r) (prefix_sums a (greedy tol a P)) (runmax a P).
Proof. exact (greedy_prefix_tol tol tol_pos). Qed.
Print Assumptions C03_assign_prefix_tol.
(* duty_k = P(T_k) - P(T_(k-1)) for levels in ascending order of grade (distinct levels, lowest grade first) *)
Theorem C03_closed_form_differences :
  forall a P, steps_ok tol a P -> ascending a P -> Forall2 Qeq (greedy tol a P) (diffs a P).
Proof. exact (greedy_diffs tol tol_pos). Qed.
Print Assumptions C03_closed_form_differences.
(* any visiting order (real supply order may differ from shifted level order when contributions differ) *)
Theorem C03_closed_form_any_order :
  forall a P, steps_ok tol a P -> Forall2 Qeq (greedy tol a P) (incs a P).
Proof. exact (greedy_incs tol tol_pos). Qed.
Print Assumptions C03_closed_form_any_order.
(* C03_sum for the closed form: the extreme level reaches the whole demand B => the duties sum to B (to tol) *)
Theorem C03_sum_closed_form :
  forall P B, 0 <= B -> Forall (fun c => c <= B) P -> In B P -> B - tol <= qsum (greedy tol 0 P) <= B.
Proof. exact (greedy_sum tol tol_pos). Qed.
Print Assumptions C03_sum_closed_form.

(* C03_default_reaches: after _complete_utility_data / _add_default_utilities some hot utility passes the hot reach test and
   some cold utility the cold one, for EVERY stream set and user utility list; the default is added exactly when no user
   utility passes (definition of with_defaults, tied to /repo by the default-utility correspondence). *)
Theorem C03_default_reaches :
  forall ss us, let all := with_defaults ss us in
  existsb (reach_hot (fst (extremes ss))) all = true /\ existsb (reach_cold (snd (extremes ss))) all = true.
Proof. exact default_reaches. Qed.
Print Assumptions C03_default_reaches.

(* C03_glide_refuted (open defect D24): hot stream 100->50 (50 kW), cold utility 40->120: the reach test passes, so no
   default CU is added, and the model (as the code) assigns nothing: sum CU = 0 <> Qc = 50. *)
Theorem C03_glide_refuted :
  existsb (reach_cold (snd (extremes [(100, 50, 0, 50)]))) (map complete [mkUin 0 UCold 40 (Some 120) (Some 0) true]) = true
  /\ di_duties tol T24 HA24 (sep_hot HA24) (sep_cold HA24) [] [u24] = ([], [0]).
Proof. exact (conj d24_reach_test_passes d24_no_duty). Qed.
Print Assumptions C03_glide_refuted.

(* non-vacuity: the classic four-stream problem satisfies the hypotheses of the closed-form theorems, with three levels a side *)
Theorem C03_nonvacuous :
  strict_desc Tc = true /\ noninc (firstn 9 HAc) = true /\ noninc (rev (skipn 7 (cold_demand HAc 8))) = true
  /\ forallb (clear_hot tol (firstn 9 Tc)) husc = true /\ forallb (clear_cold tol (skipn 7 Tc)) cusc = true
  /\ pinch_idx tol HAc = (8%nat, 8%nat, true).
Proof. exact classic_hyps. Qed.
Print Assumptions C03_nonvacuous.

(* ---------------------------------------------------------------------------------------------------------------------- *)
(* Composition with the grid model of C01/C05 (model/Cascade.v); lemmas in proofs/ComposeGridUtility.v.                      *)
(* hot, cold : the zone's process streams as views on the shifted scale; extra : the zone's utilities (grid contributors).   *)
(* ---------------------------------------------------------------------------------------------------------------------- *)
From OP Require Import model.Cascade proofs.CascadeSpec proofs.ComposeGridUtility.

(* model_grid IS the temperature column of the problem-table model (any activity window w) *)
Theorem C03_model_grid_is_table_T :
  forall w hot cold extra, pT (stage_model w hot cold extra) = grid_of (endpoints (hot ++ cold ++ extra)).
Proof. exact model_grid_is_table_T. Qed.
Print Assumptions C03_model_grid_is_table_T.

(* The missing step: for EVERY stream set and utility list (no lattice hypothesis) the model grid is strictly descending,
   every row is the 6-decimal rounding of an input end point, and both rounded end points of every utility are rows. *)
Theorem C03_model_grid_rows :
  forall hot cold extra, let T := grid_of (endpoints (hot ++ cold ++ extra)) in
  strict_desc T = true
  /\ (forall x, In x T -> exists e, In e (endpoints (hot ++ cold ++ extra)) /\ x = round_dp grid_round_dp e)
  /\ (forall v, In v extra -> InQ (round_dp grid_round_dp (lo v)) T /\ InQ (round_dp grid_round_dp (hi v)) T).
Proof. exact model_grid_rows. Qed.
Print Assumptions C03_model_grid_rows.

(* `clear of the grid` (what the sum / closed-form theorems need) is equivalent to a condition on the INPUT end points es:
   isolated_hot tol es u = no end point rounds strictly inside [tmin, tmax] of u nor into (tmax, tmax + tol]. *)
Theorem C03_clear_iff_isolated_hot :
  forall es u, clear_hot tol (grid_of es) u = true
               <-> forallb (fun e => clear_row tol (u_tmaxs u) (u_tmins u) (round_dp grid_round_dp e)) es = true.
Proof. exact (clear_hot_grid_iff tol). Qed.
Print Assumptions C03_clear_iff_isolated_hot.
Theorem C03_clear_iff_isolated_cold :
  forall es u, clear_cold tol (grid_of es) u = true
               <-> forallb (fun e => clear_row tol (- u_tmins u) (- u_tmaxs u) (- round_dp grid_round_dp e)) es = true.
Proof. exact (clear_cold_grid_iff tol). Qed.
Print Assumptions C03_clear_iff_isolated_cold.

(* The sums close on the model grid, entry points target_hot / target_cold (sign-flip test, |H| > tol test, loop): if ONE
   utility u of the ladder is isolated among the input end points and extreme (no end point rounds above its top / below its
   bottom by more than tol), the hot duties sum to Qh = H[0] and the cold ones to Qc = H[last] up to tol -- whatever the
   other utilities of the ladder are, whatever the size of the demand.
   _partial: the remaining hypotheses are (a) `isolated` (see above: necessary in this generality), (b) the profile handed to
   the targeting is non-negative, pocket-free on the segment and within tol of zero at the pinch row (C06's model). *)
Theorem C03_sum_closes_on_model_grid_hot_partial :
  forall hot cold extra H rh hus u,
  let es := endpoints (hot ++ cold ++ extra) in let T := grid_of es in
  let Ts := firstn (S rh) T in let Hs := firstn (S rh) H in
  flip tol H = H -> noninc Hs = true -> List.length Ts = List.length Hs -> 0 <= Utility.lastq Hs -> Utility.lastq Hs <= tol ->
  In u hus -> u_tmins u <= u_tmaxs u ->
  isolated_hot tol es u = true -> (forall e, In e es -> round_dp grid_round_dp e <= u_tmaxs u + tol) ->
  headq H - tol <= qsum (target_hot tol T H rh hus) /\ qsum (target_hot tol T H rh hus) <= headq H.
Proof. exact target_hot_sum_closes_on_model_grid. Qed.
Print Assumptions C03_sum_closes_on_model_grid_hot_partial.
Theorem C03_sum_closes_on_model_grid_cold_partial :
  forall hot cold extra H rc cus u,
  let es := endpoints (hot ++ cold ++ extra) in let T := grid_of es in
  let k := Nat.max (rc - 1) 0 in let Ts := skipn k T in let Hs := skipn k H in
  flip tol H = H -> Hs <> [] ->
  noninc (rev Hs) = true -> List.length Ts = List.length Hs -> 0 <= headq Hs -> headq Hs <= tol ->
  In u cus -> u_tmins u <= u_tmaxs u ->
  isolated_cold tol es u = true -> (forall e, In e es -> u_tmins u - tol <= round_dp grid_round_dp e) ->
  Utility.lastq H - tol <= qsum (target_cold tol T H rc cus) /\ qsum (target_cold tol T H rc cus) <= Utility.lastq H.
Proof. exact target_cold_sum_closes_on_model_grid. Qed.
Print Assumptions C03_sum_closes_on_model_grid_cold_partial.

(* every utility of the ladder isolated: on the model grid the loop IS the lowest-grade-first closed form *)
Theorem C03_closed_form_on_model_grid_hot :
  forall hot cold extra H rh hus,
  let es := endpoints (hot ++ cold ++ extra) in let T := grid_of es in
  let Ts := firstn (S rh) T in let Hs := firstn (S rh) H in
  noninc Hs = true -> List.length Ts = List.length Hs -> 0 <= Utility.lastq Hs -> Utility.lastq Hs <= tol ->
  (forall u, In u hus -> u_tmins u <= u_tmaxs u /\ isolated_hot tol es u = true) ->
  Forall2 Qeq (assign_hot tol T H rh hus) (spec_hot tol T H rh hus).
Proof. exact closed_form_hot_on_model_grid. Qed.
Print Assumptions C03_closed_form_on_model_grid_hot.
Theorem C03_closed_form_on_model_grid_cold :
  forall hot cold extra H rc cus,
  let es := endpoints (hot ++ cold ++ extra) in let T := grid_of es in
  let k := Nat.max (rc - 1) 0 in let Ts := skipn k T in let Hs := skipn k H in
  noninc (rev Hs) = true -> List.length Ts = List.length Hs -> 0 <= headq Hs -> headq Hs <= tol ->
  (forall u, In u cus -> u_tmins u <= u_tmaxs u /\ isolated_cold tol es u = true) ->
  Forall2 Qeq (assign_cold tol T H rc cus) (spec_cold tol T H rc cus).
Proof. exact closed_form_cold_on_model_grid. Qed.
Print Assumptions C03_closed_form_on_model_grid_cold.

(* non-vacuity: classic four-stream problem + a 0.1 K hot utility on top and a 0.1 K cold utility at the bottom: both are
   isolated and extreme; a stream end point inside the 0.1 K range of the utility breaks isolation *)
Theorem C03_on_grid_nonvacuous :
  grid_of (endpoints (nv_hot ++ nv_cold ++ nv_extra)) = [2451 # 10; 245; 235; 195; 185; 145; 75; 35; 25; 249 # 10]
  /\ isolated_hot tol (endpoints (nv_hot ++ nv_cold ++ nv_extra)) nv_hu = true
  /\ isolated_cold tol (endpoints (nv_hot ++ nv_cold ++ nv_extra)) nv_cu = true
  /\ forallb (fun e => qleb (round_dp grid_round_dp e) (u_tmaxs nv_hu + tol) && qleb (u_tmins nv_cu - tol) (round_dp grid_round_dp e))
             (endpoints (nv_hot ++ nv_cold ++ nv_extra)) = true
  /\ isolated_hot tol (endpoints ([mkV 35 (24505 # 100) 1] ++ nv_cold ++ nv_extra)) nv_hu = false.
Proof. exact on_grid_nonvacuous. Qed.
Print Assumptions C03_on_grid_nonvacuous.
