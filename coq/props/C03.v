(* C03 -- multi-utility targeting allocates exactly the target duty.
   Only statements; every proof is `exact <lemma>` from proofs/Utility*.v.  All theorems are about the executable model
   coq/model/Utility.v (tied to /repo by the correspondence suites of harness/props/c03.py), instantiated at the
   generated constant `tol`; none bounds the number of rows or utilities. *)
From OP Require Import gen.Consts model.Base model.Stream model.Utility
  proofs.BaseFacts proofs.UtilityLadder proofs.UtilityDuty proofs.UtilityProfile proofs.UtilityWitness.
Local Open Scope Q_scope.

(* Every duty the loop of _assign_utility writes is non-negative: any profile, any ladder (glides included),
   any starting total. *)
Theorem C03_duties_nonneg :
  forall ivs limit l qa, Forall (fun q => 0 <= q) (assign_loop tol ivs limit l qa).
Proof. exact (assign_nonneg tol tol_pos). Qed.
Print Assumptions C03_duties_nonneg.

Theorem C03_duties_nonneg_hot : forall T H rh hus, Forall (fun q => 0 <= q) (assign_hot tol T H rh hus).
Proof. exact (assign_hot_nonneg tol tol_pos). Qed.
Print Assumptions C03_duties_nonneg_hot.
Theorem C03_duties_nonneg_cold : forall T H rc cus, Forall (fun q => 0 <= q) (assign_cold tol T H rc cus).
Proof. exact (assign_cold_nonneg tol tol_pos). Qed.
Print Assumptions C03_duties_nonneg_cold.

(* No duty out of reach: a utility that receives duty has a segment interval whose supply-side end its supply
   temperature reaches (within tol), whose enthalpy changes, and which carries more than tol of demand. *)
Theorem C03_no_duty_out_of_reach :
  forall ivs limit l qa, 0 <= qa ->
  Forall2 (fun u q => 0 < q -> exists v, In v ivs /\ reachv tol (us u) v = true /\ tol < hadj v)
          l (assign_loop tol ivs limit l qa).
Proof. exact (assign_reach tol tol_pos). Qed.
Print Assumptions C03_no_duty_out_of_reach.

(* Never over-allocated: on a pocket-free segment (rows strictly descending, demand monotone towards the pinch) the
   duties of ANY ladder -- gliding utilities, any order, any levels -- sum to at most the target. *)
Theorem C03_never_over_allocated_hot :
  forall T H rh hus, let Ts := firstn (S rh) T in let Hs := firstn (S rh) H in
  strict_desc Ts = true -> noninc Hs = true -> 0 <= headq Hs -> qsum (assign_hot tol T H rh hus) <= headq Hs.
Proof. exact (assign_hot_sum_le tol tol_pos). Qed.
Print Assumptions C03_never_over_allocated_hot.
Theorem C03_never_over_allocated_cold :
  forall T H rc cus, let k := Nat.max (rc - 1) 0 in let Ts := skipn k T in let Hs := skipn k H in
  strict_desc Ts = true -> noninc (rev Hs) = true -> 0 <= lastq Hs -> qsum (assign_cold tol T H rc cus) <= lastq Hs.
Proof. exact (assign_cold_sum_le tol tol_pos). Qed.
Print Assumptions C03_never_over_allocated_cold.

(* The sum closes (C03_sum, telescoping): if ONE utility of the ladder is clear of the grid (its end points are rows: no row
   strictly inside its temperature range) and its supply level reaches the top row of the hot segment, the hot duties sum
   to Qh = H[0] up to tol -- whatever the other utilities are.  Symmetric for the cold side and Qc = H[last].
   OPEN: "for every direct-integration target the sums close" (the property's full clause) is NOT proved as one theorem.
   Missing hypotheses-discharge: (i) that the grid built by create_problem_table_with_t_int contains every utility end
   point and no row strictly inside a 0.1 K default/isothermal utility (grid construction: C01/C05's model), so that
   `default_reaches` below yields a CLEAR reaching utility; (ii) on the cold side the code's reach test looks at the
   SUPPLY end only, so a reaching utility with a glide need not be clear: that is defect D24 (C03_glide_refuted). *)
Theorem C03_sum_hot_partial :
  forall T H rh hus u, let Ts := firstn (S rh) T in let Hs := firstn (S rh) H in
  strict_desc Ts = true -> noninc Hs = true -> List.length Ts = List.length Hs -> 0 <= lastq Hs -> lastq Hs <= tol ->
  tol < headq Hs ->
  In u hus -> u_tmins u <= u_tmaxs u -> clear_hot tol Ts u = true -> - tol <= u_tmaxs u - List.hd 0 Ts ->
  headq Hs - tol <= qsum (assign_hot tol T H rh hus) /\ qsum (assign_hot tol T H rh hus) <= headq Hs.
Proof. exact (assign_hot_sum_closes tol tol_pos). Qed.
Print Assumptions C03_sum_hot_partial.
Theorem C03_sum_cold_partial :
  forall T H rc cus u, let k := Nat.max (rc - 1) 0 in let Ts := skipn k T in let Hs := skipn k H in
  strict_desc Ts = true -> noninc (rev Hs) = true -> List.length Ts = List.length Hs -> 0 <= headq Hs -> headq Hs <= tol ->
  tol < lastq Hs ->
  In u cus -> u_tmins u <= u_tmaxs u -> clear_cold tol Ts u = true -> (forall y, In y Ts -> - tol <= y - u_tmins u) ->
  lastq Hs - tol <= qsum (assign_cold tol T H rc cus) /\ qsum (assign_cold tol T H rc cus) <= lastq Hs.
Proof. exact (assign_cold_sum_closes tol tol_pos). Qed.
Print Assumptions C03_sum_cold_partial.

(* assign_closed_form: every utility clear of the grid, pocket-free segment: the duties the code's loop assigns (iteration
   order incl. `reversed` for hot, the > tol tests, the early break) ARE the lowest-grade-first closed form on
   P(level) = value of the pocket-free profile at the utility's level. *)
Theorem C03_assign_closed_form_hot :
  forall T H rh hus, let Ts := firstn (S rh) T in let Hs := firstn (S rh) H in
  strict_desc Ts = true -> noninc Hs = true -> List.length Ts = List.length Hs -> 0 <= lastq Hs -> lastq Hs <= tol ->
  (forall u, In u hus -> u_tmins u <= u_tmaxs u /\ clear_hot tol Ts u = true) ->
  Forall2 Qeq (assign_hot tol T H rh hus) (spec_hot tol T H rh hus).
Proof. exact (assign_hot_closed_form tol tol_pos). Qed.
Print Assumptions C03_assign_closed_form_hot.
Theorem C03_assign_closed_form_cold :
  forall T H rc cus, let k := Nat.max (rc - 1) 0 in let Ts := skipn k T in let Hs := skipn k H in
  strict_desc Ts = true -> noninc (rev Hs) = true -> List.length Ts = List.length Hs -> 0 <= headq Hs -> headq Hs <= tol ->
  (forall u, In u cus -> u_tmins u <= u_tmaxs u /\ clear_cold tol Ts u = true) ->
  Forall2 Qeq (assign_cold tol T H rc cus) (spec_cold tol T H rc cus).
Proof. exact (assign_cold_closed_form tol tol_pos). Qed.
Print Assumptions C03_assign_closed_form_cold.

(* assign_prefix: after serving utility k the assigned total is the running maximum of the reachable demands P_1..P_k --
   exactly on a Robust ladder (every step is 0 or > tol), to within tol on any ladder. *)
Theorem C03_assign_prefix :
  forall a P, steps_ok tol a P -> Forall2 Qeq (prefix_sums a (greedy tol a P)) (runmax a P).
Proof. exact (greedy_prefix tol tol_pos). Qed.
Print Assumptions C03_assign_prefix.
Theorem C03_assign_prefix_tol :
  forall a P, Forall2 (fun s r => r - tol <= s /\ s <= r) (prefix_sums a (greedy tol a P)) (runmax a P).
Proof. exact (greedy_prefix_tol tol tol_pos). Qed.
Print Assumptions C03_assign_prefix_tol.
(* duty_k = P(T_k) - P(T_(k-1)) for levels in ascending order of grade (distinct levels, lowest grade first) *)
Theorem C03_closed_form_differences :
  forall a P, steps_ok tol a P -> ascending a P -> Forall2 Qeq (greedy tol a P) (diffs a P).
Proof. exact (greedy_diffs tol tol_pos). Qed.
Print Assumptions C03_closed_form_differences.
(* any visiting order (real supply order may differ from shifted level order when contributions differ) *)
Theorem C03_closed_form_any_order :
  forall a P, steps_ok tol a P -> Forall2 Qeq (greedy tol a P) (incs a P).
Proof. exact (greedy_incs tol tol_pos). Qed.
Print Assumptions C03_closed_form_any_order.
(* C03_sum for the closed form: the extreme level reaches the whole demand B => the duties sum to B (to tol) *)
Theorem C03_sum_closed_form :
  forall P B, 0 <= B -> Forall (fun c => c <= B) P -> In B P -> B - tol <= qsum (greedy tol 0 P) <= B.
Proof. exact (greedy_sum tol tol_pos). Qed.
Print Assumptions C03_sum_closed_form.

(* C03_default_reaches: after _complete_utility_data / _add_default_utilities some hot utility passes the hot reach test and
   some cold utility the cold one, for EVERY stream set and user utility list; the default is added exactly when no user
   utility passes (definition of with_defaults, tied to /repo by the default-utility correspondence). *)
Theorem C03_default_reaches :
  forall ss us, let all := with_defaults ss us in
  existsb (reach_hot (fst (extremes ss))) all = true /\ existsb (reach_cold (snd (extremes ss))) all = true.
Proof. exact default_reaches. Qed.
Print Assumptions C03_default_reaches.

(* C03_glide_refuted (open defect D24): hot stream 100->50 (50 kW), cold utility 40->120: the reach test passes, so no
   default CU is added, and the model (as the code) assigns nothing: sum CU = 0 <> Qc = 50. *)
Theorem C03_glide_refuted :
  existsb (reach_cold (snd (extremes [(100, 50, 0, 50)]))) (map complete [mkUin 0 UCold 40 (Some 120) (Some 0) true]) = true
  /\ di_duties tol T24 HA24 (sep_hot HA24) (sep_cold HA24) [] [u24] = ([], [0]).
Proof. exact (conj d24_reach_test_passes d24_no_duty). Qed.
Print Assumptions C03_glide_refuted.

(* non-vacuity: the classic four-stream problem satisfies the hypotheses of the closed-form theorems, with three levels a side *)
Theorem C03_nonvacuous :
  strict_desc Tc = true /\ noninc (firstn 9 HAc) = true /\ noninc (rev (skipn 7 (cold_demand HAc 8))) = true
  /\ forallb (clear_hot tol (firstn 9 Tc)) husc = true /\ forallb (clear_cold tol (skipn 7 Tc)) cusc = true
  /\ pinch_idx tol HAc = (8%nat, 8%nat, true).
Proof. exact classic_hyps. Qed.
Print Assumptions C03_nonvacuous.
