(* C12 -- Results are invariant under equivalent descriptions of the problem (statements only).
   The invariances are proved for the exact net-deficit function D(T) at EVERY temperature; C01 proves that the model's
   Qh is the attained supremum of D (and Qc, Qr follow from the duties), so `C12_targets_follow_the_deficit` transfers each
   of them to the targets.  Total-site records and graph data have no closed form: the check compares the implementation
   with its transformed twin for those. *)
From OP Require Import model.Base model.Cascade proofs.CascadeSpec proofs.Invariance.
From Coq Require Import Permutation.
Local Open Scope Q_scope.

Theorem C12_order_of_streams : forall hot hot' cold cold' T,
  Permutation hot hot' -> Permutation cold cold' -> Dnet hot cold T == Dnet hot' cold' T.
Proof. exact Dnet_perm. Qed.
Print Assumptions C12_order_of_streams.

Theorem C12_split_at_temperature : forall l m h c rest T, l <= m -> m <= h ->
  heat_above (mkV l h c :: rest) T == heat_above (mkV l m c :: mkV m h c :: rest) T.
Proof. exact heat_above_split. Qed.
Print Assumptions C12_split_at_temperature.

Theorem C12_parallel_branches : forall l h c1 c2 rest T,
  heat_above (mkV l h (c1 + c2) :: rest) T == heat_above (mkV l h c1 :: mkV l h c2 :: rest) T.
Proof. exact heat_above_branches. Qed.
Print Assumptions C12_parallel_branches.

Theorem C12_translation : forall d hot cold T,
  Dnet (map (shiftv d) hot) (map (shiftv d) cold) (T + d) == Dnet hot cold T.
Proof. exact Dnet_shift. Qed.
Print Assumptions C12_translation.

Theorem C12_scaling : forall k hot cold T,
  Dnet (map (scalev k) hot) (map (scalev k) cold) T == k * Dnet hot cold T.
Proof. exact Dnet_scale. Qed.
Print Assumptions C12_scaling.

(* mirrored problem: hot streams are the mirrored cold streams and vice versa; its deficit above -T is the original
   deficit above T plus (hot duty - cold duty): hence Qh' = Qh + H - C = Qc, and symmetrically Qc' = Qh *)
Theorem C12_mirror : forall hot cold T, wfs hot -> wfs cold ->
  Dnet (map mirrorv cold) (map mirrorv hot) (- T) == Dnet hot cold T + duty hot - duty cold.
Proof. exact Dnet_mirror. Qed.
Print Assumptions C12_mirror.

Theorem C12_targets_follow_the_deficit : forall (D1 D2 : Q -> Q) (f : Q -> Q) (k c q1 q2 : Q),
  0 < k -> (forall T, D2 (f T) == k * D1 T + c) -> (forall T, exists T', f T' == T \/ D2 T <= D2 (f T')) ->
  (forall T, D1 T <= q1) -> (exists T, D1 T == q1) -> (forall T, D2 T <= q2) -> (exists T, D2 T == q2) ->
  (forall a b, a == b -> D2 a == D2 b) ->
  q2 == k * q1 + c.
Proof. exact sup_transfer. Qed.
Print Assumptions C12_targets_follow_the_deficit.

(* ---- the same invariances proved DIRECTLY ON THE MODEL of the algorithm (cpsum / rows_from / pta of model/Cascade.v),
   with no Robust, lattice or well-formedness hypothesis: they are algebraic identities of the cascade and therefore hold
   also on inputs where the cascade is not exact (narrow streams, finding D44). *)
From OP Require Import gen.Consts proofs.InvarianceModel.

(* order of the streams: the active-CP sum of an interval is the same reduced rational, *)
Theorem C12_model_cpsum_order : forall w ss ss' up low, Permutation ss ss' -> cpsum w ss up low = cpsum w ss' up low.
Proof. exact cpsum_perm. Qed.
Print Assumptions C12_model_cpsum_order.
(* hence the problem table on any grid is identical, cell by cell, in every column (T, dT, CP, dH, H_hot, H_cold, H_net), *)
Theorem C12_model_table_order : forall w hot hot' cold cold' g, Permutation hot hot' -> Permutation cold cold' ->
  pta w hot cold g = pta w hot' cold' g.
Proof. exact pta_perm. Qed.
Print Assumptions C12_model_table_order.
(* the temperature grid built from the end points does not depend on the order either, so the whole stage
   (create_problem_table_with_t_int + problem_table_algorithm) returns the identical table and the identical targets. *)
Theorem C12_model_grid_order : forall es es', Permutation es es' -> grid_of es = grid_of es'.
Proof. exact grid_of_perm. Qed.
Print Assumptions C12_model_grid_order.
Theorem C12_model_stage_order : forall w hot hot' cold cold' extra extra',
  Permutation hot hot' -> Permutation cold cold' -> Permutation extra extra' ->
  stage_model w hot cold extra = stage_model w hot' cold' extra'.
Proof. exact stage_model_perm. Qed.
Print Assumptions C12_model_stage_order.
Theorem C12_model_targets_order : forall w hot hot' cold cold' g, Permutation hot hot' -> Permutation cold cold' ->
  Qh_of (pta w hot cold g) = Qh_of (pta w hot' cold' g) /\ Qc_of (pta w hot cold g) = Qc_of (pta w hot' cold' g)
  /\ Qr_of (pta w hot cold g) = Qr_of (pta w hot' cold' g).
Proof. exact targets_perm_model. Qed.
Print Assumptions C12_model_targets_order.

(* translation: all streams and all grid temperatures moved by d -- the table is the original one with d added to the
   temperature column; every other column (widths, CP, dH, H_hot, H_cold, H_net) is the identical rational. *)
Theorem C12_model_table_translation : forall w d hot cold g,
  pta w (map (shiftv d) hot) (map (shiftv d) cold) (map (fun t => t + d) g) = shift_tab d (pta w hot cold g).
Proof. exact pta_shift. Qed.
Print Assumptions C12_model_table_translation.
Theorem C12_model_targets_translation : forall w d hot cold g,
  let p := pta w hot cold g in let p' := pta w (map (shiftv d) hot) (map (shiftv d) cold) (map (fun t => t + d) g) in
  Qh_of p' = Qh_of p /\ Qc_of p' = Qc_of p /\ Qr_of p' = Qr_of p
  /\ pT p' = map (fun t => t + d) (pT p) /\ pHh p' = pHh p /\ pHc p' = pHc p /\ pHn p' = pHn p.
Proof. exact targets_shift_model. Qed.
Print Assumptions C12_model_targets_translation.

(* scaling: every heat-capacity flow rate multiplied by k >= 0 -- T and dT columns unchanged, every CP, dH and H column
   multiplied by k cell by cell (scaledl k l l' : l' = k * l pointwise), hence the three targets multiplied by k. *)
Theorem C12_model_table_scaling : forall w k, 0 <= k -> forall hot cold g,
  let p := pta w hot cold g in let p' := pta w (map (scalev k) hot) (map (scalev k) cold) g in
  pT p' = pT p /\ pdT p' = pdT p
  /\ scaledl k (pCPh p) (pCPh p') /\ scaledl k (pdHh p) (pdHh p') /\ scaledl k (pHh p) (pHh p')
  /\ scaledl k (pCPc p) (pCPc p') /\ scaledl k (pdHc p) (pdHc p') /\ scaledl k (pHc p) (pHc p')
  /\ scaledl k (pCPn p) (pCPn p') /\ scaledl k (pdHn p) (pdHn p') /\ scaledl k (pHn p) (pHn p').
Proof. exact pta_scale. Qed.
Print Assumptions C12_model_table_scaling.
Theorem C12_model_targets_scaling : forall w k, 0 <= k -> forall hot cold g,
  let p := pta w hot cold g in let p' := pta w (map (scalev k) hot) (map (scalev k) cold) g in
  Qh_of p' == k * Qh_of p /\ Qc_of p' == k * Qc_of p /\ Qr_of p' == k * Qr_of p.
Proof. exact targets_scale_model. Qed.
Print Assumptions C12_model_targets_scaling.
(* the grid only reads temperatures, so the same holds for the whole stage *)
Theorem C12_model_stage_scaling : forall w k hot cold extra, 0 <= k ->
  let p := stage_model w hot cold extra in let p' := stage_model w (map (scalev k) hot) (map (scalev k) cold) extra in
  pT p' = pT p /\ scaledl k (pHh p) (pHh p') /\ scaledl k (pHc p) (pHc p') /\ scaledl k (pHn p) (pHn p')
  /\ Qh_of p' == k * Qh_of p /\ Qc_of p' == k * Qc_of p /\ Qr_of p' == k * Qr_of p.
Proof. exact stage_scale_model. Qed.
Print Assumptions C12_model_stage_scaling.
