(* C12 -- Results are invariant under equivalent descriptions of the problem (statements only).
   The invariances are proved for the exact net-deficit function D(T) at EVERY temperature; C01 proves that the model's
   Qh is the attained supremum of D (and Qc, Qr follow from the duties), so `C12_targets_follow_the_deficit` transfers each
   of them to the targets.  Total-site records and graph data have no closed form: the check compares the implementation
   with its transformed twin for those. *)
From OP Require Import model.Base model.Cascade proofs.CascadeSpec proofs.Invariance.
From Coq Require Import Permutation.
Local Open Scope Q_scope.

Theorem C12_order_of_streams : forall hot hot' cold cold' T,
  Permutation hot hot' -> Permutation cold cold' -> Dnet hot cold T == Dnet hot' cold' T.
Proof. exact Dnet_perm. Qed.
Print Assumptions C12_order_of_streams.

Theorem C12_split_at_temperature : forall l m h c rest T, l <= m -> m <= h ->
  heat_above (mkV l h c :: rest) T == heat_above (mkV l m c :: mkV m h c :: rest) T.
Proof. exact heat_above_split. Qed.
Print Assumptions C12_split_at_temperature.

Theorem C12_parallel_branches : forall l h c1 c2 rest T,
  heat_above (mkV l h (c1 + c2) :: rest) T == heat_above (mkV l h c1 :: mkV l h c2 :: rest) T.
Proof. exact heat_above_branches. Qed.
Print Assumptions C12_parallel_branches.

Theorem C12_translation : forall d hot cold T,
  Dnet (map (shiftv d) hot) (map (shiftv d) cold) (T + d) == Dnet hot cold T.
Proof. exact Dnet_shift. Qed.
Print Assumptions C12_translation.

Theorem C12_scaling : forall k hot cold T,
  Dnet (map (scalev k) hot) (map (scalev k) cold) T == k * Dnet hot cold T.
Proof. exact Dnet_scale. Qed.
Print Assumptions C12_scaling.

(* mirrored problem: hot streams are the mirrored cold streams and vice versa; its deficit above -T is the original
   deficit above T plus (hot duty - cold duty): hence Qh' = Qh + H - C = Qc, and symmetrically Qc' = Qh *)
Theorem C12_mirror : forall hot cold T, wfs hot -> wfs cold ->
  Dnet (map mirrorv cold) (map mirrorv hot) (- T) == Dnet hot cold T + duty hot - duty cold.
Proof. exact Dnet_mirror. Qed.
Print Assumptions C12_mirror.

Theorem C12_targets_follow_the_deficit : forall (D1 D2 : Q -> Q) (f : Q -> Q) (k c q1 q2 : Q),
  0 < k -> (forall T, D2 (f T) == k * D1 T + c) -> (forall T, exists T', f T' == T \/ D2 T <= D2 (f T')) ->
  (forall T, D1 T <= q1) -> (exists T, D1 T == q1) -> (forall T, D2 T <= q2) -> (exists T, D2 T == q2) ->
  (forall a b, a == b -> D2 a == D2 b) ->
  q2 == k * q1 + c.
Proof. exact sup_transfer. Qed.
Print Assumptions C12_targets_follow_the_deficit.
