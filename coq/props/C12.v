(* C12 -- Results are invariant under equivalent descriptions of the problem (statements only).
   The invariances are proved for the exact net-deficit function D(T) at EVERY temperature; C01 proves that the model's
   Qh is the attained supremum of D (and Qc, Qr follow from the duties), so `C12_targets_follow_the_deficit` transfers each
   of them to the targets.  Total-site records and graph data have no closed form: the check compares the implementation
   with its transformed twin for those. *)
From OP Require Import model.Base model.Cascade proofs.CascadeSpec proofs.Invariance.
From Coq Require Import Permutation.
Local Open Scope Q_scope.

Theorem C12_order_of_streams : forall hot hot' cold cold' T,
  Permutation hot hot' -> Permutation cold cold' -> Dnet hot cold T == Dnet hot' cold' T.
Proof. exact Dnet_perm. Qed.
Print Assumptions C12_order_of_streams.

Theorem C12_split_at_temperature : forall l m h c rest T, l <= m -> m <= h ->
  heat_above (mkV l h c :: rest) T == heat_above (mkV l m c :: mkV m h c :: rest) T.
Proof. exact heat_above_split. Qed.
Print Assumptions C12_split_at_temperature.

Theorem C12_parallel_branches : forall l h c1 c2 rest T,
  heat_above (mkV l h (c1 + c2) :: rest) T == heat_above (mkV l h c1 :: mkV l h c2 :: rest) T.
Proof. exact heat_above_branches. Qed.
Print Assumptions C12_parallel_branches.

Theorem C12_translation : forall d hot cold T,
  Dnet (map (shiftv d) hot) (map (shiftv d) cold) (T + d) == Dnet hot cold T.
Proof. exact Dnet_shift. Qed.
Print Assumptions C12_translation.

Theorem C12_scaling : forall k hot cold T,
  Dnet (map (scalev k) hot) (map (scalev k) cold) T == k * Dnet hot cold T.
Proof. exact Dnet_scale. Qed.
Print Assumptions C12_scaling.

(* mirrored problem: hot streams are the mirrored cold streams and vice versa; its deficit above -T is the original
   deficit above T plus (hot duty - cold duty): hence Qh' = Qh + H - C = Qc, and symmetrically Qc' = Qh *)
Theorem C12_mirror : forall hot cold T, wfs hot -> wfs cold ->
  Dnet (map mirrorv cold) (map mirrorv hot) (- T) == Dnet hot cold T + duty hot - duty cold.
Proof. exact Dnet_mirror. Qed.
Print Assumptions C12_mirror.

Theorem C12_targets_follow_the_deficit : forall (D1 D2 : Q -> Q) (f : Q -> Q) (k c q1 q2 : Q),
  0 < k -> (forall T, D2 (f T) == k * D1 T + c) -> (forall T, exists T', f T' == T \/ D2 T <= D2 (f T')) ->
  (forall T, D1 T <= q1) -> (exists T, D1 T == q1) -> (forall T, D2 T <= q2) -> (exists T, D2 T == q2) ->
  (forall a b, a == b -> D2 a == D2 b) ->
  q2 == k * q1 + c.
Proof. exact sup_transfer. Qed.
Print Assumptions C12_targets_follow_the_deficit.

(* ---- the same invariances proved DIRECTLY ON THE MODEL of the algorithm (cpsum / rows_from / pta of model/Cascade.v),
   with no Robust, lattice or well-formedness hypothesis: they are algebraic identities of the cascade and therefore hold
   also on inputs where the cascade is not exact (narrow streams, finding D44). *)
From OP Require Import gen.Consts proofs.InvarianceModel.

(* order of the streams: the active-CP sum of an interval is the same reduced rational, *)
Theorem C12_model_cpsum_order : forall w ss ss' up low, Permutation ss ss' -> cpsum w ss up low = cpsum w ss' up low.
Proof. exact cpsum_perm. Qed.
Print Assumptions C12_model_cpsum_order.
(* hence the problem table on any grid is identical, cell by cell, in every column (T, dT, CP, dH, H_hot, H_cold, H_net), *)
Theorem C12_model_table_order : forall w hot hot' cold cold' g, Permutation hot hot' -> Permutation cold cold' ->
  pta w hot cold g = pta w hot' cold' g.
Proof. exact pta_perm. Qed.
Print Assumptions C12_model_table_order.
(* the temperature grid built from the end points does not depend on the order either, so the whole stage
   (create_problem_table_with_t_int + problem_table_algorithm) returns the identical table and the identical targets. *)
Theorem C12_model_grid_order : forall es es', Permutation es es' -> grid_of es = grid_of es'.
Proof. exact grid_of_perm. Qed.
Print Assumptions C12_model_grid_order.
Theorem C12_model_stage_order : forall w hot hot' cold cold' extra extra',
  Permutation hot hot' -> Permutation cold cold' -> Permutation extra extra' ->
  stage_model w hot cold extra = stage_model w hot' cold' extra'.
Proof. exact stage_model_perm. Qed.
Print Assumptions C12_model_stage_order.
Theorem C12_model_targets_order : forall w hot hot' cold cold' g, Permutation hot hot' -> Permutation cold cold' ->
  Qh_of (pta w hot cold g) = Qh_of (pta w hot' cold' g) /\ Qc_of (pta w hot cold g) = Qc_of (pta w hot' cold' g)
  /\ Qr_of (pta w hot cold g) = Qr_of (pta w hot' cold' g).
Proof. exact targets_perm_model. Qed.
Print Assumptions C12_model_targets_order.

(* translation: all streams and all grid temperatures moved by d -- the table is the original one with d added to the
   temperature column; every other column (widths, CP, dH, H_hot, H_cold, H_net) is the identical rational. *)
Theorem C12_model_table_translation : forall w d hot cold g,
  pta w (map (shiftv d) hot) (map (shiftv d) cold) (map (fun t => t + d) g) = shift_tab d (pta w hot cold g).
Proof. exact pta_shift. Qed.
Print Assumptions C12_model_table_translation.
Theorem C12_model_targets_translation : forall w d hot cold g,
  let p := pta w hot cold g in let p' := pta w (map (shiftv d) hot) (map (shiftv d) cold) (map (fun t => t + d) g) in
  Qh_of p' = Qh_of p /\ Qc_of p' = Qc_of p /\ Qr_of p' = Qr_of p
  /\ pT p' = map (fun t => t + d) (pT p) /\ pHh p' = pHh p /\ pHc p' = pHc p /\ pHn p' = pHn p.
Proof. exact targets_shift_model. Qed.
Print Assumptions C12_model_targets_translation.

(* scaling: every heat-capacity flow rate multiplied by k >= 0 -- T and dT columns unchanged, every CP, dH and H column
   multiplied by k cell by cell (scaledl k l l' : l' = k * l pointwise), hence the three targets multiplied by k. *)
Theorem C12_model_table_scaling : forall w k, 0 <= k -> forall hot cold g,
  let p := pta w hot cold g in let p' := pta w (map (scalev k) hot) (map (scalev k) cold) g in
  pT p' = pT p /\ pdT p' = pdT p
  /\ scaledl k (pCPh p) (pCPh p') /\ scaledl k (pdHh p) (pdHh p') /\ scaledl k (pHh p) (pHh p')
  /\ scaledl k (pCPc p) (pCPc p') /\ scaledl k (pdHc p) (pdHc p') /\ scaledl k (pHc p) (pHc p')
  /\ scaledl k (pCPn p) (pCPn p') /\ scaledl k (pdHn p) (pdHn p') /\ scaledl k (pHn p) (pHn p').
Proof. exact pta_scale. Qed.
Print Assumptions C12_model_table_scaling.
Theorem C12_model_targets_scaling : forall w k, 0 <= k -> forall hot cold g,
  let p := pta w hot cold g in let p' := pta w (map (scalev k) hot) (map (scalev k) cold) g in
  Qh_of p' == k * Qh_of p /\ Qc_of p' == k * Qc_of p /\ Qr_of p' == k * Qr_of p.
Proof. exact targets_scale_model. Qed.
Print Assumptions C12_model_targets_scaling.
(* the grid only reads temperatures, so the same holds for the whole stage *)
Theorem C12_model_stage_scaling : forall w k hot cold extra, 0 <= k ->
  let p := stage_model w hot cold extra in let p' := stage_model w (map (scalev k) hot) (map (scalev k) cold) extra in
  pT p' = pT p /\ scaledl k (pHh p) (pHh p') /\ scaledl k (pHc p) (pHc p') /\ scaledl k (pHn p) (pHn p')
  /\ Qh_of p' == k * Qh_of p /\ Qc_of p' == k * Qc_of p /\ Qr_of p' == k * Qr_of p.
Proof. exact stage_scale_model. Qed.
Print Assumptions C12_model_stage_scaling.

(* ================================================================================================================
   Zone renaming, stream order and zone order ON THE MODELS (model/ZoneTree.v, model/Cascade.v, model/Site.v).
   Vocabulary: `istream` = what zone-tree construction reads of a stream (identity sid, zone label, name, hot/cold);
   `model_synth root ss` = the synthesised zone tree (one `zobs` per zone: path below the root, identities in the hot / cold
   collection); `rename_label f l` = label l with every path component c replaced by f c; `occurs ss c` = c is a component
   of the label of some labelled stream of ss; `clean_name x` = x contains no "/", has no leading/trailing white space and is
   not empty (so that the label cleaning of the code reads the new name back); `zone_corr f out out' z z'` = z' is the
   counterpart of z (spelled out by C12_zone_correspondence_means).
   What is NOT preserved by a renaming, and is therefore not claimed: the order in which zones are listed, the order/keys of
   the entries inside a collection, and the number k of a generated unit-operation name O<k> -- they follow the sort order of
   the label strings (C12_renaming_listing_order_refuted). *)
From OP Require Import model.Stream model.Collection model.CascadeE2E model.ZoneTree model.Site
  proofs.ZoneTreeSynth proofs.ZoneTreeFinal proofs.ZoneTreeTwin proofs.ZoneTreeOrder proofs.ComposeZonesCascade proofs.ComposeTwinCascade proofs.SiteOrder.
From Coq Require Import String.

(* z' is the counterpart of z: EITHER both are zones created for labels (zones with subzones) or the roots, and the path of
   z' is the path of z mapped component-wise by f, OR both are generated unit-operation leaves and the parent path of z' is
   the mapped parent path of z; in both cases they hold the same stream identities, hot and cold separately. *)
Theorem C12_zone_correspondence_means : forall f out out' z z', zone_corr f out out' z z' <->
  (((is_leaf out z = false \/ zo_path z = []) /\ (is_leaf out' z' = false \/ zo_path z' = []) /\ zo_path z' = map f (zo_path z))
   \/ (is_leaf out z = true /\ zo_path z <> [] /\ is_leaf out' z' = true /\ zo_path z' <> []
       /\ removelast (zo_path z') = map f (removelast (zo_path z))))
  /\ Permutation (map fst (zo_hot z)) (map fst (zo_hot z')) /\ Permutation (map fst (zo_cold z)) (map fst (zo_cold z')).
Proof. exact zone_corr_means. Qed.
Print Assumptions C12_zone_correspondence_means.

(* ZONE RENAMING (and stream order at the same time): rename the zone-name components by f -- injective on the components
   that occur, onto clean names -- rename the site, give the streams in any order: every zone of the original tree has a
   counterpart in the new tree and the new tree has no other zones. *)
Theorem C12_zone_renaming_tree : forall root root' ss ss' f out out',
  NoDup (map sid ss) -> Permutation ss' (map (rename_is f) ss) ->
  (forall c, occurs ss c -> clean_name (f c)) -> (forall a b, occurs ss a -> occurs ss b -> f a = f b -> a = b) ->
  model_synth root ss = Ok out -> model_synth root' ss' = Ok out' ->
  (forall z, In z out -> exists z', In z' out' /\ zone_corr f out out' z z')
  /\ (forall z', In z' out' -> exists z, In z out /\ zone_corr f out out' z z').
Proof. exact rename_reorder_tree. Qed.
Print Assumptions C12_zone_renaming_tree.

(* the label cleaning reads a renamed label back as the renamed components (this is where `clean_name` is used) *)
Theorem C12_renamed_label_is_read_back : forall f l, (forall c, In c (split_label l) -> clean_name (f c)) ->
  nonempty (rename_label f l) = nonempty l /\ (nonempty l = true -> split_label (rename_label f l) = map f (split_label l)).
Proof. exact rename_label_ok. Qed.
Print Assumptions C12_renamed_label_is_read_back.

(* a plain renaming meets the side conditions: A -> Plant1, B -> Unit 7 on the labels "A", "A/B", "B", "" *)
Theorem C12_renaming_example :
  map (fun s => slabel (rename_is ex_f s)) ex_ss = ["Plant1"; "Plant1/Unit 7"; "Unit 7"; ""]%string
  /\ (forall c, occurs ex_ss c -> clean_name (ex_f c))
  /\ (forall a b, occurs ex_ss a -> occurs ex_ss b -> ex_f a = ex_f b -> a = b).
Proof. exact ex_rename_conditions. Qed.
Print Assumptions C12_renaming_example.

(* REFUTED as a literal image: with A -> Z, B -> Y the zones are listed in another order (sorted label strings) *)
Theorem C12_renaming_listing_order_refuted :
  zpaths (model_synth "Site" ex_ss) = [[]; ["A"]; ["A"; "B"]; ["B"]; ["A"; "O1"]; ["A"; "B"; "O1"]; ["B"; "O1"]]%string
  /\ zpaths (model_synth "Site" (map (rename_is ex_f2) ex_ss)) = [[]; ["Y"]; ["Z"]; ["Z"; "Y"]; ["Y"; "O1"]; ["Z"; "O1"]; ["Z"; "Y"; "O1"]]%string
  /\ zpaths (model_synth "Site" (map (rename_is ex_f2) ex_ss)) <> map (map ex_f2) (zpaths (model_synth "Site" ex_ss)).
Proof. exact rename_listing_order_refuted. Qed.
Print Assumptions C12_renaming_listing_order_refuted.

(* REFUTED likewise: the NUMBER k of a generated name O<k> when a renamed component looks like a generated name -- labels "A"
   and "A/O1": the stream labelled "A" gets A/O2 (O1 is taken by a label); after O1 -> X it gets A/O1.  Its counterpart in
   the sense of zone_corr is that leaf (same parent, same stream), which is why the theorems above need no side condition
   about generated names.
   OPEN (not attempted): if f additionally fixes generated names (f c = O<k> iff c = O<k> on the components that occur), no two
   labelled streams share (label, name), and streams with the same label components have the same label string, then every
   stream's generated leaf keeps its number: asg'(sid s) = map f (comps s) ++ [O<k>] whenever asg(sid s) = comps s ++ [O<k>].
   The ingredients are identified (k of the j-th stream of a label group = j-th number whose name is not a label-created child
   of the group's zone) but the invariant of the counter loop across two different interleavings is not formalised. *)
Theorem C12_renaming_generated_number_refuted :
  leaf_path_of (model_synth "Site" ex_ss3) 0 = [["A"; "O2"]]%string
  /\ leaf_path_of (model_synth "Site" (map (rename_is ex_f3) ex_ss3)) 0 = [["A"; "O1"]]%string
  /\ leaf_path_of (model_synth "Site" ex_ss3) 1 = [["A"; "O1"; "O1"]]%string
  /\ leaf_path_of (model_synth "Site" (map (rename_is ex_f3) ex_ss3)) 1 = [["A"; "X"; "O1"]]%string.
Proof. exact rename_generated_number_refuted. Qed.
Print Assumptions C12_renaming_generated_number_refuted.

(* ... CARRIED TO THE NUMBERS.  `zin` = input stream with identity, label, name and numeric data; the twin problem keeps
   identity and data of every stream, has the labels renamed by f, may rename the streams themselves and the site, and
   lists the streams in any order.  Then corresponding zones have the IDENTICAL problem table (every column) for every window
   and every set of extra grid contributors, hence identical targets -- with no Robust / lattice hypothesis. *)
Theorem C12_zone_renaming_tables : forall xs xs' f r,
  NoDup (map z_id xs) -> Permutation xs' (map r xs) ->
  (forall x, In x xs -> z_id (r x) = z_id x) -> (forall x, In x xs -> z_data (r x) = z_data x) ->
  (forall x, In x xs -> z_label (r x) = rename_label f (z_label x)) ->
  forall root root' out out',
  (forall c, occurs (map to_istream xs) c -> clean_name (f c)) ->
  (forall a b, occurs (map to_istream xs) a -> occurs (map to_istream xs) b -> f a = f b -> a = b) ->
  model_synth root (map to_istream xs) = Ok out -> model_synth root' (map to_istream xs') = Ok out' ->
  (forall z, In z out -> exists z', In z' out' /\ zone_corr f out out' z z' /\ forall w extra,
     stage_model w (zone_hot_views xs z) (zone_cold_views xs z) extra = stage_model w (zone_hot_views xs' z') (zone_cold_views xs' z') extra)
  /\ (forall z', In z' out' -> exists z, In z out /\ zone_corr f out out' z z' /\ forall w extra,
     stage_model w (zone_hot_views xs z) (zone_cold_views xs z) extra = stage_model w (zone_hot_views xs' z') (zone_cold_views xs' z') extra).
Proof. exact twin_zone_tables. Qed.
Print Assumptions C12_zone_renaming_tables.

(* STREAM ORDER, without any hypothesis on names: the same zones (same paths for the zones created for labels, for every
   stream a generated leaf below the same parent) holding the same identities, and identical tables zone by zone. *)
Theorem C12_stream_order_tree : forall root ss ss' out out',
  NoDup (map sid ss) -> Permutation ss' ss -> model_synth root ss = Ok out -> model_synth root ss' = Ok out' ->
  (forall z, In z out -> exists z', In z' out' /\ zone_corr (fun c => c) out out' z z')
  /\ (forall z', In z' out' -> exists z, In z out /\ zone_corr (fun c => c) out out' z z').
Proof. exact reorder_tree. Qed.
Print Assumptions C12_stream_order_tree.
Theorem C12_stream_order_tables : forall root xs xs' out out', NoDup (map z_id xs) -> Permutation xs' xs ->
  model_synth root (map to_istream xs) = Ok out -> model_synth root (map to_istream xs') = Ok out' ->
  forall z, In z out -> exists z', In z' out' /\ zone_corr (fun c => c) out out' z z' /\ forall w extra,
    stage_model w (zone_hot_views xs z) (zone_cold_views xs z) extra = stage_model w (zone_hot_views xs' z') (zone_cold_views xs' z') extra.
Proof. exact reorder_zone_tables. Qed.
Print Assumptions C12_stream_order_tables.

(* STREAM ORDER, literally: the code sorts by (zone label, name) before it generates unit-operation names and by name before
   placement; if no two labelled streams share BOTH label and name, the whole prepared tree -- zone listing, generated names
   O<k>, entry order, keys -- is the same value for every order of the input.  The hypothesis is on the input: the code does
   not create it. *)
Theorem C12_stream_order_literal : forall root ss ss',
  NoDup (map sid ss) -> NoDup (map (fun s => (slabel s, sname s)) (filter labelled ss)) -> Permutation ss ss' ->
  model_synth root ss = model_synth root ss'.
Proof. exact model_synth_perm. Qed.
Print Assumptions C12_stream_order_literal.
Theorem C12_stream_order_literal_distinct_names : forall root ss ss',
  NoDup (map sid ss) -> NoDup (map sname (filter labelled ss)) -> Permutation ss ss' -> model_synth root ss = model_synth root ss'.
Proof. exact model_synth_perm_names. Qed.
Print Assumptions C12_stream_order_literal_distinct_names.
(* REFUTED without it: two streams of zone "A" both named "S", one hot (identity 0) one cold (identity 1); the input order
   decides which of them receives the unit operation A/O1 and which A/O2 (zone A itself holds both either way).
   Replayed on the implementation: same swap. *)
Theorem C12_same_key_order_refuted :
  model_synth "Site" [dup_a; dup_b] <> model_synth "Site" [dup_b; dup_a]
  /\ zone_ids (model_synth "Site" [dup_a; dup_b]) ["A"; "O1"]%string = ([0%nat], []) /\ zone_ids (model_synth "Site" [dup_a; dup_b]) ["A"; "O2"]%string = ([], [1%nat])
  /\ zone_ids (model_synth "Site" [dup_b; dup_a]) ["A"; "O1"]%string = ([], [1%nat]) /\ zone_ids (model_synth "Site" [dup_b; dup_a]) ["A"; "O2"]%string = ([0%nat], [])
  /\ zone_ids (model_synth "Site" [dup_a; dup_b]) ["A"%string] = zone_ids (model_synth "Site" [dup_b; dup_a]) ["A"%string].
Proof. exact same_key_order_refuted. Qed.
Print Assumptions C12_same_key_order_refuted.

(* ZONE ORDER at site level: each target of the total-process record is a sum over the zones' records and each utility duty a
   sum of the zones' duty lists; both are the same reduced rationals for every order of the zones, *)
Theorem C12_zone_order_target_sums : forall (f : rec -> Q) zones zones', Permutation zones zones' ->
  qsum (map f zones) = qsum (map f zones').
Proof. exact zone_sum_perm. Qed.
Print Assumptions C12_zone_order_target_sums.
Theorem C12_zone_order_utility_sums : forall zones zones', Permutation zones zones' ->
  sum_lists (map r_hu zones) = sum_lists (map r_hu zones') /\ sum_lists (map r_cu zones) = sum_lists (map r_cu zones').
Proof. exact zone_utility_sums_perm. Qed.
Print Assumptions C12_zone_order_utility_sums.
(* so the C09 verdict on the reported site records does not depend on the order in which the zones are listed. *)
Theorem C12_zone_order_site_predicate : forall eps slack xs zones zones' di tz ts, Permutation zones zones' ->
  c09_b eps slack xs zones di tz ts = c09_b eps slack xs zones' di tz ts.
Proof. exact c09_b_zone_order. Qed.
Print Assumptions C12_zone_order_site_predicate.
(* UTILITY ORDER in the total-site cascade: H_NET_UT, Qh and Qc of the site are identical for every order of the hot and of
   the cold utility pseudo-streams -- on a given grid, and on the grid built from their own end points. *)
Theorem C12_site_cascade_utility_order : forall w hu hu' cu cu' g, Permutation hu hu' -> Permutation cu cu' ->
  site_hnet_ut w hu cu g = site_hnet_ut w hu' cu' g.
Proof. exact site_hnet_ut_perm. Qed.
Print Assumptions C12_site_cascade_utility_order.
Theorem C12_site_targets_utility_order : forall w hu hu' cu cu' g, Permutation hu hu' -> Permutation cu cu' ->
  site_Qh w hu cu g = site_Qh w hu' cu' g /\ site_Qc w hu cu g = site_Qc w hu' cu' g.
Proof. exact site_targets_perm. Qed.
Print Assumptions C12_site_targets_utility_order.
Theorem C12_site_cascade_utility_order_own_grid : forall w hu hu' cu cu' extra extra',
  Permutation hu hu' -> Permutation cu cu' -> Permutation extra extra' ->
  site_hnet_ut w hu cu (grid_of (endpoints (hu ++ cu ++ extra))) = site_hnet_ut w hu' cu' (grid_of (endpoints (hu' ++ cu' ++ extra'))).
Proof. exact site_targets_perm_grid. Qed.
Print Assumptions C12_site_cascade_utility_order_own_grid.
