(* C07 -- Pocket-free GCC is the greatest monotone curve under the GCC.
   Only statements; every proof is `exact <lemma>` from proofs/Pockets*.v.
   Model: model/Pockets.v `gcc_np` = get_GCC_without_pockets as coded (index bookkeeping, insertions, pinch_idx),
   `profiles` = get_seperated_gcc_heat_load_profiles; tied to /repo on every run by harness/props/c07.py.
   Specification: `spec_np` (running minimum of the piecewise-linear INPUT curve; zero between the pinches).
   Robust inputs (decidable `robust_b`): T strictly descending by more than tol; every H_net level is 0 or > tol;
   no two levels within tol unless equal; every crossing of a row level strictly inside an interval lies more than
   tol from both ends.  `has_pinch`: some row is zero. *)
From OP Require Import gen.Consts model.Base model.Pockets
  proofs.PocketsFuel proofs.PocketsPL proofs.PocketsZ proofs.PocketsSim proofs.PocketsTop proofs.PocketsSpec
  proofs.PocketsProfiles proofs.PocketsValley proofs.PocketsGreatest proofs.PocketsExamples proofs.PocketsBreakpoints.
Local Open Scope Q_scope.

(* fuel_suffices: the sweep as coded terminates on EVERY non-empty table (no robustness needed): the model never
   runs out of the fuel hot_pinch + 1 / (rows - 1 - cold_pinch) + 1 it hands to the two loops, and never errs. *)
Theorem C07_fuel_suffices :
  forall Ts Hs, init_rows Ts Hs <> [] -> exists out, gcc_np tol Ts Hs = Ok out.
Proof. intros Ts Hs. exact (gcc_np_total tol Ts Hs tol_pos). Qed.
Print Assumptions C07_fuel_suffices.

(* the termination argument itself: in every iteration of the loop above the pinch the distance pinch_loc - i
   shrinks (also across insertions and the di = 0 iterations), so any fuel above that distance is enough *)
Theorem C07_loop_above_terminates :
  forall fuel t i hp cp p, (p - i < fuel)%nat -> exists r, loop_up tol fuel t i hp cp p = Ok r.
Proof. exact (loop_up_total tol tol_pos). Qed.
Print Assumptions C07_loop_above_terminates.

Theorem C07_loop_below_terminates :
  forall fuel t i hp cp p, (i - p < fuel)%nat -> (i < List.length t)%nat -> exists r, loop_dn tol fuel t i hp cp p = Ok r.
Proof. exact (loop_dn_total tol tol_pos). Qed.
Print Assumptions C07_loop_below_terminates.

(* the ValueError of linear_interpolation (x1 == x2) cannot occur: at the call the exit row lies strictly above the
   row after it (so the model, which has no such error path, loses nothing) *)
Theorem C07_interpolation_never_degenerate_above :
  forall t i0 p, (i0 < p)%nat -> Hat t i0 < Hat t (S i0) - tol -> exit_up tol t i0 p <> p ->
  Hat t (S (exit_up tol t i0 p)) < Hat t (exit_up tol t i0 p).
Proof. intros t i0 p. exact (exit_up_gap tol t i0 p tol_pos). Qed.
Print Assumptions C07_interpolation_never_degenerate_above.

Theorem C07_interpolation_never_degenerate_below :
  forall t i0 p, (p < i0)%nat -> (i0 < List.length t)%nat -> Hat t i0 < Hat t (i0 - 1) - tol -> exit_dn tol t i0 p <> p ->
  Hat t (exit_dn tol t i0 p - 1) < Hat t (exit_dn tol t i0 p).
Proof. intros t i0 p. exact (exit_dn_gap tol t i0 p tol_pos). Qed.
Print Assumptions C07_interpolation_never_degenerate_below.

(* np_everywhere: H_net_np of the output table, read as a piecewise-linear function of temperature, equals at EVERY
   temperature of the table's range the specification: above the hot pinch the minimum of the input curve over
   [T, T_top], below the cold pinch over [T_bottom, T], zero between the pinches. *)
Theorem C07_np_everywhere :
  forall Ts Hs out, robust_b tol Ts Hs = true -> has_pinch tol Hs = true -> gcc_np tol Ts Hs = Ok out ->
  forall x, last Ts 0 <= x <= hd 0 Ts ->
  pl_desc (map rT out) (map rNP out) x == spec_np tol Ts Hs x.
Proof. intros Ts Hs out. exact (np_everywhere tol Ts Hs out tol_pos). Qed.
Print Assumptions C07_np_everywhere.

(* np_rows: every emitted row -- input rows and inserted breakpoints alike -- carries the running minimum *)
Theorem C07_np_rows :
  forall Ts Hs out, robust_b tol Ts Hs = true -> has_pinch tol Hs = true -> gcc_np tol Ts Hs = Ok out ->
  forall r, In r out -> rNP r == spec_np tol Ts Hs (rT r).
Proof. intros Ts Hs out. exact (np_rows tol Ts Hs out tol_pos). Qed.
Print Assumptions C07_np_rows.

(* np_keeps_ends: the first and last row keep Qh and Qc (and their temperatures) *)
Theorem C07_np_keeps_ends :
  forall Ts Hs out, robust_b tol Ts Hs = true -> has_pinch tol Hs = true -> gcc_np tol Ts Hs = Ok out ->
  rNP (hd r0 out) == hd 0 Hs /\ rNP (last out r0) == last Hs 0
  /\ rT (hd r0 out) = hd 0 Ts /\ rT (last out r0) = last Ts 0.
Proof. intros Ts Hs out. exact (np_keeps_ends tol Ts Hs out tol_pos). Qed.
Print Assumptions C07_np_keeps_ends.

(* the code's sweep (indices, insertions, shifts) computes the same table as the functional "zipper" sweep the
   proofs reason about -- literally for T and H_net, up to == for H_net_np -- and the result stays ordered *)
Theorem C07_code_sweep_is_zipper_sweep :
  forall Ts Hs, robust_b tol Ts Hs = true -> has_pinch tol Hs = true ->
  exists out, gcc_np tol Ts Hs = Ok out /\ rows_eqv out (gcc_np_z tol Ts Hs) /\ Tdesc tol (gcc_np_z tol Ts Hs).
Proof. exact (gcc_np_zipper tol tol_pos). Qed.
Print Assumptions C07_code_sweep_is_zipper_sweep.

(* one side, any direction d: the swept side is the running minimum of its curve at every temperature ... *)
Theorem C07_side_running_minimum :
  forall d mk, mk_spec tol mk -> forall Ls fuel cur rest, (List.length rest <= fuel)%nat -> SidePre d tol Ls cur rest ->
  forall x, in_range d (map ptH (cur :: rest)) x ->
  plw d (map ptN (cur :: zsweep tol mk fuel cur rest)) x == rmw d (rH cur) (map ptH (cur :: rest)) x.
Proof. intros d mk Hmk. exact (zsweep_np d tol mk tol_pos Hmk). Qed.
Print Assumptions C07_side_running_minimum.

(* ... and inserting breakpoints leaves the H_net curve itself unchanged at every temperature *)
Theorem C07_side_curve_unchanged :
  forall d mk, mk_spec tol mk -> forall Ls fuel cur rest, (List.length rest <= fuel)%nat -> SidePre d tol Ls cur rest ->
  forall x, in_range d (map ptH (cur :: rest)) x ->
  plw d (map ptH (cur :: zsweep tol mk fuel cur rest)) x == plw d (map ptH (cur :: rest)) x.
Proof. intros d mk Hmk. exact (zsweep_H d tol mk tol_pos Hmk). Qed.
Print Assumptions C07_side_curve_unchanged.

(* the running minimum written recursively along the sweep IS the filter form used by the specification
   (min of the curve value at x and of all rows not beyond x) *)
Theorem C07_running_minimum_forms_agree :
  forall d (a : pt) rest x, mono d tol (a :: rest) -> in_range d (a :: rest) x ->
  rmw d (snd a) (a :: rest) x == qmin_list (plw d (a :: rest) x) (vals_w d x (a :: rest)).
Proof. intros d a rest x. exact (rmw_runmin d tol a rest x (Qlt_le_weak _ _ tol_pos)). Qed.
Print Assumptions C07_running_minimum_forms_agree.

(* THE SPECIFICATION IS THE GREATEST MONOTONE CURVE UNDER THE GCC (title of the property), on any curve with strictly
   falling temperatures: above the pinch the running minimum towards the hot end (i) lies under the curve on the whole
   stretch [x, T_top] -- hence is under the curve and does not decrease with temperature -- and (ii) dominates every
   function that does not decrease with temperature and stays under the curve.  Below the pinch: mirror image. *)
Theorem C07_spec_above_is_greatest_monotone_under_gcc :
  forall Ts Hs, List.length Ts = List.length Hs -> mono true tol (combine Ts Hs) ->
  (forall x x', last Ts 0 <= x -> x <= x' -> x' <= hd 0 Ts -> runmin_above Ts Hs x <= gcc_at Ts Hs x')
  /\ (forall x x', last Ts 0 <= x -> x <= x' -> x' <= hd 0 Ts -> runmin_above Ts Hs x <= runmin_above Ts Hs x')
  /\ (forall (g : Q -> Q) x, (forall u v, u <= v -> g u <= g v) ->
       (forall u, last Ts 0 <= u <= hd 0 Ts -> g u <= gcc_at Ts Hs u) ->
       last Ts 0 <= x <= hd 0 Ts -> g x <= runmin_above Ts Hs x).
Proof. exact (greatest_above tol (Qlt_le_weak _ _ tol_pos)). Qed.
Print Assumptions C07_spec_above_is_greatest_monotone_under_gcc.

Theorem C07_spec_below_is_greatest_monotone_under_gcc :
  forall Ts Hs, List.length Ts = List.length Hs -> mono true tol (combine Ts Hs) ->
  (forall x x', last Ts 0 <= x' -> x' <= x -> x <= hd 0 Ts -> runmin_below Ts Hs x <= gcc_at Ts Hs x')
  /\ (forall (g : Q -> Q) x, (forall u v, u <= v -> g v <= g u) ->
       (forall u, last Ts 0 <= u <= hd 0 Ts -> g u <= gcc_at Ts Hs u) ->
       last Ts 0 <= x <= hd 0 Ts -> g x <= runmin_below Ts Hs x).
Proof. exact (greatest_below tol (Qlt_le_weak _ _ tol_pos)). Qed.
Print Assumptions C07_spec_below_is_greatest_monotone_under_gcc.

(* profiles_monotone: both load profiles are monotone, for EVERY input column *)
Theorem C07_profiles_monotone :
  forall np, noninc_b (fst (profiles tol np)) = true /\ noninc_b (snd (profiles tol np)) = true.
Proof. exact (profiles_monotone tol). Qed.
Print Assumptions C07_profiles_monotone.

(* profiles_ends: for the pocket-free curve of a Robust GCC the heating profile starts at 0 and the cooling profile
   ends at 0 (pinch side); the cooling profile starts at Qh and the heating profile ends at -Qc *)
Theorem C07_profiles_ends :
  forall Ts Hs out, robust_b tol Ts Hs = true -> has_pinch tol Hs = true -> gcc_np tol Ts Hs = Ok out ->
  let p := profiles tol (map rNP out) in
  hd 1 (fst p) == 0 /\ last (snd p) 1 == 0 /\ hd 0 (snd p) == hd 0 Hs /\ - last (fst p) 0 == last Hs 0.
Proof. intros Ts Hs out. exact (profiles_ends tol Ts Hs out tol_pos). Qed.
Print Assumptions C07_profiles_ends.

(* the pinch-side zeros hold for every non-empty column *)
Theorem C07_profiles_zero_at_pinch_side :
  forall np, np <> [] -> hd 1 (fst (profiles tol np)) == 0 /\ last (snd (profiles tol np)) 1 == 0.
Proof. exact (profiles_zero_side tol). Qed.
Print Assumptions C07_profiles_zero_at_pinch_side.

(* non-vacuity: the D2 witness curve is Robust and has a pinch; the model's table for it is pinned (a pocket at
   T = 100 survived on the unrepaired code); the boolean property predicate holds on it *)
Theorem C07_robust_nonvacuous_D2 : robust_b tol d2_T d2_H = true /\ has_pinch tol d2_H = true.
Proof. exact d2_robust. Qed.
Print Assumptions C07_robust_nonvacuous_D2.

Theorem C07_D2_model_table :
  gcc_np tol d2_T d2_H =
  Ok [mkR 200 50 50; mkR 180 70 50; mkR (500 # 3) 50 50; mkR 160 40 40; mkR 140 60 40; mkR 130 40 40;
      mkR 120 20 20; mkR 100 30 20; mkR (280 # 3) 20 20; mkR 80 0 0; mkR 60 10 10].
Proof. exact d2_model. Qed.
Print Assumptions C07_D2_model_table.

(* pinned: repaired defect D56 (pocket closing within tol of a row below the pinch) -- the model flattens the exit row *)
Theorem C07_D56_model_column :
  robust_b tol d56_T d56_H = false /\
  match gcc_np tol d56_T d56_H with Ok m => map rNP m | Err _ => [] end = [200; 200; 0; (199995 # 10000); 20; 20; 20; (105 # 4)].
Proof. exact d56_model. Qed.
Print Assumptions C07_D56_model_column.

Theorem C07_predicate_holds_on_examples : model_ok d2_T d2_H = true /\ model_ok ex2_T ex2_H = true.
Proof. exact examples_predicate. Qed.
Print Assumptions C07_predicate_holds_on_examples.

Theorem C07_robust_is_a_real_restriction : robust_b tol [30; 20; 10] [5; (50000001 # 10000000); 0] = false.
Proof. exact not_robust_example. Qed.
Print Assumptions C07_robust_is_a_real_restriction.

(* ====================================================================================================================== *)
(* np_breakpoints (was open: checked on outputs only by clause 2 of P_np): WHICH rows the output has.                      *)
(* `Weave inp bps out` (proofs/PocketsBreakpoints.v): out is inp, row by row in order with the same temperature and the    *)
(* same H_net (only H_net_np may differ), with the rows bps inserted, in their order.  `expected_bps` (model/Pockets.v,    *)
(* independent specification): sweeping from either end towards the pinch with M = minimum of the rows visited so far,     *)
(* the interval prev -> next gets a breakpoint iff H prev > M > H next (a pocket entered at level M closes strictly        *)
(* inside it), at the temperature cross_at M prev next where the segment takes the level M again.                          *)
(* ====================================================================================================================== *)

(* a breakpoint exists exactly where a pocket closes, and no other rows are added: the output rows are the input rows, in
   order, plus exactly one inserted row at each temperature of the specification's list, in that order *)
Theorem C07_breakpoints_exactly_where_pockets_close :
  forall Ts Hs out, robust_b tol Ts Hs = true -> has_pinch tol Hs = true -> gcc_np tol Ts Hs = Ok out ->
  exists bps, Weave (init_rows Ts Hs) bps out /\ Forall2 (fun b t => rT b == t) bps (expected_bps tol Ts Hs).
Proof. intros Ts Hs out. exact (breakpoints tol Ts Hs out tol_pos). Qed.
Print Assumptions C07_breakpoints_exactly_where_pockets_close.

(* hence the number of rows added equals the number of intervals in which a pocket closes strictly inside *)
Theorem C07_rows_added_count :
  forall Ts Hs out, robust_b tol Ts Hs = true -> has_pinch tol Hs = true -> gcc_np tol Ts Hs = Ok out ->
  List.length out = (List.length Ts + List.length (expected_bps tol Ts Hs))%nat.
Proof. intros Ts Hs out. exact (rows_added tol Ts Hs out tol_pos). Qed.
Print Assumptions C07_rows_added_count.

(* what `Weave` gives for a single row: it is an input row (same T, same H_net) or one of the inserted rows *)
Theorem C07_every_row_is_input_or_breakpoint :
  forall inp bps out r, Weave inp bps out -> In r out ->
  (exists r1, In r1 inp /\ rT r = rT r1 /\ rH r = rH r1) \/ In r bps.
Proof. intros inp bps out r. exact (Weave_in_out inp bps out r). Qed.
Print Assumptions C07_every_row_is_input_or_breakpoint.

(* the crossing temperature is THE point of its interval at which the curve takes the level M (unique: the segment is
   strictly monotone there) *)
Theorem C07_crossing_is_unique :
  forall M (a b : pt), ~ fst b == fst a -> ~ snd b == snd a ->
  seg a b (cross_at M a b) == M /\ (forall t, seg a b t == M -> t == cross_at M a b).
Proof. intros M a b Hf Hs. exact (conj (cross_at_on_segment M a b Hf Hs) (fun t => cross_at_unique M a b t Hf Hs)). Qed.
Print Assumptions C07_crossing_is_unique.

(* curve unchanged, WHOLE table (both sides of the pinch and the rows between the pinches, not per side): the H_net column
   of the output, read as a piecewise-linear function of temperature, is the input GCC at every temperature of the range *)
Theorem C07_curve_unchanged_whole_table :
  forall Ts Hs out, robust_b tol Ts Hs = true -> has_pinch tol Hs = true -> gcc_np tol Ts Hs = Ok out ->
  forall x, last Ts 0 <= x <= hd 0 Ts -> pl_desc (map rT out) (map rH out) x == gcc_at Ts Hs x.
Proof. intros Ts Hs out. exact (curve_unchanged tol Ts Hs out tol_pos). Qed.
Print Assumptions C07_curve_unchanged_whole_table.

(* in particular every row -- kept or inserted -- carries the interpolated H_net of the input curve *)
Theorem C07_rows_on_input_curve :
  forall Ts Hs out, robust_b tol Ts Hs = true -> has_pinch tol Hs = true -> gcc_np tol Ts Hs = Ok out ->
  forall r, In r out -> rH r == gcc_at Ts Hs (rT r).
Proof. intros Ts Hs out. exact (rows_on_curve tol Ts Hs out tol_pos). Qed.
Print Assumptions C07_rows_on_input_curve.

(* non-vacuity: the D2 curve has 8 rows and three pockets closing inside an interval; the model's table (C07_D2_model_table)
   has 11 rows, the three extra ones at exactly these temperatures *)
Theorem C07_breakpoints_nonvacuous_D2 : expected_bps tol d2_T d2_H = [500 # 3; 130; 280 # 3] /\ List.length d2_T = 8%nat.
Proof. exact d2_expected_bps. Qed.
Print Assumptions C07_breakpoints_nonvacuous_D2.
