(* C09 -- Total-site targets are additive over zones and bracketed by bounds (statements only). *)
From OP Require Import gen.Consts model.Base model.Cascade model.Site proofs.CascadeSpec proofs.CascadeExact proofs.CascadeTargets proofs.SiteFacts.
Local Open Scope Q_scope.

(* upper bound: total-site hot/cold targets never exceed the total hot/cold utility duty handed up by the zones
   (which is the sum of the zonal targets when each zone's utilities sum to its targets) *)
Theorem C09_total_site_le_sum :
  forall w hu cu g, 0 < w -> wfs hu -> wfs cu -> desc g -> g <> [] -> covers g (eps_all hu cu) -> gaps_ok w 0 g ->
  site_Qh w hu cu g <= duty hu /\ site_Qc w hu cu g <= duty cu.
Proof. intros. apply site_targets_le_duties; assumption. Qed.
Print Assumptions C09_total_site_le_sum.

(* lower bound: if at every temperature the utilities release at least the site's net heat deficit above it (every
   zone's utility profile feasible, summed over the partition of the site's streams), the total-site hot target is at
   least the deficit above ANY temperature, i.e. at least the site's own direct-integration target.
   The feasibility hypothesis `forall T, Dnet hotS coldS T <= U hu cu T` is reduced to the zonal C03 / C04 statements at the
   end of this file (C09_lower_bound_from_zonal_feasibility, C09_zone_feasible_model_partial). *)
Theorem C09_total_site_ge_direct :
  forall w hu cu g, 0 < w -> wfs hu -> wfs cu -> desc g -> g <> [] -> covers g (eps_all hu cu) -> gaps_ok w 0 g ->
  forall hotS coldS, (forall T, Dnet hotS coldS T <= U hu cu T) -> forall T, Dnet hotS coldS T <= site_Qh w hu cu g.
Proof. intros. eapply site_Qh_ge_direct; eauto. Qed.
Print Assumptions C09_total_site_ge_direct.

(* heat recovery of the total-site record = summed zonal recovery + hot utility saved *)
Theorem C09_recovery_identity : forall sum_qr sum_qh qh_ts, site_Qr sum_qr sum_qh qh_ts == sum_qr + (sum_qh - qh_ts).
Proof. exact site_Qr_identity. Qed.
Print Assumptions C09_recovery_identity.

(* additivity of the stream-side quantities over any partition into zones *)
Theorem C09_duty_additive : forall a b, duty (a ++ b) == duty a + duty b.
Proof. exact duty_app. Qed.
Print Assumptions C09_duty_additive.

(* ---------------------------------------------------------------------------------------------------------------------- *)
(* Composition with the zonal utility targeting (model/Utility.v; lemmas in proofs/ComposeSiteBound.v): the feasibility     *)
(* hypothesis of C09_total_site_ge_direct is reduced to what C03 (sums close) and C04 (utility profile under the GCC) say    *)
(* zone by zone.  A utility u with duty q is the view uview u q = [t_min*, t_max*] with CP = q / range.                      *)
(* ---------------------------------------------------------------------------------------------------------------------- *)
From OP Require Import model.Stream model.Utility proofs.ComposeSiteBound.

(* Dnet - U is the net deficit of the combined system (utilities as streams), piecewise linear with breaks at the end points
   bps = end points of the streams and utilities: feasibility (with slack d) AT THE END POINTS implies it at EVERY temperature. *)
Theorem C09_feasibility_from_break_points :
  forall hotS coldS hu cu d, wfs hotS -> wfs coldS -> wfs hu -> wfs cu -> 0 <= d ->
  (forall e, In e (endpoints (hotS ++ hu) ++ endpoints (coldS ++ cu)) -> Dnet hotS coldS e <= U hu cu e + d) ->
  forall T, Dnet hotS coldS T <= U hu cu T + d.
Proof. exact feasible_from_breakpoints. Qed.
Print Assumptions C09_feasibility_from_break_points.

(* At a temperature x not strictly inside the range of any utility (isothermal ladders), the utility heat released above x
   is the total hot duty minus the step form of the utility profile (hut_step of Utility.v = what C04 compares with the GCC). *)
Theorem C09_utility_heat_is_step_profile :
  forall hus cus dh dc x,
  (forall u, In u hus -> u_tmins u < u_tmaxs u) -> (forall u, In u cus -> u_tmins u < u_tmaxs u) ->
  List.length hus = List.length dh ->
  (forall u, In u (hus ++ cus) -> x <= u_tmins u \/ u_tmaxs u <= x) ->
  U (uviews hus dh) (uviews cus dc) x == qsum dh - hut_step x hus cus dh dc.
Proof. exact U_step. Qed.
Print Assumptions C09_utility_heat_is_step_profile.

(* Utilities of equal range merge by adding duties: the site utilities carrying the summed zonal duties (vsum = the
   Total-Process-Target rule of C03's judge_tz) release the same heat as all zonal copies together. *)
Theorem C09_site_utilities_carry_the_sums :
  forall hus cus zs T,
  Forall (fun z => List.length (zd_dh z) = List.length hus /\ List.length (zd_dc z) = List.length cus) zs ->
  U (uviews hus (vsum (map zd_dh zs) (List.length hus))) (uviews cus (vsum (map zd_dc zs) (List.length cus))) T
  == U (flat_map (fun z => uviews hus (zd_dh z)) zs) (flat_map (fun z => uviews cus (zd_dc z)) zs) T.
Proof. exact U_merged. Qed.
Print Assumptions C09_site_utilities_carry_the_sums.

(* THE LOWER BOUND FROM ZONAL FEASIBILITY.  Site = zones zs (streams zd_hot / zd_cold, duties zd_dh / zd_dc against the
   site's utility lists hus / cus, zonal hot target qh z, closing error zd_err z).  If in every zone
     - duties are non-negative (C03_duties_nonneg) and the hot sum closes to the error (C03_sum_*: error <= tol),
     - no break point of the zone lies strictly inside the range of a utility (isothermal ladders),
     - the utility step profile lies under the zone's GCC  qh - Dnet  at the break points (C04: H_ut <= H_net),
   then the total-site hot target computed from the site utilities carrying the summed duties is at least the net deficit of
   ALL site streams above ANY temperature (hence at least the site's direct-integration target), up to the summed errors.
   g: any grid for the site utility cascade as in C09_total_site_ge_direct. *)
Theorem C09_lower_bound_from_zonal_feasibility :
  forall w hus cus (zs : list zdat) (qh : zdat -> Q) g,
  let hu := uviews hus (vsum (map zd_dh zs) (List.length hus)) in
  let cu := uviews cus (vsum (map zd_dc zs) (List.length cus)) in
  0 < w -> (forall u, In u hus -> u_tmins u < u_tmaxs u) -> (forall u, In u cus -> u_tmins u < u_tmaxs u) ->
  desc g -> g <> [] -> covers g (eps_all hu cu) -> gaps_ok w 0 g ->
  Forall (fun z =>
    wfs (zd_hot z) /\ wfs (zd_cold z)
    /\ List.length (zd_dh z) = List.length hus /\ List.length (zd_dc z) = List.length cus
    /\ Forall (fun q => 0 <= q) (zd_dh z) /\ Forall (fun q => 0 <= q) (zd_dc z)
    /\ 0 <= zd_err z /\ qh z - zd_err z <= qsum (zd_dh z)
    /\ (forall e u, In e (bps (zd_hot z) (zd_cold z) (uviews hus (zd_dh z)) (uviews cus (zd_dc z))) -> In u (hus ++ cus) ->
                    e <= u_tmins u \/ u_tmaxs u <= e)
    /\ (forall e, In e (bps (zd_hot z) (zd_cold z) (uviews hus (zd_dh z)) (uviews cus (zd_dc z))) ->
                  hut_step e hus cus (zd_dh z) (zd_dc z) <= qh z - Dnet (zd_hot z) (zd_cold z) e)) zs ->
  forall T, Dnet (flat_map zd_hot zs) (flat_map zd_cold zs) T <= site_Qh w hu cu g + zsum zd_err zs.
Proof. exact site_lower_bound_from_zonal_feasibility. Qed.
Print Assumptions C09_lower_bound_from_zonal_feasibility.

(* One zone with the duties the MODEL of the targeting assigns (assign_hot / assign_cold on rows Tg, heating-demand profile
   Hh, cooling-demand profile Hc, pinch rows rh / rc): the zonal hypotheses above follow from C03_sum_hot_partial (one
   utility u clear of the rows reaches the top row: the hot sum closes to tol) and C04_level_feasible_hot / _cold (the step
   profile is bounded by the two pocket-free demand profiles, ANY ladders).
   _partial, RESIDUAL hypotheses: (a) no break point strictly inside a utility range; (b) the pocket-free demand profiles lie
   under the zone's GCC at the break points, prow + prow_cold <= Qh - Dnet  (the link between C07's running-minimum
   specification, C06_table_residual_is_exact and the profiles handed to the targeting is not composed here). *)
Theorem C09_zone_feasible_model_partial :
  forall hot cold Tg Hh Hc rh rc hus cus u,
  let Ts := firstn (S rh) Tg in let Hs := firstn (S rh) Hh in
  let k := Nat.max (rc - 1) 0 in let Tc := skipn k Tg in let Hk := skipn k Hc in
  let dh := assign_hot tol Tg Hh rh hus in let dc := assign_cold tol Tg Hc rc cus in
  wfs hot -> wfs cold -> (forall v, In v hus -> u_tmins v < u_tmaxs v) -> (forall v, In v cus -> u_tmins v < u_tmaxs v) ->
  strict_desc Ts = true -> noninc Hs = true -> List.length Ts = List.length Hs -> 0 <= Utility.lastq Hs -> Utility.lastq Hs <= tol ->
  tol < headq Hs -> In u hus -> clear_hot tol Ts u = true -> - tol <= u_tmaxs u - List.hd 0 Ts ->
  strict_desc Tc = true -> noninc (rev Hk) = true -> List.length Tc = List.length Hk -> 0 <= headq Hk ->
  (forall e v, In e (bps hot cold (uviews hus dh) (uviews cus dc)) -> In v (hus ++ cus) -> e <= u_tmins v \/ u_tmaxs v <= e) ->
  (forall e, In e (bps hot cold (uviews hus dh) (uviews cus dc)) ->
             prow tol Ts Hs e + prow_cold tol Tc Hk e <= headq Hs - Dnet hot cold e) ->
  forall T, Dnet hot cold T <= U (uviews hus dh) (uviews cus dc) T + tol.
Proof. exact zone_feasible_model_C03. Qed.
Print Assumptions C09_zone_feasible_model_partial.

(* C04's two level-feasibility theorems in the step form of the utility profile: for ANY ladders (glides included) the step
   profile of the model's duties lies under the sum of the two pocket-free demand profiles, at every temperature x *)
Theorem C09_step_profile_under_demand_profiles :
  forall Tg Hh Hc rh rc hus cus x,
  let Ts := firstn (S rh) Tg in let Hs := firstn (S rh) Hh in
  let k := Nat.max (rc - 1) 0 in let Tc := skipn k Tg in let Hk := skipn k Hc in
  strict_desc Ts = true -> noninc Hs = true -> List.length Ts = List.length Hs -> 0 <= Utility.lastq Hs ->
  strict_desc Tc = true -> noninc (rev Hk) = true -> List.length Tc = List.length Hk -> 0 <= headq Hk ->
  hut_step x hus cus (assign_hot tol Tg Hh rh hus) (assign_cold tol Tg Hc rc cus) <= prow tol Ts Hs x + prow_cold tol Tc Hk x.
Proof. exact hut_step_le_profiles. Qed.
Print Assumptions C09_step_profile_under_demand_profiles.

(* non-vacuity: two zones (a cold stream 50->100; a hot stream 150->60), one 0.1 K hot and one 0.1 K cold utility: the zonal
   hypotheses (break points clear of the ladders, step profile under the GCC) hold with error 0 *)
Theorem C09_zonal_feasibility_nonvacuous :
  forallb (fun z =>
    forallb (fun e => forallb (fun u => qleb e (u_tmins u) || qleb (u_tmaxs u) e) (nv_hus ++ nv_cus)
                      && qleb (hut_step e nv_hus nv_cus (zd_dh z) (zd_dc z)) (nv_qh z - Dnet (zd_hot z) (zd_cold z) e))
            (bps (zd_hot z) (zd_cold z) (uviews nv_hus (zd_dh z)) (uviews nv_cus (zd_dc z)))) [nv_z1; nv_z2] = true
  /\ vsum (map zd_dh [nv_z1; nv_z2]) 1 = [50] /\ vsum (map zd_dc [nv_z1; nv_z2]) 1 = [90].
Proof. exact site_bound_nonvacuous. Qed.
Print Assumptions C09_zonal_feasibility_nonvacuous.

(* ---------------------------------------------------------------------------------------------------------------------- *)
(* THE LOWER BOUND WITH DATA HYPOTHESES ONLY (proofs/ComposeSiteFeasible.v): the zonal C03 / C04 hypotheses of              *)
(* C09_lower_bound_from_zonal_feasibility are DERIVED, for the duties the model of get_utility_targets assigns (di_duties)   *)
(* on the output table of the model of get_GCC_without_pockets (gcc_np), by composing C07 (pocket-free GCC), the C04         *)
(* demand-column composition (ComposePocketsUtility), C04 level feasibility and C03 sums.                                   *)
(* A zone  z = mkZg hot cold Ts Hs out : process streams, GCC rows (T, H_net), output table of gcc_np.                       *)
(* ---------------------------------------------------------------------------------------------------------------------- *)
From OP Require Import model.Pockets proofs.UtilityRows proofs.ComposeSiteFeasible.

(* what `zone_data hus cus z` says -- the complete list of data hypotheses on a zone (hus / cus: the site's utilities):
   d1 the GCC column is the exact residual (C06_table_residual_is_exact); d2 the GCC is Robust, has a pinch, gcc_np returns out
   (C07); d3 every utility is gridded on the rows of out (0.1 K wide, clear of the rows, both ends rows: C04); d4 one hot
   utility reaches the top row, one cold utility the bottom row; d5 every end point of a stream or utility is (==) a GCC row *)
Theorem C09_zone_data_means :
  forall hus cus z, zone_data hus cus z <->
  (wfs (zg_hot z) /\ wfs (zg_cold z)
   /\ Forall2 (fun t h => h == List.hd 0 (zg_Hs z) - Dnet (zg_hot z) (zg_cold z) t) (zg_Ts z) (zg_Hs z)
   /\ robust_b tol (zg_Ts z) (zg_Hs z) = true /\ has_pinch tol (zg_Hs z) = true /\ gcc_np tol (zg_Ts z) (zg_Hs z) = Ok (zg_out z)
   /\ (forall v, In v hus -> gridded_hot tol (map rT (zg_out z)) v) /\ (forall v, In v cus -> gridded_cold tol (map rT (zg_out z)) v)
   /\ (exists uh, In uh hus /\ - tol <= u_tmaxs uh - List.hd 0 (zg_Ts z)) /\ (exists uc, In uc cus /\ u_tmins uc <= List.last (zg_Ts z) 0 + tol)
   /\ (forall e, In e (bps (zg_hot z) (zg_cold z) (uviews hus (zg_dh hus cus z)) (uviews cus (zg_dc hus cus z))) ->
                  exists t, In t (zg_Ts z) /\ t == e)).
Proof. intros hus cus z. exact (conj (fun H => H) (fun H => H)). Qed.
Print Assumptions C09_zone_data_means.

(* d1 and d5 are facts of the problem-table model: for the stage model of a zone whose grid contributors are the site's
   utilities, on lattice inputs with rows more than the activity window apart, zone_data needs d2, d3, d4 only *)
Theorem C09_zone_data_of_the_stage_model :
  forall hot cold hus cus out,
  let extra := ladder_views (hus ++ cus) in
  let p := stage_model act_window hot cold extra in
  wfs hot -> wfs cold -> hot ++ cold <> [] ->
  CascadeGrid.on_lattice (endpoints (hot ++ cold ++ extra)) ->
  CascadeGrid.gaps_b act_window (grid_of (endpoints (hot ++ cold ++ extra))) = true ->
  robust_b tol (pT p) (pHn p) = true -> has_pinch tol (pHn p) = true -> gcc_np tol (pT p) (pHn p) = Ok out ->
  (forall v, In v hus -> gridded_hot tol (map rT out) v) -> (forall v, In v cus -> gridded_cold tol (map rT out) v) ->
  (exists uh, In uh hus /\ - tol <= u_tmaxs uh - List.hd 0 (pT p)) -> (exists uc, In uc cus /\ u_tmins uc <= List.last (pT p) 0 + tol) ->
  zone_data hus cus (mkZg hot cold (pT p) (pHn p) out).
Proof. exact stage_zone_data. Qed.
Print Assumptions C09_zone_data_of_the_stage_model.

(* one zone: from the data to  Dnet <= U + 2 tol  at every temperature and to both sums closing to within 2 tol of the
   zone's targets Qh = H_net[0], Qc = H_net[last] (tol at the pinch row + tol at the entry test of _target_utility) *)
Theorem C09_zone_feasible_from_the_gcc :
  forall hot cold hus cus Ts Hs out uh uc,
  let T := map rT out in let HA := map rNP out in
  let dd := di_duties tol T HA (sep_hot HA) (sep_cold HA) hus cus in
  wfs hot -> wfs cold ->
  Forall2 (fun t h => h == List.hd 0 Hs - Dnet hot cold t) Ts Hs ->
  robust_b tol Ts Hs = true -> has_pinch tol Hs = true -> gcc_np tol Ts Hs = Ok out ->
  (forall v, In v hus -> gridded_hot tol T v) -> (forall v, In v cus -> gridded_cold tol T v) ->
  In uh hus /\ - tol <= u_tmaxs uh - List.hd 0 Ts -> In uc cus /\ u_tmins uc <= List.last Ts 0 + tol ->
  (forall e, In e (bps hot cold (uviews hus (fst dd)) (uviews cus (snd dd))) -> exists t, In t Ts /\ t == e) ->
  (forall x, Dnet hot cold x <= U (uviews hus (fst dd)) (uviews cus (snd dd)) x + 2 * tol)
  /\ (List.hd 0 Hs - 2 * tol <= qsum (fst dd) /\ qsum (fst dd) <= List.hd 0 Hs
      /\ Forall (fun q => 0 <= q) (fst dd) /\ List.length hus = List.length (fst dd))
  /\ (List.last Hs 0 - 2 * tol <= qsum (snd dd) /\ qsum (snd dd) <= List.last Hs 0
      /\ Forall (fun q => 0 <= q) (snd dd) /\ List.length cus = List.length (snd dd)).
Proof. exact zone_from_gcc. Qed.
Print Assumptions C09_zone_feasible_from_the_gcc.

(* THE SITE, any number n of zones: the total-site targets computed from the site utilities carrying the summed zonal duties
   are at least the exact direct-integration optimum (Qh*, Qc* of C01) of ALL site streams, up to the zonal closing errors:
        Qh* <= Qh_TS + 2 n tol        Qc* <= Qc_TS + 4 n tol        Dnet(site streams) T <= Qh_TS + 2 n tol  for every T.
   Hypotheses: zone_data for every zone; the site utility lists are ladders (lower shifted end below the upper one); g is a descending grid for the
   site utility cascade covering the utilities' end points with rows more than the window apart (as in C09_total_site_le_sum).
   still assumed (data, not derivable in these models): d2 Robust GCC with a pinch; d3 gridded ON THE OUTPUT TABLE of gcc_np
   (its inserted breakpoints are rows too); d4 extreme utilities.  The slack is real: each zonal sum closes only to tol. *)
Theorem C09_total_site_ge_direct_from_data :
  forall w hus cus (zs : list zgcc) g,
  let hu := site_hu hus cus zs in let cu := site_cu hus cus zs in
  let hotS := flat_map zg_hot zs in let coldS := flat_map zg_cold zs in
  0 < w -> (forall u, In u hus -> u_tmins u < u_tmaxs u) -> (forall u, In u cus -> u_tmins u < u_tmaxs u) ->
  desc g -> g <> [] -> covers g (eps_all hu cu) -> gaps_ok w 0 g ->
  Forall (zone_data hus cus) zs ->
  Qh_star hotS coldS <= site_Qh w hu cu g + nq (List.length zs) * (2 * tol)
  /\ Qc_star hotS coldS <= site_Qc w hu cu g + nq (List.length zs) * (4 * tol)
  /\ (forall T, Dnet hotS coldS T <= site_Qh w hu cu g + nq (List.length zs) * (2 * tol)).
Proof. exact site_targets_ge_direct. Qed.
Print Assumptions C09_total_site_ge_direct_from_data.

(* non-vacuity, WITH INTER-ZONE RECOVERY through an intermediate utility level.  Site utilities: hot 300 and 140, cold 150
   and 10 (0.1 K wide).  Zone 1 = hot stream 200->160 CP 1 (Qh 0, Qc 40, all to the 150-degree cold utility); zone 2 = cold
   stream 100->130 CP 1 (Qh 30 from the 140-degree hot utility, Qc 0).  Both zones satisfy zone_data (through
   C09_zone_data_of_the_stage_model); the site recovers the 30: Qh_TS = 0 = Qh*, Qc_TS = 10 = Qc* (zonal sums 30 and 40). *)
Theorem C09_two_zones_with_recovery :
  let zs := [rz_z1; rz_z2] in
  let hu := site_hu rz_hus rz_cus zs in let cu := site_cu rz_hus rz_cus zs in
  Forall (zone_data rz_hus rz_cus) zs
  /\ map (zg_dd rz_hus rz_cus) zs = [([0; 0], [40; 0]); ([0; 30], [0; 0])]
  /\ (List.hd 0 (zg_Hs rz_z1), List.last (zg_Hs rz_z1) 0, List.hd 0 (zg_Hs rz_z2), List.last (zg_Hs rz_z2) 0) = (0, 40, 30, 0)
  /\ (site_Qh act_window hu cu rz_g, site_Qc act_window hu cu rz_g) = (0, 10)
  /\ (Qh_star (rz_h1 ++ []) ([] ++ rz_c2), Qc_star (rz_h1 ++ []) ([] ++ rz_c2)) = (0, 10)
  /\ desc rz_g /\ covers rz_g (eps_all hu cu) /\ gaps_ok act_window 0 rz_g.
Proof. exact two_zones_with_recovery. Qed.
Print Assumptions C09_two_zones_with_recovery.
Theorem C09_two_zones_bound :
  let zs := [rz_z1; rz_z2] in
  let hu := site_hu rz_hus rz_cus zs in let cu := site_cu rz_hus rz_cus zs in
  Qh_star (rz_h1 ++ []) ([] ++ rz_c2) <= site_Qh act_window hu cu rz_g + nq 2 * (2 * tol)
  /\ Qc_star (rz_h1 ++ []) ([] ++ rz_c2) <= site_Qc act_window hu cu rz_g + nq 2 * (4 * tol).
Proof. exact two_zones_bound. Qed.
Print Assumptions C09_two_zones_bound.
