(* C09 -- Total-site targets are additive over zones and bracketed by bounds (statements only). *)
From OP Require Import gen.Consts model.Base model.Cascade model.Site proofs.CascadeSpec proofs.CascadeExact proofs.CascadeTargets proofs.SiteFacts.
Local Open Scope Q_scope.

(* upper bound: total-site hot/cold targets never exceed the total hot/cold utility duty handed up by the zones
   (which is the sum of the zonal targets when each zone's utilities sum to its targets) *)
Theorem C09_total_site_le_sum :
  forall w hu cu g, 0 < w -> wfs hu -> wfs cu -> desc g -> g <> [] -> covers g (eps_all hu cu) -> gaps_ok w 0 g ->
  site_Qh w hu cu g <= duty hu /\ site_Qc w hu cu g <= duty cu.
Proof. intros. apply site_targets_le_duties; assumption. Qed.
Print Assumptions C09_total_site_le_sum.

(* lower bound: if at every temperature the utilities release at least the site's net heat deficit above it (every
   zone's utility profile feasible, summed over the partition of the site's streams), the total-site hot target is at
   least the deficit above ANY temperature, i.e. at least the site's own direct-integration target.
   The feasibility hypothesis `forall T, Dnet hotS coldS T <= U hu cu T` is reduced to the zonal C03 / C04 statements at the
   end of this file (C09_lower_bound_from_zonal_feasibility, C09_zone_feasible_model_partial). *)
Theorem C09_total_site_ge_direct :
  forall w hu cu g, 0 < w -> wfs hu -> wfs cu -> desc g -> g <> [] -> covers g (eps_all hu cu) -> gaps_ok w 0 g ->
  forall hotS coldS, (forall T, Dnet hotS coldS T <= U hu cu T) -> forall T, Dnet hotS coldS T <= site_Qh w hu cu g.
Proof. intros. eapply site_Qh_ge_direct; eauto. Qed.
Print Assumptions C09_total_site_ge_direct.

(* heat recovery of the total-site record = summed zonal recovery + hot utility saved *)
Theorem C09_recovery_identity : forall sum_qr sum_qh qh_ts, site_Qr sum_qr sum_qh qh_ts == sum_qr + (sum_qh - qh_ts).
Proof. exact site_Qr_identity. Qed.
Print Assumptions C09_recovery_identity.

(* additivity of the stream-side quantities over any partition into zones *)
Theorem C09_duty_additive : forall a b, duty (a ++ b) == duty a + duty b.
Proof. exact duty_app. Qed.
Print Assumptions C09_duty_additive.

(* ---------------------------------------------------------------------------------------------------------------------- *)
(* Composition with the zonal utility targeting (model/Utility.v; lemmas in proofs/ComposeSiteBound.v): the feasibility     *)
(* hypothesis of C09_total_site_ge_direct is reduced to what C03 (sums close) and C04 (utility profile under the GCC) say    *)
(* zone by zone.  A utility u with duty q is the view uview u q = [t_min*, t_max*] with CP = q / range.                      *)
(* ---------------------------------------------------------------------------------------------------------------------- *)
From OP Require Import model.Stream model.Utility proofs.ComposeSiteBound.

(* Dnet - U is the net deficit of the combined system (utilities as streams), piecewise linear with breaks at the end points
   bps = end points of the streams and utilities: feasibility (with slack d) AT THE END POINTS implies it at EVERY temperature. *)
Theorem C09_feasibility_from_break_points :
  forall hotS coldS hu cu d, wfs hotS -> wfs coldS -> wfs hu -> wfs cu -> 0 <= d ->
  (forall e, In e (endpoints (hotS ++ hu) ++ endpoints (coldS ++ cu)) -> Dnet hotS coldS e <= U hu cu e + d) ->
  forall T, Dnet hotS coldS T <= U hu cu T + d.
Proof. exact feasible_from_breakpoints. Qed.
Print Assumptions C09_feasibility_from_break_points.

(* At a temperature x not strictly inside the range of any utility (isothermal ladders), the utility heat released above x
   is the total hot duty minus the step form of the utility profile (hut_step of Utility.v = what C04 compares with the GCC). *)
Theorem C09_utility_heat_is_step_profile :
  forall hus cus dh dc x,
  (forall u, In u hus -> u_tmins u < u_tmaxs u) -> (forall u, In u cus -> u_tmins u < u_tmaxs u) ->
  List.length hus = List.length dh ->
  (forall u, In u (hus ++ cus) -> x <= u_tmins u \/ u_tmaxs u <= x) ->
  U (uviews hus dh) (uviews cus dc) x == qsum dh - hut_step x hus cus dh dc.
Proof. exact U_step. Qed.
Print Assumptions C09_utility_heat_is_step_profile.

(* Utilities of equal range merge by adding duties: the site utilities carrying the summed zonal duties (vsum = the
   Total-Process-Target rule of C03's judge_tz) release the same heat as all zonal copies together. *)
Theorem C09_site_utilities_carry_the_sums :
  forall hus cus zs T,
  Forall (fun z => List.length (zd_dh z) = List.length hus /\ List.length (zd_dc z) = List.length cus) zs ->
  U (uviews hus (vsum (map zd_dh zs) (List.length hus))) (uviews cus (vsum (map zd_dc zs) (List.length cus))) T
  == U (flat_map (fun z => uviews hus (zd_dh z)) zs) (flat_map (fun z => uviews cus (zd_dc z)) zs) T.
Proof. exact U_merged. Qed.
Print Assumptions C09_site_utilities_carry_the_sums.

(* THE LOWER BOUND FROM ZONAL FEASIBILITY.  Site = zones zs (streams zd_hot / zd_cold, duties zd_dh / zd_dc against the
   site's utility lists hus / cus, zonal hot target qh z, closing error zd_err z).  If in every zone
     - duties are non-negative (C03_duties_nonneg) and the hot sum closes to the error (C03_sum_*: error <= tol),
     - no break point of the zone lies strictly inside the range of a utility (isothermal ladders),
     - the utility step profile lies under the zone's GCC  qh - Dnet  at the break points (C04: H_ut <= H_net),
   then the total-site hot target computed from the site utilities carrying the summed duties is at least the net deficit of
   ALL site streams above ANY temperature (hence at least the site's direct-integration target), up to the summed errors.
   g: any grid for the site utility cascade as in C09_total_site_ge_direct. *)
Theorem C09_lower_bound_from_zonal_feasibility :
  forall w hus cus (zs : list zdat) (qh : zdat -> Q) g,
  let hu := uviews hus (vsum (map zd_dh zs) (List.length hus)) in
  let cu := uviews cus (vsum (map zd_dc zs) (List.length cus)) in
  0 < w -> (forall u, In u hus -> u_tmins u < u_tmaxs u) -> (forall u, In u cus -> u_tmins u < u_tmaxs u) ->
  desc g -> g <> [] -> covers g (eps_all hu cu) -> gaps_ok w 0 g ->
  Forall (fun z =>
    wfs (zd_hot z) /\ wfs (zd_cold z)
    /\ List.length (zd_dh z) = List.length hus /\ List.length (zd_dc z) = List.length cus
    /\ Forall (fun q => 0 <= q) (zd_dh z) /\ Forall (fun q => 0 <= q) (zd_dc z)
    /\ 0 <= zd_err z /\ qh z - zd_err z <= qsum (zd_dh z)
    /\ (forall e u, In e (bps (zd_hot z) (zd_cold z) (uviews hus (zd_dh z)) (uviews cus (zd_dc z))) -> In u (hus ++ cus) ->
                    e <= u_tmins u \/ u_tmaxs u <= e)
    /\ (forall e, In e (bps (zd_hot z) (zd_cold z) (uviews hus (zd_dh z)) (uviews cus (zd_dc z))) ->
                  hut_step e hus cus (zd_dh z) (zd_dc z) <= qh z - Dnet (zd_hot z) (zd_cold z) e)) zs ->
  forall T, Dnet (flat_map zd_hot zs) (flat_map zd_cold zs) T <= site_Qh w hu cu g + zsum zd_err zs.
Proof. exact site_lower_bound_from_zonal_feasibility. Qed.
Print Assumptions C09_lower_bound_from_zonal_feasibility.

(* One zone with the duties the MODEL of the targeting assigns (assign_hot / assign_cold on rows Tg, heating-demand profile
   Hh, cooling-demand profile Hc, pinch rows rh / rc): the zonal hypotheses above follow from C03_sum_hot_partial (one
   utility u clear of the rows reaches the top row: the hot sum closes to tol) and C04_level_feasible_hot / _cold (the step
   profile is bounded by the two pocket-free demand profiles, ANY ladders).
   _partial, RESIDUAL hypotheses: (a) no break point strictly inside a utility range; (b) the pocket-free demand profiles lie
   under the zone's GCC at the break points, prow + prow_cold <= Qh - Dnet  (the link between C07's running-minimum
   specification, C06_table_residual_is_exact and the profiles handed to the targeting is not composed here). *)
Theorem C09_zone_feasible_model_partial :
  forall hot cold Tg Hh Hc rh rc hus cus u,
  let Ts := firstn (S rh) Tg in let Hs := firstn (S rh) Hh in
  let k := Nat.max (rc - 1) 0 in let Tc := skipn k Tg in let Hk := skipn k Hc in
  let dh := assign_hot tol Tg Hh rh hus in let dc := assign_cold tol Tg Hc rc cus in
  wfs hot -> wfs cold -> (forall v, In v hus -> u_tmins v < u_tmaxs v) -> (forall v, In v cus -> u_tmins v < u_tmaxs v) ->
  strict_desc Ts = true -> noninc Hs = true -> List.length Ts = List.length Hs -> 0 <= Utility.lastq Hs -> Utility.lastq Hs <= tol ->
  tol < headq Hs -> In u hus -> clear_hot tol Ts u = true -> - tol <= u_tmaxs u - List.hd 0 Ts ->
  strict_desc Tc = true -> noninc (rev Hk) = true -> List.length Tc = List.length Hk -> 0 <= headq Hk ->
  (forall e v, In e (bps hot cold (uviews hus dh) (uviews cus dc)) -> In v (hus ++ cus) -> e <= u_tmins v \/ u_tmaxs v <= e) ->
  (forall e, In e (bps hot cold (uviews hus dh) (uviews cus dc)) ->
             prow tol Ts Hs e + prow_cold tol Tc Hk e <= headq Hs - Dnet hot cold e) ->
  forall T, Dnet hot cold T <= U (uviews hus dh) (uviews cus dc) T + tol.
Proof. exact zone_feasible_model_C03. Qed.
Print Assumptions C09_zone_feasible_model_partial.

(* C04's two level-feasibility theorems in the step form of the utility profile: for ANY ladders (glides included) the step
   profile of the model's duties lies under the sum of the two pocket-free demand profiles, at every temperature x *)
Theorem C09_step_profile_under_demand_profiles :
  forall Tg Hh Hc rh rc hus cus x,
  let Ts := firstn (S rh) Tg in let Hs := firstn (S rh) Hh in
  let k := Nat.max (rc - 1) 0 in let Tc := skipn k Tg in let Hk := skipn k Hc in
  strict_desc Ts = true -> noninc Hs = true -> List.length Ts = List.length Hs -> 0 <= Utility.lastq Hs ->
  strict_desc Tc = true -> noninc (rev Hk) = true -> List.length Tc = List.length Hk -> 0 <= headq Hk ->
  hut_step x hus cus (assign_hot tol Tg Hh rh hus) (assign_cold tol Tg Hc rc cus) <= prow tol Ts Hs x + prow_cold tol Tc Hk x.
Proof. exact hut_step_le_profiles. Qed.
Print Assumptions C09_step_profile_under_demand_profiles.

(* non-vacuity: two zones (a cold stream 50->100; a hot stream 150->60), one 0.1 K hot and one 0.1 K cold utility: the zonal
   hypotheses (break points clear of the ladders, step profile under the GCC) hold with error 0 *)
Theorem C09_zonal_feasibility_nonvacuous :
  forallb (fun z =>
    forallb (fun e => forallb (fun u => qleb e (u_tmins u) || qleb (u_tmaxs u) e) (nv_hus ++ nv_cus)
                      && qleb (hut_step e nv_hus nv_cus (zd_dh z) (zd_dc z)) (nv_qh z - Dnet (zd_hot z) (zd_cold z) e))
            (bps (zd_hot z) (zd_cold z) (uviews nv_hus (zd_dh z)) (uviews nv_cus (zd_dc z)))) [nv_z1; nv_z2] = true
  /\ vsum (map zd_dh [nv_z1; nv_z2]) 1 = [50] /\ vsum (map zd_dc [nv_z1; nv_z2]) 1 = [90].
Proof. exact site_bound_nonvacuous. Qed.
Print Assumptions C09_zonal_feasibility_nonvacuous.
