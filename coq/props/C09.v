(* C09 -- Total-site targets are additive over zones and bracketed by bounds (statements only). *)
From OP Require Import gen.Consts model.Base model.Cascade model.Site proofs.CascadeSpec proofs.CascadeExact proofs.CascadeTargets proofs.SiteFacts.
Local Open Scope Q_scope.

(* upper bound: total-site hot/cold targets never exceed the total hot/cold utility duty handed up by the zones
   (which is the sum of the zonal targets when each zone's utilities sum to its targets) *)
Theorem C09_total_site_le_sum :
  forall w hu cu g, 0 < w -> wfs hu -> wfs cu -> desc g -> g <> [] -> covers g (eps_all hu cu) -> gaps_ok w 0 g ->
  site_Qh w hu cu g <= duty hu /\ site_Qc w hu cu g <= duty cu.
Proof. intros. apply site_targets_le_duties; assumption. Qed.
Print Assumptions C09_total_site_le_sum.

(* lower bound: if at every temperature the utilities release at least the site's net heat deficit above it (every
   zone's utility profile feasible, summed over the partition of the site's streams), the total-site hot target is at
   least the deficit above ANY temperature, i.e. at least the site's own direct-integration target *)
Theorem C09_total_site_ge_direct :
  forall w hu cu g, 0 < w -> wfs hu -> wfs cu -> desc g -> g <> [] -> covers g (eps_all hu cu) -> gaps_ok w 0 g ->
  forall hotS coldS, (forall T, Dnet hotS coldS T <= U hu cu T) -> forall T, Dnet hotS coldS T <= site_Qh w hu cu g.
Proof. intros. eapply site_Qh_ge_direct; eauto. Qed.
Print Assumptions C09_total_site_ge_direct.

(* heat recovery of the total-site record = summed zonal recovery + hot utility saved *)
Theorem C09_recovery_identity : forall sum_qr sum_qh qh_ts, site_Qr sum_qr sum_qh qh_ts == sum_qr + (sum_qh - qh_ts).
Proof. exact site_Qr_identity. Qed.
Print Assumptions C09_recovery_identity.

(* additivity of the stream-side quantities over any partition into zones *)
Theorem C09_duty_additive : forall a b, duty (a ++ b) == duty a + duty b.
Proof. exact duty_app. Qed.
Print Assumptions C09_duty_additive.
