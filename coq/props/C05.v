(* C05 -- Composite curves and problem tables are faithful to the streams (model side; statements only). *)
From OP Require Import gen.Consts model.Base model.Cascade proofs.CascadeSpec proofs.CascadeExact proofs.CascadeTargets proofs.CascadeGrid.
Local Open Scope Q_scope.

(* At every row of the table (either temperature scale: the views carry the scale): the hot composite equals the exact
   heat content of the hot streams below the row temperature, the cold composite equals the cold heat content plus the
   documented horizontal offset Qc, the net curve is cold - hot = Qh - (net deficit above T) and is non-negative. *)
Theorem C05_curves_are_stream_heat_contents :
  forall hot cold extra, wfs hot -> wfs cold -> hot ++ cold <> [] ->
  on_lattice (endpoints (hot ++ cold ++ extra)) ->
  gaps_b act_window (grid_of (endpoints (hot ++ cold ++ extra))) = true ->
  let p := stage_model act_window hot cold extra in
  forall i T hh hc hn,
  nth_error (pT p) i = Some T -> nth_error (pHh p) i = Some hh -> nth_error (pHc p) i = Some hc -> nth_error (pHn p) i = Some hn ->
  hh == heat_below hot T /\ hc == Qc_of p + heat_below cold T /\ hn == hc - hh /\ hn == Qh_of p - Dnet hot cold T /\ 0 <= hn.
Proof. exact stage_curves_exact. Qed.
Print Assumptions C05_curves_are_stream_heat_contents.

Theorem C05_net_curve_touches_zero :
  forall hot cold extra, wfs hot -> wfs cold -> hot ++ cold <> [] ->
  on_lattice (endpoints (hot ++ cold ++ extra)) ->
  gaps_b act_window (grid_of (endpoints (hot ++ cold ++ extra))) = true ->
  exists i hn, nth_error (pHn (stage_model act_window hot cold extra)) i = Some hn /\ hn == 0.
Proof. exact stage_net_touches_zero. Qed.
Print Assumptions C05_net_curve_touches_zero.

(* each curve spans exactly the total duty of its streams *)
Theorem C05_curves_span_total_duty :
  forall hot cold extra, wfs hot -> wfs cold -> hot ++ cold <> [] ->
  on_lattice (endpoints (hot ++ cold ++ extra)) ->
  gaps_b act_window (grid_of (endpoints (hot ++ cold ++ extra))) = true ->
  let p := stage_model act_window hot cold extra in
  hd 0 (pHh p) == duty hot /\ lastq (pHh p) == 0 /\ hd 0 (pHc p) - lastq (pHc p) == duty cold.
Proof. exact stage_spans_exact. Qed.
Print Assumptions C05_curves_span_total_duty.

(* identity used to read the documented cold-curve offset: heat below + heat above = duty, at every temperature *)
Theorem C05_above_plus_below : forall ss T, wfs ss -> heat_above ss T + heat_below ss T == duty ss.
Proof. exact heat_above_below. Qed.
Print Assumptions C05_above_plus_below.

(* ------------------------------------------------------------------ "... including rows inserted later"
   Composition with the C08 model of ProblemTable.insert_temperature_interval (model/Insert.v): `run t0 reqss` is the table
   after a history of calls, a table being a list of rows with `option Q` cells; `hcell j r` is the j-th interpolated column
   of row r and j_hot / j_cold / j_net are the positions of H_hot / H_cold / H_net among INTERPOLATION_KEYS (computed from
   the generated constants).  `represents p t0`: the row table t0 agrees with the column table p in T, H_hot, H_cold, H_net
   (every other column is unconstrained).  Proofs: proofs/ComposeInsertCascade.v (+ proofs/InsertPL.v). *)
From OP Require Import model.Insert proofs.Insert proofs.InsertCurve proofs.InsertSeq proofs.InsertPL proofs.ComposeInsertCascade.

(* Every clause of C05_curves_are_stream_heat_contents holds at EVERY row -- original or inserted, inside, above or below
   the original temperature range -- of the table obtained from the cascade's table by ANY history of insertions. *)
Theorem C05_inserted_rows_stay_on_the_curves :
  forall hot cold extra, wfs hot -> wfs cold -> hot ++ cold <> [] ->
  on_lattice (endpoints (hot ++ cold ++ extra)) ->
  gaps_b act_window (grid_of (endpoints (hot ++ cold ++ extra))) = true ->
  forall t0, represents (stage_model act_window hot cold extra) t0 ->
  forall reqss r, In r (fst (run t0 reqss)) ->
  exists hh hc hn, hcell j_hot r = Some hh /\ hcell j_cold r = Some hc /\ hcell j_net r = Some hn
    /\ hh == heat_below hot (model.Insert.rT r)
    /\ hc == Qc_of (stage_model act_window hot cold extra) + heat_below cold (model.Insert.rT r)
    /\ hn == hc - hh
    /\ hn == Qh_of (stage_model act_window hot cold extra) - Dnet hot cold (model.Insert.rT r) /\ 0 <= hn.
Proof. exact stage_inserted_rows_exact. Qed.
Print Assumptions C05_inserted_rows_stay_on_the_curves.

(* The same for ANY table (not only the model's): rows more than tolv apart, temperatures containing every stream end
   point, the three curve clauses true at its rows (clauses_at: H_hot = heat_below hot T, H_cold = offset + heat_below cold T,
   H_net = H_cold - H_hot) ==> the clauses are true at every row after any history of insertions. *)
Theorem C05_curve_clauses_survive_insertions :
  forall tolv, 0 <= tolv -> forall hot cold, wfs hot -> wfs cold -> forall offset jh jc jn t0,
  WF tolv t0 -> covers (map model.Insert.rT t0) (eps_all hot cold) ->
  (forall r, In r t0 -> clauses_at hot cold offset jh jc jn r) ->
  forall reqss r, In r (fst (run_t tolv t0 reqss)) -> clauses_at hot cold offset jh jc jn r.
Proof. exact curve_clauses_survive. Qed.
Print Assumptions C05_curve_clauses_survive_insertions.

(* The reason, for an arbitrary function f: a column that carries f at its rows, where f is linear between consecutive row
   temperatures and constant above the first / below the last one (pwl), carries f at every row after any history, because
   inserted cells are linear interpolations (inside) or copies of the end value (outside). *)
Theorem C05_column_stays_on_a_piecewise_linear_function :
  forall tolv, 0 <= tolv -> forall j f t0, WF tolv t0 -> on_curve j f t0 -> pwl f (map model.Insert.rT t0) ->
  forall reqss, on_curve j f (fst (run_t tolv t0 reqss)).
Proof. exact on_curve_survives. Qed.
Print Assumptions C05_column_stays_on_a_piecewise_linear_function.

(* ... and the exact heat content below T is such a function on every descending grid that contains all stream end points *)
Theorem C05_heat_content_is_piecewise_linear_on_the_grid :
  forall ss g, wfs ss -> desc g -> covers g (endpoints ss) -> pwl (heat_below ss) g.
Proof. exact heat_below_pwl. Qed.
Print Assumptions C05_heat_content_is_piecewise_linear_on_the_grid.

(* The targets read from the end rows (Qh = H_net of the first row, Qc = H_net of the last row, Qr = H_hot of the first row
   - Qc) are the same after any history of insertions.  The end ROWS are not: a temperature inserted above the top (below
   the bottom) becomes the new first (last) row; it copies the interpolated cells of the old end row. *)
Theorem C05_targets_survive_insertions :
  forall hot cold extra, wfs hot -> wfs cold -> hot ++ cold <> [] ->
  on_lattice (endpoints (hot ++ cold ++ extra)) ->
  gaps_b act_window (grid_of (endpoints (hot ++ cold ++ extra))) = true ->
  forall t0, represents (stage_model act_window hot cold extra) t0 ->
  forall reqss, let t' := fst (run t0 reqss) in
  Qh_tab t' == Qh_of (stage_model act_window hot cold extra) /\ Qc_tab t' == Qc_of (stage_model act_window hot cold extra)
  /\ Qr_tab t' == Qr_of (stage_model act_window hot cold extra)
  /\ model.Insert.rT (hd row0 t0) <= model.Insert.rT (hd row0 t') /\ model.Insert.rT (last t' row0) <= model.Insert.rT (last t0 row0).
Proof. exact stage_targets_survive. Qed.
Print Assumptions C05_targets_survive_insertions.

(* non-vacuity: the table of the cascade model always has a representative row table ... *)
Theorem C05_model_table_is_representable : forall w hot cold g, represents (pta w hot cold g) (embed (pta w hot cold g)).
Proof. exact embed_represents. Qed.
Print Assumptions C05_model_table_is_representable.

(* ... and on the four-stream example three calls (100 inside and 300 above; 0 below; 245 already present) add three rows,
   H_hot of every row equals the hot streams' heat content below its temperature, and the end-row targets stay 16.5 / 10 *)
Theorem C05_inserted_rows_example :
  let t' := fst (run ex_t0 [[100; 300]; [0]; [245]]) in
  map model.Insert.rT ex_t0 = [245; 235; 195; 185; 145; 75; 35; 25]
  /\ map model.Insert.rT t' = [300; 245; 235; 195; 185; 145; 100; 75; 35; 25; 0]
  /\ map (hcell j_hot) t' = map Some [123 # 2; 123 # 2; 60; 54; 50; 34; 16; 6; 0; 0; 0]
  /\ forallb (fun r => match hcell j_hot r with Some q => qeqb q (heat_below ex_hot (model.Insert.rT r)) | None => false end) t' = true
  /\ (Qh_tab t', Qc_tab t', Qh_of ex_p, Qc_of ex_p) = (33 # 2, 10, 33 # 2, 10).
Proof. exact ex_history. Qed.
Print Assumptions C05_inserted_rows_example.
