(* C05 -- Composite curves and problem tables are faithful to the streams (model side; statements only). *)
From OP Require Import gen.Consts model.Base model.Cascade proofs.CascadeSpec proofs.CascadeExact proofs.CascadeTargets proofs.CascadeGrid.
Local Open Scope Q_scope.

(* At every row of the table (either temperature scale: the views carry the scale): the hot composite equals the exact
   heat content of the hot streams below the row temperature, the cold composite equals the cold heat content plus the
   documented horizontal offset Qc, the net curve is cold - hot = Qh - (net deficit above T) and is non-negative. *)
Theorem C05_curves_are_stream_heat_contents :
  forall hot cold extra, wfs hot -> wfs cold -> hot ++ cold <> [] ->
  on_lattice (endpoints (hot ++ cold ++ extra)) ->
  gaps_b act_window (grid_of (endpoints (hot ++ cold ++ extra))) = true ->
  let p := stage_model act_window hot cold extra in
  forall i T hh hc hn,
  nth_error (pT p) i = Some T -> nth_error (pHh p) i = Some hh -> nth_error (pHc p) i = Some hc -> nth_error (pHn p) i = Some hn ->
  hh == heat_below hot T /\ hc == Qc_of p + heat_below cold T /\ hn == hc - hh /\ hn == Qh_of p - Dnet hot cold T /\ 0 <= hn.
Proof. exact stage_curves_exact. Qed.
Print Assumptions C05_curves_are_stream_heat_contents.

Theorem C05_net_curve_touches_zero :
  forall hot cold extra, wfs hot -> wfs cold -> hot ++ cold <> [] ->
  on_lattice (endpoints (hot ++ cold ++ extra)) ->
  gaps_b act_window (grid_of (endpoints (hot ++ cold ++ extra))) = true ->
  exists i hn, nth_error (pHn (stage_model act_window hot cold extra)) i = Some hn /\ hn == 0.
Proof. exact stage_net_touches_zero. Qed.
Print Assumptions C05_net_curve_touches_zero.

(* each curve spans exactly the total duty of its streams *)
Theorem C05_curves_span_total_duty :
  forall hot cold extra, wfs hot -> wfs cold -> hot ++ cold <> [] ->
  on_lattice (endpoints (hot ++ cold ++ extra)) ->
  gaps_b act_window (grid_of (endpoints (hot ++ cold ++ extra))) = true ->
  let p := stage_model act_window hot cold extra in
  hd 0 (pHh p) == duty hot /\ lastq (pHh p) == 0 /\ hd 0 (pHc p) - lastq (pHc p) == duty cold.
Proof. exact stage_spans_exact. Qed.
Print Assumptions C05_curves_span_total_duty.

(* identity used to read the documented cold-curve offset: heat below + heat above = duty, at every temperature *)
Theorem C05_above_plus_below : forall ss T, wfs ss -> heat_above ss T + heat_below ss T == duty ss.
Proof. exact heat_above_below. Qed.
Print Assumptions C05_above_plus_below.
