(* C15 -- Area, exchanger-count and capital-cost targets follow their definitions.
   Only statements; every proof is `exact <lemma>` from proofs/.  Cost laws: generated real functions (gen/Scalar.v).
   Area: rational model (model/Area.v) with the log-mean temperature difference supplied as data / as a Section variable. *)
From Coq Require Import Reals QArith List.
From OP Require Import gen.Consts gen.HxDispatch gen.Scalar model.Base model.Area proofs.Cost proofs.Area.

(* capital cost = N (a + b (A/N)^c) *)
Theorem C15_capital_cost_def : forall A N a b c : R, compute_capital_cost_R A N a b c = (N * (a + b * Rpower (A / N) c))%R.
Proof. exact capital_cost_def. Qed.
Print Assumptions C15_capital_cost_def.

(* the annualised cost applies the capital-recovery factor ... *)
Theorem C15_annual_cost_def : forall K i n : R, compute_annual_capital_cost_R K i n = (K * compute_capital_recovery_factor_R i n)%R.
Proof. exact annual_cost_def. Qed.
Print Assumptions C15_annual_cost_def.

(* ... whose discounted annuities sum to one (integer service life n >= 1, rate i > 0) *)
Theorem C15_crf_annuity : forall (i : R) (n : nat), (0 < i)%R -> (1 <= n)%nat ->
  (compute_capital_recovery_factor_R i (INR n) * annuity i n = 1)%R.
Proof. exact crf_annuity. Qed.
Print Assumptions C15_crf_annuity.

(* OPEN: for a real-valued (non-integer) service life the annuity sum is not defined; proved: the factor exceeds the rate *)
Theorem C15_crf_real_partial : forall i n : R, (0 < i)%R -> (0 < n)%R -> (i < compute_capital_recovery_factor_R i n)%R.
Proof. exact crf_real_partial. Qed.
Print Assumptions C15_crf_real_partial.

(* both costs increase with area (positive unit count, variable cost factor and exponent; positive rate and life) *)
Theorem C15_cost_increasing_in_area : forall A1 A2 N a b c : R, (0 < A1)%R -> (A1 < A2)%R -> (0 < N)%R -> (0 < b)%R -> (0 < c)%R ->
  (compute_capital_cost_R A1 N a b c < compute_capital_cost_R A2 N a b c)%R.
Proof. exact cost_increasing_in_area. Qed.
Print Assumptions C15_cost_increasing_in_area.
Theorem C15_annual_cost_increasing : forall A1 A2 N a b c i n : R,
  (0 < A1)%R -> (A1 < A2)%R -> (0 < N)%R -> (0 < b)%R -> (0 < c)%R -> (0 < i)%R -> (0 < n)%R ->
  (compute_annual_capital_cost_R (compute_capital_cost_R A1 N a b c) i n < compute_annual_capital_cost_R (compute_capital_cost_R A2 N a b c) i n)%R.
Proof. exact annual_cost_increasing. Qed.
Print Assumptions C15_annual_cost_increasing.

Local Open Scope Q_scope.
(* the area returned is the sum over the code's own enthalpy intervals of duty x resistance / LMTD (every interval with a
   resistance above tol; in general intervals without one are counted with U = 1) *)
Theorem C15_area_is_sum : forall tolv dh R lm, (forall r, In r R -> tolv < r) -> area_sum tolv dh R lm == sum3 dh R lm.
Proof. exact area_sum_is_sum. Qed.
Print Assumptions C15_area_is_sum.
Theorem C15_area_is_sum_general : forall tolv dh R lm, area_sum tolv dh R lm == sum3u tolv dh R lm.
Proof. exact area_sum_general. Qed.
Print Assumptions C15_area_is_sum_general.

(* finite (a rational) and positive *)
Theorem C15_area_positive : forall tolv, 0 <= tolv -> forall dh R lm, dh <> [] -> length R = length dh -> length lm = length dh ->
  (forall q, In q dh -> 0 < q) -> (forall l, In l lm -> 0 < l) -> 0 < area_sum tolv dh R lm.
Proof. exact area_sum_pos. Qed.
Print Assumptions C15_area_positive.

(* balanced composite curves (process + assigned utilities) have equal enthalpy spans exactly when the duties balance *)
Theorem C15_balanced_spans_equal : forall tolv Hh Hc Hhu Hcu dT a b c d,
  length Hh = length Hhu -> length Hc = length Hcu -> span Hh + span Hhu == span Hc + span Hcu ->
  let m := balanced_cc tolv Hh Hc Hhu Hcu dT a b c d in span (b_hhot m) == span (b_hcold m).
Proof. exact balanced_spans_equal. Qed.
Print Assumptions C15_balanced_spans_equal.

(* for ANY function lmtd with min <= lmtd <= arithmetic mean (the bounds proved for the implementation's LMTD in C20), the
   independent area specification lies between the arithmetic-mean and the minimum-approach estimates *)
Theorem C15_spec_area_bounds : forall lmtd : Q -> Q -> Q,
  (forall a b, 0 < a -> 0 < b -> Qmin a b <= lmtd a b) -> (forall a b, 0 < a -> 0 < b -> lmtd a b <= (a + b) / 2) ->
  forall iv, (forall i, In i iv -> iv_ok i) ->
  sum_iv (fun i => i_q i * i_R i / ((i_d1 i + i_d2 i) / 2)) iv <= spec_area iv (lmtds_of lmtd iv)
  /\ spec_area iv (lmtds_of lmtd iv) <= sum_iv (fun i => i_q i * i_R i / Qmin (i_d1 i) (i_d2 i)) iv.
Proof. exact spec_area_bounds. Qed.
Print Assumptions C15_spec_area_bounds.

(* OPEN: area_matches_spec -- for every problem with positive contributions and feasible utilities
     get_area_targets(...) = spec_area (spec_intervals hot cold) (LMTDs)
   is not a theorem: get_temperature_driving_forces (plateau handling by make_monotonic, rounding to 6 dp, the discontinuity
   block) is not modelled; the equality is evaluated by judge_area on every run against the implementation's own interval
   data, and it is FALSE where the discontinuity block fires (finding D36, verdict [3;3]). *)
