(* C15 -- Area, exchanger-count and capital-cost targets follow their definitions.
   Only statements; every proof is `exact <lemma>` from proofs/.  Cost laws: generated real functions (gen/Scalar.v).
   Area: rational model (model/Area.v) with the log-mean temperature difference supplied as data / as a Section variable. *)
From Coq Require Import Reals QArith List.
From OP Require Import gen.Consts gen.HxDispatch gen.Scalar model.Base model.Area model.TDF proofs.Cost proofs.CostReal proofs.Area
  proofs.TDFGrid proofs.TDFBlock proofs.TDFInterp proofs.TDFMain.
From Coq Require Import Sorted.

(* capital cost = N (a + b (A/N)^c) *)
Theorem C15_capital_cost_def : forall A N a b c : R, compute_capital_cost_R A N a b c = (N * (a + b * Rpower (A / N) c))%R.
Proof. exact capital_cost_def. Qed.
Print Assumptions C15_capital_cost_def.

(* the annualised cost applies the capital-recovery factor ... *)
Theorem C15_annual_cost_def : forall K i n : R, compute_annual_capital_cost_R K i n = (K * compute_capital_recovery_factor_R i n)%R.
Proof. exact annual_cost_def. Qed.
Print Assumptions C15_annual_cost_def.

(* ... whose discounted annuities sum to one (integer service life n >= 1, rate i > 0) *)
Theorem C15_crf_annuity : forall (i : R) (n : nat), (0 < i)%R -> (1 <= n)%nat ->
  (compute_capital_recovery_factor_R i (INR n) * annuity i n = 1)%R.
Proof. exact crf_annuity. Qed.
Print Assumptions C15_crf_annuity.

(* OPEN: for a real-valued (non-integer) service life the annuity sum is not defined; proved: the factor exceeds the rate *)
Theorem C15_crf_real_partial : forall i n : R, (0 < i)%R -> (0 < n)%R -> (i < compute_capital_recovery_factor_R i n)%R.
Proof. exact crf_real_partial. Qed.
Print Assumptions C15_crf_real_partial.
(* CLOSED for a real-valued life in closed form: the annuity sum extends to real n as its present-value factor
   (1 - (1+i)^-n)/i (equal to `annuity` at every integer life), and the factor is its reciprocal for EVERY real life n > 0 *)
Theorem C15_annuity_factor_nat : forall (i : R) (n : nat), (0 < i)%R -> annuity_factor i (INR n) = annuity i n.
Proof. exact annuity_factor_nat. Qed.
Print Assumptions C15_annuity_factor_nat.
Theorem C15_crf_annuity_real : forall i n : R, (0 < i)%R -> (0 < n)%R ->
  (compute_capital_recovery_factor_R i n * annuity_factor i n = 1)%R.
Proof. exact crf_annuity_real. Qed.
Print Assumptions C15_crf_annuity_real.
(* a longer service life strictly lowers the yearly charge; the charge on a positive capital is positive *)
Theorem C15_crf_decreasing_in_life : forall i n1 n2 : R, (0 < i)%R -> (0 < n1)%R -> (n1 < n2)%R ->
  (compute_capital_recovery_factor_R i n2 < compute_capital_recovery_factor_R i n1)%R.
Proof. exact crf_decreasing_in_life. Qed.
Print Assumptions C15_crf_decreasing_in_life.
(* the factor is above straight-line repayment 1/n as well: with C15_crf_real_partial it is bracketed below by max(i, 1/n) *)
Theorem C15_crf_above_straight_line : forall i n : R, (0 < i)%R -> (0 < n)%R -> (/ n < compute_capital_recovery_factor_R i n)%R.
Proof. exact crf_above_straight_line. Qed.
Print Assumptions C15_crf_above_straight_line.
Theorem C15_annual_cost_positive : forall K i n : R, (0 < K)%R -> (0 < i)%R -> (0 < n)%R ->
  (0 < compute_annual_capital_cost_R K i n)%R.
Proof. exact annual_cost_positive. Qed.
Print Assumptions C15_annual_cost_positive.

(* both costs increase with area (positive unit count, variable cost factor and exponent; positive rate and life) *)
Theorem C15_cost_increasing_in_area : forall A1 A2 N a b c : R, (0 < A1)%R -> (A1 < A2)%R -> (0 < N)%R -> (0 < b)%R -> (0 < c)%R ->
  (compute_capital_cost_R A1 N a b c < compute_capital_cost_R A2 N a b c)%R.
Proof. exact cost_increasing_in_area. Qed.
Print Assumptions C15_cost_increasing_in_area.
Theorem C15_annual_cost_increasing : forall A1 A2 N a b c i n : R,
  (0 < A1)%R -> (A1 < A2)%R -> (0 < N)%R -> (0 < b)%R -> (0 < c)%R -> (0 < i)%R -> (0 < n)%R ->
  (compute_annual_capital_cost_R (compute_capital_cost_R A1 N a b c) i n < compute_annual_capital_cost_R (compute_capital_cost_R A2 N a b c) i n)%R.
Proof. exact annual_cost_increasing. Qed.
Print Assumptions C15_annual_cost_increasing.

Local Open Scope Q_scope.
(* the area returned is the sum over the code's own enthalpy intervals of duty x resistance / LMTD (every interval with a
   resistance above tol; in general intervals without one are counted with U = 1) *)
Theorem C15_area_is_sum : forall tolv dh R lm, (forall r, In r R -> tolv < r) -> area_sum tolv dh R lm == sum3 dh R lm.
Proof. exact area_sum_is_sum. Qed.
Print Assumptions C15_area_is_sum.
Theorem C15_area_is_sum_general : forall tolv dh R lm, area_sum tolv dh R lm == sum3u tolv dh R lm.
Proof. exact area_sum_general. Qed.
Print Assumptions C15_area_is_sum_general.

(* finite (a rational) and positive *)
Theorem C15_area_positive : forall tolv, 0 <= tolv -> forall dh R lm, dh <> [] -> length R = length dh -> length lm = length dh ->
  (forall q, In q dh -> 0 < q) -> (forall l, In l lm -> 0 < l) -> 0 < area_sum tolv dh R lm.
Proof. exact area_sum_pos. Qed.
Print Assumptions C15_area_positive.

(* balanced composite curves (process + assigned utilities) have equal enthalpy spans exactly when the duties balance *)
Theorem C15_balanced_spans_equal : forall tolv Hh Hc Hhu Hcu dT a b c d,
  length Hh = length Hhu -> length Hc = length Hcu -> span Hh + span Hhu == span Hc + span Hcu ->
  let m := balanced_cc tolv Hh Hc Hhu Hcu dT a b c d in span (b_hhot m) == span (b_hcold m).
Proof. exact balanced_spans_equal. Qed.
Print Assumptions C15_balanced_spans_equal.

(* for ANY function lmtd with min <= lmtd <= arithmetic mean (the bounds proved for the implementation's LMTD in C20), the
   independent area specification lies between the arithmetic-mean and the minimum-approach estimates *)
Theorem C15_spec_area_bounds : forall lmtd : Q -> Q -> Q,
  (forall a b, 0 < a -> 0 < b -> Qmin a b <= lmtd a b) -> (forall a b, 0 < a -> 0 < b -> lmtd a b <= (a + b) / 2) ->
  forall iv, (forall i, In i iv -> iv_ok i) ->
  sum_iv (fun i => i_q i * i_R i / ((i_d1 i + i_d2 i) / 2)) iv <= spec_area iv (lmtds_of lmtd iv)
  /\ spec_area iv (lmtds_of lmtd iv) <= sum_iv (fun i => i_q i * i_R i / Qmin (i_d1 i) (i_d2 i)) iv.
Proof. exact spec_area_bounds. Qed.
Print Assumptions C15_spec_area_bounds.

(* ====================================================================================================================
   get_temperature_driving_forces (model/TDF.v: tdf = 6-decimal rounding + the three guards + tdf_core; tdf_core = normalise,
   np.union1d grid, interp_with_plateaus at interval starts (side right) / ends (side left), discontinuity block).
   ==================================================================================================================== *)

(* the three ValueError guards, in the order of the source; otherwise the result is tdf_core of the rounded arrays *)
Theorem C15_tdf_guards : forall tolv mindt Th Hh Tc Hc,
  let rT := map round_dp Th in let rH := map round_dp Hh in let rt := map round_dp Tc in let rh := map round_dp Hc in
  ((length Th <> length Hh \/ length Tc <> length Hc) -> tdf tolv mindt Th Hh Tc Hc = TErr TLen)
  /\ (length Th = length Hh -> length Tc = length Hc -> (Th = [] \/ Tc = []) -> tdf tolv mindt Th Hh Tc Hc = TErr TEmpty)
  /\ (length Th = length Hh -> length Tc = length Hc -> Th <> [] -> Tc <> [] ->
      (tolv < Qabs ((lmax rH - lmin rH) - (lmax rh - lmin rh)) -> tdf tolv mindt Th Hh Tc Hc = TErr TUnbalanced)
      /\ (Qabs ((lmax rH - lmin rH) - (lmax rh - lmin rh)) <= tolv -> tdf tolv mindt Th Hh Tc Hc = TOk (tdf_core tolv mindt rT rH rt rh))).
Proof. exact tdf_guards. Qed.
Print Assumptions C15_tdf_guards.

(* the enthalpy grid, for ANY pair of curves (no well-formedness needed): h_vals is strictly ascending; every break point of
   both normalised curves is on it and it contains nothing else; every interval has positive width; the widths sum to
   last - first (the intervals PARTITION the range: nothing counted twice or lost); no break point of either curve lies
   strictly inside an interval, i.e. both piecewise-linear composites are affine on every interval *)
Theorem C15_tdf_grid : forall tolv mindt Th Hh Tc Hc,
  let o := tdf_core tolv mindt Th Hh Tc Hc in
  let bps := fst (normalise tolv Hh Th) ++ fst (normalise tolv Hc Tc) in
  StronglySorted Qlt (o_h o)
  /\ (forall x, In x bps -> exists y, In y (o_h o) /\ y == x)
  /\ (forall y, In y (o_h o) -> In y bps)
  /\ Forall (fun d => 0 < d) (o_dh o)
  /\ (bps <> [] -> sumQ (o_dh o) == last (o_h o) 0 - hd 0 (o_h o))
  /\ (forall a b, In (a, b) (combine (starts (o_h o)) (ends (o_h o))) -> a < b /\ forall x, In x bps -> ~ (a < x /\ x < b)).
Proof. exact tdf_grid. Qed.
Print Assumptions C15_tdf_grid.

(* when both normalised curves run from 0 to a common span S: the grid starts at 0, ends at S, and the widths sum to S *)
Theorem C15_tdf_grid_span : forall tolv mindt Th Hh Tc Hc S,
  let o := tdf_core tolv mindt Th Hh Tc Hc in
  let bps := fst (normalise tolv Hh Th) ++ fst (normalise tolv Hc Tc) in
  In 0 bps -> In S bps -> (forall x, In x bps -> 0 <= x <= S) -> hd 0 (o_h o) == 0 /\ last (o_h o) 0 == S /\ sumQ (o_dh o) == S.
Proof. exact tdf_grid_ends. Qed.
Print Assumptions C15_tdf_grid_span.

(* one-sided limits: at a grid value g that is a break point of the hot curve itself, with everything before it <= g and g the
   LAST member of its plateau (the next value exceeds g by more than length * tol), t_h1 at an interval STARTING at g is exactly
   the temperature at the top of the vertical jump; with g the FIRST member of its plateau, t_h2 at an interval ENDING at g is
   exactly the temperature at the bottom.  So the jump at g belongs to neither neighbouring interval.  Same for the cold curve. *)
Theorem C15_tdf_hot_right_limit : forall tolv mindt Th Hh Tc Hc l1 g l2 f1 fg f2 v,
  normalise tolv Hh Th = (l1 ++ g :: l2, f1 ++ fg :: f2) ->
  0 <= tolv -> length f1 = length l1 -> length f2 = length l2 -> Forall (fun y => y <= g) l1 ->
  (l2 = [] \/ g + tolv * inject_Z (Z.of_nat (length (l1 ++ g :: l2))) < hd 0 l2) ->
  let o := tdf_core tolv mindt Th Hh Tc Hc in
  In (g, v) (combine (starts (o_h o)) (o_th1 o)) -> v = fg.
Proof. exact tdf_hot_right_limit. Qed.
Print Assumptions C15_tdf_hot_right_limit.
Theorem C15_tdf_hot_left_limit : forall tolv mindt Th Hh Tc Hc l1 g l2 f1 fg f2 v,
  normalise tolv Hh Th = (l1 ++ g :: l2, f1 ++ fg :: f2) ->
  0 < tolv -> length f1 = length l1 -> length f2 = length l2 ->
  Forall (fun y => y + tolv * inject_Z (Z.of_nat (length (l1 ++ g :: l2))) < g) l1 -> (l2 = [] \/ g <= hd 0 l2) ->
  let o := tdf_core tolv mindt Th Hh Tc Hc in
  In (g, v) (combine (ends (o_h o)) (o_th2 o)) -> v = fg.
Proof. exact tdf_hot_left_limit. Qed.
Print Assumptions C15_tdf_hot_left_limit.
Theorem C15_tdf_cold_right_limit : forall tolv mindt Th Hh Tc Hc l1 g l2 f1 fg f2 v,
  normalise tolv Hc Tc = (l1 ++ g :: l2, f1 ++ fg :: f2) ->
  0 <= tolv -> length f1 = length l1 -> length f2 = length l2 -> Forall (fun y => y <= g) l1 ->
  (l2 = [] \/ g + tolv * inject_Z (Z.of_nat (length (l1 ++ g :: l2))) < hd 0 l2) ->
  let o := tdf_core tolv mindt Th Hh Tc Hc in
  In (g, v) (combine (starts (o_h o)) (o_tc1 o)) -> v = fg.
Proof. exact tdf_cold_right_limit. Qed.
Print Assumptions C15_tdf_cold_right_limit.
Theorem C15_tdf_cold_left_limit : forall tolv mindt Th Hh Tc Hc l1 g l2 f1 fg f2 v,
  normalise tolv Hc Tc = (l1 ++ g :: l2, f1 ++ fg :: f2) ->
  0 < tolv -> length f1 = length l1 -> length f2 = length l2 ->
  Forall (fun y => y + tolv * inject_Z (Z.of_nat (length (l1 ++ g :: l2))) < g) l1 -> (l2 = [] \/ g <= hd 0 l2) ->
  let o := tdf_core tolv mindt Th Hh Tc Hc in
  In (g, v) (combine (ends (o_h o)) (o_tc2 o)) -> v = fg.
Proof. exact tdf_cold_left_limit. Qed.
Print Assumptions C15_tdf_cold_left_limit.

(* a curve without plateaus (no two consecutive enthalpies within tol) is interpolated as it stands *)
Theorem C15_tdf_no_plateau_identity : forall tolv s h, no_block tolv h = true -> Forall2 Qeq (make_monotonic tolv s h) h.
Proof. exact make_monotonic_id. Qed.
Print Assumptions C15_tdf_no_plateau_identity.

(* REFUTED: "t_h1 / t_h2 are the piecewise-linear values of the composite at EVERY grid value".  At a break point of the OTHER
   curve lying in the segment before a plateau the value is interpolated towards the plateau member moved by tol/2:
   hot (0,100) (10,110) (10,150), cold break point at 5: 105.00000025 instead of 105 (same on the implementation; < 1e-6) *)
Theorem C15_tdf_interp_exact_everywhere_refuted :
  ~ (forall h t x, np_interp (make_monotonic tol SRight h) t x == np_interp h t x).
Proof. exact interp_exact_everywhere_refuted. Qed.
Print Assumptions C15_tdf_interp_exact_everywhere_refuted.

(* end differences: delta_T1 = (t_h1 - t_c1) - min_dT always; delta_T2 = low - min_dT where `low` is obtained from the raw end
   differences t_h2 - t_c2 by the relation PM (proofs/TDFBlock.v): going from the last interval backwards, an interval whose
   END value is within tol of a discontinuity (a zero-width segment of either curve) takes min(own, already-processed value of
   the NEXT interval); the last interval and all others keep their own.  Hence the block can only LOWER a difference, and
   without discontinuities delta_T2 = raw - min_dT. *)
Theorem C15_tdf_deltas : forall tolv mindt Th Hh Tc Hc,
  let o := tdf_core tolv mindt Th Hh Tc Hc in
  let ds := disc_values tolv (fst (normalise tolv Hh Th)) ++ disc_values tolv (fst (normalise tolv Hc Tc)) in
  o_raw2 o = vsub (o_th2 o) (o_tc2 o)
  /\ o_d1 o = map (fun x => rsub x mindt) (vsub (o_th1 o) (o_tc1 o))
  /\ (exists low, PM tolv ds (ends (o_h o)) (o_raw2 o) low /\ Forall2 Qle low (o_raw2 o) /\ o_d2 o = map (fun x => rsub x mindt) low)
  /\ (ds = [] -> o_d2 o = map (fun x => rsub x mindt) (o_raw2 o)).
Proof. exact tdf_deltas. Qed.
Print Assumptions C15_tdf_deltas.

(* REFUTED: "delta_T2 is the end difference at the left limit".  cold (0,20) (5,60) (5,60) (10,90) has a REPEATED POINT at 5 (no
   temperature jump on either curve there); the interval [0,5] ends with 105 - 60 = 45 but gets 20, the end difference of the
   next interval taken at enthalpy 10 (finding D36: this is what makes the area target deviate from the interval sum) *)
Theorem C15_tdf_delta_T2_is_end_difference_refuted :
  ~ (forall Th Hh Tc Hc o, tdf tol 0 Th Hh Tc Hc = TOk o -> o_d2 o = o_raw2 o).
Proof. exact delta_T2_is_end_difference_refuted. Qed.
Print Assumptions C15_tdf_delta_T2_is_end_difference_refuted.

(* the block can only OVER-estimate the area: for any LMTD that is positive and non-decreasing in its second argument,
   lowering end differences (pointwise, staying positive) does not lower  sum_i q_i R_i / lmtd(d1_i, d2_i) *)
Theorem C15_tdf_block_overestimates_area : forall lmtd : Q -> Q -> Q,
  (forall a b, 0 < a -> 0 < b -> 0 < lmtd a b) -> (forall a b b', 0 < a -> 0 < b -> b <= b' -> lmtd a b <= lmtd a b') ->
  forall dh R d1 low raw,
  Forall (fun q => 0 <= q) dh -> Forall (fun r => 0 <= r) R -> Forall (fun a => 0 < a) d1 -> Forall (fun b => 0 < b) low ->
  Forall2 Qle low raw -> area_with lmtd dh R d1 raw <= area_with lmtd dh R d1 low.
Proof. exact lowering_raises_area. Qed.
Print Assumptions C15_tdf_block_overestimates_area.

(* OPEN: area_matches_spec -- for every problem with positive contributions and feasible utilities
     get_area_targets(...) = spec_area (spec_intervals hot cold) (LMTDs)
   is not a theorem (the chain  balanced curves of the problem table -> tdf -> resistance mapping -> sum  is modelled stage by
   stage and compared on every run, the composition with the problem-table stage is not proved); it is evaluated by
   judge_e2e_tdf on every run, and it is FALSE where the discontinuity block fires (finding D36, verdict [3;3]).
   OPEN: the one-sided-limit theorems are stated for a decomposition of the normalised curve around the break point; a
   closed-form bound for the deviation at foreign break points next to a plateau (observed < 1e-6 * slope) is not proved. *)
