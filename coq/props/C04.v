(* C04 -- utility profiles are thermodynamically feasible and lowest-grade-first.
   Only statements; every proof is `exact <lemma>` from proofs/Utility*.v. *)
From OP Require Import gen.Consts model.Base model.Stream model.Utility
  proofs.BaseFacts proofs.UtilityLadder proofs.UtilityDuty proofs.UtilityProfile proofs.UtilityWitness proofs.UtilityRows.
(* the pocket-free GCC model (C07) is only named, not imported: it has its own pinch_idx / deltas / cumsum *)
From OP Require model.Pockets proofs.PocketsValley proofs.PocketsExamples proofs.ComposePocketsUtility.
Local Open Scope Q_scope.

(* greedy_optimal: the lowest-grade-first closed form dominates, prefix by prefix from the lowest grade, EVERY allocation
   whose prefix sums stay under the reachable demand -- i.e. each lower-grade utility carries the largest duty that keeps
   the utility profile under the pocket-free GCC.  This replaces the LP: it is the optimum for all ladders of any length. *)
Theorem C04_greedy_optimal :
  forall a P q', steps_ok tol a P -> ascending a P -> Forall2 Qle (prefix_sums a q') P ->
  Forall2 (fun s s' => s' <= s) (prefix_sums a (greedy tol a P)) (prefix_sums a q').
Proof. exact (greedy_dominates_ascending tol tol_pos). Qed.
Print Assumptions C04_greedy_optimal.
(* the same for any visiting order (feasibility against the running maximum), and without Robust up to tol *)
Theorem C04_greedy_optimal_any_order :
  forall a P q', steps_ok tol a P -> Forall2 Qle (prefix_sums a q') (runmax a P) ->
  Forall2 (fun s s' => s' <= s) (prefix_sums a (greedy tol a P)) (prefix_sums a q').
Proof. exact (greedy_dominates tol tol_pos). Qed.
Print Assumptions C04_greedy_optimal_any_order.
Theorem C04_greedy_optimal_tol :
  forall a P q', Forall2 Qle (prefix_sums a q') (runmax a P) ->
  Forall2 (fun s s' => s' - tol <= s) (prefix_sums a (greedy tol a P)) (prefix_sums a q').
Proof. exact (greedy_dominates_tol tol tol_pos). Qed.
Print Assumptions C04_greedy_optimal_tol.

(* the implementation's loop IS that closed form whenever every utility is clear of the grid (isothermal = 0.1 K utilities
   whose end points are rows; gliding ones wholly outside the process range) *)
Theorem C04_lowest_grade_first_hot :
  forall T H rh hus, let Ts := firstn (S rh) T in let Hs := firstn (S rh) H in
  strict_desc Ts = true -> noninc Hs = true -> List.length Ts = List.length Hs -> 0 <= lastq Hs -> lastq Hs <= tol ->
  (forall u, In u hus -> u_tmins u <= u_tmaxs u /\ clear_hot tol Ts u = true) ->
  Forall2 Qeq (assign_hot tol T H rh hus) (spec_hot tol T H rh hus).
Proof. exact (assign_hot_closed_form tol tol_pos). Qed.
Print Assumptions C04_lowest_grade_first_hot.
Theorem C04_lowest_grade_first_cold :
  forall T H rc cus, let k := Nat.max (rc - 1) 0 in let Ts := skipn k T in let Hs := skipn k H in
  strict_desc Ts = true -> noninc (rev Hs) = true -> List.length Ts = List.length Hs -> 0 <= headq Hs -> headq Hs <= tol ->
  (forall u, In u cus -> u_tmins u <= u_tmaxs u /\ clear_cold tol Ts u = true) ->
  Forall2 Qeq (assign_cold tol T H rc cus) (spec_cold tol T H rc cus).
Proof. exact (assign_cold_closed_form tol tol_pos). Qed.
Print Assumptions C04_lowest_grade_first_cold.

(* feasible (level form): for ANY profile and ANY ladder, the utilities whose supply coordinate is at or below a level x carry
   together at most the largest enthalpy reachable from x (pgen; on a pocket-free segment that is the profile's value at the
   highest row <= x, lemma pgen_all_reach).  For ladders clear of the grid the left side is exactly the hot part of H_ut at a
   row (step form `hut_step`), so this is 0 <= H_ut(T_i) <= H_np(T_i).
   CLOSED (was OPEN): `feasible : forall i, 0 <= nth i (hut_model T hus cus dh dc) <= H_np[i]` as a statement about the utility
   CASCADE model is now proved for gridded ladders: C04_utility_profile_is_step_at_every_row (hut_model = hut_step at every
   row) and C04_utility_profile_feasible_at_every_row below.  For ladders with a glide inside the process range the
   statement is FALSE for the code as it is: C04_glide_feasible_refuted. *)
Theorem C04_level_feasible_partial :
  forall ivs limit l x, 0 <= limit -> (forall v, In v ivs -> hadj v <= limit) ->
  msum (map (fun u => qleb (us u) x) l) (assign_loop tol ivs limit l 0) <= pgen tol ivs x.
Proof. exact (assign_level_feasible tol tol_pos). Qed.
Print Assumptions C04_level_feasible_partial.

(* feasible on a pocket-free segment, ANY ladder (glides included): at every level x the hot utilities whose supply level is at
   or below x carry together at most the heating demand P(x) (the pocket-free profile at the highest row <= x); the cold
   utilities whose supply level is at or above x at most the cooling demand at x.  For ladders clear of the grid the left
   sides are the two halves of H_ut at a row (hut_step), i.e. this is H_ut(T_i) <= H_np(T_i). *)
Theorem C04_level_feasible_hot :
  forall T H rh hus x, let Ts := firstn (S rh) T in let Hs := firstn (S rh) H in
  strict_desc Ts = true -> noninc Hs = true -> List.length Ts = List.length Hs -> 0 <= lastq Hs ->
  msum (map (fun u => qleb (u_tmaxs u) x) (rev hus)) (rev (assign_hot tol T H rh hus)) <= prow tol Ts Hs x.
Proof. exact (hot_level_feasible tol tol_pos). Qed.
Print Assumptions C04_level_feasible_hot.
Theorem C04_level_feasible_cold :
  forall T H rc cus x, let k := Nat.max (rc - 1) 0 in let Ts := skipn k T in let Hs := skipn k H in
  strict_desc Ts = true -> noninc (rev Hs) = true -> List.length Ts = List.length Hs -> 0 <= headq Hs ->
  msum (map (fun u => qleb x (u_tmins u)) cus) (assign_cold tol T H rc cus) <= prow_cold tol Ts Hs x.
Proof. exact (cold_level_feasible tol tol_pos). Qed.
Print Assumptions C04_level_feasible_cold.

(* H_ut >= 0 part: duties are non-negative (the cascade of non-negative duties, max - h, is non-negative by construction) *)
Theorem C04_duties_nonneg :
  forall ivs limit l qa, Forall (fun q => 0 <= q) (assign_loop tol ivs limit l qa).
Proof. exact (assign_nonneg tol tol_pos). Qed.
Print Assumptions C04_duties_nonneg.

(* C04_glide_feasible_refuted (open defect, proposed D38): cold streams 90->100 (50 kW), 50->100 (10 kW), hot utility 100->60.
   The slope bound pairs the enthalpy at the top of an interval with the temperature at its bottom; the model (as the code)
   gives the utility 60 kW and the utility GCC is 45 at 90 degC where the pocket-free process GCC is 8. *)
Theorem C04_glide_feasible_refuted :
  di_duties tol T38 HA38 (sep_hot HA38) (sep_cold HA38) [u38] [] = ([60], [])
  /\ hut_model T38 [u38] [] [60] [] = [60; 45; 0; 0]
  /\ feas_hi eps6 60 (hut_model T38 [u38] [] [60] []) HA38 = false
  /\ clear_hot tol T38 u38 = false.
Proof. exact (conj d38_duty (conj d38_profile (conj d38_infeasible d38_not_clear))). Qed.
Print Assumptions C04_glide_feasible_refuted.

(* non-vacuity of the closed-form theorems: classic four-stream problem, three levels a side, duties 45/30/0 and 80/20/0 *)
Theorem C04_nonvacuous :
  spec_hot tol Tc HAc 8 husc = [45; 30; 0] /\ spec_cold tol Tc (cold_demand HAc 8) 8 cusc = [80; 20; 0]
  /\ assign_hot tol Tc HAc 8 husc = [45; 30; 0] /\ assign_cold tol Tc (cold_demand HAc 8) 8 cusc = [80; 20; 0].
Proof. exact classic_closed_form. Qed.
Print Assumptions C04_nonvacuous.

(* ======================================================================================================================
   ROW-BY-ROW feasibility of the utility grand composite column (the statement C04 asks for), on the utility CASCADE model.
   A utility is `gridded` (gridded_hot / gridded_cold) when it is isothermal in the code's sense (0.1 K wide: shifted lower
   end < shifted upper end, span = their difference > activity window), clear of the grid (clear_hot / clear_cold, the notion
   of C03_assign_closed_form_hot/_cold), and its two shifted end points are rows (create_problem_table_with_t_int puts them
   there).  The default utilities are of this kind and lie wholly outside the process range: C04_default_utilities_isothermal.
   ====================================================================================================================== *)

(* cascade = step profile, ANY non-negative duties: if some row xp separates the hot utilities that carry duty (wholly at or
   above xp) from the cold ones that carry duty (lower end below xp), the column H_NET_UT = max(h) - h computed by the utility
   problem table equals at every row the sum of the hot duties wholly at or below the row + cold duties wholly at or above it *)
Theorem C04_cascade_is_step :
  forall T hus cus dh dc xp, strict_desc T = true ->
  (forall u, In u hus -> gridded T u) -> (forall u, In u cus -> gridded T u) ->
  Forall (fun q => 0 <= q) dh -> Forall (fun q => 0 <= q) dc -> In xp T ->
  (forall p, In p (combine hus dh) -> snd p == 0 \/ xp <= u_tmins (fst p)) ->
  (forall p, In p (combine cus dc) -> snd p == 0 \/ u_tmins (fst p) < xp) ->
  Forall2 Qeq (hut_model T hus cus dh dc) (map (fun x => hut_step x hus cus dh dc) T).
Proof. exact hut_model_step_sep. Qed.
Print Assumptions C04_cascade_is_step.

(* the duties the code's loops assign (ANY demand profiles Hh / Hc, no monotonicity needed) satisfy the separation with
   xp = the heating pinch row, provided the cooling demand is (numerically) zero on the rows of its segment at or above that
   row: hut_model = hut_step at every row *)
Theorem C04_utility_profile_is_step_at_every_row :
  forall T Hh Hc rh rc hus cus,
  let k := Nat.max (rc - 1) 0 in
  let dh := assign_hot tol T Hh rh hus in let dc := assign_cold tol T Hc rc cus in
  strict_desc T = true -> (rh < List.length T)%nat ->
  Forall2 (fun t h => nth rh T 0 <= t -> h <= tol) (skipn k T) (skipn k Hc) ->
  (forall u, In u hus -> gridded_hot tol T u) -> (forall u, In u cus -> gridded_cold tol T u) ->
  Forall2 Qeq (hut_model T hus cus dh dc) (map (fun x => hut_step x hus cus dh dc) T).
Proof. exact (assigned_hut_is_step tol tol_pos). Qed.
Print Assumptions C04_utility_profile_is_step_at_every_row.

(* feasible at every row, level form (no assumption on the spacing of the rows): pocket-free demand profiles on the two
   segments => 0 <= H_ut(T_i) <= heating demand at level T_i + cooling demand at level T_i *)
Theorem C04_utility_profile_feasible_at_every_level_of_a_row :
  forall T Hh Hc rh rc hus cus,
  let k := Nat.max (rc - 1) 0 in
  let Ths := firstn (S rh) T in let Hhs := firstn (S rh) Hh in let Tcs := skipn k T in let Hcs := skipn k Hc in
  let dh := assign_hot tol T Hh rh hus in let dc := assign_cold tol T Hc rc cus in
  strict_desc T = true -> (rh < List.length T)%nat ->
  noninc Hhs = true -> List.length Ths = List.length Hhs -> 0 <= lastq Hhs ->
  noninc (rev Hcs) = true -> 0 <= headq Hcs ->
  Forall2 (fun t h => nth rh T 0 <= t -> h <= tol) Tcs Hcs ->
  (forall u, In u hus -> gridded_hot tol T u) -> (forall u, In u cus -> gridded_cold tol T u) ->
  Forall2 (fun hut x => 0 <= hut /\ hut <= prow tol Ths Hhs x + prow_cold tol Tcs Hcs x) (hut_model T hus cus dh dc) T.
Proof. exact (utility_rows_feasible tol tol_pos). Qed.
Print Assumptions C04_utility_profile_feasible_at_every_level_of_a_row.

(* feasible at every ROW: rows more than tol apart (the grid is rounded to the decimals of tol), pocket-free demand profiles:
   0 <= H_ut[i] <= H_np[i] for every row i, H_np[i] = heating demand in row i (rows 0..rh) + cooling demand in row i (rows k..).
   Residual hypotheses, all stated: the two demand columns Hh / Hc are given (in the code they are H_cold_net / H_hot_net of
   the pocket-free GCC, monotone on their segments: that they are is the `side_*_ok` test evaluated per case), the cooling
   demand vanishes at or above the heating pinch row, every utility is gridded. *)
Theorem C04_utility_profile_feasible_at_every_row :
  forall T Hh Hc rh rc hus cus,
  let k := Nat.max (rc - 1) 0 in
  let dh := assign_hot tol T Hh rh hus in let dc := assign_cold tol T Hc rc cus in
  gapped tol T = true -> (rh < List.length T)%nat -> List.length T = List.length Hh -> List.length T = List.length Hc ->
  noninc (firstn (S rh) Hh) = true -> 0 <= lastq (firstn (S rh) Hh) ->
  noninc (rev (skipn k Hc)) = true -> 0 <= headq (skipn k Hc) ->
  Forall2 (fun t h => nth rh T 0 <= t -> h <= tol) (skipn k T) (skipn k Hc) ->
  (forall u, In u hus -> gridded_hot tol T u) -> (forall u, In u cus -> gridded_cold tol T u) ->
  forall i, (i < List.length T)%nat ->
  0 <= nth i (hut_model T hus cus dh dc) 0 /\
  nth i (hut_model T hus cus dh dc) 0
    <= (if (i <=? rh)%nat then nth i Hh 0 else 0) + (if (k <=? i)%nat then nth i Hc 0 else 0).
Proof. exact (utility_rows_feasible_nth tol tol_pos). Qed.
Print Assumptions C04_utility_profile_feasible_at_every_row.

(* non-vacuity: the classic four-stream problem (19 rows, three 0.1 K levels a side) satisfies every hypothesis above *)
Theorem C04_rows_nonvacuous :
  forall i, (i < 19)%nat ->
  0 <= nth i (hut_model Tc husc cusc [45; 30; 0] [80; 20; 0]) 0 /\
  nth i (hut_model Tc husc cusc [45; 30; 0] [80; 20; 0]) 0
    <= (if (i <=? 8)%nat then nth i HAc 0 else 0) + (if (7 <=? i)%nat then nth i (cold_demand HAc 8) 0 else 0).
Proof. exact classic_rows_feasible. Qed.
Print Assumptions C04_rows_nonvacuous.

(* the default utilities are 0.1 K wide (isothermal in the above sense) and sit wholly outside the process range: the default
   hot utility's lower shifted end is exactly the hottest process level x, the default cold utility's upper end the coldest *)
Theorem C04_default_utilities_isothermal :
  forall x,
  (let u := default_hu x in
   let s := star_of true (mkUcr (uc_id u) (Qmax (uc_ts u) (uc_tt u)) (Qmin (uc_ts u) (uc_tt u)) (uc_dt u)) in
   iso s /\ u_tmins s == x) /\
  (let u := default_cu x in
   let s := star_of false (mkUcr (uc_id u) (Qmin (uc_ts u) (uc_tt u)) (Qmax (uc_ts u) (uc_tt u)) (uc_dt u)) in
   iso s /\ u_tmaxs s == x).
Proof. exact (fun x => conj (default_hu_iso x) (default_cu_iso x)). Qed.
Print Assumptions C04_default_utilities_isothermal.

(* ======================================================================================================================
   COMPOSITION WITH C07 (proofs/ComposePocketsUtility.v): the demand columns are not data any more.
   The targeting reads H_cold_net = sep_cold HA (hot utilities) and H_hot_net = sep_hot HA (cold utilities), each through `flip`,
   at the pinch rows of pinch_idx HA, where HA = H_net_actual = the H_net_np column of get_GCC_without_pockets.
   `Valley tol HA` (proofs/PocketsValley.v): HA falls, in steps that are zero or larger than tol, to a zero and rises again;
   the output column of gcc_np is one on every Robust GCC with a pinch (gcc_np_z_valley).
   ====================================================================================================================== *)

(* the two demand columns of a valley: as long as the column, monotone, non-negative, heating demand + cooling demand = H_np in
   EVERY row; the hot pinch row of pinch_idx is a zero row and the cooling demand is <= tol down to it -- these are exactly
   the data hypotheses of C04_utility_profile_feasible_at_every_row (for any rc: the cold segment may start at rc - 1) *)
Theorem C04_demand_columns_of_a_valley :
  forall HA, PocketsValley.Valley tol HA ->
  let Hh := flip tol (sep_cold HA) in let Hc := flip tol (sep_hot HA) in
  let rh := fst (fst (pinch_idx tol HA)) in
  List.length Hh = List.length HA /\ List.length Hc = List.length HA
  /\ noninc Hh = true /\ noninc (rev Hc) = true
  /\ (forall i, 0 <= nth i Hh 0 /\ 0 <= nth i Hc 0 /\ nth i Hh 0 + nth i Hc 0 == nth i HA 0)
  /\ (rh < List.length HA)%nat /\ Qabs (nth rh HA 0) < tol /\ (forall j, (j <= rh)%nat -> nth j Hc 0 <= tol).
Proof. exact ComposePocketsUtility.valley_demand_columns. Qed.
Print Assumptions C04_demand_columns_of_a_valley.

(* the same for the output table of gcc_np on a Robust GCC with a pinch (rows more than tol apart included) *)
Theorem C04_demand_columns_of_the_pocket_free_gcc :
  forall Ts Hs out, Pockets.robust_b tol Ts Hs = true -> Pockets.has_pinch tol Hs = true -> Pockets.gcc_np tol Ts Hs = Ok out ->
  let HA := map Pockets.rNP out in
  let Hh := flip tol (sep_cold HA) in let Hc := flip tol (sep_hot HA) in
  let rh := fst (fst (pinch_idx tol HA)) in
  gapped tol (map Pockets.rT out) = true
  /\ List.length Hh = List.length HA /\ List.length Hc = List.length HA
  /\ noninc Hh = true /\ noninc (rev Hc) = true
  /\ (forall i, 0 <= nth i Hh 0 /\ 0 <= nth i Hc 0 /\ nth i Hh 0 + nth i Hc 0 == nth i HA 0)
  /\ (rh < List.length HA)%nat /\ Qabs (nth rh HA 0) < tol /\ (forall j, (j <= rh)%nat -> nth j Hc 0 <= tol).
Proof. exact ComposePocketsUtility.gcc_demand_columns. Qed.
Print Assumptions C04_demand_columns_of_the_pocket_free_gcc.

(* feasible at every row for the duties get_utility_targets assigns (di_duties: pinch_idx, flip, the entry tests of
   _target_utility, the two loops) on ANY valley column and any grid with rows more than tol apart *)
Theorem C04_utility_profile_feasible_on_a_valley :
  forall T HA hus cus,
  gapped tol T = true -> List.length T = List.length HA -> PocketsValley.Valley tol HA ->
  (forall u, In u hus -> gridded_hot tol T u) -> (forall u, In u cus -> gridded_cold tol T u) ->
  let dd := di_duties tol T HA (sep_hot HA) (sep_cold HA) hus cus in
  forall i, (i < List.length T)%nat ->
  0 <= nth i (hut_model T hus cus (fst dd) (snd dd)) 0 /\ nth i (hut_model T hus cus (fst dd) (snd dd)) 0 <= nth i HA 0.
Proof. exact ComposePocketsUtility.valley_rows_feasible. Qed.
Print Assumptions C04_utility_profile_feasible_on_a_valley.

(* THE COMPOSED STATEMENT: the GCC (Ts, Hs) Robust with a pinch is the only data.  On the output table of
   get_GCC_without_pockets (its rows include the breakpoints it inserts), for every gridded ladder,
   0 <= H_ut[i] <= H_net_np[i] = H_net_actual[i] in EVERY row i *)
Theorem C04_utility_profile_feasible_from_the_gcc :
  forall Ts Hs out, Pockets.robust_b tol Ts Hs = true -> Pockets.has_pinch tol Hs = true -> Pockets.gcc_np tol Ts Hs = Ok out ->
  forall hus cus,
  let T := map Pockets.rT out in let HA := map Pockets.rNP out in
  (forall u, In u hus -> gridded_hot tol T u) -> (forall u, In u cus -> gridded_cold tol T u) ->
  let dd := di_duties tol T HA (sep_hot HA) (sep_cold HA) hus cus in
  forall i, (i < List.length out)%nat ->
  0 <= nth i (hut_model T hus cus (fst dd) (snd dd)) 0 /\ nth i (hut_model T hus cus (fst dd) (snd dd)) 0 <= nth i HA 0.
Proof. exact ComposePocketsUtility.gcc_rows_feasible. Qed.
Print Assumptions C04_utility_profile_feasible_from_the_gcc.

(* non-vacuity: the ex2 curve of C07 (11 rows, pockets on both sides of the pinch at 180) is Robust with a pinch, gcc_np gives
   the 13-row table ex2_out (breakpoints at 1340/7 and 172); with a two-level ladder a side (utilities spanning whole intervals
   of that grid) the duties are 0/40 and 20/0 and the utility profile is feasible in all 13 rows *)
Theorem C04_composed_nonvacuous :
  Pockets.robust_b tol PocketsExamples.ex2_T PocketsExamples.ex2_H = true
  /\ Pockets.has_pinch tol PocketsExamples.ex2_H = true
  /\ Pockets.gcc_np tol PocketsExamples.ex2_T PocketsExamples.ex2_H = Ok ComposePocketsUtility.ex2_out
  /\ (let T := map Pockets.rT ComposePocketsUtility.ex2_out in let HA := map Pockets.rNP ComposePocketsUtility.ex2_out in
      di_duties tol T HA (sep_hot HA) (sep_cold HA) ComposePocketsUtility.ex2_hus ComposePocketsUtility.ex2_cus = ([0; 40], [20; 0])
      /\ forall i, (i < 13)%nat ->
         0 <= nth i (hut_model T ComposePocketsUtility.ex2_hus ComposePocketsUtility.ex2_cus [0; 40] [20; 0]) 0
         /\ nth i (hut_model T ComposePocketsUtility.ex2_hus ComposePocketsUtility.ex2_cus [0; 40] [20; 0]) 0 <= nth i HA 0).
Proof.
  exact (conj (proj1 PocketsExamples.ex2_robust) (conj (proj1 (proj2 PocketsExamples.ex2_robust))
        (conj ComposePocketsUtility.ex2_gcc ComposePocketsUtility.ex2_composed))).
Qed.
Print Assumptions C04_composed_nonvacuous.

(* CLOSED by the composition above (was OPEN): the link H_np[i] = H_net_actual[i].  The demand columns the code passes,
   flip (sep_cold HA) and flip (sep_hot HA) with HA the output column of gcc_np, are derived -- not assumed -- to be monotone,
   non-negative, to add up to HA in every row and to vanish (<= tol) on the other side of the hot pinch row of pinch_idx; no
   hypothesis of the row theorem fails on a Robust GCC (the cold segment starting at rc - 1 is harmless: the facts hold for
   every rc).
   STILL OPEN (evaluated per case by clauses 25/36/39 of judge_c04, not proved):
   - GCCs that are not Robust (a level or a crossing within tol of another) and GCCs without a pinch row: C07's theorems,
     hence the composition, do not cover them;
   - that the grid of the problem table contains the shifted end points of every utility (the `gridded` hypotheses) is a fact
     about create_problem_table_with_t_int, which neither model contains: it stays a hypothesis on the ladder;
   - ladders that are not gridded: an end point that is not a row makes the cascade a ramp inside an interval, not a step;
     a glide inside the process range violates feasibility (C04_glide_feasible_refuted). *)
