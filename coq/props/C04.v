(* C04 -- utility profiles are thermodynamically feasible and lowest-grade-first.
   Only statements; every proof is `exact <lemma>` from proofs/Utility*.v. *)
From OP Require Import gen.Consts model.Base model.Stream model.Utility
  proofs.BaseFacts proofs.UtilityLadder proofs.UtilityDuty proofs.UtilityProfile proofs.UtilityWitness.
Local Open Scope Q_scope.

(* greedy_optimal: the lowest-grade-first closed form dominates, prefix by prefix from the lowest grade, EVERY allocation
   whose prefix sums stay under the reachable demand -- i.e. each lower-grade utility carries the largest duty that keeps
   the utility profile under the pocket-free GCC.  This replaces the LP: it is the optimum for all ladders of any length. *)
Theorem C04_greedy_optimal :
  forall a P q', steps_ok tol a P -> ascending a P -> Forall2 Qle (prefix_sums a q') P ->
  Forall2 (fun s s' => s' <= s) (prefix_sums a (greedy tol a P)) (prefix_sums a q').
Proof. exact (greedy_dominates_ascending tol tol_pos). Qed.
Print Assumptions C04_greedy_optimal.
(* the same for any visiting order (feasibility against the running maximum), and without Robust up to tol *)
Theorem C04_greedy_optimal_any_order :
  forall a P q', steps_ok tol a P -> Forall2 Qle (prefix_sums a q') (runmax a P) ->
  Forall2 (fun s s' => s' <= s) (prefix_sums a (greedy tol a P)) (prefix_sums a q').
Proof. exact (greedy_dominates tol tol_pos). Qed.
Print Assumptions C04_greedy_optimal_any_order.
Theorem C04_greedy_optimal_tol :
  forall a P q', Forall2 Qle (prefix_sums a q') (runmax a P) ->
  Forall2 (fun s s' => s' - tol <= s) (prefix_sums a (greedy tol a P)) (prefix_sums a q').
Proof. exact (greedy_dominates_tol tol tol_pos). Qed.
Print Assumptions C04_greedy_optimal_tol.

(* the implementation's loop IS that closed form whenever every utility is clear of the grid (isothermal = 0.1 K utilities
   whose end points are rows; gliding ones wholly outside the process range) *)
Theorem C04_lowest_grade_first_hot :
  forall T H rh hus, let Ts := firstn (S rh) T in let Hs := firstn (S rh) H in
  strict_desc Ts = true -> noninc Hs = true -> List.length Ts = List.length Hs -> 0 <= lastq Hs -> lastq Hs <= tol ->
  (forall u, In u hus -> u_tmins u <= u_tmaxs u /\ clear_hot tol Ts u = true) ->
  Forall2 Qeq (assign_hot tol T H rh hus) (spec_hot tol T H rh hus).
Proof. exact (assign_hot_closed_form tol tol_pos). Qed.
Print Assumptions C04_lowest_grade_first_hot.
Theorem C04_lowest_grade_first_cold :
  forall T H rc cus, let k := Nat.max (rc - 1) 0 in let Ts := skipn k T in let Hs := skipn k H in
  strict_desc Ts = true -> noninc (rev Hs) = true -> List.length Ts = List.length Hs -> 0 <= headq Hs -> headq Hs <= tol ->
  (forall u, In u cus -> u_tmins u <= u_tmaxs u /\ clear_cold tol Ts u = true) ->
  Forall2 Qeq (assign_cold tol T H rc cus) (spec_cold tol T H rc cus).
Proof. exact (assign_cold_closed_form tol tol_pos). Qed.
Print Assumptions C04_lowest_grade_first_cold.

(* feasible (level form): for ANY profile and ANY ladder, the utilities whose supply coordinate is at or below a level x carry
   together at most the largest enthalpy reachable from x (pgen; on a pocket-free segment that is the profile's value at the
   highest row <= x, lemma pgen_all_reach).  For ladders clear of the grid the left side is exactly the hot part of H_ut at a
   row (step form `hut_step`), so this is 0 <= H_ut(T_i) <= H_np(T_i).
   OPEN: `feasible : forall i, 0 <= nth i (hut_model T hus cus dh dc) <= nth i HA` as a statement about the utility CASCADE
   model is not proved.  Missing: hut_model T .. = map (hut_step ..) T for ladders clear of the grid (the activity-window
   argument of C01's cascade_row); it is evaluated per case instead (clauses 25, 36, 39 of judge_c04).  For ladders with a
   glide inside the process range the statement is FALSE for the code as it is: C04_glide_feasible_refuted. *)
Theorem C04_level_feasible_partial :
  forall ivs limit l x, 0 <= limit -> (forall v, In v ivs -> hadj v <= limit) ->
  msum (map (fun u => qleb (us u) x) l) (assign_loop tol ivs limit l 0) <= pgen tol ivs x.
Proof. exact (assign_level_feasible tol tol_pos). Qed.
Print Assumptions C04_level_feasible_partial.

(* feasible on a pocket-free segment, ANY ladder (glides included): at every level x the hot utilities whose supply level is at
   or below x carry together at most the heating demand P(x) (the pocket-free profile at the highest row <= x); the cold
   utilities whose supply level is at or above x at most the cooling demand at x.  For ladders clear of the grid the left
   sides are the two halves of H_ut at a row (hut_step), i.e. this is H_ut(T_i) <= H_np(T_i). *)
Theorem C04_level_feasible_hot :
  forall T H rh hus x, let Ts := firstn (S rh) T in let Hs := firstn (S rh) H in
  strict_desc Ts = true -> noninc Hs = true -> List.length Ts = List.length Hs -> 0 <= lastq Hs ->
  msum (map (fun u => qleb (u_tmaxs u) x) (rev hus)) (rev (assign_hot tol T H rh hus)) <= prow tol Ts Hs x.
Proof. exact (hot_level_feasible tol tol_pos). Qed.
Print Assumptions C04_level_feasible_hot.
Theorem C04_level_feasible_cold :
  forall T H rc cus x, let k := Nat.max (rc - 1) 0 in let Ts := skipn k T in let Hs := skipn k H in
  strict_desc Ts = true -> noninc (rev Hs) = true -> List.length Ts = List.length Hs -> 0 <= headq Hs ->
  msum (map (fun u => qleb x (u_tmins u)) cus) (assign_cold tol T H rc cus) <= prow_cold tol Ts Hs x.
Proof. exact (cold_level_feasible tol tol_pos). Qed.
Print Assumptions C04_level_feasible_cold.

(* H_ut >= 0 part: duties are non-negative (the cascade of non-negative duties, max - h, is non-negative by construction) *)
Theorem C04_duties_nonneg :
  forall ivs limit l qa, Forall (fun q => 0 <= q) (assign_loop tol ivs limit l qa).
Proof. exact (assign_nonneg tol tol_pos). Qed.
Print Assumptions C04_duties_nonneg.

(* C04_glide_feasible_refuted (open defect, proposed D38): cold streams 90->100 (50 kW), 50->100 (10 kW), hot utility 100->60.
   The slope bound pairs the enthalpy at the top of an interval with the temperature at its bottom; the model (as the code)
   gives the utility 60 kW and the utility GCC is 45 at 90 degC where the pocket-free process GCC is 8. *)
Theorem C04_glide_feasible_refuted :
  di_duties tol T38 HA38 (sep_hot HA38) (sep_cold HA38) [u38] [] = ([60], [])
  /\ hut_model T38 [u38] [] [60] [] = [60; 45; 0; 0]
  /\ feas_hi eps6 60 (hut_model T38 [u38] [] [60] []) HA38 = false
  /\ clear_hot tol T38 u38 = false.
Proof. exact (conj d38_duty (conj d38_profile (conj d38_infeasible d38_not_clear))). Qed.
Print Assumptions C04_glide_feasible_refuted.

(* non-vacuity of the closed-form theorems: classic four-stream problem, three levels a side, duties 45/30/0 and 80/20/0 *)
Theorem C04_nonvacuous :
  spec_hot tol Tc HAc 8 husc = [45; 30; 0] /\ spec_cold tol Tc (cold_demand HAc 8) 8 cusc = [80; 20; 0]
  /\ assign_hot tol Tc HAc 8 husc = [45; 30; 0] /\ assign_cold tol Tc (cold_demand HAc 8) 8 cusc = [80; 20; 0].
Proof. exact classic_closed_form. Qed.
Print Assumptions C04_nonvacuous.
