(* C17 -- Curve simplification stays within its tolerance.
   Only statements; every proof is `exact <lemma>` from proofs/RDP.v and proofs/Curves.v.
   Points are (x, y) = (enthalpy, temperature).  Distances are compared as squares (exact in Q):
     within eps a b p      :=  cross(a,b,p)^2 <= eps^2 * |b-a|^2     (perpendicular distance to the chord LINE <= eps)
     within_seg eps a b p  :=  within eps a b p /\ 0 <= (p-a).(b-a) <= |b-a|^2   (the foot falls inside the chord)
     CoveredW W a b inner kept : `inner` is partitioned by `kept`, every dropped point p satisfies W u v p for the two
                                 consecutive kept points u, v that span it. *)
From OP Require Import gen.Consts gen.CurvesConsts model.Base model.RDP model.Curves proofs.RDP proofs.Curves.
Local Open Scope Q_scope.

(* ---------------------------------------------------------------- piecewise linearisation (_rdp) *)

(* fuel_suffices: the fuelled recursion that replaces the Python stack never runs out: every non-empty curve has a result *)
Theorem C17_rdp_fuel_suffices : forall eps curve, curve <> [] -> exists out, rdp_model eps curve = Ok out.
Proof. exact rdp_total. Qed.
Print Assumptions C17_rdp_fuel_suffices.

(* ... and fuel beyond "interior points + 1" never changes the kept interior *)
Theorem C17_rdp_fuel_monotone : forall fuel eps a b inner k,
  rdp_inner fuel eps a b inner = Some k -> forall fuel', (fuel <= fuel')%nat -> rdp_inner fuel' eps a b inner = Some k.
Proof. exact rdp_inner_fuel_mono. Qed.
Print Assumptions C17_rdp_fuel_monotone.

(* rdp_ends: both end points are kept (any curve with at least two points, any eps) *)
Theorem C17_rdp_ends : forall eps a b0 r out, rdp_model eps (a :: b0 :: r) = Ok out ->
  hd a out = a /\ last out a = last (b0 :: r) a /\ (2 <= List.length out)%nat.
Proof. exact rdp_ends. Qed.
Print Assumptions C17_rdp_ends.

(* rdp_subseq_in_order: the kept points are original points in the original order *)
Theorem C17_rdp_subseq_in_order : forall eps curve out, rdp_model eps curve = Ok out -> subseq out curve.
Proof. exact rdp_subseq_in_order. Qed.
Print Assumptions C17_rdp_subseq_in_order.

(* rdp_within: every original point is kept or within eps of the chord between two CONSECUTIVE kept points ... *)
Theorem C17_rdp_within : forall eps curve out, rdp_model eps curve = Ok out ->
  forall q, In q curve -> In q out \/ exists u v, consecutive u v out /\ within eps u v q.
Proof. exact rdp_within. Qed.
Print Assumptions C17_rdp_within.

(* ... more precisely the chord that SPANS it: the interior is partitioned by the kept points *)
Theorem C17_rdp_covered : forall eps a b0 r out, rdp_model eps (a :: b0 :: r) = Ok out ->
  exists inner b kept, a :: b0 :: r = a :: inner ++ [b] /\ out = a :: kept ++ [b] /\ Covered eps a b inner kept.
Proof. exact rdp_shape. Qed.
Print Assumptions C17_rdp_covered.

(* rdp_polyline_within: for curves monotone in both coordinates (T-h profiles) the deviation is the distance to the
   simplified polyline's SEGMENT, not only to the chord line *)
Theorem C17_rdp_polyline_within : forall eps a b0 r out,
  rdp_model eps (a :: b0 :: r) = Ok out -> monotone2_b (a :: b0 :: r) = true ->
  exists inner b kept, a :: b0 :: r = a :: inner ++ [b] /\ out = a :: kept ++ [b] /\ CoveredW (within_seg eps) a b inner kept.
Proof. exact rdp_polyline_within. Qed.
Print Assumptions C17_rdp_polyline_within.

(* what within_seg means geometrically: some point a + t (b - a), 0 <= t <= 1, of the segment is within eps of p *)
Theorem C17_within_seg_is_segment_distance : forall eps a b p, within_seg eps a b p -> 0 < len2 a b ->
  exists t, 0 <= t <= 1 /\
    (fst p - (fst a + t * (fst b - fst a))) * (fst p - (fst a + t * (fst b - fst a)))
    + (snd p - (snd a + t * (snd b - snd a))) * (snd p - (snd a + t * (snd b - snd a))) <= eps * eps.
Proof. exact within_seg_sound. Qed.
Print Assumptions C17_within_seg_is_segment_distance.

(* non-vacuity: a monotone 8-point profile on which RDP removes four points and keeps two interior points *)
Example C17_rdp_example :
  rdp_model (1 # 2) [(0, 0); (1, 1 # 4); (2, 3); (3, 3); (5, 13 # 4); (8, 5); (9, 5); (10, 5)] = Ok [(0, 0); (1, 1 # 4); (2, 3); (10, 5)]
  /\ monotone2_b [(0, 0); (1, 1 # 4); (2, 3); (3, 3); (5, 13 # 4); (8, 5); (9, 5); (10, 5)] = true.
Proof. vm_compute. split; reflexivity. Qed.

(* the SLSQP refinement is an oracle (any function): whatever it returns, the break points keep both end points *)
Theorem C17_breakpoints_ends : forall (refine : oracle) eps hot a b0 r out,
  breakpoints refine eps hot (a :: b0 :: r) = Ok out -> Ends (a :: b0 :: r) out.
Proof. exact breakpoints_ends. Qed.
Print Assumptions C17_breakpoints_ends.

(* when RDP keeps at most `rdp_refine_threshold` (= 10, read from the source) points the optimiser is never consulted:
   get_piecewise_data_points returns exactly the RDP points, so all theorems above apply to the public entry point *)
Theorem C17_piecewise_small_is_rdp : forall (refine : oracle) eps hot curve pw,
  rdp_model eps curve = Ok pw -> (List.length pw <= rdp_refine_threshold)%nat -> piecewise_points refine eps hot curve = Ok pw.
Proof. exact piecewise_small_is_rdp. Qed.
Print Assumptions C17_piecewise_small_is_rdp.

(* REFUTED (D17): "for a hot stream the simplified profile never lies above the original by more than eps/10".
   Witness T = 100 h^2, eps = 2: two points kept whatever the optimiser is, the chord is 25 K above at h = 1/2. *)
Theorem C17_one_sided_tenth_refuted :
  exists (curve out : list pt) (eps : Q), 0 < eps /\ monotone2_b curve = true
    /\ (forall refine, piecewise_points refine eps true curve = Ok out)
    /\ exists a b p d, consecutive a b out /\ In p curve /\ chord_excess a b p = Some d /\ eps / rdp_onesided_div < d.
Proof. exact rdp_one_sided_tenth_refuted. Qed.
Print Assumptions C17_one_sided_tenth_refuted.

(* boundary of the deviation clause (outside the property's domain): on a curve that is not monotone in y the code's
   line distance lets a point go that is further than eps from the simplified SEGMENT *)
Theorem C17_segment_distance_nonmonotone_refuted :
  exists (curve out : list pt) (eps : Q) (a b p : pt),
    rdp_model eps curve = Ok out /\ monotone2_b curve = false /\ consecutive a b out /\ In p curve
    /\ line_le (sq eps) a b p = true /\ seg_le (sq eps) a b p = false.
Proof. exact rdp_segment_distance_nonmonotone_refuted. Qed.
Print Assumptions C17_segment_distance_nonmonotone_refuted.

(* ---------------------------------------------------------------- redundant-point removal (clean_composite_curve) *)

(* kept points are points of the curve in the curve's order *)
Theorem C17_clean_subseq : forall tolv c out, clean_curve tolv c = Ok out -> subseq out c.
Proof. exact clean_subseq. Qed.
Print Assumptions C17_clean_subseq.

(* end trimming cuts off only points that are np.isclose (atol = tol, numpy's default rtol) to the first / last abscissa *)
Theorem C17_clean_ends_trims_flat : forall tolv c t, clean_ends tolv c = Ok t -> t <> [] ->
  exists pre post, c = pre ++ t ++ post
    /\ Forall (fun p => isclose_np tolv (fst p) (fst (hd (0, 0) c)) = true) pre
    /\ Forall (fun p => isclose_np tolv (fst p) (fst (last c (0, 0))) = true) post.
Proof. exact clean_ends_trims_flat. Qed.
Print Assumptions C17_clean_ends_trims_flat.

(* the first and last point of the trimmed curve (the first / last non-flat points) are kept, unless one of the two
   final pops fires - which needs the first (last) two kept abscissas closer than tol (C17_pop_*_robust) *)
Theorem C17_clean_ends_kept : forall tolv c t out d, clean_ends tolv c = Ok t -> clean_curve tolv c = Ok out -> t <> [] ->
  pop_first tolv (clean_core tolv t) = clean_core tolv t ->
  pop_last tolv (clean_core tolv t) = clean_core tolv t ->
  hd d out = hd d t /\ last out d = last t d.
Proof. exact clean_ends_kept. Qed.
Print Assumptions C17_clean_ends_kept.
Theorem C17_pop_first_robust : forall tolv (l : list pt) (p0 p1 : pt) (r : list pt),
  l = p0 :: p1 :: r -> tolv <= Qabs (rsub (fst p0) (fst p1)) -> pop_first tolv l = l.
Proof. exact pop_first_robust. Qed.
Print Assumptions C17_pop_first_robust.
Theorem C17_pop_last_robust : forall tolv (l : list pt) (pl pk : pt) (r : list pt),
  rev l = pl :: pk :: r -> tolv <= Qabs (rsub (fst pl) (fst pk)) -> pop_last tolv l = l.
Proof. exact pop_last_robust. Qed.
Print Assumptions C17_pop_last_robust.

(* exact_collinear_recovers (shared with C13), the `..._partial` of the 1e-6 clause: rows (abscissa, ordinate) with
   strictly descending abscissas, kept = in-order subsequence with the same first and last row; if every row lies
   EXACTLY on the polyline through the kept rows, the two piecewise-linear functions are equal everywhere *)
Theorem C17_exact_collinear_recovers_partial : forall rows kept,
  strictly_desc rows -> subseq kept rows -> kept <> [] ->
  hd (0, 0) kept = hd (0, 0) rows -> last kept (0, 0) = last rows (0, 0) ->
  (forall r, In r rows -> snd r == plr kept (fst r)) ->
  forall y, plr kept y == plr rows y.
Proof. exact exact_collinear_recovers. Qed.
Print Assumptions C17_exact_collinear_recovers_partial.
(* OPEN: the full clause  "forall c out, clean_curve tol c = Ok out -> |pl(out) - pl(c)| <= 1e-6 over the non-flat extent"
   is FALSE (next theorem); what holds is the exactly-collinear case above and, for a single removed point, the code's own
   test |y - chord(original neighbours)| <= tol. *)
Example C17_exact_collinear_example :
  let rows := [(10, 0); (8, 4); (6, 8); (5, 8); (2, 8); (0, 10)] in let kept := [(10, 0); (6, 8); (2, 8); (0, 10)] in
  strictly_desc rows /\ subseq kept rows /\ forallb (fun r : pt => qeqb (snd r) (plr kept (fst r))) rows = true.
Proof. simpl. split; [repeat split; reflexivity|]. split; [repeat constructor|reflexivity]. Qed.

(* REFUTED (D16): "the piecewise-linear function through the kept points equals the original within 1e-6".
   y = 4e-7 x^2 on 500 unit steps: 2 points kept, deviation 0.025 at x = 250 (> 1000 tol) *)
Theorem C17_clean_1e6_bound_refuted :
  exists (c out : list pt) (a b p : pt) (d : Q),
    monotone2_b c = true /\ res_pts_eqb (clean_curve tol c) (Ok out) = true /\ consecutive a b out
    /\ existsb (pt_eqb p) c = true /\ chord_excess a b p = Some d /\ 1000 * tol < Qabs d.
Proof. exact clean_1e6_bound_refuted. Qed.
Print Assumptions C17_clean_1e6_bound_refuted.

(* REFUTED: "keeps the first and last non-flat points" in the absolute sense: numpy's relative tolerance 1e-5*|x| cuts
   off a first point that is 0.5 (> 100000 tol) away from the second one when |x| = 1e5 *)
Theorem C17_clean_trim_relative_refuted :
  exists (c t : list pt) (p0 p1 : pt),
    clean_ends tol c = Ok t /\ c = p0 :: t /\ hd p0 t = p1 /\ 100000 * tol < Qabs (fst p0 - fst p1).
Proof. exact clean_trim_relative_refuted. Qed.
Print Assumptions C17_clean_trim_relative_refuted.

(* REFUTED: a curve whose abscissas spread by 244 tol is dropped entirely by the `var() < tol` early return *)
Theorem C17_clean_variance_early_return_refuted :
  exists (c : list pt), clean_curve tol c = Ok [] /\ 100 * tol < spread (map fst c).
Proof. exact clean_variance_early_return_refuted. Qed.
Print Assumptions C17_clean_variance_early_return_refuted.

(* REFUTED (same relative band, severe form): a curve whose abscissas all lie within 1e-5*|x0| of the first one, but spread
   by 0.25 (> 100000 tol), makes clean_composite_curve RAISE (IndexError) - end to end the whole service call fails *)
Theorem C17_relative_band_raises_refuted :
  exists (c : list pt), clean_curve tol c = Err EIndex /\ 100000 * tol < spread (map fst c).
Proof. exact clean_relative_band_raises_refuted. Qed.
Print Assumptions C17_relative_band_raises_refuted.
