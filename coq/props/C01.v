(* C01 -- Direct-integration energy targets equal the exact thermodynamic minimum.
   Statements only; proofs are `exact` references into proofs/Cascade*.v.

   Objects: `hot`, `cold` are the zone's streams seen on the shifted scale (view = [lo,hi], CP);
   `extra` are further grid contributors (the zone's utilities); `stage_model act_window hot cold extra` is the
   model of create_problem_table_with_t_int + problem_table_algorithm with the generated window constant tol*10;
   `Dnet hot cold T` is the exact net heat deficit above temperature T (an integral over the streams, no grid);
   `Qh_star/Qc_star/Qr_star` are the independent rational reference values used by the check on the implementation.
   Hypotheses: streams have lo < hi and CP >= 0 (wfs); end points lie on the 6-decimal rounding lattice (on_lattice);
   Robust: consecutive grid temperatures are further apart than the activity window (gaps_b ... = true). *)
From OP Require Import gen.Consts model.Base model.Cascade proofs.CascadeSpec proofs.CascadeExact proofs.CascadeTargets proofs.CascadeGrid.
Local Open Scope Q_scope.

(* Qh is the largest net heat deficit above ANY temperature (not only grid rows), and it is attained. *)
Theorem C01_Qh_is_largest_deficit :
  forall hot cold extra, wfs hot -> wfs cold -> hot ++ cold <> [] ->
  on_lattice (endpoints (hot ++ cold ++ extra)) ->
  gaps_b act_window (grid_of (endpoints (hot ++ cold ++ extra))) = true ->
  let p := stage_model act_window hot cold extra in
  (forall T, Dnet hot cold T <= Qh_of p) /\
  (exists T, In T (grid_of (endpoints (hot ++ cold ++ extra))) /\ Dnet hot cold T == Qh_of p).
Proof. exact stage_Qh_is_sup. Qed.
Print Assumptions C01_Qh_is_largest_deficit.

(* Qc = Qh - total cold duty + total hot duty, Qr = total hot duty - Qc, and all three are >= 0
   (covers only-hot, only-cold and threshold problems: no side condition on the mix). *)
Theorem C01_balance_and_signs :
  forall hot cold extra, wfs hot -> wfs cold -> hot ++ cold <> [] ->
  on_lattice (endpoints (hot ++ cold ++ extra)) ->
  gaps_b act_window (grid_of (endpoints (hot ++ cold ++ extra))) = true ->
  let p := stage_model act_window hot cold extra in
  Qc_of p == Qh_of p - duty cold + duty hot /\ Qr_of p == duty hot - Qc_of p /\
  0 <= Qh_of p /\ 0 <= Qc_of p /\ 0 <= Qr_of p.
Proof. exact stage_balance. Qed.
Print Assumptions C01_balance_and_signs.

(* The reference values the check computes from the streams' own end points (no grid, no window) are the same numbers. *)
Theorem C01_targets_equal_reference :
  forall hot cold extra, wfs hot -> wfs cold -> hot ++ cold <> [] ->
  on_lattice (endpoints (hot ++ cold ++ extra)) ->
  gaps_b act_window (grid_of (endpoints (hot ++ cold ++ extra))) = true ->
  let p := stage_model act_window hot cold extra in
  Qh_of p == Qh_star hot cold /\ Qc_of p == Qc_star hot cold /\ Qr_of p == Qr_star hot cold.
Proof. exact stage_targets_exact. Qed.
Print Assumptions C01_targets_equal_reference.

(* The same statement for ANY strictly descending grid that contains the stream end points (utility levels, inserted
   rows, extra configuration temperatures: additional rows never change the targets), any positive window. *)
Theorem C01_any_covering_grid :
  forall w hot cold g, 0 < w -> wfs hot -> wfs cold -> desc g -> g <> [] -> covers g (eps_all hot cold) -> gaps_ok w 0 g ->
  Qh_star hot cold == Qh_of (pta w hot cold g) /\ Qc_star hot cold == Qc_of (pta w hot cold g)
  /\ Qr_star hot cold == Qr_of (pta w hot cold g).
Proof. exact any_covering_grid. Qed.
Print Assumptions C01_any_covering_grid.

(* ARBITRARY DOUBLES (no lattice hypothesis): the model's targets are the exact optimum of the streams with their end points
   rounded to the grid's 6 decimals -- each end point moves by at most 5e-7 K, which the tol*10 window absorbs -- provided the
   rounded spans stay positive and the grid gaps exceed window + 5e-7. *)
Theorem C01_targets_exact_for_rounded_streams :
  forall hot cold extra,
  wfs_b (map roundv hot) = true -> wfs_b (map roundv cold) = true -> hot ++ cold <> [] ->
  gaps_b (act_window + delta6) (grid_of (endpoints (hot ++ cold ++ extra))) = true ->
  let p := stage_model act_window hot cold extra in
  Qh_of p == Qh_star (map roundv hot) (map roundv cold) /\ Qc_of p == Qc_star (map roundv hot) (map roundv cold)
  /\ Qr_of p == Qr_star (map roundv hot) (map roundv cold).
Proof. exact stage_rounded_targets_exact. Qed.
Print Assumptions C01_targets_exact_for_rounded_streams.

Theorem C01_rounding_moves_an_end_point_by_at_most_half_a_unit :
  forall dp x, - round_err dp <= round_dp dp x - x <= round_err dp.
Proof. exact round_dp_near. Qed.
Print Assumptions C01_rounding_moves_an_end_point_by_at_most_half_a_unit.

(* REFUTED without the Robust hypothesis (finding D44): the faithful model loses the whole duty of a stream that is narrower
   than the activity window; replayed against the implementation by the check's corpus (reports Qc = 50, Qr = 0 instead of 40, 10). *)
Theorem C01_window_refuted :
  Qc_of (stage_model act_window narrow_hot narrow_cold []) == 50 /\ Qc_star narrow_hot narrow_cold == 40
  /\ gaps_b act_window (grid_of (endpoints (narrow_hot ++ narrow_cold ++ []))) = false.
Proof. exact window_refuted. Qed.
Print Assumptions C01_window_refuted.

(* ---- C01 for EVERY zone at EVERY level of the hierarchy (composition with C10, proofs/ComposeZonesCascade.v) ----
   An input stream `x : zin` carries identity, zone label, name and numeric data (`z_data x : sin` = supply, target,
   dt_cont, heat_flow); `to_istream x` is what zone-tree construction reads of it; `model_synth root (map to_istream xs)`
   is the synthesised zone tree (one `zobs` per zone with the IDENTITIES in its hot / cold collection);
   `zone_hot_views xs z` / `zone_cold_views xs z` are the shifted-scale views of the streams zone z HOLDS (identities looked
   up in the input list) -- the data the zone's cascade runs on; `labelled_into p xs` are the input streams LABELLED INTO
   zone p (non-empty label whose path has p as a prefix).  Stream identities are distinct. *)
From OP Require Import model.Stream model.CascadeE2E model.ZoneTree proofs.ZoneTreeFinal proofs.InvarianceModel proofs.ComposeZonesCascade.
From Coq Require Import Permutation String.

(* the bridge: a zone with subzones (any level), and the root, runs its cascade on a permutation of the views of the
   streams labelled into it -- hot and cold separately (C10_zone_conservation carried to the numeric data), *)
Theorem C01_zone_holds_the_labelled_streams :
  forall root xs out, NoDup (map z_id xs) -> model_synth root (map to_istream xs) = Ok out ->
  forall z, In z out -> is_leaf out z = false \/ zo_path z = [] ->
  Permutation (zone_hot_views xs z) (hot_views shifted_view (labelled_into (zo_path z) xs))
  /\ Permutation (zone_cold_views xs z) (cold_views shifted_view (labelled_into (zo_path z) xs)).
Proof. exact zone_views_are_the_labelled_streams. Qed.
Print Assumptions C01_zone_holds_the_labelled_streams.

(* and the model of the stage does not depend on the order of its streams (identical table), *)
Theorem C01_stage_ignores_stream_order : forall w hs hs' cs cs' extra extra',
  Permutation hs hs' -> Permutation cs cs' -> Permutation extra extra' ->
  stage_model w hs cs extra = stage_model w hs' cs' extra'.
Proof. exact stage_model_perm. Qed.
Print Assumptions C01_stage_ignores_stream_order.

(* hence: for every input stream list and every zone of the synthesised tree that has subzones (and the root), the targets
   the model computes for that zone from the streams it holds are the exact reference values of the streams labelled into
   that zone (end points rounded to the grid's 6 decimals), under the C01 hypotheses on those streams
   (rounded spans positive, CP >= 0, Robust grid: gaps > window + 5e-7). *)
Theorem C01_every_zone_of_the_tree :
  forall root xs out, NoDup (map z_id xs) -> model_synth root (map to_istream xs) = Ok out ->
  forall z extra, In z out -> is_leaf out z = false \/ zo_path z = [] ->
  let sub := labelled_into (zo_path z) xs in
  let hs := hot_views shifted_view sub in let cs := cold_views shifted_view sub in
  wfs_b (map roundv hs) = true -> wfs_b (map roundv cs) = true -> hs ++ cs <> [] ->
  gaps_b (act_window + delta6) (grid_of (endpoints (hs ++ cs ++ extra))) = true ->
  let p := stage_model act_window (zone_hot_views xs z) (zone_cold_views xs z) extra in
  Qh_of p == Qh_star (map roundv hs) (map roundv cs) /\ Qc_of p == Qc_star (map roundv hs) (map roundv cs)
  /\ Qr_of p == Qr_star (map roundv hs) (map roundv cs).
Proof. exact every_zone_targets_exact. Qed.
Print Assumptions C01_every_zone_of_the_tree.

(* the same with the hypotheses checked on the zone's OWN stream set (what the zone holds) instead of the labelled inputs *)
Theorem C01_every_zone_of_the_tree_held :
  forall root xs out, NoDup (map z_id xs) -> model_synth root (map to_istream xs) = Ok out ->
  forall z extra, In z out -> is_leaf out z = false \/ zo_path z = [] ->
  let hz := zone_hot_views xs z in let cz := zone_cold_views xs z in
  let sub := labelled_into (zo_path z) xs in
  let hs := hot_views shifted_view sub in let cs := cold_views shifted_view sub in
  wfs_b (map roundv hz) = true -> wfs_b (map roundv cz) = true -> hz ++ cz <> [] ->
  gaps_b (act_window + delta6) (grid_of (endpoints (hz ++ cz ++ extra))) = true ->
  let p := stage_model act_window hz cz extra in
  Qh_of p == Qh_star (map roundv hs) (map roundv cs) /\ Qc_of p == Qc_star (map roundv hs) (map roundv cs)
  /\ Qr_of p == Qr_star (map roundv hs) (map roundv cs).
Proof. exact every_zone_targets_exact_held. Qed.
Print Assumptions C01_every_zone_of_the_tree_held.

(* end points on the 6-decimal lattice: the reference is the exact optimum of the labelled streams themselves *)
Theorem C01_every_zone_of_the_tree_lattice :
  forall root xs out, NoDup (map z_id xs) -> model_synth root (map to_istream xs) = Ok out ->
  forall z extra, In z out -> is_leaf out z = false \/ zo_path z = [] ->
  let sub := labelled_into (zo_path z) xs in
  let hs := hot_views shifted_view sub in let cs := cold_views shifted_view sub in
  wfs hs -> wfs cs -> hs ++ cs <> [] -> on_lattice (endpoints (hs ++ cs ++ extra)) ->
  gaps_b act_window (grid_of (endpoints (hs ++ cs ++ extra))) = true ->
  let p := stage_model act_window (zone_hot_views xs z) (zone_cold_views xs z) extra in
  Qh_of p == Qh_star hs cs /\ Qc_of p == Qc_star hs cs /\ Qr_of p == Qr_star hs cs.
Proof. exact every_zone_targets_exact_lattice. Qed.
Print Assumptions C01_every_zone_of_the_tree_lattice.

(* the remaining zones are the generated leaves (unit operations, bottom level): such a zone holds exactly one stream --
   the one it was generated for, labelled into the leaf's parent, in the hot collection iff it is hot -- and its targets
   are the exact reference values of that single stream. *)
Theorem C01_every_leaf_zone_of_the_tree :
  forall root xs out, NoDup (map z_id xs) -> model_synth root (map to_istream xs) = Ok out ->
  forall z extra, In z out -> is_leaf out z = true -> zo_path z <> [] ->
  exists x, In x xs /\ nonempty (z_label x) = true /\ removelast (zo_path z) = split_label (z_label x) /\
  let hs := hot_views shifted_view [z_data x] in let cs := cold_views shifted_view [z_data x] in
  wfs_b (map roundv hs) = true -> wfs_b (map roundv cs) = true ->
  gaps_b (act_window + delta6) (grid_of (endpoints (hs ++ cs ++ extra))) = true ->
  let p := stage_model act_window (zone_hot_views xs z) (zone_cold_views xs z) extra in
  Qh_of p == Qh_star (map roundv hs) (map roundv cs) /\ Qc_of p == Qc_star (map roundv hs) (map roundv cs)
  /\ Qr_of p == Qr_star (map roundv hs) (map roundv cs).
Proof. exact every_leaf_zone_targets_exact. Qed.
Print Assumptions C01_every_leaf_zone_of_the_tree.

(* non-vacuity: a three-level tree (Site / A / A/B / C + generated unit operations) whose zones satisfy every hypothesis;
   zone A holds a hot and a cold stream and recovers 800 kW, zone A/B holds the cold stream only, the root holds all three *)
Theorem C01_every_zone_example :
  (match model_synth "Site"%string (map to_istream ex_xs) with Ok out => map zo_path out | Err _ => [] end)
    = [[]; ["A"]; ["A"; "B"]; ["C"]; ["A"; "O1"]; ["A"; "B"; "O1"]; ["C"; "O1"]]%string
  /\ ex_hyps [] = true /\ ex_hyps ["A"%string] = true /\ ex_hyps ["A"; "B"]%string = true /\ ex_hyps ["C"%string] = true
  /\ ex_targets ["A"%string] = Some (0, 200, 800) /\ ex_targets ["A"; "B"]%string = Some (800, 0, 0)
  /\ ex_targets [] = Some (0, 800, 800) /\ ex_targets ["C"; "O1"]%string = Some (0, 600, 0).
Proof. exact ex_tree. Qed.
Print Assumptions C01_every_zone_example.
