(* C01 -- Direct-integration energy targets equal the exact thermodynamic minimum.
   Statements only; proofs are `exact` references into proofs/Cascade*.v.

   Objects: `hot`, `cold` are the zone's streams seen on the shifted scale (view = [lo,hi], CP);
   `extra` are further grid contributors (the zone's utilities); `stage_model act_window hot cold extra` is the
   model of create_problem_table_with_t_int + problem_table_algorithm with the generated window constant tol*10;
   `Dnet hot cold T` is the exact net heat deficit above temperature T (an integral over the streams, no grid);
   `Qh_star/Qc_star/Qr_star` are the independent rational reference values used by the check on the implementation.
   Hypotheses: streams have lo < hi and CP >= 0 (wfs); end points lie on the 6-decimal rounding lattice (on_lattice);
   Robust: consecutive grid temperatures are further apart than the activity window (gaps_b ... = true). *)
From OP Require Import gen.Consts model.Base model.Cascade proofs.CascadeSpec proofs.CascadeExact proofs.CascadeTargets proofs.CascadeGrid.
Local Open Scope Q_scope.

(* Qh is the largest net heat deficit above ANY temperature (not only grid rows), and it is attained. *)
Theorem C01_Qh_is_largest_deficit :
  forall hot cold extra, wfs hot -> wfs cold -> hot ++ cold <> [] ->
  on_lattice (endpoints (hot ++ cold ++ extra)) ->
  gaps_b act_window (grid_of (endpoints (hot ++ cold ++ extra))) = true ->
  let p := stage_model act_window hot cold extra in
  (forall T, Dnet hot cold T <= Qh_of p) /\
  (exists T, In T (grid_of (endpoints (hot ++ cold ++ extra))) /\ Dnet hot cold T == Qh_of p).
Proof. exact stage_Qh_is_sup. Qed.
Print Assumptions C01_Qh_is_largest_deficit.

(* Qc = Qh - total cold duty + total hot duty, Qr = total hot duty - Qc, and all three are >= 0
   (covers only-hot, only-cold and threshold problems: no side condition on the mix). *)
Theorem C01_balance_and_signs :
  forall hot cold extra, wfs hot -> wfs cold -> hot ++ cold <> [] ->
  on_lattice (endpoints (hot ++ cold ++ extra)) ->
  gaps_b act_window (grid_of (endpoints (hot ++ cold ++ extra))) = true ->
  let p := stage_model act_window hot cold extra in
  Qc_of p == Qh_of p - duty cold + duty hot /\ Qr_of p == duty hot - Qc_of p /\
  0 <= Qh_of p /\ 0 <= Qc_of p /\ 0 <= Qr_of p.
Proof. exact stage_balance. Qed.
Print Assumptions C01_balance_and_signs.

(* The reference values the check computes from the streams' own end points (no grid, no window) are the same numbers. *)
Theorem C01_targets_equal_reference :
  forall hot cold extra, wfs hot -> wfs cold -> hot ++ cold <> [] ->
  on_lattice (endpoints (hot ++ cold ++ extra)) ->
  gaps_b act_window (grid_of (endpoints (hot ++ cold ++ extra))) = true ->
  let p := stage_model act_window hot cold extra in
  Qh_of p == Qh_star hot cold /\ Qc_of p == Qc_star hot cold /\ Qr_of p == Qr_star hot cold.
Proof. exact stage_targets_exact. Qed.
Print Assumptions C01_targets_equal_reference.

(* The same statement for ANY strictly descending grid that contains the stream end points (utility levels, inserted
   rows, extra configuration temperatures: additional rows never change the targets), any positive window. *)
Theorem C01_any_covering_grid :
  forall w hot cold g, 0 < w -> wfs hot -> wfs cold -> desc g -> g <> [] -> covers g (eps_all hot cold) -> gaps_ok w 0 g ->
  Qh_star hot cold == Qh_of (pta w hot cold g) /\ Qc_star hot cold == Qc_of (pta w hot cold g)
  /\ Qr_star hot cold == Qr_of (pta w hot cold g).
Proof. exact any_covering_grid. Qed.
Print Assumptions C01_any_covering_grid.

(* ARBITRARY DOUBLES (no lattice hypothesis): the model's targets are the exact optimum of the streams with their end points
   rounded to the grid's 6 decimals -- each end point moves by at most 5e-7 K, which the tol*10 window absorbs -- provided the
   rounded spans stay positive and the grid gaps exceed window + 5e-7. *)
Theorem C01_targets_exact_for_rounded_streams :
  forall hot cold extra,
  wfs_b (map roundv hot) = true -> wfs_b (map roundv cold) = true -> hot ++ cold <> [] ->
  gaps_b (act_window + delta6) (grid_of (endpoints (hot ++ cold ++ extra))) = true ->
  let p := stage_model act_window hot cold extra in
  Qh_of p == Qh_star (map roundv hot) (map roundv cold) /\ Qc_of p == Qc_star (map roundv hot) (map roundv cold)
  /\ Qr_of p == Qr_star (map roundv hot) (map roundv cold).
Proof. exact stage_rounded_targets_exact. Qed.
Print Assumptions C01_targets_exact_for_rounded_streams.

Theorem C01_rounding_moves_an_end_point_by_at_most_half_a_unit :
  forall dp x, - round_err dp <= round_dp dp x - x <= round_err dp.
Proof. exact round_dp_near. Qed.
Print Assumptions C01_rounding_moves_an_end_point_by_at_most_half_a_unit.

(* REFUTED without the Robust hypothesis (finding D44): the faithful model loses the whole duty of a stream that is narrower
   than the activity window; replayed against the implementation by the check's corpus (reports Qc = 50, Qr = 0 instead of 40, 10). *)
Theorem C01_window_refuted :
  Qc_of (stage_model act_window narrow_hot narrow_cold []) == 50 /\ Qc_star narrow_hot narrow_cold == 40
  /\ gaps_b act_window (grid_of (endpoints (narrow_hot ++ narrow_cold ++ []))) = false.
Proof. exact window_refuted. Qed.
Print Assumptions C01_window_refuted.
