(* C10 -- Zone-tree construction conserves the streams.
   Only statements; every proof is `exact <lemma>` from proofs/ZoneTree*.v.
   Vocabulary (coq/model/ZoneTree.v): `model_synth root ss` is the prepared zone tree for the streams `ss` when no zone tree
   is supplied (one `zobs` per zone: path below the root, hot entries, cold entries); `model_user t ss` the same for a
   user-supplied tree `t`; `members z` the stream identities held by zone z; `occ s z` how often stream s occurs in z;
   `is_leaf out z` = z has no subzone; `labelled s` = the zone label is non-empty; `split_label` turns a label into its
   path components.  Stream identities (`sid`) are distinct: `NoDup (map sid ss)`. *)
From OP Require Import gen.Consts gen.ZoneTreeConsts model.Base model.Collection model.ZoneTree
  proofs.ZoneTreeStrings proofs.ZoneTreeSynth proofs.ZoneTreeImport proofs.ZoneTreeMain proofs.ZoneTreeFinal.
From Coq Require Import String Permutation QArith.

(* For EVERY list of streams (any labels, any names) the construction succeeds: the O<k> counter loop ends and no
   key-renaming loop of a collection runs out. *)
Theorem C10_construction_total :
  forall root ss, NoDup (map sid ss) -> exists out, model_synth root ss = Ok out.
Proof. exact synth_total. Qed.
Print Assumptions C10_construction_total.

(* Generated unit-operation names are fresh: every labelled stream gets a zone <label path>/O<k> of its own, which is in
   the tree, has no children in the FINISHED tree, is not a node created for any label of any stream (so no label can
   walk into it -- the D29 repair), and is shared with no other stream. *)
Theorem C10_generated_names_fresh :
  forall ss, NoDup (map sid ss) ->
  exists L asg, synth_front ss = Ok (L, asg) /\
    forall s, In s ss -> labelled s = true ->
      exists k, asg_get asg (sid s) = Some (split_label (slabel s) ++ [oname k])
             /\ In (split_label (slabel s) ++ [oname k]) L
             /\ kids L (split_label (slabel s) ++ [oname k]) = []
             /\ ~ label_path (synth_order ss) (split_label (slabel s) ++ [oname k])
             /\ forall s', In s' ss -> asg_get asg (sid s') = Some (split_label (slabel s) ++ [oname k]) -> s' = s.
Proof. exact generated_names_fresh. Qed.
Print Assumptions C10_generated_names_fresh.

(* Every labelled stream has a leaf zone z, directly below the zone named by its label, such that the stream occurs
   exactly once in every zone on the path from the root to z and zero times in every other zone. *)
Theorem C10_placement :
  forall root ss out, NoDup (map sid ss) -> model_synth root ss = Ok out ->
  forall s, In s ss -> labelled s = true ->
  exists z, In z out /\ is_leaf out z = true /\ removelast (zo_path z) = split_label (slabel s)
    /\ forall z', In z' out -> occ s z' = if is_prefix (zo_path z') (zo_path z) then 1%nat else 0%nat.
Proof. exact placement_thm. Qed.
Print Assumptions C10_placement.

(* ... it is in exactly one leaf: once in that leaf, and any leaf holding it is that leaf. *)
Theorem C10_leaf_unique :
  forall root ss out, NoDup (map sid ss) -> model_synth root ss = Ok out ->
  forall s, In s ss -> labelled s = true ->
  exists z, In z out /\ is_leaf out z = true /\ occ s z = 1%nat
    /\ forall z', In z' out -> is_leaf out z' = true -> (0 < occ s z')%nat -> z' = z.
Proof. exact leaf_unique_thm. Qed.
Print Assumptions C10_leaf_unique.

(* ... exactly once in each ancestor of the leaf that holds it, *)
Theorem C10_ancestors_once :
  forall root ss out, NoDup (map sid ss) -> model_synth root ss = Ok out ->
  forall s z z', In s ss -> labelled s = true -> In z out -> In z' out -> is_leaf out z = true -> (0 < occ s z)%nat ->
  is_prefix (zo_path z') (zo_path z) = true -> occ s z' = 1%nat.
Proof. exact ancestors_once_thm. Qed.
Print Assumptions C10_ancestors_once.

(* ... and nowhere else. *)
Theorem C10_nowhere_else :
  forall root ss out, NoDup (map sid ss) -> model_synth root ss = Ok out ->
  forall s z z', In s ss -> labelled s = true -> In z out -> In z' out -> is_leaf out z = true -> (0 < occ s z)%nat ->
  is_prefix (zo_path z') (zo_path z) = false -> occ s z' = 0%nat.
Proof. exact nowhere_else_thm. Qed.
Print Assumptions C10_nowhere_else.

(* A stream with an empty label is in no zone; every identity held by a zone is a labelled input stream. *)
Theorem C10_unlabelled_nowhere :
  forall root ss out, NoDup (map sid ss) -> model_synth root ss = Ok out ->
  forall s z, In s ss -> labelled s = false -> In z out -> occ s z = 0%nat.
Proof. exact unlabelled_nowhere_thm. Qed.
Print Assumptions C10_unlabelled_nowhere.
Theorem C10_members_are_inputs :
  forall root ss out, NoDup (map sid ss) -> model_synth root ss = Ok out ->
  forall z i, In z out -> In i (members z) -> exists s, In s ss /\ sid s = i /\ labelled s = true.
Proof. exact members_known_thm. Qed.
Print Assumptions C10_members_are_inputs.

(* Conservation per zone: a zone that has subzones (or is the root) holds -- hot and cold collections separately, as
   multisets of identities -- exactly the streams whose label path passes through it, *)
Theorem C10_zone_conservation :
  forall root ss out, NoDup (map sid ss) -> model_synth root ss = Ok out ->
  forall z, In z out -> is_leaf out z = false \/ zo_path z = [] ->
  Permutation (map fst (zo_hot z)) (map sid (filter (fun s => through (zo_path z) s && shot s) ss))
  /\ Permutation (map fst (zo_cold z)) (map sid (filter (fun s => through (zo_path z) s && negb (shot s)) ss)).
Proof. exact conservation_thm. Qed.
Print Assumptions C10_zone_conservation.
(* hence the same stream count, *)
Theorem C10_zone_count :
  forall root ss out, NoDup (map sid ss) -> model_synth root ss = Ok out ->
  forall z, In z out -> is_leaf out z = false \/ zo_path z = [] ->
  List.length (members z) = List.length (filter (through (zo_path z)) ss).
Proof. exact count_conservation_thm. Qed.
Print Assumptions C10_zone_count.
(* and the same hot and cold duty as the streams labelled into it. *)
Theorem C10_zone_duty :
  forall root ss out, NoDup (map sid ss) -> model_synth root ss = Ok out ->
  forall z, In z out -> is_leaf out z = false \/ zo_path z = [] ->
  sumq (map (duty_of ss) (map fst (zo_hot z))) == sumq (map sduty (filter (fun s => through (zo_path z) s && shot s) ss))
  /\ sumq (map (duty_of ss) (map fst (zo_cold z))) == sumq (map sduty (filter (fun s => through (zo_path z) s && negb (shot s)) ss)).
Proof. exact duty_conservation_thm. Qed.
Print Assumptions C10_zone_duty.
(* A leaf zone (generated unit operation) holds exactly one stream, labelled into its parent. *)
Theorem C10_leaf_holds_one_stream :
  forall root ss out, NoDup (map sid ss) -> model_synth root ss = Ok out ->
  forall z, In z out -> is_leaf out z = true -> zo_path z <> [] ->
  exists s, In s ss /\ labelled s = true /\ members z = [sid s] /\ removelast (zo_path z) = split_label (slabel s).
Proof. exact leaf_single_thm. Qed.
Print Assumptions C10_leaf_holds_one_stream.

(* Sibling zones share no stream. *)
Theorem C10_siblings_disjoint :
  forall root ss out, NoDup (map sid ss) -> model_synth root ss = Ok out ->
  forall z1 z2 p c1 c2 i, In z1 out -> In z2 out -> zo_path z1 = p ++ [c1] -> zo_path z2 = p ++ [c2] -> c1 <> c2 ->
  In i (members z1) -> ~ In i (members z2).
Proof. exact siblings_disjoint_thm. Qed.
Print Assumptions C10_siblings_disjoint.

(* The boolean clause 1 of the check's predicate (the one evaluated on the implementation's tree) holds on the model's
   tree for every input. *)
Theorem C10_predicate_holds_on_model :
  forall root ss out, NoDup (map sid ss) -> model_synth root ss = Ok out -> forallb (stream_ok out) ss = true.
Proof. exact model_satisfies_stream_ok. Qed.
Print Assumptions C10_predicate_holds_on_model.

(* Utilities (store model): the locations handed to the zones are pairwise distinct over the whole tree. *)
Theorem C10_utilities_fresh :
  forall n nh nc, NoDup (flat_map (fun l => fst l ++ snd l) (util_locs n nh nc)).
Proof. exact utilities_fresh. Qed.
Print Assumptions C10_utilities_fresh.

(* User-supplied zone tree, PARTIAL: if label rewriting resolves every non-empty label to the full path of a childless
   zone of a well-formed tree (distinct prefix-closed paths, separator-free names), every zone holds exactly the streams
   resolved to a leaf at or below it.
   OPEN: the unconditional statement is false for user trees --
     D22 (kind user-tree-unresolved-label): a label the tree does not resolve (unknown or ambiguous suffix) leaves the
         stream in no zone, or places it by relative suffix (C10_user_tree_unresolved_refuted);
     D38 (kind user-tree-internal-zone-label): a label resolving to a zone WITH subzones is wiped by the bottom-up import
         (C10_user_tree_internal_label_refuted). *)
Theorem C10_user_tree_partial :
  forall t ss L zs leaf,
  rewrite_all (ut_name t) (ut_rel_paths t) ss = Ok (L, zs) ->
  NoDup L -> prefix_closed L -> ~ In [] L -> Forall (Forall nosep) L -> NoDup (map zsid zs) ->
  (forall z, In z zs -> nonempty (zs_zone z) = true ->
     zs_zone z = pathstr (ut_name t) (leaf (zsid z)) /\ In (leaf (zsid z)) L /\ kids L (leaf (zsid z)) = []) ->
  exists out, model_user t ss = Ok out /\ map zo_path out = [] :: L /\
    forall z, In z out ->
      Permutation (map fst (zo_hot z))
        (map zsid (filter (fun x => nonempty (zs_zone x) && shot (zs_s x) && is_prefix (zo_path z) (leaf (zsid x))) zs))
      /\ Permutation (map fst (zo_cold z))
        (map zsid (filter (fun x => nonempty (zs_zone x) && negb (shot (zs_s x)) && is_prefix (zo_path z) (leaf (zsid x))) zs)).
Proof. exact user_tree_partial. Qed.
Print Assumptions C10_user_tree_partial.

Local Open Scope string_scope.
(* non-vacuity of the partial theorem's situation: labels resolved by unique suffix and by full path *)
Theorem C10_user_tree_resolved_example :
  exists out, model_user tree_w [mkS 0 "U1" "S" true; mkS 1 "Root/P1/U1" "S" false] = Ok out
    /\ forallb (stream_ok out) [mkS 0 "U1" "S" true; mkS 1 "Root/P1/U1" "S" false] = true
    /\ trigger (Some tree_w) [mkS 0 "U1" "S" true; mkS 1 "Root/P1/U1" "S" false] = 0%Z.
Proof. exact user_tree_resolved_example. Qed.
Print Assumptions C10_user_tree_resolved_example.

(* D22, open finding: tree Root -> P1 -> U1, one stream labelled "Nowhere": no zone holds it. *)
Theorem C10_user_tree_unresolved_refuted :
  exists out, model_user tree_w [mkS 0 "Nowhere" "S" true] = Ok out
    /\ forallb (fun z => Nat.eqb (List.length (members z)) 0) out = true
    /\ forallb (stream_ok out) [mkS 0 "Nowhere" "S" true] = false
    /\ trigger (Some tree_w) [mkS 0 "Nowhere" "S" true] = 1%Z.
Proof. exact user_tree_unresolved_refuted. Qed.
Print Assumptions C10_user_tree_unresolved_refuted.

(* D38, open finding: same tree, one stream labelled "P1" (a zone with a subzone): no zone holds it. *)
Theorem C10_user_tree_internal_label_refuted :
  exists out, model_user tree_w [mkS 0 "P1" "S" true] = Ok out
    /\ forallb (fun z => Nat.eqb (List.length (members z)) 0) out = true
    /\ forallb (stream_ok out) [mkS 0 "P1" "S" true] = false
    /\ trigger (Some tree_w) [mkS 0 "P1" "S" true] = 2%Z.
Proof. exact user_tree_internal_label_refuted. Qed.
Print Assumptions C10_user_tree_internal_label_refuted.

(* D10 as it was before a2806c0 (suffix index built for every label): labels A/B and B put the first stream in two leaves. *)
Theorem C10_suffix_matching_prefix_refuted :
  exists out, model_synth_prefix_D10 "Project" [mkS 0 "A/B" "S" true; mkS 1 "B" "S" false] = Ok out
    /\ forallb (stream_ok out) [mkS 0 "A/B" "S" true; mkS 1 "B" "S" false] = false
    /\ List.length (filter (fun z => is_leaf out z && Nat.ltb 0 (count_nat 0 (members z))) out) = 2%nat.
Proof. exact suffix_matching_prefix_refuted. Qed.
Print Assumptions C10_suffix_matching_prefix_refuted.

(* D29 as it was before 80225d1 (single pass): labels A and A/O1/A -- the generated O1 stops being a leaf, its stream is lost. *)
Theorem C10_single_pass_prefix_refuted :
  exists out, model_synth_prefix_D29 "Project" [mkS 0 "A" "S" true; mkS 1 "A/O1/A" "S" true] = Ok out
    /\ forallb (stream_ok out) [mkS 0 "A" "S" true; mkS 1 "A/O1/A" "S" true] = false.
Proof. exact single_pass_prefix_refuted. Qed.
Print Assumptions C10_single_pass_prefix_refuted.

(* the two witnesses above on the repaired model: predicate true (instances of the theorems; non-vacuity of their hypotheses) *)
Theorem C10_repaired_examples :
  (exists out, model_synth "Project" [mkS 0 "A/B" "S" true; mkS 1 "B" "S" false] = Ok out
     /\ forallb (stream_ok out) [mkS 0 "A/B" "S" true; mkS 1 "B" "S" false] = true /\ siblings_disjoint_b out = true)
  /\ (exists out, model_synth "Project" [mkS 0 "A" "S" true; mkS 1 "A/O1/A" "S" true] = Ok out
     /\ forallb (stream_ok out) [mkS 0 "A" "S" true; mkS 1 "A/O1/A" "S" true] = true /\ siblings_disjoint_b out = true).
Proof. exact repaired_examples. Qed.
Print Assumptions C10_repaired_examples.
