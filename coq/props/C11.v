(* C11 -- Analysis is a pure function of its input.
   Only statements; every proof is `exact <lemma>` from proofs/ServiceStateInv.v.

   The machine (model/ServiceState.v) has every piece of hidden state the code could carry between calls:
   a dict held as a function default (gdef), the content of the caller's TargetInput objects (cstore) and of
   the objects the library creates itself (tstore), every TargetOutput object returned so far (results), and
   the PinchProblem wrappers (pps: loaded source, project name, cached result object).  The numeric pipeline
   is an ARBITRARY pure function (core, graphs), preparation writes an ARBITRARY rewrite (prep) into the object
   it is given, any call may raise (raises).  `service pn x` is the stateless specification;
   `expected st0 h c` is "(project name, input as the caller built it)" of call c after history h, computed
   from the history alone. *)
From OP Require Import gen.Consts model.Base model.ServiceState proofs.ServiceStateInv.
Local Open Scope nat_scope.

(* After ANY history h of service / load / target / export calls over ANY problems, a call that returns a result
   returns the stateless service of its own input as the caller built it (and that input does not raise). *)
Theorem C11_history_independent :
  forall (input tout gkey gset : Type) (gkey_eqb : gkey -> gkey -> bool) (core : nat -> input -> tout)
         (graphs : nat -> input -> list (gkey * gset)) (prep : nat -> input -> input) (raises : nat -> input -> bool)
         (st0 : list input) (h : list (call input)) (c : call input) (s' : state input tout gkey gset) (r : nat),
    step input tout gkey gset gkey_eqb core graphs prep raises
         (run input tout gkey gset gkey_eqb core graphs prep raises (init st0) h) c = (s', RResult r) ->
    exists (pn : nat) (x : input),
      expected st0 h c = Some (pn, x) /\ raises pn x = false /\
      nth_error (results s') r = Some (service input tout gkey gset gkey_eqb core graphs pn x).
Proof. exact history_independent. Qed.
Print Assumptions C11_history_independent.

(* Conversely: whenever the call has an input and the stateless service of it does not raise, the call after ANY
   history does return a result, and it is that service result (no history can make a good call fail). *)
Theorem C11_history_total :
  forall (input tout gkey gset : Type) (gkey_eqb : gkey -> gkey -> bool) (core : nat -> input -> tout)
         (graphs : nat -> input -> list (gkey * gset)) (prep : nat -> input -> input) (raises : nat -> input -> bool)
         (st0 : list input) (h : list (call input)) (c : call input) (pn : nat) (x : input),
    expected st0 h c = Some (pn, x) -> raises pn x = false ->
    exists (s' : state input tout gkey gset) (r : nat),
      step input tout gkey gset gkey_eqb core graphs prep raises
           (run input tout gkey gset gkey_eqb core graphs prep raises (init st0) h) c = (s', RResult r) /\
      nth_error (results s') r = Some (service input tout gkey gset gkey_eqb core graphs pn x).
Proof. exact history_total. Qed.
Print Assumptions C11_history_total.

(* A call raises after a history only if it has nothing to analyse (nothing loaded / unknown object) or the
   stateless service of its input raises as well. *)
Theorem C11_errors_are_stateless :
  forall (input tout gkey gset : Type) (gkey_eqb : gkey -> gkey -> bool) (core : nat -> input -> tout)
         (graphs : nat -> input -> list (gkey * gset)) (prep : nat -> input -> input) (raises : nat -> input -> bool)
         (st0 : list input) (h : list (call input)) (c : call input) (s' : state input tout gkey gset),
    step input tout gkey gset gkey_eqb core graphs prep raises
         (run input tout gkey gset gkey_eqb core graphs prep raises (init st0) h) c = (s', RErr) ->
    match expected st0 h c with Some (pn, x) => raises pn x = true | None => True end.
Proof. exact errors_are_stateless. Qed.
Print Assumptions C11_errors_are_stateless.

(* After ANY history every TargetInput object of the caller holds what the caller put there, whatever
   preparation writes into the object it works on. *)
Theorem C11_input_unchanged :
  forall (input tout gkey gset : Type) (gkey_eqb : gkey -> gkey -> bool) (core : nat -> input -> tout)
         (graphs : nat -> input -> list (gkey * gset)) (prep : nat -> input -> input) (raises : nat -> input -> bool)
         (st0 : list input) (h : list (call input)),
    cstore (run input tout gkey gset gkey_eqb core graphs prep raises (init st0) h) = st0.
Proof. exact input_unchanged. Qed.
Print Assumptions C11_input_unchanged.

(* A result object returned at any point of a history still has the same content after ANY continuation h2. *)
Theorem C11_earlier_results_unchanged :
  forall (input tout gkey gset : Type) (gkey_eqb : gkey -> gkey -> bool) (core : nat -> input -> tout)
         (graphs : nat -> input -> list (gkey * gset)) (prep : nat -> input -> input) (raises : nat -> input -> bool)
         (st0 : list input) (h h2 : list (call input)) (r : nat) (o : output tout gkey gset),
    nth_error (results (run input tout gkey gset gkey_eqb core graphs prep raises (init st0) h)) r = Some o ->
    nth_error (results (run input tout gkey gset gkey_eqb core graphs prep raises (init st0) (h ++ h2))) r = Some o.
Proof. exact earlier_results_unchanged. Qed.
Print Assumptions C11_earlier_results_unchanged.

(* After ANY history the dict that a function default could hold is empty: no graph set survives a call. *)
Theorem C11_module_state_unchanged :
  forall (input tout gkey gset : Type) (gkey_eqb : gkey -> gkey -> bool) (core : nat -> input -> tout)
         (graphs : nat -> input -> list (gkey * gset)) (prep : nat -> input -> input) (raises : nat -> input -> bool)
         (st0 : list input) (h : list (call input)),
    gdef (run input tout gkey gset gkey_eqb core graphs prep raises (init st0) h) = [].
Proof. exact module_state_unchanged. Qed.
Print Assumptions C11_module_state_unchanged.

(* PinchProblem: after ANY history h (for instance `load A; target`, or a load of some file), `load sr; target()`
   returns a NEW result object whose content is the stateless service of sr's input under the project name of sr
   alone (src_name: the stem of a loaded file, the default name 0 = 'Untitled' for a TargetInput -- independent of
   anything loaded before); a second target() and export return that same object and leave the state untouched. *)
Theorem C11_wrapper_refines :
  forall (input tout gkey gset : Type) (gkey_eqb : gkey -> gkey -> bool) (core : nat -> input -> tout)
         (graphs : nat -> input -> list (gkey * gset)) (prep : nat -> input -> input) (raises : nat -> input -> bool)
         (st0 : list input) (h : list (call input)) (pid : nat) (sr : src input) (x : input),
    src_input st0 sr = Some x ->
    let pn := src_name sr in
    raises pn x = false ->
    let s := run input tout gkey gset gkey_eqb core graphs prep raises (init st0) (h ++ [PLoad pid sr]) in
    exists (s1 : state input tout gkey gset) (r : nat),
      step input tout gkey gset gkey_eqb core graphs prep raises s (PTarget pid) = (s1, RResult r) /\
      nth_error (results s1) r = Some (service input tout gkey gset gkey_eqb core graphs pn x) /\
      r = List.length (results s) /\
      step input tout gkey gset gkey_eqb core graphs prep raises s1 (PTarget pid) = (s1, RResult r) /\
      step input tout gkey gset gkey_eqb core graphs prep raises s1 (PExport pid) = (s1, RResult r).
Proof. exact wrapper_refines. Qed.
Print Assumptions C11_wrapper_refines.

(* ---- the same statements are FALSE for the machines of the code before the repairs (two-call witnesses).
   Concrete instance: contents are integers, the pipeline is the table T0, preparation rewrites 1 into -2. *)
Local Open Scope Z_scope.

(* D5, history [A; B] with the shared default dict: B's result carries A's graph set as well
   (the stateless service of B has one entry, the machine returns two). *)
Theorem C11_history_independent_D5_prefix_refuted :
  exists s' r, j_step_D5 T0 (run_j (j_step_D5 T0) (init []) [CallDict 0%nat 1]) (CallDict 0%nat 2) = (s', RResult r)
    /\ expected [] [CallDict 0%nat 1] (CallDict 0%nat 2) = Some (0%nat, 2)
    /\ nth_error (results s') r = Some (12, [(101, 201); (102, 202)])
    /\ j_service T0 0%nat 2 = (12, [(102, 202)]).
Proof. exact history_independent_D5_prefix_refuted. Qed.
Print Assumptions C11_history_independent_D5_prefix_refuted.

(* D5: the function default holds A's graph set after the first call. *)
Theorem C11_module_state_unchanged_D5_prefix_refuted :
  gdef (run_j (j_step_D5 T0) (init []) [CallDict 0%nat 1]) = [(101, 201)].
Proof. exact module_state_unchanged_D5_prefix_refuted. Qed.
Print Assumptions C11_module_state_unchanged_D5_prefix_refuted.

(* D5: the result object returned for A changes when B is analysed afterwards. *)
Theorem C11_earlier_results_unchanged_D5_prefix_refuted :
  nth_error (results (run_j (j_step_D5 T0) (init []) [CallDict 0%nat 1])) 0 = Some (11, [(101, 201)])
  /\ nth_error (results (run_j (j_step_D5 T0) (init []) [CallDict 0%nat 1; CallDict 0%nat 2])) 0
     = Some (11, [(101, 201); (102, 202)]).
Proof. exact earlier_results_unchanged_D5_prefix_refuted. Qed.
Print Assumptions C11_earlier_results_unchanged_D5_prefix_refuted.

(* D6, history [m; m] without the deep copy: the caller's object holds the rewritten problem after one call *)
Theorem C11_input_unchanged_D6_prefix_refuted :
  cstore (run_j (j_step_D6 T0) (init [1]) [CallModel 0%nat 0%nat]) = [-2].
Proof. exact input_unchanged_D6_prefix_refuted. Qed.
Print Assumptions C11_input_unchanged_D6_prefix_refuted.

(* D6: ... and the second call on the same object returns the analysis of the rewritten problem. *)
Theorem C11_history_independent_D6_prefix_refuted :
  exists s' r, j_step_D6 T0 (run_j (j_step_D6 T0) (init [1]) [CallModel 0%nat 0%nat]) (CallModel 0%nat 0%nat) = (s', RResult r)
    /\ expected [1] [CallModel 0%nat 0%nat] (CallModel 0%nat 0%nat) = Some (0%nat, 1)
    /\ nth_error (results s') r = Some (13, [(103, 203)])
    /\ j_service T0 0%nat 1 = (11, [(101, 201)]).
Proof. exact history_independent_D6_prefix_refuted. Qed.
Print Assumptions C11_history_independent_D6_prefix_refuted.

(* D11, history [load A; target; load B; target] when load keeps the cache: the last target returns A's result object. *)
Theorem C11_wrapper_refines_D11_prefix_refuted :
  let h := [PLoad 0%nat (SFile 0%nat 1); PTarget 0%nat; PLoad 0%nat (SFile 0%nat 2)] in
  exists s', j_step_D11 T0 (run_j (j_step_D11 T0) (init []) h) (PTarget 0%nat) = (s', RResult 0%nat)
    /\ expected [] h (PTarget 0%nat) = Some (0%nat, 2)
    /\ nth_error (results s') 0 = Some (j_service T0 0%nat 1)
    /\ j_service T0 0%nat 1 <> j_service T0 0%nat 2.
Proof. exact wrapper_refines_D11_prefix_refuted. Qed.
Print Assumptions C11_wrapper_refines_D11_prefix_refuted.

(* Non-vacuity: the machine of the code as it is, on the same three histories, returns four / two distinct new
   objects with the stateless contents. *)
Theorem C11_repaired_machine_on_the_witnesses :
  replies_gen Z Z Z Z (j_step T0) (init [1]) [CallDict 0%nat 1; CallDict 0%nat 2; CallModel 0%nat 0%nat; CallModel 0%nat 0%nat]
    = [RResult 0%nat; RResult 1%nat; RResult 2%nat; RResult 3%nat]
  /\ results (run_j (j_step T0) (init [1]) [CallDict 0%nat 1; CallDict 0%nat 2; CallModel 0%nat 0%nat; CallModel 0%nat 0%nat])
    = [(11, [(101, 201)]); (12, [(102, 202)]); (11, [(101, 201)]); (11, [(101, 201)])]
  /\ replies_gen Z Z Z Z (j_step T0) (init []) [PLoad 0%nat (SFile 0%nat 1); PTarget 0%nat; PLoad 0%nat (SFile 0%nat 2); PTarget 0%nat]
    = [RNone; RResult 0%nat; RNone; RResult 1%nat].
Proof. exact repaired_machine_on_the_witnesses. Qed.
Print Assumptions C11_repaired_machine_on_the_witnesses.

(* The judge used by the check (judge_history) accepts the observations the repaired machine would produce on the
   three witness histories and rejects those of each pre-repair machine, at the right call and flag. *)
Theorem C11_judge_on_the_witnesses :
  let hA := [CallDict 0%nat 1; CallDict 0%nat 2] in
  let hM := [CallModel 0%nat 0%nat; CallModel 0%nat 0%nat] in
  let hW := [PLoad 0%nat (SFile 0%nat 1); PTarget 0%nat; PLoad 0%nat (SFile 0%nat 2); PTarget 0%nat] in
  judge_history T0 [1] hA (simulate (j_step T0) (init [1]) hA) = [V_AGREE]
  /\ judge_history T0 [1] hM (simulate (j_step T0) (init [1]) hM) = [V_AGREE]
  /\ judge_history T0 [1] hW (simulate (j_step T0) (init [1]) hW) = [V_AGREE]
  /\ judge_history T0 [1] hA (simulate (j_step_D5 T0) (init [1]) hA) = [V_PROP_FALSE; 0; F_DEFAULTS]
  /\ judge_history T0 [1] hM (simulate (j_step_D6 T0) (init [1]) hM) = [V_PROP_FALSE; 0; F_INPUT]
  /\ judge_history T0 [1] hW (simulate (j_step_D11 T0) (init [1]) hW) = [V_PROP_FALSE; 3; F_RESULT].
Proof. exact judge_on_the_witnesses. Qed.
Print Assumptions C11_judge_on_the_witnesses.

(* The TargetInput instance of the wrapper theorem, name spelled out: after ANY history, load(model l); target()
   is `service 0 (content of l as the caller built it)`. *)
Theorem C11_wrapper_model_load_uses_default_name :
  forall (input tout gkey gset : Type) (gkey_eqb : gkey -> gkey -> bool) (core : nat -> input -> tout)
         (graphs : nat -> input -> list (gkey * gset)) (prep : nat -> input -> input) (raises : nat -> input -> bool)
         (st0 : list input) (h : list (call input)) (pid l : nat) (x : input),
    nth_error st0 l = Some x -> raises 0%nat x = false ->
    exists (s1 : state input tout gkey gset) (r : nat),
      step input tout gkey gset gkey_eqb core graphs prep raises
           (run input tout gkey gset gkey_eqb core graphs prep raises (init st0) (h ++ [PLoad pid (SModel l)])) (PTarget pid)
        = (s1, RResult r) /\
      nth_error (results s1) r = Some (service input tout gkey gset gkey_eqb core graphs 0%nat x).
Proof. exact wrapper_model_load_uses_default_name. Qed.
Print Assumptions C11_wrapper_model_load_uses_default_name.

(* D51, history [load file 'Project'(7) B; load model mA; target] when load(TargetInput) keeps the project name of the
   earlier file: mA is analysed under name 7, not under the default name 0 the specification expects. *)
Theorem C11_wrapper_refines_D51_prefix_refuted :
  let h := [PLoad 0%nat (SFile 7%nat 2); PLoad 0%nat (SModel 0%nat)] in
  exists s' r, j_step_D51 T0 (run_j (j_step_D51 T0) (init [1]) h) (PTarget 0%nat) = (s', RResult r)
    /\ expected [1] h (PTarget 0%nat) = Some (0%nat, 1)
    /\ nth_error (results s') r = Some (j_service T0 7%nat 1)
    /\ j_service T0 7%nat 1 <> j_service T0 0%nat 1.
Proof. exact wrapper_refines_D51_prefix_refuted. Qed.
Print Assumptions C11_wrapper_refines_D51_prefix_refuted.

(* ... the machine of the code as it is analyses mA under name 0 on the same history and holds name 0 afterwards. *)
Theorem C11_repaired_machine_on_the_D51_witness :
  let h := [PLoad 0%nat (SFile 7%nat 2); PLoad 0%nat (SModel 0%nat)] in
  exists s' r, j_step T0 (run_j (j_step T0) (init [1]) h) (PTarget 0%nat) = (s', RResult r)
    /\ nth_error (results s') r = Some (j_service T0 0%nat 1)
    /\ pp_name (pps s' 0%nat) = 0%nat.
Proof. exact repaired_machine_on_the_D51_witness. Qed.
Print Assumptions C11_repaired_machine_on_the_D51_witness.

(* ... and the judge accepts the repaired machine's observations and rejects the D51 machine's at the target call. *)
Theorem C11_judge_on_the_D51_witness :
  let h := [PLoad 0%nat (SFile 7%nat 2); PLoad 0%nat (SModel 0%nat); PTarget 0%nat] in
  judge_history T0 [1] h (simulate (j_step T0) (init [1]) h) = [V_AGREE]
  /\ judge_history T0 [1] h (simulate (j_step_D51 T0) (init [1]) h) = [V_PROP_FALSE; 2; F_RESULT].
Proof. exact judge_on_the_D51_witness. Qed.
Print Assumptions C11_judge_on_the_D51_witness.
