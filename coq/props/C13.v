(* C13 -- Graph payloads reproduce the curves of the problem tables.
   Only statements; every proof is `exact <lemma>` from proofs/Curves.v (and proofs/RDP.v for list facts).
   A table column enters as rows (x, y) = (enthalpy, temperature); `graph_curve tolv vtol dp gcc util loc pref (Col rows)`
   is the model of _graph_cc (gcc = false) / _build_gcc_segments (gcc = true) including _create_curve's rounding.
   The theorems are stated for arbitrary tolerance, vertical tolerance and decimal places; the check instantiates them
   at the constants generated from /repo (tol, gcc_vertical_tol, graph_DECIMAL_PLACES). *)
From OP Require Import gen.Consts gen.CurvesConsts model.Base model.RDP model.Curves proofs.RDP proofs.Curves.
Local Open Scope Q_scope.

(* points_subseq (composite curves): the emitted curve is the rounding of table rows taken in table order *)
Theorem C13_points_subseq_cc : forall tolv vtol dp util loc pref rows segs,
  graph_curve tolv vtol dp false util loc pref (Col rows) = Ok segs ->
  exists kept, subseq kept rows /\ segs = [(loc, false, map (round_pt dp) kept)].
Proof. exact cc_points_subseq. Qed.
Print Assumptions C13_points_subseq_cc.

(* points_subseq (grand composite series): the emitted segments, glued at their shared end points, are the rounding of
   table rows taken in table order *)
Theorem C13_points_subseq_gcc : forall tolv vtol dp util loc pref rows segs,
  graph_curve tolv vtol dp true util loc pref (Col rows) = Ok segs ->
  exists kept, subseq kept rows /\ glue (map (fun s : seg => snd s) segs) = map (round_pt dp) kept.
Proof. exact gcc_points_subseq. Qed.
Print Assumptions C13_points_subseq_gcc.

(* rounding error bound: a displayed coordinate is within half a unit of the last decimal place of the table value *)
Theorem C13_round_error : forall dp v, Qabs (round_dp dp v - v) <= (1 # 2) / pow10 dp.
Proof. exact round_dp_error. Qed.
Print Assumptions C13_round_error.

(* ... which, for the decimal places written in graph_data.py, is the display rounding 0.01 of the property
   (this instantiation breaks when DECIMAL_PLACES is lowered) *)
Theorem C13_display_rounding : forall v, Qabs (round_dp graph_DECIMAL_PLACES v - v) <= 1 # 200.
Proof. exact display_rounding. Qed.
Print Assumptions C13_display_rounding.

(* extent_kept / ends_kept, part 1: end trimming removes only rows whose enthalpy is np.isclose to the first / last one *)
Theorem C13_extent_trims_flat : forall tolv c t, clean_ends tolv c = Ok t -> t <> [] ->
  exists pre post, c = pre ++ t ++ post
    /\ Forall (fun p => isclose_np tolv (fst p) (fst (hd (0, 0) c)) = true) pre
    /\ Forall (fun p => isclose_np tolv (fst p) (fst (last c (0, 0))) = true) post.
Proof. exact clean_ends_trims_flat. Qed.
Print Assumptions C13_extent_trims_flat.

(* extent_kept / ends_kept, part 2: the first and last non-flat rows are emitted (no pop fires when the first / last two
   kept enthalpies differ by at least tol - see C17_pop_first_robust / C17_pop_last_robust) *)
Theorem C13_ends_kept : forall tolv c t out d, clean_ends tolv c = Ok t -> clean_curve tolv c = Ok out -> t <> [] ->
  pop_first tolv (clean_core tolv t) = clean_core tolv t ->
  pop_last tolv (clean_core tolv t) = clean_core tolv t ->
  hd d out = hd d t /\ last out d = last t d.
Proof. exact clean_ends_kept. Qed.
Print Assumptions C13_ends_kept.

(* exact_collinear_recovers (shared with C17): rows = (temperature, enthalpy) with strictly descending temperatures; if every
   table row lies exactly on the polyline through the emitted rows, linear interpolation through the emitted rows recovers
   the column at EVERY temperature *)
Theorem C13_exact_collinear_recovers : forall rows kept,
  strictly_desc rows -> subseq kept rows -> kept <> [] ->
  hd (0, 0) kept = hd (0, 0) rows -> last kept (0, 0) = last rows (0, 0) ->
  (forall r, In r rows -> snd r == plr kept (fst r)) ->
  forall y, plr kept y == plr rows y.
Proof. exact exact_collinear_recovers. Qed.
Print Assumptions C13_exact_collinear_recovers.
(* pipeline_rows_exact (formerly OPEN here): PROVED on the exact tables of the insertion model -- see
   C13_inserted_rows_collinear, C13_pipeline_rows_exact and C13_pipeline_clean_exact at the end of this file
   (proofs/ComposeInsertCurves.v): rows added by any history of insert_temperature_interval calls are exactly collinear with
   the original rows, so the hypothesis above needs checking on the ORIGINAL rows only, and the two end-point hypotheses
   are not needed at all (C13_exact_collinear_recovers_any_ends).
   OPEN (remainder): the stored graph tables are rounded to 4 decimals, after which inserted rows are collinear only to
   1e-4; a rounded-table version of the statement is not proved.  The recovery clause on real (rounded) tables is therefore
   still carried by the correspondence + P13_code (code 4) on every end-to-end curve. *)

(* classification_sign: d = H(row j) - H(row j+1) is the enthalpy change across one interval, upper row minus lower row.
   The segment is hot (cold utility for a utility profile) iff d < -vtol (the net enthalpy grows going down the table),
   cold (hot utility) iff d > vtol, and vertical ("Unassigned") iff |d| <= vtol *)
Theorem C13_classification_sign : forall vtol d util, 0 <= vtol ->
  (classify vtol d util = (if util then ColdU else HotS) <-> d < - vtol)
  /\ (classify vtol d util = (if util then HotU else ColdS) <-> vtol < d)
  /\ (classify vtol d util = Unassigned <-> Qabs d <= vtol).
Proof. exact classification_sign. Qed.
Print Assumptions C13_classification_sign.

(* every enthalpy change inside an emitted slice has the slice's classification *)
Theorem C13_segments_classified : forall vtol util p l,
  Forall (fun s : sloc * list pt => diffs_class vtol util (fst s) (snd s)) (group_segs vtol util None p l).
Proof. exact segments_classified. Qed.
Print Assumptions C13_segments_classified.

(* segments_partition: the slices are contiguous, share their end points and cover all points start..end *)
Theorem C13_segments_partition : forall vtol util p q r,
  glue (seg_pts (group_segs vtol util None p (q :: r))) = p :: q :: r.
Proof. exact segments_partition. Qed.
Print Assumptions C13_segments_partition.

(* non-vacuity: a grand composite column with a pocket, a vertical piece and flat ends; three segments are emitted *)
Example C13_gcc_example :
  graph_curve tol gcc_vertical_tol graph_DECIMAL_PLACES true false Unassigned None
    (Col [(30, 200); (30, 195); (50, 185); (50, 145); (20, 1253 # 10); (0, 55); (0, 20)])
  = Ok [(HotS, false, [(30, 195); (50, 185)]); (Unassigned, true, [(50, 185); (50, 145)]); (ColdS, false, [(50, 145); (20, 1253 # 10); (0, 55)])].
Proof. vm_compute. reflexivity. Qed.

(* REFUTED (D16, shared with C17): near-collinear rows removed together can drift from the emitted chord *)
Theorem C13_collinearity_drift_refuted :
  exists (c out : list pt) (a b p : pt) (d : Q),
    monotone2_b c = true /\ res_pts_eqb (clean_curve tol c) (Ok out) = true /\ consecutive a b out
    /\ existsb (pt_eqb p) c = true /\ chord_excess a b p = Some d /\ 1000 * tol < Qabs d.
Proof. exact clean_1e6_bound_refuted. Qed.
Print Assumptions C13_collinearity_drift_refuted.

(* REFUTED: extent_kept in the absolute sense - numpy's relative band drops a first row whose enthalpy is 0.5 away *)
Theorem C13_extent_relative_band_refuted :
  exists (c t : list pt) (p0 p1 : pt),
    clean_ends tol c = Ok t /\ c = p0 :: t /\ hd p0 t = p1 /\ 100000 * tol < Qabs (fst p0 - fst p1).
Proof. exact clean_trim_relative_refuted. Qed.
Print Assumptions C13_extent_relative_band_refuted.

(* REFUTED (same relative band, severe form): a curve whose abscissas all lie within 1e-5*|x0| of the first one, but spread
   by 0.25 (> 100000 tol), makes clean_composite_curve RAISE (IndexError) - end to end the whole service call fails *)
Theorem C13_relative_band_raises_refuted :
  exists (c : list pt), clean_curve tol c = Err EIndex /\ 100000 * tol < spread (map fst c).
Proof. exact clean_relative_band_raises_refuted. Qed.
Print Assumptions C13_relative_band_raises_refuted.

(* ------------------------------------------------------------------ tables that went through insertions (pipeline_rows_exact)
   Composition with the C08 model of ProblemTable.insert_temperature_interval (model/Insert.v): `run t0 reqss` = the table
   after a history of calls; `pts j t` = the j-th interpolated column of table t as points (temperature, value);
   `WF tol t0` = not empty, rows more than tol apart; `populated j t0` = no NaN in column j.
   (The import is placed here because model/Insert.v re-uses names of the statements above.) *)
From OP Require Import model.Insert proofs.Insert proofs.InsertCurve proofs.InsertSeq proofs.InsertPL proofs.ComposeInsertCurves.

(* exact_collinear_recovers without the end-point hypotheses: rows cut off at either end are covered by the constant
   continuation of the polyline through the kept rows *)
Theorem C13_exact_collinear_recovers_any_ends : forall rows kept,
  strictly_desc rows -> subseq kept rows -> kept <> [] ->
  (forall r, In r rows -> snd r == plr kept (fst r)) ->
  forall y, plr kept y == plr rows y.
Proof. exact exact_collinear_recovers_any_ends. Qed.
Print Assumptions C13_exact_collinear_recovers_any_ends.

(* every row of the table after ANY history of insertions -- original or inserted; inside, above or below the original
   range -- lies exactly on the polyline through the ORIGINAL rows, in every populated interpolated column *)
Theorem C13_inserted_rows_collinear : forall j t0, WF tol t0 -> populated j t0 ->
  forall reqss r, In r (fst (run t0 reqss)) ->
  exists q, hcell j r = Some q /\ q == plr (pts j t0) (rT r).
Proof. exact (inserted_rows_collinear tol tol_nonneg). Qed.
Print Assumptions C13_inserted_rows_collinear.

(* pipeline_rows_exact: kept = ANY in-order selection of the rows after the history (what a cleaning step emits).  If the
   ORIGINAL rows lie on the polyline through kept, then: the column is strictly descending in temperature; EVERY row,
   inserted ones included, lies on that polyline (the hypothesis of C13_exact_collinear_recovers); the polyline through
   kept is the column at every temperature; and the column is still the original column at every temperature. *)
Theorem C13_pipeline_rows_exact : forall j t0, WF tol t0 -> populated j t0 ->
  forall reqss kept, subseq kept (pts j (fst (run t0 reqss))) -> kept <> [] ->
  (forall r, In r (pts j t0) -> snd r == plr kept (fst r)) ->
  strictly_desc (pts j (fst (run t0 reqss)))
  /\ (forall r, In r (pts j (fst (run t0 reqss))) -> snd r == plr kept (fst r))
  /\ (forall y, plr kept y == plr (pts j (fst (run t0 reqss))) y)
  /\ (forall y, plr (pts j (fst (run t0 reqss))) y == plr (pts j t0) y).
Proof. exact (pipeline_rows_exact tol tol_nonneg). Qed.
Print Assumptions C13_pipeline_rows_exact.

(* ... with kept = the points clean_composite_curve (any tolerance ctol) emits for that column, given to it as (value,
   temperature) points like the graph code does (swap): if the emitted polyline passes through the original rows it passes
   through every row and is the column at every temperature *)
Theorem C13_pipeline_clean_exact : forall j t0, WF tol t0 -> populated j t0 ->
  forall reqss ctol out, clean_curve ctol (map swap (pts j (fst (run t0 reqss)))) = Ok out -> out <> [] ->
  (forall r, In r (pts j t0) -> snd r == plr (map swap out) (fst r)) ->
  (forall r, In r (pts j (fst (run t0 reqss))) -> snd r == plr (map swap out) (fst r))
  /\ (forall y, plr (map swap out) y == plr (pts j (fst (run t0 reqss))) y).
Proof. exact (pipeline_clean_exact tol tol_nonneg). Qed.
Print Assumptions C13_pipeline_clean_exact.

(* non-vacuity: the four-row table of C08 after a call that adds a row inside, one above and two below; cleaning the
   eight-row column gives back exactly the four original rows *)
Theorem C13_pipeline_example :
  clean_curve tol (map swap (pts 0 (fst (run ex_t [[50; 120; -10; -30]])))) = Ok (map swap (pts 0 ex_t)).
Proof. exact ex_pipeline_clean. Qed.
Print Assumptions C13_pipeline_example.
