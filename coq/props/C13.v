(* C13 -- Graph payloads reproduce the curves of the problem tables.
   Only statements; every proof is `exact <lemma>` from proofs/Curves.v (and proofs/RDP.v for list facts).
   A table column enters as rows (x, y) = (enthalpy, temperature); `graph_curve tolv vtol dp gcc util loc pref (Col rows)`
   is the model of _graph_cc (gcc = false) / _build_gcc_segments (gcc = true) including _create_curve's rounding.
   The theorems are stated for arbitrary tolerance, vertical tolerance and decimal places; the check instantiates them
   at the constants generated from /repo (tol, gcc_vertical_tol, graph_DECIMAL_PLACES). *)
From OP Require Import gen.Consts gen.CurvesConsts model.Base model.RDP model.Curves proofs.RDP proofs.Curves.
Local Open Scope Q_scope.

(* points_subseq (composite curves): the emitted curve is the rounding of table rows taken in table order *)
Theorem C13_points_subseq_cc : forall tolv vtol dp util loc pref rows segs,
  graph_curve tolv vtol dp false util loc pref (Col rows) = Ok segs ->
  exists kept, subseq kept rows /\ segs = [(loc, false, map (round_pt dp) kept)].
Proof. exact cc_points_subseq. Qed.
Print Assumptions C13_points_subseq_cc.

(* points_subseq (grand composite series): the emitted segments, glued at their shared end points, are the rounding of
   table rows taken in table order *)
Theorem C13_points_subseq_gcc : forall tolv vtol dp util loc pref rows segs,
  graph_curve tolv vtol dp true util loc pref (Col rows) = Ok segs ->
  exists kept, subseq kept rows /\ glue (map (fun s : seg => snd s) segs) = map (round_pt dp) kept.
Proof. exact gcc_points_subseq. Qed.
Print Assumptions C13_points_subseq_gcc.

(* rounding error bound: a displayed coordinate is within half a unit of the last decimal place of the table value *)
Theorem C13_round_error : forall dp v, Qabs (round_dp dp v - v) <= (1 # 2) / pow10 dp.
Proof. exact round_dp_error. Qed.
Print Assumptions C13_round_error.

(* ... which, for the decimal places written in graph_data.py, is the display rounding 0.01 of the property
   (this instantiation breaks when DECIMAL_PLACES is lowered) *)
Theorem C13_display_rounding : forall v, Qabs (round_dp graph_DECIMAL_PLACES v - v) <= 1 # 200.
Proof. exact display_rounding. Qed.
Print Assumptions C13_display_rounding.

(* extent_kept / ends_kept, part 1: end trimming removes only rows whose enthalpy is np.isclose to the first / last one *)
Theorem C13_extent_trims_flat : forall tolv c t, clean_ends tolv c = Ok t -> t <> [] ->
  exists pre post, c = pre ++ t ++ post
    /\ Forall (fun p => isclose_np tolv (fst p) (fst (hd (0, 0) c)) = true) pre
    /\ Forall (fun p => isclose_np tolv (fst p) (fst (last c (0, 0))) = true) post.
Proof. exact clean_ends_trims_flat. Qed.
Print Assumptions C13_extent_trims_flat.

(* extent_kept / ends_kept, part 2: the first and last non-flat rows are emitted (no pop fires when the first / last two
   kept enthalpies differ by at least tol - see C17_pop_first_robust / C17_pop_last_robust) *)
Theorem C13_ends_kept : forall tolv c t out d, clean_ends tolv c = Ok t -> clean_curve tolv c = Ok out -> t <> [] ->
  pop_first tolv (clean_core tolv t) = clean_core tolv t ->
  pop_last tolv (clean_core tolv t) = clean_core tolv t ->
  hd d out = hd d t /\ last out d = last t d.
Proof. exact clean_ends_kept. Qed.
Print Assumptions C13_ends_kept.

(* exact_collinear_recovers (shared with C17): rows = (temperature, enthalpy) with strictly descending temperatures; if every
   table row lies exactly on the polyline through the emitted rows, linear interpolation through the emitted rows recovers
   the column at EVERY temperature *)
Theorem C13_exact_collinear_recovers : forall rows kept,
  strictly_desc rows -> subseq kept rows -> kept <> [] ->
  hd (0, 0) kept = hd (0, 0) rows -> last kept (0, 0) = last rows (0, 0) ->
  (forall r, In r rows -> snd r == plr kept (fst r)) ->
  forall y, plr kept y == plr rows y.
Proof. exact exact_collinear_recovers. Qed.
Print Assumptions C13_exact_collinear_recovers.
(* OPEN: pipeline_rows_exact (rows inserted by the problem-table insertions are exactly collinear, so that the hypothesis
   above holds for every table the pipeline produces) belongs to the C08 insertion model and is not proved here; moreover
   the stored graph tables are rounded to 4 decimals, after which inserted rows are only collinear to 1e-4.  The recovery
   clause on real tables is therefore carried by the correspondence + P13_code (code 4) on every end-to-end curve. *)

(* classification_sign: d = H(row j) - H(row j+1) is the enthalpy change across one interval, upper row minus lower row.
   The segment is hot (cold utility for a utility profile) iff d < -vtol (the net enthalpy grows going down the table),
   cold (hot utility) iff d > vtol, and vertical ("Unassigned") iff |d| <= vtol *)
Theorem C13_classification_sign : forall vtol d util, 0 <= vtol ->
  (classify vtol d util = (if util then ColdU else HotS) <-> d < - vtol)
  /\ (classify vtol d util = (if util then HotU else ColdS) <-> vtol < d)
  /\ (classify vtol d util = Unassigned <-> Qabs d <= vtol).
Proof. exact classification_sign. Qed.
Print Assumptions C13_classification_sign.

(* every enthalpy change inside an emitted slice has the slice's classification *)
Theorem C13_segments_classified : forall vtol util p l,
  Forall (fun s : sloc * list pt => diffs_class vtol util (fst s) (snd s)) (group_segs vtol util None p l).
Proof. exact segments_classified. Qed.
Print Assumptions C13_segments_classified.

(* segments_partition: the slices are contiguous, share their end points and cover all points start..end *)
Theorem C13_segments_partition : forall vtol util p q r,
  glue (seg_pts (group_segs vtol util None p (q :: r))) = p :: q :: r.
Proof. exact segments_partition. Qed.
Print Assumptions C13_segments_partition.

(* non-vacuity: a grand composite column with a pocket, a vertical piece and flat ends; three segments are emitted *)
Example C13_gcc_example :
  graph_curve tol gcc_vertical_tol graph_DECIMAL_PLACES true false Unassigned None
    (Col [(30, 200); (30, 195); (50, 185); (50, 145); (20, 1253 # 10); (0, 55); (0, 20)])
  = Ok [(HotS, false, [(30, 195); (50, 185)]); (Unassigned, true, [(50, 185); (50, 145)]); (ColdS, false, [(50, 145); (20, 1253 # 10); (0, 55)])].
Proof. vm_compute. reflexivity. Qed.

(* REFUTED (D16, shared with C17): near-collinear rows removed together can drift from the emitted chord *)
Theorem C13_collinearity_drift_refuted :
  exists (c out : list pt) (a b p : pt) (d : Q),
    monotone2_b c = true /\ res_pts_eqb (clean_curve tol c) (Ok out) = true /\ consecutive a b out
    /\ existsb (pt_eqb p) c = true /\ chord_excess a b p = Some d /\ 1000 * tol < Qabs d.
Proof. exact clean_1e6_bound_refuted. Qed.
Print Assumptions C13_collinearity_drift_refuted.

(* REFUTED: extent_kept in the absolute sense - numpy's relative band drops a first row whose enthalpy is 0.5 away *)
Theorem C13_extent_relative_band_refuted :
  exists (c t : list pt) (p0 p1 : pt),
    clean_ends tol c = Ok t /\ c = p0 :: t /\ hd p0 t = p1 /\ 100000 * tol < Qabs (fst p0 - fst p1).
Proof. exact clean_trim_relative_refuted. Qed.
Print Assumptions C13_extent_relative_band_refuted.

(* REFUTED (same relative band, severe form): a curve whose abscissas all lie within 1e-5*|x0| of the first one, but spread
   by 0.25 (> 100000 tol), makes clean_composite_curve RAISE (IndexError) - end to end the whole service call fails *)
Theorem C13_relative_band_raises_refuted :
  exists (c : list pt), clean_curve tol c = Err EIndex /\ 100000 * tol < spread (map fst c).
Proof. exact clean_relative_band_raises_refuted. Qed.
Print Assumptions C13_relative_band_raises_refuted.
