(* C02 -- Every reported target closes the first-law energy balance (statements only). *)
From OP Require Import gen.Consts model.Base model.Cascade model.Site proofs.CascadeSpec proofs.CascadeExact proofs.CascadeTargets proofs.CascadeGrid proofs.SiteFacts.
Local Open Scope Q_scope.

(* direct-integration record of any zone: Qh - Qc = cold duty - hot duty, Qr = hot duty - Qc, all >= 0 *)
Theorem C02_direct_integration_balanced :
  forall hot cold extra, wfs hot -> wfs cold -> hot ++ cold <> [] ->
  on_lattice (endpoints (hot ++ cold ++ extra)) ->
  gaps_b act_window (grid_of (endpoints (hot ++ cold ++ extra))) = true ->
  let p := stage_model act_window hot cold extra in
  balanced hot cold (Qh_of p) (Qc_of p) (Qr_of p) /\ 0 <= Qh_of p /\ 0 <= Qc_of p /\ 0 <= Qr_of p.
Proof. exact di_balanced. Qed.
Print Assumptions C02_direct_integration_balanced.

(* total-process record: the sum of balanced zonal records is balanced for the union of the zones' streams, for ANY
   number of zones and any stream sets *)
Theorem C02_total_process_balanced :
  forall zs, Forall (fun z => balanced (z_hot z) (z_cold z) (z_qh z) (z_qc z) (z_qr z)) zs ->
  balanced (all_hot zs) (all_cold zs) (sumf z_qh zs) (sumf z_qc zs) (sumf z_qr zs).
Proof. exact sum_of_balanced_is_balanced. Qed.
Print Assumptions C02_total_process_balanced.

(* total-site record: the two ends of the site utility cascade (max(h) - h on the cascade of the summed utilities) differ
   by the net utility duty -- for ANY utility duties and levels -- and are >= 0 *)
Theorem C02_site_cascade_ends :
  forall w hu cu g, 0 < w -> wfs hu -> wfs cu -> desc g -> g <> [] -> covers g (eps_all hu cu) -> gaps_ok w 0 g ->
  site_Qh w hu cu g - site_Qc w hu cu g == duty hu - duty cu /\ 0 <= site_Qh w hu cu g /\ 0 <= site_Qc w hu cu g.
Proof. intros. split; [apply site_cascade_ends|apply site_targets_nonneg]; assumption. Qed.
Print Assumptions C02_site_cascade_ends.

(* hence the total-site record is balanced whenever every zone's listed utilities sum to its targets (C03's conclusion).
   The premises `dhu == sqh`, `dcu == sqc` are discharged -- to within the zonal closing errors, which is all that is true --
   from data hypotheses by C02_total_site_balanced_from_data at the end of this file. *)
Theorem C02_total_site_balanced :
  forall hot cold sqh sqc sqr qh_ts qc_ts dhu dcu,
  balanced hot cold sqh sqc sqr -> dhu == sqh -> dcu == sqc -> qh_ts - qc_ts == dhu - dcu ->
  balanced hot cold qh_ts qc_ts (site_Qr sqr sqh qh_ts).
Proof. exact site_record_balanced. Qed.
Print Assumptions C02_total_site_balanced.

(* ---------------------------------------------------------------------------------------------------------------------- *)
(* TOTAL-SITE BALANCE FROM DATA HYPOTHESES ONLY (proofs/ComposeSiteFeasible.v).  C03's conclusion is no longer a premise:    *)
(* for the duties the model of get_utility_targets assigns on the output table of the model of get_GCC_without_pockets,      *)
(* both zonal sums close to within 2 tol of the zone's targets (C07 + C04 demand columns + C03), so                           *)
(*   - the total-process record (sums of the zonal targets, zonal recovery) is EXACTLY balanced for the site's streams,      *)
(*   - the total-site record is balanced up to 2 n tol (n zones), and its targets are non-negative.                          *)
(* zone_data: the data hypotheses on a zone, spelled out in C09_zone_data_means (props/C09.v): exact residual column, Robust  *)
(* GCC with a pinch, utilities gridded on the output table, one extreme hot and one extreme cold utility, end points are rows. *)
(* still assumed: those data hypotheses; the slack cannot be dropped without them (C02_exact_sum_refuted).                   *)
(* ---------------------------------------------------------------------------------------------------------------------- *)
From OP Require Import model.Stream model.Pockets model.Utility proofs.UtilityRows proofs.ComposeSiteBound proofs.ComposeSiteFeasible.

Theorem C02_total_site_balanced_from_data :
  forall w hus cus (zs : list zgcc) g,
  let hu := site_hu hus cus zs in let cu := site_cu hus cus zs in
  let hotS := flat_map zg_hot zs in let coldS := flat_map zg_cold zs in
  let qh_ts := site_Qh w hu cu g in let qc_ts := site_Qc w hu cu g in
  let qr_ts := site_Qr (zgsum zg_qr zs) (zgsum zg_qh zs) qh_ts in
  0 < w -> (forall u, In u hus -> u_tmins u < u_tmaxs u) -> (forall u, In u cus -> u_tmins u < u_tmaxs u) ->
  desc g -> g <> [] -> covers g (eps_all hu cu) -> gaps_ok w 0 g ->
  Forall (zone_data hus cus) zs ->
  balanced hotS coldS (zgsum zg_qh zs) (zgsum zg_qc zs) (zgsum zg_qr zs)
  /\ Qabs ((qh_ts - qc_ts) - (duty coldS - duty hotS)) <= nq (List.length zs) * (2 * tol)
  /\ Qabs (qr_ts - (duty hotS - qc_ts)) <= nq (List.length zs) * (2 * tol)
  /\ 0 <= qh_ts /\ 0 <= qc_ts.
Proof. exact site_record_balanced_from_gccs. Qed.
Print Assumptions C02_total_site_balanced_from_data.

(* per zone: what the data give -- both listed-utility sums within 2 tol of the zone's targets, and the zone's own record
   (Qh = H_net[0], Qc = H_net[last], Qr = hot duty - Qc) exactly balanced *)
Theorem C02_zone_sums_and_balance_from_data :
  forall hus cus z, zone_data hus cus z ->
  (zg_qh z - 2 * tol <= qsum (zg_dh hus cus z) /\ qsum (zg_dh hus cus z) <= zg_qh z
   /\ Forall (fun q => 0 <= q) (zg_dh hus cus z) /\ List.length hus = List.length (zg_dh hus cus z))
  /\ (zg_qc z - 2 * tol <= qsum (zg_dc hus cus z) /\ qsum (zg_dc hus cus z) <= zg_qc z
      /\ Forall (fun q => 0 <= q) (zg_dc hus cus z) /\ List.length cus = List.length (zg_dc hus cus z))
  /\ balanced (zg_hot z) (zg_cold z) (zg_qh z) (zg_qc z) (zg_qr z).
Proof. exact zone_data_facts. Qed.
Print Assumptions C02_zone_sums_and_balance_from_data.

(* the exact premise of C02_total_site_balanced is FALSE of the model without such data hypotheses: rows 300.1 / 300 / 100,
   pocket-free column [tol/2; tol/2; 0], one gridded hot utility 300..300.1: the heating demand tol/2 is below the entry test
   of _target_utility, nothing is assigned, the listed hot utilities sum to 0 <> tol/2 = the zone's target *)
Theorem C02_exact_sum_refuted :
  let T := [3001 # 10; 300; 100] in let HA := [half_tol; half_tol; 0] in
  di_duties tol T HA (sep_hot HA) (sep_cold HA) [mkUS 300 (3001 # 10) (1 # 10)] [] = ([0], [])
  /\ ~ qsum [0] == List.hd 0 HA
  /\ gridded_hot tol T (mkUS 300 (3001 # 10) (1 # 10)).
Proof. exact exact_sum_refuted. Qed.
Print Assumptions C02_exact_sum_refuted.

(* non-vacuity: the two-zone site of C09_two_zones_with_recovery (hot stream 200->160 in zone 1, cold stream 100->130 in zone 2,
   utilities 300 / 140 hot, 150 / 10 cold): total-process record (30, 40, 0), total-site record (0, 10, 30), stream duties
   cold 30, hot 40: both records close the balance 30 - 40 exactly *)
Theorem C02_two_zones_balanced :
  let zs := [rz_z1; rz_z2] in
  let hu := site_hu rz_hus rz_cus zs in let cu := site_cu rz_hus rz_cus zs in
  let qh_ts := site_Qh act_window hu cu rz_g in let qc_ts := site_Qc act_window hu cu rz_g in
  (zgsum zg_qh zs, zgsum zg_qc zs, zgsum zg_qr zs) = (30, 40, 0)
  /\ (qh_ts, qc_ts, site_Qr (zgsum zg_qr zs) (zgsum zg_qh zs) qh_ts) = (0, 10, 30)
  /\ (duty ([] ++ rz_c2), duty (rz_h1 ++ [])) = (30, 40)
  /\ Qabs ((qh_ts - qc_ts) - (duty ([] ++ rz_c2) - duty (rz_h1 ++ []))) <= nq 2 * (2 * tol).
Proof. exact two_zones_balanced. Qed.
Print Assumptions C02_two_zones_balanced.
