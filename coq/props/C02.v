(* C02 -- Every reported target closes the first-law energy balance (statements only). *)
From OP Require Import gen.Consts model.Base model.Cascade model.Site proofs.CascadeSpec proofs.CascadeExact proofs.CascadeTargets proofs.CascadeGrid proofs.SiteFacts.
Local Open Scope Q_scope.

(* direct-integration record of any zone: Qh - Qc = cold duty - hot duty, Qr = hot duty - Qc, all >= 0 *)
Theorem C02_direct_integration_balanced :
  forall hot cold extra, wfs hot -> wfs cold -> hot ++ cold <> [] ->
  on_lattice (endpoints (hot ++ cold ++ extra)) ->
  gaps_b act_window (grid_of (endpoints (hot ++ cold ++ extra))) = true ->
  let p := stage_model act_window hot cold extra in
  balanced hot cold (Qh_of p) (Qc_of p) (Qr_of p) /\ 0 <= Qh_of p /\ 0 <= Qc_of p /\ 0 <= Qr_of p.
Proof. exact di_balanced. Qed.
Print Assumptions C02_direct_integration_balanced.

(* total-process record: the sum of balanced zonal records is balanced for the union of the zones' streams, for ANY
   number of zones and any stream sets *)
Theorem C02_total_process_balanced :
  forall zs, Forall (fun z => balanced (z_hot z) (z_cold z) (z_qh z) (z_qc z) (z_qr z)) zs ->
  balanced (all_hot zs) (all_cold zs) (sumf z_qh zs) (sumf z_qc zs) (sumf z_qr zs).
Proof. exact sum_of_balanced_is_balanced. Qed.
Print Assumptions C02_total_process_balanced.

(* total-site record: the two ends of the site utility cascade (max(h) - h on the cascade of the summed utilities) differ
   by the net utility duty -- for ANY utility duties and levels -- and are >= 0 *)
Theorem C02_site_cascade_ends :
  forall w hu cu g, 0 < w -> wfs hu -> wfs cu -> desc g -> g <> [] -> covers g (eps_all hu cu) -> gaps_ok w 0 g ->
  site_Qh w hu cu g - site_Qc w hu cu g == duty hu - duty cu /\ 0 <= site_Qh w hu cu g /\ 0 <= site_Qc w hu cu g.
Proof. intros. split; [apply site_cascade_ends|apply site_targets_nonneg]; assumption. Qed.
Print Assumptions C02_site_cascade_ends.

(* hence the total-site record is balanced whenever every zone's listed utilities sum to its targets (C03's conclusion) *)
Theorem C02_total_site_balanced :
  forall hot cold sqh sqc sqr qh_ts qc_ts dhu dcu,
  balanced hot cold sqh sqc sqr -> dhu == sqh -> dcu == sqc -> qh_ts - qc_ts == dhu - dcu ->
  balanced hot cold qh_ts qc_ts (site_Qr sqr sqh qh_ts).
Proof. exact site_record_balanced. Qed.
Print Assumptions C02_total_site_balanced.
