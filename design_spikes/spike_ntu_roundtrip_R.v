From Coq Require Import Reals Lra.
From Interval Require Import Tactic.
Open Scope R_scope.
(* as the translator would emit them from heat_exchanger.py (counter-flow branch, c <> 1) *)
Definition eff_cf (N c : R) : R := (1 - exp (- N * (1 - c))) / (1 - c * exp (- N * (1 - c))).
Definition ntu_cf (e c : R) : R := 1 / (1 - c) * ln ((1 - e * c) / (1 - e)).
(* numeric tie of the translation to the running implementation: HX_Eff("Counter Flow", 2, 0.5) = 0.7746003264394359 *)
Goal Rabs (eff_cf 2 (1/2) - 0.7746003264394359) <= 1/1000000000.
Proof. unfold eff_cf. interval with (i_prec 60). Qed.
Lemma roundtrip_cf N c : 0 < N -> 0 <= c < 1 -> ntu_cf (eff_cf N c) c = N.
Proof.
  intros HN Hc. unfold ntu_cf, eff_cf.
  assert (Hp : 0 < N * (1 - c)) by (apply Rmult_lt_0_compat; lra).
  replace (- N * (1 - c)) with (- (N * (1 - c))) by ring.
  set (x := N * (1 - c)) in *. set (e := exp (- x)).
  assert (He : 0 < e) by apply exp_pos.
  assert (He1 : e < 1). { unfold e. rewrite <- exp_0. apply exp_increasing. lra. }
  assert (Hce : c * e < 1). { assert (c * e <= 1 * e) by (apply Rmult_le_compat_r; lra). lra. }
  replace ((1 - (1 - e) / (1 - c * e) * c) / (1 - (1 - e) / (1 - c * e))) with (/ e).
  assert (Hec : 0 < e * (1 - c)) by (apply Rmult_lt_0_compat; lra).
  2:{ field. repeat split; try lra; nra. }
  rewrite ln_Rinv by exact He. unfold e. rewrite ln_exp. unfold x. field. lra.
Qed.
Print Assumptions roundtrip_cf.
