From Coq Require Import Reals Lra.
From Interval Require Import Tactic.
Open Scope R_scope.
Definition eff_cf (N c : R) : R := (1 - exp (- N * (1 - c))) / (1 - c * exp (- N * (1 - c))).
Definition ntu_cf (e c : R) : R := 1 / (1 - c) * ln ((1 - e * c) / (1 - e)).
Goal Rabs (eff_cf 2 (1/2) - 0.7746) <= 1/1000.
Proof. unfold eff_cf. interval. Qed.
Lemma roundtrip_cf N c : 0 < N -> 0 <= c < 1 -> ntu_cf (eff_cf N c) c = N.
Proof.
  intros HN Hc. unfold ntu_cf, eff_cf.
  set (e := exp (- N * (1 - c))).
  assert (He : 0 < e) by apply exp_pos.
  assert (He1 : e < 1). { unfold e. rewrite <- exp_0. apply exp_increasing. assert (0 < N * (1 - c)) by (apply Rmult_lt_0_compat; lra). lra. }
  assert (Hd : 1 - c * e > 0) by nra.
  replace ((1 - (1 - e) / (1 - c * e) * c) / (1 - (1 - e) / (1 - c * e))) with (/ e).
  2:{ field. repeat split; nra. }
  rewrite ln_Rinv by exact He. unfold e. rewrite ln_exp. field. nra.
Qed.
Print Assumptions roundtrip_cf.
