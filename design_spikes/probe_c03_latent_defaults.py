import sys, json, random, copy
sys.path.insert(0, sys.argv[3] if len(sys.argv)>3 else '/tmp/probe/repo2')
from OpenPinch import pinch_analysis_service
def S(zone,name,ts,tt,q,dt=5.0,htc=1.0):
    return dict(zone=zone,name=name,t_supply=float(ts),t_target=float(tt),heat_flow=float(q),dt_cont=float(dt),htc=htc)
random.seed(int(sys.argv[1])); N=int(sys.argv[2]); bad={}
for it in range(N):
    streams=[]
    for i in range(random.randint(1,5)):
        if random.random()<0.4:
            a=random.choice(range(20,300,10)); hot=random.random()<0.5
            streams.append(S("Z",f"L{i}",a+0.01 if hot else a,a if hot else a,random.choice([10.,40.]),random.choice([0,5])) if not hot else S("Z",f"L{i}",a+0.01,a,random.choice([10.,40.]),random.choice([0,5])))
        else:
            a,b=random.sample(range(20,300,10),2); cp=random.choice([1,2,3])/2
            streams.append(S("Z",f"S{i}",a,b,cp*abs(a-b),random.choice([0,5,10])))
    inp=dict(streams=streams,utilities=[])
    try: out=pinch_analysis_service(copy.deepcopy(inp))
    except Exception as e: bad.setdefault('exc '+repr(e)[:60],[]).append(inp); continue
    hot=sum(s['heat_flow'] for s in streams if s['t_supply']>s['t_target']); cold=sum(s['heat_flow'] for s in streams if s['t_supply']<=s['t_target'])
    for t in out.targets:
        kind=t.name.rsplit('/',1)[1]; tolr=1e-6*max(1,hot+cold)
        if abs((t.Qh-t.Qc)-(cold-hot))>tolr: bad.setdefault('balance:'+kind,[]).append((inp,(t.Qh,t.Qc)))
        sh=sum(u.heat_flow for u in t.hot_utilities); sc=sum(u.heat_flow for u in t.cold_utilities)
        if kind!='Total Site Target' and (abs(sh-t.Qh)>tolr or abs(sc-t.Qc)>tolr): bad.setdefault('utilsum:'+kind,[]).append((inp,(t.Qh,t.Qc,sh,sc)))
print('N',N)
for k,v in bad.items(): print(len(v),k); print('  ',json.dumps([ (s['t_supply'],s['t_target'],s['heat_flow'],s['dt_cont']) for s in v[0][0]['streams']]), v[0][1])
