From Coq Require Import QArith Qminmax List Lia Lqa.
Import ListNotations.
Open Scope Q_scope.

Record stream := { lo : Q; hi : Q; cp : Q; cold : bool }.
Definition sg (s : stream) : Q := if cold s then 1 else -1.
Definition above (s : stream) (T : Q) : Q := Qmax 0 (hi s - Qmax (lo s) T).
Section T.
Variable tol10 : Q.
Hypothesis tol10_pos : 0 < tol10.
(* the code's activity test *)
Definition active (s : stream) (up low : Q) : bool :=
  if Qlt_le_dec (low + tol10) (hi s) then (if Qlt_le_dec (lo s) (up - tol10) then true else false) else false.
Definition no_inner (s : stream) (up low : Q) : Prop :=
  ~ (low < lo s /\ lo s < up) /\ ~ (low < hi s /\ hi s < up).

Lemma step_one s up low : lo s < hi s -> low + tol10 < up -> no_inner s up low ->
  above s low - above s up == (if active s up low then up - low else 0).
Proof.
  intros Hs Hd [H1 H2]. unfold above, active.
  pose proof (Q.max_spec (lo s) low) as A1. pose proof (Q.max_spec (lo s) up) as A2.
  set (m1 := Qmax (lo s) low) in *. set (m2 := Qmax (lo s) up) in *.
  pose proof (Q.max_spec 0 (hi s - m1)) as A3. pose proof (Q.max_spec 0 (hi s - m2)) as A4.
  set (n1 := Qmax 0 (hi s - m1)) in *. set (n2 := Qmax 0 (hi s - m2)) in *.
  destruct (Qlt_le_dec (low + tol10) (hi s)); [destruct (Qlt_le_dec (lo s) (up - tol10))|];
  destruct A1 as [[? ?]|[? ?]]; destruct A2 as [[? ?]|[? ?]];
  destruct A3 as [[? ?]|[? ?]]; destruct A4 as [[? ?]|[? ?]];
  try lra; exfalso;
  try (apply H1; split; lra); try (apply H2; split; lra).
Qed.

(* model: net CP of an interval, and the raw cascade over a descending grid *)
Definition cpnet (ss : list stream) (up low : Q) : Q :=
  fold_right (fun s a => (if active s up low then sg s * cp s else 0) + a) 0 ss.
Fixpoint cascade (ss : list stream) (prev acc : Q) (g : list Q) : list Q :=
  match g with
  | [] => []
  | t :: g' => let a := acc - (prev - t) * cpnet ss prev t in a :: cascade ss t a g'
  end.
(* spec: net deficit above T *)
Definition Dnet (ss : list stream) (T : Q) : Q :=
  fold_right (fun s a => sg s * cp s * above s T + a) 0 ss.

Definition wf (ss : list stream) := Forall (fun s => lo s < hi s) ss.
Definition grid_ok (ss : list stream) (up low : Q) :=
  low + tol10 < up /\ Forall (fun s => no_inner s up low) ss.

Lemma step_all ss up low : wf ss -> grid_ok ss up low ->
  Dnet ss low - Dnet ss up == (up - low) * cpnet ss up low.
Proof.
  intros Hw [Hd Hn]. induction ss as [|s ss IH]; simpl.
  - ring.
  - inversion Hw; subst. inversion Hn; subst.
    specialize (IH H2 H4).
    pose proof (step_one s up low H1 Hd H3) as S1.
    set (k := sg s * cp s) in *.
    assert (M : k * (above s low - above s up) == k * (if active s up low then up - low else 0)) by (rewrite S1; reflexivity).
    destruct (active s up low); nra.
Qed.

Fixpoint grid_chain (ss : list stream) (prev : Q) (g : list Q) : Prop :=
  match g with [] => True | t :: g' => grid_ok ss prev t /\ grid_chain ss t g' end.

Theorem cascade_row ss t0 : wf ss -> forall g prev acc, grid_chain ss prev g ->
  acc == - (Dnet ss prev - Dnet ss t0) ->
  forall i a t, nth_error (cascade ss prev acc g) i = Some a -> nth_error g i = Some t ->
  a == - (Dnet ss t - Dnet ss t0).
Proof.
  intros Hw g. induction g as [|t' g IH]; intros prev acc Hc Hacc i a t Ha Ht.
  - destruct i; discriminate.
  - destruct Hc as [Hok Hc]. simpl in Ha.
    pose proof (step_all ss prev t' Hw Hok) as S.
    destruct i as [|i]; simpl in *.
    + inversion Ha; inversion Ht; subst. lra.
    + eapply (IH t' _ Hc); [|exact Ha|exact Ht]. lra.
Qed.
End T.
Print Assumptions cascade_row.
