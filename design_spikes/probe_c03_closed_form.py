import sys, json, random, copy
sys.path.insert(0, '/tmp/probe/repo2')
import numpy as np
from OpenPinch import pinch_analysis_service
from OpenPinch.lib import *
def S(zone,name,ts,tt,q,dt=5.0,htc=1.0):
    return dict(zone=zone,name=name,t_supply=float(ts),t_target=float(tt),heat_flow=float(q),dt_cont=float(dt),htc=htc)
def U(name,typ,ts,dt=5.0):
    return dict(name=name,type=typ,t_supply=float(ts),t_target=float(ts),heat_flow=0.0,dt_cont=float(dt),htc=1.0,price=10.0)
random.seed(int(sys.argv[1])); N=int(sys.argv[2])
bad=[]; ntriv=0; stats={'hu_levels':0,'cu_levels':0}
for it in range(N):
    streams=[]
    for i in range(random.randint(2,7)):
        a,b=random.sample(range(20,300,10),2)
        cp=random.choice([1,2,3,4,5])/2
        streams.append(S("Z",f"S{i}",a,b,cp*abs(a-b),random.choice([0,5,10])))
    utils=[]
    for j,t in enumerate(random.sample(range(30,420,10),random.randint(0,3))): utils.append(U(f"HU{j}","Hot",t))
    for j,t in enumerate(random.sample(range(-20,250,10),random.randint(0,3))): utils.append(U(f"CU{j}","Cold",t))
    inp=dict(streams=streams,utilities=utils)
    out,mz=pinch_analysis_service(copy.deepcopy(inp),is_return_full_results=True)
    z=mz.subzones['Z']; t=z.targets['Z/Direct Integration']
    T=t.pt.col[PT.T.value]; Hnp=t.pt.col[PT.H_NET_A.value]
    hp,cp_,valid=t.pt.pinch_idx(PT.H_NET_A)
    # closed form
    def P_hot(Tl):  # heating demand at highest row <= Tl, rows above hot pinch
        rows=[i for i in range(0,hp+1) if T[i]<=Tl+1e-6]
        return Hnp[min(rows)] if rows else 0.0
    def P_cold(Tl):
        rows=[i for i in range(cp_,len(T)) if T[i]>=Tl-1e-6]
        return Hnp[max(rows)] if rows else 0.0
    hus=sorted(t.hot_utilities,key=lambda u:u.t_max_star); ass=0.0; exp={}
    for u in hus:
        q=max(0.0,P_hot(u.t_max_star)-ass) if valid else 0.0
        q=q if q>1e-6 else 0.0
        exp[u.name]=q; ass+=q
    cus=sorted(t.cold_utilities,key=lambda u:-u.t_min_star); ass=0.0
    for u in cus:
        q=max(0.0,P_cold(u.t_min_star)-ass) if valid else 0.0
        q=q if q>1e-6 else 0.0
        exp[u.name]=q; ass+=q
    got={u.name:u.heat_flow for u in list(t.hot_utilities)+list(t.cold_utilities)}
    if sum(1 for v in got.values() if v>1e-6)>=3: ntriv+=1
    if any(abs(got[k]-exp[k])>1e-4 for k in got):
        bad.append((inp,got,exp,(t.hot_utility_target,t.cold_utility_target)))
print('cases',N,'nontrivial(>=3 utilities with duty)',ntriv,'mismatch',len(bad))
for b in bad[:3]:
    print(json.dumps(b[0])[:700]); print(b[1]); print(b[2]); print(b[3])
