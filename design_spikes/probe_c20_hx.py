import sys, math, itertools
sys.path.insert(0, sys.argv[1] if len(sys.argv)>1 else '/tmp/probe/repo2')
from OpenPinch.utils.heat_exchanger import HX_Eff, HX_NTU, compute_LMTD_from_dts
from OpenPinch.lib import HeatExchangerTypes as HX
from collections import Counter
bad=Counter(); ex={}
Ns=[0.01,0.1,0.5,1,2,3,5,8,10]; cs=[0,0.05,0.25,0.5,0.75,0.95,1.0]
for arr in HX:
  for form in (arr,arr.value):
    for P in (None,2,4):
      if P and arr not in (HX.CF,HX.PF,HX.ShellTube,HX.CrFMM,HX.CrFUU): pass
      prev={}
      for c in cs:
        last=None
        for N in Ns:
          key=(arr.name,type(form).__name__,P)
          try:
            e=HX_Eff(form,N,c,P)
          except Exception as x: bad[key+('eff exc '+type(x).__name__,)]+=1; ex.setdefault(key+('eff exc',),(N,c)); continue
          if not (0<=e<=1+1e-12): bad[key+('range',)]+=1; ex.setdefault(key+('range',),(N,c,e))
          if last is not None and e<last-1e-12: bad[key+('not monotone',)]+=1; ex.setdefault(key+('mono',),(N,c,e,last))
          last=e
          ecf=HX_Eff(HX.CF.value,N,c,None)
          if e>ecf+1e-9: bad[key+('> counterflow',)]+=1; ex.setdefault(key+('>cf',),(N,c,e,ecf))
          if c==0 and abs(e-(1-math.exp(-N)))>1e-9 and P in (None,): bad[key+('c=0',)]+=1; ex.setdefault(key+('c0',),(N,c,e))
          try:
            n=HX_NTU(form,e,c,P)
            if e<1-1e-9 and abs(n-N)>1e-3*max(1,N) :
                # check eff round trip instead
                e2=HX_Eff(form,n,c,P) if n>0 else None
                if e2 is None or abs(e2-e)>2e-5: bad[key+('roundtrip',)]+=1; ex.setdefault(key+('rt',),(N,c,e,n,e2))
          except Exception as x: bad[key+('ntu exc '+type(x).__name__,)]+=1; ex.setdefault(key+('ntu exc',),(N,c,e,str(x)[:40]))
for k,v in sorted(bad.items(),key=lambda kv:str(kv[0])): print(v,k)
for k,v in list(ex.items())[:25]: print(k,v)
