import sys, random
from fractions import Fraction as F
sys.path.insert(0,'/repo')
import numpy as np
from OpenPinch.classes import ProblemTable
from OpenPinch.lib import *
random.seed(int(sys.argv[1])); N=int(sys.argv[2])
def q(x):
    f=F(x); return f"({f.numerator} # {f.denominator})" if f.denominator!=1 else f"({f.numerator} # 1)"
lines=["Require Import Pinch.","From Coq Require Import QArith List.","Import ListNotations.","Open Scope Q_scope."]
names=[]
for k in range(N):
    n=random.randint(1,9)
    h=[random.choice([0.0,0.0,5e-7,-5e-7,1e-6,1.000001e-6,9.99999e-7,2.5,10.0,0.125]) for _ in range(n)]
    pt=ProblemTable({PT.T.value:list(range(n,0,-1)), PT.H_NET.value:h})
    rh,rc,v=pt.pinch_idx()
    lines.append(f"Definition c{k} := judge [{'; '.join(q(x) for x in h)}] ({int(rh)}%nat, {int(rc)}%nat, {'true' if v else 'false'}).")
    names.append(f"c{k}")
lines.append("Eval vm_compute in ["+"; ".join(names)+"].")
open('cases.v','w').write("\n".join(lines)+"\n")
