(* spike: StreamCollection.add key renaming  key, key_1, key_2, ... : a fresh key is found within |keys|+1 tries *)
From Coq Require Import String List Arith Lia DecimalString DecimalNat Decimal FinFun.
Import ListNotations.
Open Scope string_scope.

Definition nat_str (n : nat) : string := NilEmpty.string_of_uint (Nat.to_uint n).
Lemma nat_str_inj a b : nat_str a = nat_str b -> a = b.
Proof.
  unfold nat_str. intros E.
  assert (E2 : NilEmpty.uint_of_string (NilEmpty.string_of_uint (Nat.to_uint a)) =
               NilEmpty.uint_of_string (NilEmpty.string_of_uint (Nat.to_uint b))) by (rewrite E; reflexivity).
  rewrite !NilEmpty.usu in E2. inversion E2 as [E3].
  rewrite <- (Unsigned.of_to a), <- (Unsigned.of_to b), E3. reflexivity.
Qed.
Lemma append_inj_r p a b : p ++ a = p ++ b -> a = b.
Proof. induction p as [|c p IH]; simpl; intros E; [exact E|]. inversion E. auto. Qed.

Definition cand (base : string) (n : nat) : string := base ++ "_" ++ nat_str n.
Lemma cand_inj base a b : cand base a = cand base b -> a = b.
Proof. unfold cand. intros E. apply append_inj_r in E. apply append_inj_r in E. apply nat_str_inj; exact E. Qed.

Definition mem (k : string) (keys : list string) : bool := existsb (String.eqb k) keys.
Lemma mem_In k keys : mem k keys = true <-> In k keys.
Proof. unfold mem. rewrite existsb_exists. split.
  - intros [x [Hx E]]. apply String.eqb_eq in E. subst. exact Hx.
  - intros H. exists k. split; [exact H|apply String.eqb_refl]. Qed.

(* the while loop: counter starts at 1 *)
Fixpoint fresh (fuel : nat) (base : string) (counter : nat) (keys : list string) : option string :=
  match fuel with
  | O => None
  | S f => let k := cand base counter in
           if mem k keys then fresh f base (S counter) keys else Some k
  end.
Definition add_key (base : string) (keys : list string) : option string :=
  if mem base keys then fresh (S (length keys)) base 1 keys else Some base.

Lemma fresh_some_fresh fuel base c keys k : fresh fuel base c keys = Some k -> ~ In k keys.
Proof.
  revert c. induction fuel as [|f IH]; intros c E; simpl in E; [discriminate|].
  destruct (mem (cand base c) keys) eqn:M.
  - eapply IH; eauto.
  - inversion E; subst. intro Hin. apply mem_In in Hin. congruence.
Qed.

(* if the loop runs out of fuel, fuel distinct candidates were all in keys *)
Lemma fresh_none fuel base c keys : fresh fuel base c keys = None ->
  forall i, (i < fuel)%nat -> In (cand base (c + i)) keys.
Proof.
  revert c. induction fuel as [|f IH]; intros c E i Hi; [lia|]. simpl in E.
  destruct (mem (cand base c) keys) eqn:M; [|discriminate].
  destruct i as [|i].
  - rewrite Nat.add_0_r. apply mem_In; exact M.
  - replace (c + S i) with (S c + i) by lia. apply IH; [exact E|lia].
Qed.

Theorem add_key_total base keys : exists k, add_key base keys = Some k /\ ~ In k keys.
Proof.
  unfold add_key. destruct (mem base keys) eqn:M.
  - destruct (fresh (S (length keys)) base 1 keys) as [k|] eqn:E.
    + exists k. split; [reflexivity|]. eapply fresh_some_fresh; eauto.
    + exfalso. pose proof (fresh_none _ _ _ _ E) as Hall.
      (* S (length keys) distinct strings inside keys: pigeonhole *)
      set (cs := map (fun i => cand base (1 + i)) (seq 0 (S (length keys)))).
      assert (Hincl : incl cs keys).
      { intros x Hx. unfold cs in Hx. apply in_map_iff in Hx. destruct Hx as [i [Ei Hi]]. subst.
        apply in_seq in Hi. apply Hall. lia. }
      assert (Hnd : NoDup cs).
      { unfold cs. apply FinFun.Injective_map_NoDup; [|apply seq_NoDup].
        intros a b Eab. apply cand_inj in Eab. lia. }
      pose proof (NoDup_incl_length Hnd Hincl) as Hlen. unfold cs in Hlen.
      rewrite map_length, seq_length in Hlen. lia.
  - exists base. split; [reflexivity|]. intro Hin. apply mem_In in Hin. congruence.
Qed.
Print Assumptions add_key_total.
Eval vm_compute in add_key "H1" ["H1"; "H1_1"; "C2"].
