import sys, json, random, copy
sys.path.insert(0, '/repo')
from OpenPinch.classes import Stream, StreamCollection
random.seed(int(sys.argv[1])); N=int(sys.argv[2]); bad={}
def inv(s):
    v=[]
    try:
        if abs(s.CP*(s.t_max-s.t_min)-s.heat_flow)>1e-9*max(1,abs(s.heat_flow)): v.append('CP*span!=Q')
        if s.t_min>s.t_max: v.append('tmin>tmax')
        if s.type=='Hot':
            if abs(s.t_min_star-(s.t_min-s.dt_cont))>1e-12 or abs(s.t_max_star-(s.t_max-s.dt_cont))>1e-12: v.append('hot shift')
        elif s.type=='Cold':
            if abs(s.t_min_star-(s.t_min+s.dt_cont))>1e-12 or abs(s.t_max_star-(s.t_max+s.dt_cont))>1e-12: v.append('cold shift')
        if s.htc!=0 and abs(s.htr*s.htc-1)>1e-12: v.append('htr')
        if {s.t_min,s.t_max}!={s.t_supply,s.t_target}: v.append('(extra) bounds != supply/target')
    except Exception as e: v.append('exc '+repr(e)[:40])
    return v
vals=[20.,50.,50.,80.,120.]
for it in range(N):
    ts,tt=random.choice(vals),random.choice(vals); q=random.choice([0.,10.,30.])
    try: s=Stream('s',ts,tt,dt_cont=random.choice([0.,5.]),heat_flow=q,htc=random.choice([1.,2.]))
    except Exception as e: bad.setdefault('ctor exc '+repr(e)[:50],[]).append((ts,tt,q)); continue
    ops=[('init',ts,tt,q)]
    for k in range(random.randint(0,6)):
        op=random.choice(['t_supply','t_target','dt_cont','heat_flow','htc','set_heat_flow'])
        val={'t_supply':random.choice(vals),'t_target':random.choice(vals),'dt_cont':random.choice([0.,5.,10.]),'heat_flow':random.choice([0.,10.,40.]),'htc':random.choice([0.5,1.,4.]),'set_heat_flow':random.choice([0.,10.,40.])}[op]
        ops.append((op,val))
        try:
            if op=='set_heat_flow': s.set_heat_flow(val)
            else: setattr(s,op,val)
        except Exception as e: bad.setdefault('setter exc '+type(e).__name__,[]).append(ops[:]); break
        v=inv(s)
        for x in v: bad.setdefault(x,[]).append(ops[:])
        if v: break
print('N',N)
for k,v in sorted(bad.items()): print(k,len(v)); print('   ',min(v,key=len))
