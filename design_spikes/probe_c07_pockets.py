import sys, json, random, copy
sys.path.insert(0, sys.argv[3] if len(sys.argv)>3 else '/tmp/probe/repo2')
import numpy as np
from OpenPinch.classes import ProblemTable
from OpenPinch.lib import *
from OpenPinch.analysis.gcc_manipulation import get_GCC_without_pockets, get_seperated_gcc_heat_load_profiles
random.seed(int(sys.argv[1])); N=int(sys.argv[2]); bad={}; hist={}
def pl(T,H,x):  # T descending
    return float(np.interp(x, T[::-1], H[::-1]))
for it in range(N):
    n=random.randint(3,12)
    T=sorted(random.sample(range(0,400,10),n),reverse=True)
    H=[float(random.choice(range(0,60,5))) for _ in range(n)]
    k=random.randrange(n); H[k]=0.0
    if random.random()<0.3:
        k2=random.randrange(n); H[k2]=0.0
    T=np.array(T,float); H=np.array(H,float)
    pt=ProblemTable({PT.T.value:T.copy(), PT.H_NET.value:H.copy()})
    try: get_GCC_without_pockets(pt)
    except Exception as e:
        bad.setdefault('exc:'+repr(e)[:60],[]).append((T.tolist(),H.tolist())); continue
    T2=pt.col[PT.T.value]; H2=pt.col[PT.H_NET.value]; NP=pt.col[PT.H_NET_NP.value]
    hp,cp,valid=ProblemTable({PT.T.value:T.copy(), PT.H_NET.value:H.copy()}).pinch_idx()
    if not valid: continue
    Th,Tc=T[hp],T[cp]
    # curve unchanged
    if any(abs(pl(T2,H2,x)-pl(T,H,x))>1e-6 for x in np.linspace(T[-1],T[0],97)): bad.setdefault('H changed',[]).append((T.tolist(),H.tolist()))
    # spec at fine sampling incl rows
    xs=sorted(set(list(T2)+list(np.linspace(T[-1],T[0],193))))
    ok=True
    for x in xs:
        if x>=Th: spec=min([pl(T,H,x)]+[H[j] for j in range(len(T)) if T[j]>=x])
        elif x<=Tc: spec=min([pl(T,H,x)]+[H[j] for j in range(len(T)) if T[j]<=x])
        else: spec=0.0
        got=pl(T2,NP,x)
        if abs(got-spec)>1e-6: ok=False; w=(float(x),got,float(spec)); break
    npock=len(T2)-len(T); hist[npock]=hist.get(npock,0)+1
    if not ok: bad.setdefault('NP!=runmin',[]).append((T.tolist(),H.tolist(),w))
    prof=get_seperated_gcc_heat_load_profiles(NP)
    hot=prof[PT.H_NET_HOT.value]; cold=prof[PT.H_NET_COLD.value]
    if any(np.diff(hot)>1e-9) or any(np.diff(cold)>1e-9): bad.setdefault('profile not monotone',[]).append((T.tolist(),H.tolist()))
    if abs(cold[0]-NP[0])>1e-6 or abs(-hot[-1]-NP[-1])>1e-6 or abs(hot[0])>1e-6 or abs(cold[-1])>1e-6: bad.setdefault('profile ends',[]).append((T.tolist(),H.tolist(),float(cold[0]),float(hot[-1])))
print('N',N,'rows inserted histogram',dict(sorted(hist.items())))
for k,v in bad.items(): print(k,len(v)); print('   ',json.dumps(v[0])[:600])
