(* design spike: C01 end to end — grid construction, cascade with the code's activity test, shift, targets = exact spec *)
From Coq Require Import QArith Qminmax List Lia Lqa Sorted.
Import ListNotations.
Open Scope Q_scope.

Record stream := { lo : Q; hi : Q; cp : Q; cold : bool }.
Definition sg (s : stream) : Q := if cold s then 1 else -1.
Definition above (s : stream) (T : Q) : Q := Qmax 0 (hi s - Qmax (lo s) T).
Definition Dnet (ss : list stream) (T : Q) : Q :=
  fold_right (fun s a => sg s * cp s * above s T + a) 0 ss.

(* ---------- grid: descending, duplicate-free insertion of all end points ---------- *)
Fixpoint ins (x : Q) (l : list Q) : list Q :=
  match l with
  | [] => [x]
  | y :: t => match x ?= y with Eq => l | Gt => x :: l | Lt => y :: ins x t end
  end.
Definition endpoints (ss : list stream) : list Q := flat_map (fun s => [lo s; hi s]) ss.
Definition grid (ss : list stream) : list Q := fold_right ins [] (endpoints ss).

Definition lt_head (y : Q) (l : list Q) : Prop := match l with [] => True | z :: _ => z < y end.
Fixpoint desc (l : list Q) : Prop :=
  match l with [] => True | x :: t => lt_head x t /\ desc t end.
Definition InQ (x : Q) (l : list Q) : Prop := exists y, In y l /\ y == x.

Lemma ins_lt_head x y t : x < y -> lt_head y t -> lt_head y (ins x t).
Proof.
  destruct t as [|z t']; simpl; intros Hx Ht; [exact Hx|].
  destruct (x ?= z); simpl; assumption.
Qed.
Lemma ins_desc x l : desc l -> desc (ins x l).
Proof.
  induction l as [|y t IH]; simpl; intros Hd; [auto|].
  destruct Hd as [H1 H2].
  destruct (x ?= y) eqn:C.
  - simpl. split; assumption.
  - assert (Hlt : x < y) by (apply Qlt_alt; exact C). simpl. split; [apply ins_lt_head; assumption|apply IH; exact H2].
  - assert (Hgt : y < x) by (apply Qgt_alt; exact C). simpl. split; [exact Hgt|split; assumption].
Qed.
Lemma ins_in x l : InQ x (ins x l).
Proof.
  induction l as [|y t IH]; simpl.
  - exists x; split; [left; reflexivity|reflexivity].
  - destruct (x ?= y) eqn:C.
    + apply Qeq_alt in C. exists y; split; [left; reflexivity|symmetry; exact C].
    + destruct IH as [z [Hz E]]. exists z; split; [right; exact Hz|exact E].
    + exists x; split; [left; reflexivity|reflexivity].
Qed.
Lemma ins_keeps x l z : InQ z l -> InQ z (ins x l).
Proof.
  induction l as [|y t IH]; simpl; intros [w [Hw E]].
  - destruct Hw.
  - destruct (x ?= y) eqn:C.
    + exists w; split; [exact Hw|exact E].
    + destruct Hw as [Hw|Hw].
      * exists w; split; [left; exact Hw|exact E].
      * destruct (IH (ex_intro _ w (conj Hw E))) as [v [Hv Ev]]. exists v; split; [right; exact Hv|exact Ev].
    + exists w; split; [right; exact Hw|exact E].
Qed.
Lemma ins_only x l z : In z (ins x l) -> z = x \/ In z l.
Proof.
  induction l as [|y t IH]; simpl.
  - intros [E|[]]; left; symmetry; exact E.
  - destruct (x ?= y); simpl; intros Hz.
    + right; exact Hz.
    + destruct Hz as [E|Hz]; [right; left; exact E|].
      destruct (IH Hz) as [E|Hin]; [left; exact E|right; right; exact Hin].
    + destruct Hz as [E|Hz]; [left; symmetry; exact E|right; exact Hz].
Qed.

Lemma grid_desc ss : desc (grid ss).
Proof. unfold grid. induction (endpoints ss) as [|e es IH]; simpl; [exact I|apply ins_desc; exact IH]. Qed.
Lemma grid_has ss e : In e (endpoints ss) -> InQ e (grid ss).
Proof.
  unfold grid. induction (endpoints ss) as [|x es IH]; simpl; [intros []|].
  intros [E|Hin]; [subst; apply ins_in|apply ins_keeps; apply IH; exact Hin].
Qed.
Lemma grid_only ss z : In z (grid ss) -> In z (endpoints ss).
Proof.
  unfold grid. induction (endpoints ss) as [|x es IH]; simpl; [intros []|].
  intros Hz. destruct (ins_only _ _ _ Hz) as [E|Hin]; [left; symmetry; exact E|right; apply IH; exact Hin].
Qed.

(* ---------- nothing lies strictly between consecutive grid points ---------- *)
Lemma desc_tail_lt x t : desc (x :: t) -> Forall (fun z => z < x) t.
Proof.
  revert x. induction t as [|y t IH]; intros x Hd; [constructor|].
  simpl in Hd. destruct Hd as [Hxy Hd]. constructor; [exact Hxy|].
  specialize (IH y Hd). eapply Forall_impl; [|exact IH]. simpl. intros z Hz. lra.
Qed.
Lemma desc_app_inv pre l : desc (pre ++ l) -> desc l.
Proof. induction pre as [|p pre IH]; simpl; [auto|]. intros [_ H]. apply IH; exact H. Qed.
Lemma desc_prefix_gt pre a rest : desc (pre ++ a :: rest) -> Forall (fun z => a < z) pre.
Proof.
  induction pre as [|p pre IH]; simpl; intros Hd; [constructor|].
  constructor.
  - pose proof (desc_tail_lt _ _ Hd) as F. rewrite Forall_forall in F. apply F. apply in_or_app. right. left. reflexivity.
  - apply IH. destruct Hd as [_ Hd]. exact Hd.
Qed.
Lemma between_consecutive l pre a b post z :
  l = pre ++ a :: b :: post -> desc l -> In z l -> b < z -> z < a -> False.
Proof.
  intros E Hd Hin Hb Ha. subst l.
  pose proof (desc_prefix_gt _ _ _ Hd) as Fpre.
  pose proof (desc_app_inv _ _ Hd) as Hd2.
  pose proof (desc_tail_lt _ _ Hd2) as Fa.   (* everything after a is < a *)
  assert (Hd3 : desc (b :: post)) by (simpl in Hd2; destruct Hd2 as [_ H]; exact H).
  pose proof (desc_tail_lt _ _ Hd3) as Fb.   (* everything after b is < b *)
  apply in_app_or in Hin. destruct Hin as [Hin|[E|[E|Hin]]].
  - rewrite Forall_forall in Fpre. specialize (Fpre _ Hin). lra.
  - subst. lra.
  - subst. lra.
  - rewrite Forall_forall in Fb. specialize (Fb _ Hin). lra.
Qed.

(* ---------- the code's cascade (activity test with the 10*tol window) ---------- *)
Section Cascade.
Variable w : Q.                      (* tol * 10 *)
Hypothesis w_pos : 0 < w.

Definition active (s : stream) (up low : Q) : bool :=
  if Qlt_le_dec (low + w) (hi s) then (if Qlt_le_dec (lo s) (up - w) then true else false) else false.
Definition no_inner (s : stream) (up low : Q) : Prop :=
  ~ (low < lo s /\ lo s < up) /\ ~ (low < hi s /\ hi s < up).

Lemma step_one s up low : lo s < hi s -> low + w < up -> no_inner s up low ->
  above s low - above s up == (if active s up low then up - low else 0).
Proof.
  intros Hs Hd [H1 H2]. unfold above, active.
  pose proof (Q.max_spec (lo s) low) as A1. pose proof (Q.max_spec (lo s) up) as A2.
  set (m1 := Qmax (lo s) low) in *. set (m2 := Qmax (lo s) up) in *.
  pose proof (Q.max_spec 0 (hi s - m1)) as A3. pose proof (Q.max_spec 0 (hi s - m2)) as A4.
  set (n1 := Qmax 0 (hi s - m1)) in *. set (n2 := Qmax 0 (hi s - m2)) in *.
  destruct (Qlt_le_dec (low + w) (hi s)); [destruct (Qlt_le_dec (lo s) (up - w))|];
  destruct A1 as [[? ?]|[? ?]]; destruct A2 as [[? ?]|[? ?]];
  destruct A3 as [[? ?]|[? ?]]; destruct A4 as [[? ?]|[? ?]];
  try lra; exfalso;
  try (apply H1; split; lra); try (apply H2; split; lra).
Qed.

Definition cpnet (ss : list stream) (up low : Q) : Q :=
  fold_right (fun s a => (if active s up low then sg s * cp s else 0) + a) 0 ss.
Fixpoint cascade (ss : list stream) (prev acc : Q) (g : list Q) : list Q :=
  match g with
  | [] => []
  | t :: g' => let a := acc - (prev - t) * cpnet ss prev t in a :: cascade ss t a g'
  end.

Definition wf (ss : list stream) := Forall (fun s => lo s < hi s) ss.
Definition grid_ok (ss : list stream) (up low : Q) := low + w < up /\ Forall (fun s => no_inner s up low) ss.

Lemma step_all ss up low : wf ss -> grid_ok ss up low ->
  Dnet ss low - Dnet ss up == (up - low) * cpnet ss up low.
Proof.
  intros Hw [Hd Hn]. induction ss as [|s ss IH]; simpl; [ring|].
  inversion Hw; subst. inversion Hn; subst. specialize (IH H2 H4).
  pose proof (step_one s up low H1 Hd H3) as S1.
  set (k := sg s * cp s) in *.
  assert (M : k * (above s low - above s up) == k * (if active s up low then up - low else 0)) by (rewrite S1; reflexivity).
  destruct (active s up low); nra.
Qed.

Fixpoint grid_chain (ss : list stream) (prev : Q) (g : list Q) : Prop :=
  match g with [] => True | t :: g' => grid_ok ss prev t /\ grid_chain ss t g' end.

Lemma cascade_row ss t0 : wf ss -> forall g prev acc, grid_chain ss prev g ->
  acc == - (Dnet ss prev - Dnet ss t0) ->
  forall i a t, nth_error (cascade ss prev acc g) i = Some a -> nth_error g i = Some t ->
  a == - (Dnet ss t - Dnet ss t0).
Proof.
  intros Hw g. induction g as [|t' g IH]; intros prev acc Hc Hacc i a t Ha Ht.
  - destruct i; discriminate.
  - destruct Hc as [Hok Hc]. simpl in Ha.
    pose proof (step_all ss prev t' Hw Hok) as S.
    destruct i as [|i]; simpl in *.
    + inversion Ha; inversion Ht; subst. lra.
    + eapply (IH t' _ Hc); [|exact Ha|exact Ht]. lra.
Qed.

(* Robust: consecutive grid points are further apart than the window *)
Fixpoint gaps_ok (l : list Q) : Prop :=
  match l with a :: t => (match t with b :: _ => b + w < a | [] => True end) /\ gaps_ok t | [] => True end.

Lemma grid_chain_from ss : forall rest pre a, grid ss = pre ++ a :: rest -> gaps_ok (a :: rest) ->
  grid_chain ss a rest.
Proof.
  induction rest as [|b post IH]; intros pre a E Hg; simpl; [exact I|].
  destruct Hg as [Hab Hg]. split.
  - split; [exact Hab|].
    rewrite Forall_forall. intros s Hs.
    assert (Hends : forall e, e = lo s \/ e = hi s -> ~ (b < e /\ e < a)).
    { intros e He [Hb Ha].
      assert (Hin : In e (endpoints ss)).
      { unfold endpoints. apply in_flat_map. exists s. split; [exact Hs|]. destruct He; subst; simpl; auto. }
      destruct (grid_has ss e Hin) as [z [Hz Ez]].
      eapply (between_consecutive (grid ss) pre a b post z); eauto using grid_desc; lra. }
    split; [apply (Hends (lo s)); auto|apply (Hends (hi s)); auto].
  - apply (IH (pre ++ [a]) b); [rewrite <- app_assoc; exact E|exact Hg].
Qed.
End Cascade.

(* ---------- shift by the minimum and read the targets ---------- *)
Definition list_min (x : Q) (l : list Q) : Q := fold_left Qmin l x.
Lemma list_min_le_acc l x : list_min x l <= x.
Proof.
  revert x. induction l as [|y l IH]; intros x; simpl; [lra|].
  eapply Qle_trans; [apply IH|apply Q.le_min_l].
Qed.
Lemma list_min_le l x y : In y l -> list_min x l <= y.
Proof.
  revert x. induction l as [|z l IH]; intros x Hin; [destruct Hin|]. simpl.
  destruct Hin as [E|Hin].
  - subst. eapply Qle_trans; [apply list_min_le_acc|apply Q.le_min_r].
  - apply IH; exact Hin.
Qed.
Lemma list_min_attained l x : list_min x l == x \/ exists y, In y l /\ list_min x l == y.
Proof.
  revert x. induction l as [|z l IH]; intros x; simpl; [left; reflexivity|].
  destruct (IH (Qmin x z)) as [E|[y [Hy E]]].
  - destruct (Q.min_spec x z) as [[_ M]|[_ M]].
    + left. rewrite E, M. reflexivity.
    + right. exists z. split; [left; reflexivity|]. rewrite E, M. reflexivity.
  - right. exists y. split; [right; exact Hy|exact E].
Qed.

Section Targets.
Variable w : Q.
Hypothesis w_pos : 0 < w.

(* model: H_net raw = 0 :: cascade; Qh = H[0] - min, Qc = H[last] - min *)
Definition raw (ss : list stream) : list Q :=
  match grid ss with [] => [] | t0 :: g => 0 :: cascade w ss t0 0 g end.
Definition Qh_model (ss : list stream) : Q :=
  match raw ss with [] => 0 | x :: l => x - list_min x l end.
Definition Qc_model (ss : list stream) : Q :=
  match raw ss with [] => 0 | x :: l => last l x - list_min x l end.

Lemma above_top ss t0 g : grid ss = t0 :: g -> forall s, In s ss -> above s t0 == 0.
Proof.
  intros E s Hs. unfold above.
  assert (Hin : In (hi s) (endpoints ss)).
  { unfold endpoints. apply in_flat_map. exists s. split; [exact Hs|simpl; auto]. }
  destruct (grid_has ss _ Hin) as [z [Hz Ez]].
  pose proof (grid_desc ss) as Hd. rewrite E in Hd, Hz.
  assert (Hle : z <= t0).
  { destruct Hz as [Hz|Hz]; [subst; lra|].
    pose proof (desc_tail_lt _ _ Hd) as F. rewrite Forall_forall in F. specialize (F _ Hz). lra. }
  pose proof (Q.max_spec (lo s) t0) as A1. set (m := Qmax (lo s) t0) in *.
  pose proof (Q.max_spec 0 (hi s - m)) as A2. set (n := Qmax 0 (hi s - m)) in *.
  destruct A1 as [[? ?]|[? ?]]; destruct A2 as [[? ?]|[? ?]]; lra.
Qed.
Lemma Dnet_top ss t0 g : grid ss = t0 :: g -> Dnet ss t0 == 0.
Proof.
  intros E. assert (H : forall s, In s ss -> above s t0 == 0) by (apply (above_top ss t0 g E)).
  clear E. induction ss as [|s ss IH]; simpl; [reflexivity|].
  rewrite (H s (or_introl eq_refl)). rewrite IH; [ring|]. intros s' Hs'. apply H. right. exact Hs'.
Qed.

Lemma cascade_length ss prev acc g : length (cascade w ss prev acc g) = length g.
Proof. revert prev acc. induction g as [|t g IH]; intros; simpl; [reflexivity|rewrite IH; reflexivity]. Qed.

(* C01, hot-utility clause: the model's Qh is the maximum over all grid temperatures of the exact net deficit above them *)
Theorem C01_Qh_exact ss : wf ss -> gaps_ok w (grid ss) -> grid ss <> [] ->
  (forall T, In T (grid ss) -> Dnet ss T <= Qh_model ss) /\
  (exists T, In T (grid ss) /\ Dnet ss T == Qh_model ss).
Proof.
  intros Hw Hg Hne. unfold Qh_model, raw.
  destruct (grid ss) as [|t0 g] eqn:E; [contradiction|].
  pose proof (Dnet_top ss t0 g E) as D0.
  assert (Hchain : grid_chain w ss t0 g) by (apply (grid_chain_from w ss g [] t0); [exact E|exact Hg]).
  assert (Hrow : forall i a t, nth_error (cascade w ss t0 0 g) i = Some a -> nth_error g i = Some t -> a == - Dnet ss t).
  { intros i a t Ha Ht. pose proof (cascade_row w w_pos ss t0 Hw g t0 0 Hchain) as R.
    rewrite (R ltac:(lra) i a t Ha Ht). lra. }
  set (c := cascade w ss t0 0 g) in *. split.
  - intros T [ET|HT].
    + subst. pose proof (list_min_le_acc c 0). lra.
    + destruct (In_nth_error _ _ HT) as [i Hi].
      assert (Hlen : (i < length c)%nat).
      { unfold c. rewrite cascade_length. apply nth_error_Some. congruence. }
      destruct (nth_error c i) as [a|] eqn:Ha; [|apply nth_error_None in Ha; lia].
      pose proof (Hrow i a T Ha Hi) as Ea.
      pose proof (list_min_le c 0 a (nth_error_In _ _ Ha)). lra.
  - destruct (list_min_attained c 0) as [Em|[y [Hy Em]]].
    + exists t0. split; [left; reflexivity|]. lra.
    + destruct (In_nth_error _ _ Hy) as [i Hi].
      assert (Hlen : (i < length g)%nat).
      { rewrite <- (cascade_length ss t0 0 g). apply nth_error_Some. fold c. congruence. }
      destruct (nth_error g i) as [t|] eqn:Ht; [|apply nth_error_None in Ht; lia].
      exists t. split; [right; eapply nth_error_In; exact Ht|].
      pose proof (Hrow i y t Hi Ht). lra.
Qed.
End Targets.
Print Assumptions C01_Qh_exact.

(* non-vacuity: the classic four-stream problem, shifted by 5 K each side; Qh = 33/2 *)
Definition ex4 : list stream :=
  [ {| lo := 35; hi := 245; cp := 3#20; cold := false |}; {| lo := 75; hi := 195; cp := 1#4; cold := false |};
    {| lo := 25; hi := 185; cp := 1#5; cold := true |};  {| lo := 145; hi := 235; cp := 2#5; cold := true |} ].
Eval vm_compute in (Qred (Qh_model (1#100000) ex4), Qred (Qc_model (1#100000) ex4)).
