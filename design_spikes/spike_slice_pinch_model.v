From Coq Require Import QArith Qabs List Lia Lqa Bool.
Import ListNotations.
Open Scope Q_scope.
(* model of ProblemTable.pinch_idx, parameterised by tol *)
Section P.
Variable tol : Q.
Definition isz (h : Q) : bool := if Qlt_le_dec (Qabs h) tol then true else false.
Fixpoint first_idx (f : Q -> bool) (l : list Q) (i : nat) : option nat :=
  match l with [] => None | x :: r => if f x then Some i else first_idx f r (S i) end.
Definition last_idx (f : Q -> bool) (l : list Q) : option nat :=
  match first_idx f (rev l) 0 with None => None | Some k => Some (length l - 1 - k)%nat end.
Definition pinch_idx (h : list Q) : nat * nat * bool :=
  let n := length h in
  let has := existsb isz h in let all := forallb isz h in
  let '(rh, rc) :=
    if has && negb all then
      let fz := match first_idx isz h 0 with Some k => k | None => O end in
      let rh := if (0 <? fz)%nat then fz
                else match first_idx (fun x => negb (isz x)) h 0 with Some k => (k - 1)%nat | None => (n - 1)%nat end in
      let lz := match last_idx isz h with Some k => k | None => O end in
      let rc := if (lz <? n - 1)%nat then lz
                else match first_idx (fun x => negb (isz x)) (rev h) 0 with Some k => (n - k)%nat | None => O end in
      (rh, rc)
    else ((n - 1)%nat, O) in
  (rh, rc, (rh <=? rc)%nat).
End P.
(* verdict for one case: impl output given as (rh, rc, valid) *)
Definition agree (m i : nat * nat * bool) : bool :=
  let '(a,b,c) := m in let '(x,y,z) := i in Nat.eqb a x && Nat.eqb b y && Bool.eqb c z.
Definition tol0 : Q := 4722366482869645 # 4722366482869645213696.
Definition judge (h : list Q) (impl : nat * nat * bool) : nat :=
  let m := pinch_idx tol0 h in
  let lo := pinch_idx (tol0 * (999#1000)) h in let hi := pinch_idx (tol0 * (1001#1000)) h in
  if negb (agree m lo && agree m hi) then 1%nat   (* fragile *)
  else if agree m impl then 0%nat else 2%nat.
