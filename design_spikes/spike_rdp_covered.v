(* spike: Ramer-Douglas-Peucker over Q (squared distances), spec = "covered" relation *)
From Coq Require Import QArith List Lia Lqa.
Import ListNotations.
Open Scope Q_scope.
Definition pt := (Q * Q)%type.
Definition cross (a b p : pt) : Q := (fst b - fst a) * (snd p - snd a) - (snd b - snd a) * (fst p - fst a).
Definition len2 (a b : pt) : Q := (fst b - fst a) * (fst b - fst a) + (snd b - snd a) * (snd b - snd a).
Section R.
Variable eps : Q.
(* perpendicular distance of p to line ab is <= eps  <=>  cross^2 <= eps^2 * len2   (len2 > 0) ;  len2 = 0: the code keeps everything *)
Definition withinb (a b p : pt) : bool := Qle_bool (cross a b p * cross a b p) (eps * eps * len2 a b).
Definition within (a b p : pt) : Prop := cross a b p * cross a b p <= eps * eps * len2 a b.

(* split a non-empty interior at the point of maximal |cross| (first maximum, as the code's strict > does) *)
Fixpoint argmax (a b : pt) (pre : list pt) (best : list pt * pt * list pt) (l : list pt) : list pt * pt * list pt :=
  match l with
  | [] => best
  | p :: r =>
      let '(_, q, _) := best in
      let best' := if Qle_bool (cross a b p * cross a b p) (cross a b q * cross a b q) then best else (pre, p, r) in
      argmax a b (pre ++ [p]) best' r
  end.
Definition split_at_max (a b : pt) (inner : list pt) : option (list pt * pt * list pt) :=
  match inner with [] => None | p :: r => Some (argmax a b [p] ([], p, r) r) end.

Lemma argmax_recombine a b : forall l pre best,
  (let '(x, q, y) := best in x ++ q :: y = pre ++ l) ->
  let '(x, q, y) := argmax a b pre best l in x ++ q :: y = pre ++ l.
Proof.
  induction l as [|p r IH]; intros pre [[x q] y] H; simpl.
  - exact H.
  - destruct (Qle_bool _ _).
    + specialize (IH (pre ++ [p]) (x, q, y)). simpl in IH. rewrite <- app_assoc in IH. simpl in IH. apply IH. exact H.
    + specialize (IH (pre ++ [p]) (pre, p, r)). simpl in IH. rewrite <- app_assoc in IH. simpl in IH. apply IH. reflexivity.
Qed.
Lemma split_recombine a b inner x q y : split_at_max a b inner = Some (x, q, y) -> inner = x ++ q :: y.
Proof.
  destruct inner as [|p r]; simpl; [discriminate|]. intros E. inversion E as [E1].
  pose proof (argmax_recombine a b r [p] ([], p, r) eq_refl) as H. rewrite E1 in H. simpl in H. symmetry. exact H.
Qed.

(* kept interior points between a and b *)
Fixpoint rdp (fuel : nat) (a b : pt) (inner : list pt) : list pt :=
  match fuel with
  | O => inner
  | S f =>
      if Qeq_bool (len2 a b) 0 then inner           (* line_length == 0: continue (nothing removed) *)
      else if forallb (withinb a b) inner then []
      else match split_at_max a b inner with
           | None => []
           | Some (l, p, r) => rdp f a p l ++ p :: rdp f p b r
           end
  end.

(* spec: the original interior is partitioned by the kept points; each piece lies within eps of its chord *)
Inductive covered : pt -> pt -> list pt (*orig interior*) -> list pt (*kept interior*) -> Prop :=
| cov_all   a b inner : Forall (within a b) inner -> covered a b inner []
| cov_keep  a b inner : covered a b inner inner
| cov_split a b l p r kl kr : covered a p l kl -> covered p b r kr -> covered a b (l ++ p :: r) (kl ++ p :: kr).

Theorem rdp_covered fuel : forall a b inner, covered a b inner (rdp fuel a b inner).
Proof.
  induction fuel as [|f IH]; intros a b inner; simpl; [apply cov_keep|].
  destruct (Qeq_bool (len2 a b) 0); [apply cov_keep|].
  destruct (forallb (withinb a b) inner) eqn:F.
  - apply cov_all. rewrite forallb_forall in F. rewrite Forall_forall. intros p Hp.
    specialize (F p Hp). unfold withinb in F. apply Qle_bool_iff in F. exact F.
  - destruct (split_at_max a b inner) as [[[l p] r]|] eqn:S.
    + rewrite (split_recombine _ _ _ _ _ _ S). apply cov_split; apply IH.
    + destruct inner; [simpl in F; discriminate|simpl in S; discriminate].
Qed.

(* consequences: kept points are a subsequence of the original, in order *)
Inductive subseq {A} : list A -> list A -> Prop :=
| ss_nil l : subseq [] l | ss_take x k l : subseq k l -> subseq (x :: k) (x :: l) | ss_skip x k l : subseq k l -> subseq k (x :: l).
Lemma subseq_refl {A} (l : list A) : subseq l l. Proof. induction l; constructor; auto. Qed.
Lemma subseq_app {A} (k1 l1 k2 l2 : list A) : subseq k1 l1 -> subseq k2 l2 -> subseq (k1 ++ k2) (l1 ++ l2).
Proof. induction 1; simpl; intros H2; [induction l; simpl; [exact H2|constructor; exact IHl]|constructor; auto|constructor; auto]. Qed.
Theorem covered_subseq a b inner kept : covered a b inner kept -> subseq kept inner.
Proof.
  induction 1; [constructor|apply subseq_refl|].
  apply subseq_app; [assumption|constructor; assumption].
Qed.
End R.
Print Assumptions rdp_covered.
Eval vm_compute in rdp (1#2) 10 (0,0) (10,0) [(1,0);(2,3#1);(3,0);(5,1#4);(8,2);(9,0)].
