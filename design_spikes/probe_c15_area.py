import sys, json, random, copy, math
sys.path.insert(0, sys.argv[3] if len(sys.argv)>3 else '/tmp/probe/repo2')
import numpy as np
from OpenPinch import pinch_analysis_service
from OpenPinch.lib import *
def S(zone,name,ts,tt,q,dt=5.0,htc=1.0):
    return dict(zone=zone,name=name,t_supply=float(ts),t_target=float(tt),heat_flow=float(q),dt_cont=float(dt),htc=float(htc))
def lmtd(a,b):
    return (a+b)/2 if abs(a-b)<1e-9 else (a-b)/math.log(a/b)
def spec_area(hot,cold):
    # hot/cold: lists of (tlo,thi,cp,h) real temps incl utilities with duty; build H(T) each, then enthalpy intervals
    def comp(segs):
        Ts=sorted({t for lo,hi,_,_ in segs for t in (lo,hi)})
        H=[0.0]
        for a,b in zip(Ts[:-1],Ts[1:]):
            H.append(H[-1]+sum(cp*(b-a) for lo,hi,cp,_ in segs if lo<=a+1e-12 and hi>=b-1e-12))
        return np.array(Ts),np.array(H)
    Th,Hh=comp(hot); Tc,Hc=comp(cold)
    if abs(Hh[-1]-Hc[-1])>1e-6*max(1,Hh[-1]): return None
    hs=sorted(set(np.round(np.r_[Hh,Hc],9)))
    A=0.0
    def Tat(Tv,Hv,h,side):
        # invert monotone non-decreasing H(T); plateaus in H (no streams) -> choose side
        if side=='lo': i=np.searchsorted(Hv,h,side='left')
        else: i=np.searchsorted(Hv,h,side='right')-1
        i=min(max(i,0),len(Hv)-1)
        if abs(Hv[i]-h)<1e-9: return Tv[i]
        j=np.searchsorted(Hv,h,side='left'); a,b=j-1,j
        return Tv[a]+(h-Hv[a])/(Hv[b]-Hv[a])*(Tv[b]-Tv[a])
    for h1,h2 in zip(hs[:-1],hs[1:]):
        q=h2-h1
        if q<1e-9: continue
        th1=Tat(Th,Hh,h1,'hi'); th2=Tat(Th,Hh,h2,'lo'); tc1=Tat(Tc,Hc,h1,'hi'); tc2=Tat(Tc,Hc,h2,'lo')
        def R(segs,a,b):
            act=[(cp,h) for lo,hi,cp,h in segs if lo<=a+1e-9 and hi>=b-1e-9 and cp>0]
            return sum(cp/h for cp,h in act)/sum(cp for cp,h in act) if act else 0.0
        r=R(hot,th1,th2)+R(cold,tc1,tc2)
        d1=th1-tc1; d2=th2-tc2
        if d1<=0 or d2<=0: return float('nan')
        A+=q*r/lmtd(d1,d2)
    return A
random.seed(int(sys.argv[1])); N=int(sys.argv[2]); bad={}; n_ok=0
for it in range(N):
    streams=[]
    for i in range(random.randint(2,5)):
        a,b=random.sample(range(20,300,10),2); cp=random.choice([1,2,3,4])/2
        streams.append(S("Z",f"S{i}",a,b,cp*abs(a-b),random.choice([2.5,5,10]),random.choice([0.5,1,2,4])))
    inp=dict(streams=streams,utilities=[],options={'DO_AREA_TARGETING':True})
    try: out,mz=pinch_analysis_service(copy.deepcopy(inp),is_return_full_results=True)
    except Exception as e:
        import traceback; tb=traceback.extract_tb(e.__traceback__)[-1]
        bad.setdefault(f'exc:{type(e).__name__}:{str(e)[:50]}:{tb.filename.split("/")[-1]}:{tb.lineno}',[]).append(inp); continue
    z=mz.subzones['Z']; t=z.targets['Z/Direct Integration']
    area=getattr(t,'Area target',None); 
    hot=[]; cold=[]
    for s in list(z.hot_streams): hot.append((s.t_min,s.t_max,s.CP,s.htc))
    for s in list(z.cold_streams): cold.append((s.t_min,s.t_max,s.CP,s.htc))
    for u in t.hot_utilities:
        if u.heat_flow>1e-9: hot.append((u.t_min,u.t_max,u.heat_flow/(u.t_max-u.t_min),u.htc))
    for u in t.cold_utilities:
        if u.heat_flow>1e-9: cold.append((u.t_min,u.t_max,u.heat_flow/(u.t_max-u.t_min),u.htc))
    sp=spec_area(hot,cold)
    pr=t.pt_real
    hb=pr.col[PT.H_HOT_BAL.value]; cb=pr.col[PT.H_COLD_BAL.value]
    if abs((hb[0]-hb[-1])-(cb[0]-cb[-1]))>1e-3: bad.setdefault('balanced spans differ',[]).append(inp)
    if area is None or not math.isfinite(area) or area<=0: bad.setdefault('area not finite positive',[]).append((inp,area)); continue
    if sp is None or not math.isfinite(sp): bad.setdefault('spec undefined',[]).append((inp,sp)); continue
    if abs(area-sp)>1e-3*max(1,sp): bad.setdefault('area != spec',[]).append((inp,float(area),sp))
    else: n_ok+=1
print('N',N,'match',n_ok)
for k,v in sorted(bad.items(),key=lambda kv:-len(kv[1])): print(len(v),k); print('   ',json.dumps(v[0],default=float)[:700])
