import sys, json, random, copy
sys.path.insert(0, '/tmp/probe/repo2')
import numpy as np
from fractions import Fraction as F
from OpenPinch import pinch_analysis_service
def S(zone,name,ts,tt,q,dt=5.0,htc=1.0):
    return dict(zone=zone,name=name,t_supply=float(ts),t_target=float(tt),heat_flow=float(q),dt_cont=float(dt),htc=htc)
def U(name,typ,ts,dt=5.0):
    return dict(name=name,type=typ,t_supply=float(ts),t_target=float(ts),heat_flow=0.0,dt_cont=float(dt),htc=1.0,price=10.0)
def ref(streams):
    segs=[]
    for s in streams:
        ts,tt,q,dt=F(s['t_supply']),F(s['t_target']),F(s['heat_flow']),F(s['dt_cont'])
        if ts>tt: lo,hi,sgn=tt-dt,ts-dt,-1
        else: lo,hi,sgn=ts+dt,tt+dt,1
        segs.append((lo,hi,sgn*q/(hi-lo)))
    Ts=sorted({x for lo,hi,_ in segs for x in (lo,hi)})
    def D(T): return sum(cp*max(F(0),hi-max(lo,T)) for lo,hi,cp in segs)
    Qh=max([F(0)]+[D(T) for T in Ts])
    hot=sum(-cp*(hi-lo) for lo,hi,cp in segs if cp<0); cold=sum(cp*(hi-lo) for lo,hi,cp in segs if cp>0)
    return float(Qh),float(Qh-cold+hot),float(hot-(Qh-cold+hot)),float(hot),float(cold)
random.seed(int(sys.argv[1])); N=int(sys.argv[2]); bad={}; strict=0
for it in range(N):
    nz=random.randint(2,4); streams=[]
    for z in range(nz):
        for i in range(random.randint(1,4)):
            a,b=random.sample(range(20,300,10),2); cp=random.choice([1,2,3,4,5])/2
            streams.append(S(f"Z{z}",f"S{z}{i}",a,b,cp*abs(a-b),random.choice([0,5,10])))
    utils=[]
    both=random.random()<0.5
    for j,t in enumerate(random.sample(range(30,420,10),random.randint(0,3))): utils.append(U(f"U{j}","Both" if both else "Hot",t))
    if not both:
        for j,t in enumerate(random.sample(range(-20,250,10),random.randint(0,3))): utils.append(U(f"CU{j}","Cold",t))
    inp=dict(streams=streams,utilities=utils)
    try: out=pinch_analysis_service(copy.deepcopy(inp))
    except Exception as e:
        import traceback; tb=traceback.extract_tb(e.__traceback__)[-1]
        bad.setdefault(f'exc:{type(e).__name__}:{str(e)[:50]}:{tb.filename.split("/")[-1]}:{tb.lineno}',[]).append(inp); continue
    tg={t.name:t for t in out.targets}
    for t in out.targets:
        zone,kind=t.name.rsplit('/',1)
        zs=[s for s in streams if zone=='Project' or s['zone']==zone]
        Qh,Qc,Qr,hot,cold=ref(zs); tolr=1e-6*max(1,hot+cold)
        if abs((t.Qh-t.Qc)-(cold-hot))>tolr or abs(t.Qr-(hot-t.Qc))>tolr or min(t.Qh,t.Qc,t.Qr)<-tolr: bad.setdefault('balance:'+kind,[]).append((inp,t.name,(t.Qh,t.Qc,t.Qr),(Qh,Qc,Qr)))
        if kind=='Direct Integration' and (abs(t.Qh-Qh)>tolr or abs(t.Qc-Qc)>tolr): bad.setdefault('exact',[]).append((inp,t.name))
        sh=sum(u.heat_flow for u in t.hot_utilities); sc=sum(u.heat_flow for u in t.cold_utilities)
        if kind!='Total Site Target' and (abs(sh-t.Qh)>tolr or abs(sc-t.Qc)>tolr): bad.setdefault('utilsum:'+kind,[]).append((inp,t.name,(t.Qh,t.Qc,sh,sc),[(u.name,u.heat_flow) for u in t.hot_utilities+t.cold_utilities]))
        if kind=='Total Site Target' and abs((sh-sc)-(t.Qh-t.Qc))>tolr: bad.setdefault('utilnet:TS',[]).append((inp,t.name,(t.Qh,t.Qc,sh,sc)))
    ts=tg['Project/Total Site Target']; tz=tg['Project/Total Process Target']; di=tg['Project/Direct Integration']
    tolr=1e-6*max(1,tz.Qh+tz.Qc+tz.Qr)
    if abs(tz.Qh-sum(tg[f'Z{z}/Direct Integration'].Qh for z in range(nz)))>tolr: bad.setdefault('TZ!=sum',[]).append(inp)
    if ts.Qh>tz.Qh+tolr or ts.Qc>tz.Qc+tolr: bad.setdefault('TS>TZ',[]).append((inp,(ts.Qh,ts.Qc),(tz.Qh,tz.Qc)))
    if ts.Qh<di.Qh-tolr or ts.Qc<di.Qc-tolr: bad.setdefault('TS<DI',[]).append((inp,(ts.Qh,ts.Qc),(di.Qh,di.Qc)))
    if abs(ts.Qr-(tz.Qr+tz.Qh-ts.Qh))>tolr: bad.setdefault('TSQr',[]).append(inp)
    if ts.Qh<tz.Qh-tolr: strict+=1
print('N',N,'strict recovery',strict)
for k,v in bad.items():
    print(k,len(v)); print('   ',json.dumps(v[0])[:1200])
import pickle; pickle.dump(bad, open('/tmp/probe/bad15.pkl','wb'))
