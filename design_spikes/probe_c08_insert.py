import sys, json, random, copy, math
sys.path.insert(0, sys.argv[3] if len(sys.argv)>3 else '/tmp/probe/repo2')
import numpy as np
from OpenPinch.classes import ProblemTable
from OpenPinch.classes.problem_table import INTERPOLATION_KEYS, HEAT_CAPACITY_PAIRS
from OpenPinch.lib import *
tol=1e-6
random.seed(int(sys.argv[1])); N=int(sys.argv[2]); bad={}
cols=[l.value for l in PT]
def pl(T,H,x):
    return float(np.interp(x, T[::-1], H[::-1]))
def mk():
    n=random.randint(1,8)
    T=np.array(sorted(random.sample(range(0,400,10),n),reverse=True),float)
    d={PT.T.value:T}
    dT=np.r_[0.0,T[:-1]-T[1:]]; d[PT.DELTA_T.value]=dT
    present=set()
    for cp,dh in HEAT_CAPACITY_PAIRS:
        if random.random()<0.8:
            c=np.array([0.0]+[random.choice([0,0.5,1,2]) for _ in range(n-1)]); d[cp]=c; d[dh]=c*dT; present.add(cp)
    for k in INTERPOLATION_KEYS:
        if random.random()<0.5:
            d[k]=np.array([float(random.choice(range(0,100,5))) for _ in range(n)])
    if random.random()<0.3: d[PT.RCP_HOT.value]=np.array([float(random.choice([0,1,2])) for _ in range(n)])
    return d
for it in range(N):
    d=mk(); pt=ProblemTable({k:v.copy() for k,v in d.items()})
    hist=[]
    for call in range(random.randint(1,4)):
        before=pt.data.copy(); Tb=before[:,0]
        req=[]
        for _ in range(random.randint(1,5)):
            r=random.random()
            if r<0.15: req.append(float(Tb[0]+random.choice([5,20,1e-7,2e-6])))
            elif r<0.3: req.append(float(Tb[-1]-random.choice([5,20,1e-7,2e-6])))
            elif r<0.45: req.append(float(random.choice(Tb)+random.choice([0,5e-7,-5e-7,1.5e-6,-1.5e-6])))
            elif r<0.55 and req: req.append(req[-1]+random.choice([0,5e-7,3e-6]))
            else: req.append(float(random.uniform(Tb[-1]-10,Tb[0]+10)) if random.random()<0.5 else float(random.randrange(int(Tb[-1])-10,int(Tb[0])+10)))
        hist.append(req)
        try: n_add=pt.insert_temperature_interval(req if len(req)>1 or random.random()<0.5 else req[0])
        except Exception as e:
            bad.setdefault('exc:'+type(e).__name__+':'+str(e)[:50],[]).append((d[PT.T.value].tolist(),hist)); break
        after=pt.data; Ta=after[:,0]
        key=(d[PT.T.value].tolist(),hist)
        if len(Ta)-len(Tb)!=n_add: bad.setdefault('count',[]).append(key)
        if len(Ta)>1 and (np.diff(Ta)>=0).any(): bad.setdefault('not strictly descending',[]).append(key)
        if len(Ta)>1 and (np.abs(np.diff(Ta))<=tol).any(): bad.setdefault('rows within tol',[]).append(key)
        # every requested T now within tol of a row
        for x in req:
            if np.min(np.abs(Ta-x))>tol*1.0000001: bad.setdefault('request not present',[]).append(key); break
        # old rows kept
        for x in Tb:
            if np.min(np.abs(Ta-x))>0: bad.setdefault('old row lost',[]).append(key); break
        for k in INTERPOLATION_KEYS:
            j=cols.index(k); Hb=before[:,j]; Ha=after[:,j]
            if np.isnan(Hb).all():
                if not np.isnan(Ha).all(): bad.setdefault('nan col became numbers',[]).append(key)
                continue
            if np.isnan(Ha).any(): bad.setdefault('nan appeared',[]).append(key); continue
            xs=list(Ta)+list(np.linspace(Ta[-1]-1,Ta[0]+1,23))
            if len(Tb)==1: ok=all(abs(h-Hb[0])<1e-9 for h in Ha)
            else: ok=all(abs(pl(Ta,Ha,x)-pl(Tb,Hb,x))<1e-7 for x in xs)
            if not ok: bad.setdefault('curve changed',[]).append((key,k)); break
        jdT=cols.index(PT.DELTA_T.value)
        if len(Ta)>1 and np.abs(after[1:,jdT]-(Ta[:-1]-Ta[1:])).max()>1e-9: bad.setdefault('dT',[]).append(key)
        for cp,dh in HEAT_CAPACITY_PAIRS:
            jc=cols.index(cp); jd=cols.index(dh)
            if np.isnan(before[:,jc]).all(): continue
            if len(Ta)>1 and np.nanmax(np.abs(after[1:,jd]-after[1:,jc]*after[1:,jdT]))>1e-9: bad.setdefault('dH',[]).append(key)
            # CP as piecewise-constant function of T unchanged
            for x in np.linspace(Tb[-1]+0.01,Tb[0]-0.01,17) if len(Tb)>1 else []:
                ib=np.searchsorted(-Tb,-x,side='left'); ia=np.searchsorted(-Ta,-x,side='left')
                if ia<len(Ta) and ib<len(Tb) and abs(after[ia,jc]-before[ib,jc])>1e-12 and np.min(np.abs(Ta-x))>1e-3: bad.setdefault('CP changed',[]).append(key); break
        # idempotence
        n2=ProblemTable({PT.T.value:[1.]}); 
        pt2=copy.deepcopy(pt); 
        if pt2.insert_temperature_interval(req)!=0 or pt2.data.shape!=pt.data.shape: bad.setdefault('not idempotent',[]).append(key)
print('N',N)
for k,v in sorted(bad.items(),key=lambda kv:-len(kv[1])): print(len(v),k); print('   ',json.dumps(v[0],default=float)[:400])
