import sys, json, random, copy, math, traceback
sys.path.insert(0, sys.argv[3] if len(sys.argv)>3 else '/tmp/probe/repo2')
from OpenPinch import pinch_analysis_service
def S(zone,name,ts,tt,q,dt=5.0,htc=1.0):
    return dict(zone=zone,name=name,t_supply=float(ts),t_target=float(tt),heat_flow=float(q),dt_cont=float(dt),htc=float(htc))
def U(name,typ,ts,tt,dt=5.0):
    return dict(name=name,type=typ,t_supply=float(ts),t_target=float(tt),heat_flow=0.0,dt_cont=float(dt),htc=1.0,price=10.0)
random.seed(int(sys.argv[1])); N=int(sys.argv[2]); bad={}
OPTS=['DO_BALANCED_CC','DO_AREA_TARGETING','DO_VERTICAL_GCC','DO_ASSITED_HT','DO_DIRECT_OPERATION_TARGETING','DO_INDIRECT_PROCESS_TARGETING','DO_EXERGY_TARGETING']
for it in range(N):
    shape=random.choice(['gen','gen','onlyhot','onlycold','single','iso','zerodt','dup'])
    streams=[]
    n=1 if shape=='single' else random.randint(1,5)
    for i in range(n):
        a,b=random.sample(range(20,300,10),2)
        if shape=='onlyhot': a,b=max(a,b),min(a,b)
        if shape=='onlycold': a,b=min(a,b),max(a,b)
        cp=random.choice([1,2,3])/2; q=cp*abs(a-b)
        if shape=='iso' and i==0: b=a; q=random.choice([10.,25.])
        dt=0 if shape=='zerodt' else random.choice([2.5,5,10])
        nm='S' if shape=='dup' else f'S{i}'
        streams.append(S(random.choice(['Z0','Z1']),nm,a,b,q,dt,random.choice([0.5,1,2])))
    utils=[]
    if random.random()<0.5:
        for j,t in enumerate(random.sample(range(30,420,10),random.randint(0,2))): utils.append(U(f"HU{j}","Hot",t,t))
        for j,t in enumerate(random.sample(range(-20,250,10),random.randint(0,2))): utils.append(U(f"CU{j}","Cold",t,t))
    opts={o:(random.random()<0.5) for o in OPTS}
    inp=dict(streams=streams,utilities=utils,options=opts)
    try:
        out=pinch_analysis_service(copy.deepcopy(inp))
        js=out.model_dump_json(); json.loads(js)
        def nums(o):
            if isinstance(o,dict):
                for v in o.values(): yield from nums(v)
            elif isinstance(o,list):
                for v in o: yield from nums(v)
            elif isinstance(o,float): yield o
        d=out.model_dump()
        if any(not math.isfinite(x) for x in nums(d)): bad.setdefault('nonfinite',[]).append(inp)
        out2=pinch_analysis_service(copy.deepcopy(inp))
        if out2.model_dump_json()!=js: bad.setdefault('not repeatable',[]).append(inp)
    except Exception as e:
        tb=traceback.extract_tb(e.__traceback__)[-1]
        key=f'exc:{shape}:{type(e).__name__}:{str(e)[:60]}:{tb.filename.split("/")[-1]}:{tb.lineno}'
        bad.setdefault(key,[]).append(inp)
print('N',N)
for k,v in sorted(bad.items(),key=lambda kv:-len(kv[1])): print(len(v),k); print('   ',json.dumps(dict(opts={o:b for o,b in v[0]['options'].items() if b},streams=[(s['t_supply'],s['t_target'],s['heat_flow'],s['dt_cont']) for s in v[0]['streams']],nutil=len(v[0]['utilities'])))[:400])
