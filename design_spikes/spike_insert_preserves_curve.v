From Coq Require Import QArith Qminmax List Lia Lqa Sorted.
Import ListNotations.
Open Scope Q_scope.

Definition row := (Q * Q)%type.
Definition interp (a b : row) (x : Q) : Q :=   (* a above b *)
  snd b + (x - fst b) / (fst a - fst b) * (snd a - snd b).

Fixpoint go (prev : row) (rest : list row) (x : Q) : Q :=
  match rest with
  | [] => snd prev
  | r :: rs => if Qle_bool (fst r) x then interp prev r x else go r rs x
  end.
Definition pl (rows : list row) (x : Q) : Q :=
  match rows with
  | [] => 0
  | r0 :: rs => if Qle_bool (fst r0) x then snd r0 else go r0 rs x
  end.

(* insert x strictly between rows, or at the ends; rows strictly descending in T *)
Fixpoint ins_go (prev : row) (rest : list row) (x : Q) : list row :=
  match rest with
  | [] => [(x, snd prev)]                       (* below the bottom: end value *)
  | r :: rs =>
      if Qle_bool (fst r) x
      then (if Qeq_bool (fst r) x then rest else (x, interp prev r x) :: rest)
      else r :: ins_go r rs x
  end.
Definition ins (rows : list row) (x : Q) : list row :=
  match rows with
  | [] => []
  | r0 :: rs =>
      if Qle_bool (fst r0) x
      then (if Qeq_bool (fst r0) x then rows else (x, snd r0) :: rows)
      else r0 :: ins_go r0 rs x
  end.

Fixpoint desc (prev : Q) (rest : list row) : Prop :=
  match rest with [] => True | r :: rs => fst r < prev /\ desc (fst r) rs end.

Lemma interp_top a b : ~ fst a == fst b -> interp a b (fst a) == snd a.
Proof. intros H. unfold interp. field. intro E. apply H. lra. Qed.
Lemma interp_bot a b : interp a b (fst b) == snd b.
Proof. unfold interp. unfold Qdiv. ring_simplify. reflexivity. Qed.

Lemma interp_split a b x y : fst b < x -> x < fst a ->
  interp a (x, interp a b x) y == interp a b y /\ interp (x, interp a b x) b y == interp a b y.
Proof.
  intros H1 H2. unfold interp; simpl. split; field; split; intro E; lra.
Qed.

Lemma Qle_bool_true a b : Qle_bool a b = true <-> a <= b. Proof. apply Qle_bool_iff. Qed.
Lemma Qle_bool_false a b : Qle_bool a b = false <-> b < a.
Proof. split; intros H.
  - destruct (Qlt_le_dec b a) as [L|L]; [exact L|]. apply Qle_bool_iff in L. congruence.
  - destruct (Qle_bool a b) eqn:E; [|reflexivity]. apply Qle_bool_iff in E. lra. Qed.

Lemma go_ins prev rest x y : desc (fst prev) rest -> x < fst prev ->
  go prev (ins_go prev rest x) y == go prev rest y.
Proof.
  revert prev. induction rest as [|r rs IH]; intros prev Hd Hx; simpl.
  - (* appended below the bottom *)
    destruct (Qle_bool x y) eqn:E; [|reflexivity].
    unfold interp; simpl. unfold Qdiv. ring.
  - destruct Hd as [Hr Hd].
    destruct (Qle_bool (fst r) x) eqn:E1.
    + apply Qle_bool_true in E1.
      destruct (Qeq_bool (fst r) x) eqn:E2; [reflexivity|].
      assert (Hlt : fst r < x). { apply Qeq_bool_neq in E2. destruct (Qlt_le_dec (fst r) x); [auto|]. exfalso. apply E2. lra. }
      simpl. destruct (Qle_bool x y) eqn:E3.
      * apply Qle_bool_true in E3.
        assert (E4 : Qle_bool (fst r) y = true) by (apply Qle_bool_true; lra). rewrite E4.
        apply (interp_split prev r x y); auto.
      * destruct (Qle_bool (fst r) y) eqn:E4.
        -- apply (interp_split prev r x y); auto.
        -- reflexivity.
    + apply Qle_bool_false in E1. simpl.
      destruct (Qle_bool (fst r) y) eqn:E3; [reflexivity|].
      apply IH; auto.
Qed.

Theorem pl_ins rows x y : match rows with [] => True | r0 :: rs => desc (fst r0) rs end ->
  pl (ins rows x) y == pl rows y.
Proof.
  destruct rows as [|r0 rs]; [reflexivity|]. intros Hd. simpl.
  destruct (Qle_bool (fst r0) x) eqn:E1.
  - apply Qle_bool_true in E1. destruct (Qeq_bool (fst r0) x) eqn:E2; [reflexivity|].
    assert (Hlt : fst r0 < x). { apply Qeq_bool_neq in E2. destruct (Qlt_le_dec (fst r0) x); [auto|]. exfalso. apply E2. lra. }
    simpl. destruct (Qle_bool x y) eqn:E3.
    + apply Qle_bool_true in E3. assert (E4 : Qle_bool (fst r0) y = true) by (apply Qle_bool_true; lra). rewrite E4. reflexivity.
    + destruct (Qle_bool (fst r0) y) eqn:E4.
      * unfold interp; simpl. unfold Qdiv. ring.
      * reflexivity.
  - apply Qle_bool_false in E1. simpl.
    destruct (Qle_bool (fst r0) y) eqn:E3; [reflexivity|].
    apply go_ins; auto.
Qed.
Print Assumptions pl_ins.
