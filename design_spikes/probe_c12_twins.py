import sys, json, random, copy
sys.path.insert(0, sys.argv[3] if len(sys.argv)>3 else '/tmp/probe/repo2')
import numpy as np
from OpenPinch import pinch_analysis_service
def S(zone,name,ts,tt,q,dt=5.0,htc=1.0):
    return dict(zone=zone,name=name,t_supply=float(ts),t_target=float(tt),heat_flow=float(q),dt_cont=float(dt),htc=htc)
def U(name,typ,ts,dt=5.0):
    return dict(name=name,type=typ,t_supply=float(ts),t_target=float(ts),heat_flow=0.0,dt_cont=float(dt),htc=1.0,price=10.0)
def run(inp):
    out=pinch_analysis_service(copy.deepcopy(inp))
    return {t.name:(t.Qh,t.Qc,t.Qr,t.temp_pinch.hot_temp,t.temp_pinch.cold_temp,{u.name:u.heat_flow for u in t.hot_utilities},{u.name:u.heat_flow for u in t.cold_utilities}) for t in out.targets}
def close(a,b,tol): 
    if a is None or b is None: return a is None and b is None
    return abs(a-b)<=tol
def cmp(r1,r2,tag,inp,bad,namemap=lambda n:n,dT=0.0,k=1.0,mirror=False,check_pinch=True):
    for n,v in r1.items():
        n2=namemap(n)
        if n2 not in r2: bad.setdefault(tag+':missing record',[]).append((inp,n)); continue
        w=r2[n2]; sc=max(1,abs(v[0])+abs(v[1])+abs(v[2]))*1e-6
        if mirror: exp=(v[1],v[0],None)
        else: exp=(v[0]*k,v[1]*k,v[2]*k)
        if not (close(exp[0],w[0],sc*k) and close(exp[1],w[1],sc*k)): bad.setdefault(tag+':Q:'+n.split('/')[-1],[]).append((inp,n,v[:3],w[:3]))
        if not mirror and check_pinch and 'Total Process' not in n:
            hp=None if v[3] is None else v[3]+dT; cp=None if v[4] is None else v[4]+dT
            if not (close(hp,w[3],1e-4) and close(cp,w[4],1e-4)): bad.setdefault(tag+':pinch:'+n.split('/')[-1],[]).append((inp,n,v[3:5],w[3:5]))
        if not mirror:
            for a,b in ((v[5],w[5]),(v[6],w[6])):
                for un,q in a.items():
                    if not close(q*k,b.get(un),sc*k): bad.setdefault(tag+':util:'+n.split('/')[-1],[]).append((inp,n,a,b)); break
random.seed(int(sys.argv[1])); N=int(sys.argv[2]); bad={}
for it in range(N):
    nz=random.randint(1,3); streams=[]
    for z in range(nz):
        for i in range(random.randint(1,4)):
            a,b=random.sample(range(20,300,10),2); cp=random.choice([1,2,3,4,5])/2
            streams.append(S(f"Z{z}",f"S{z}{i}",a,b,cp*abs(a-b),random.choice([0,5,10])))
    utils=[]
    for j,t in enumerate(random.sample(range(30,420,10),random.randint(0,2))): utils.append(U(f"HU{j}","Hot",t))
    for j,t in enumerate(random.sample(range(-20,250,10),random.randint(0,2))): utils.append(U(f"CU{j}","Cold",t))
    inp=dict(streams=streams,utilities=utils)
    try: r0=run(inp)
    except Exception as e: bad.setdefault('exc0:'+repr(e)[:50],[]).append(inp); continue
    # permutation
    p=copy.deepcopy(inp); random.shuffle(p['streams']); random.shuffle(p['utilities'])
    cmp(r0,run(p),'perm',inp,bad)
    # split at intermediate temperature
    p=copy.deepcopy(inp); s=p['streams'].pop(0); ts,tt,q=s['t_supply'],s['t_target'],s['heat_flow']; tm=(ts+tt)/2
    s1=dict(s); s1['t_target']=tm; s1['heat_flow']=q/2; s2=dict(s); s2['name']=s['name']+'b'; s2['t_supply']=tm; s2['heat_flow']=q/2
    p['streams']+= [s1,s2]
    cmp(r0,run(p),'split',inp,bad)
    # parallel branches
    p=copy.deepcopy(inp); s=p['streams'].pop(0); s1=dict(s); s1['heat_flow']=s['heat_flow']*0.25; s2=dict(s); s2['name']=s['name']+'b'; s2['heat_flow']=s['heat_flow']*0.75
    p['streams']+=[s1,s2]
    cmp(r0,run(p),'branch',inp,bad)
    # translation
    d=random.choice([-50.0,12.5,100.0]); p=copy.deepcopy(inp)
    for s in p['streams']+p['utilities']: s['t_supply']+=d; s['t_target']+=d
    cmp(r0,run(p),'shift',inp,bad,dT=d)
    # scaling
    k=random.choice([0.01,8.0,1000.0]); p=copy.deepcopy(inp)
    for s in p['streams']: s['heat_flow']*=k
    cmp(r0,run(p),'scale%g'%k,inp,bad,k=k)
    # rename zones
    p=copy.deepcopy(inp)
    for s in p['streams']: s['zone']='Q'+s['zone']
    cmp(r0,run(p),'rename',inp,bad,namemap=lambda n: n if n.startswith('Project/') else 'Q'+n)
    # mirror
    p=copy.deepcopy(inp)
    for s in p['streams']: s['t_supply'],s['t_target']=500-s['t_supply'],500-s['t_target']
    for u in p['utilities']: u['t_supply']=500-u['t_supply']; u['t_target']=500-u['t_target']; u['type']='Cold' if u['type']=='Hot' else 'Hot'
    cmp(r0,run(p),'mirror',inp,bad,mirror=True)
print('N',N)
for k,v in sorted(bad.items()): print(k,len(v)); print('   ',json.dumps(v[0][1:],default=float)[:400])
