From Coq Require Import Reals Lra Psatz.
From Coquelicot Require Import Coquelicot.
Open Scope R_scope.

(* ln x >= 2 (x-1)/(x+1) for x >= 1  — the inequality behind  LMTD <= arithmetic mean *)
Definition f (x : R) : R := ln x - 2 * (x - 1) / (x + 1).
Definition df (x : R) : R := (x - 1) ^ 2 / (x * (x + 1) ^ 2).

Lemma f_deriv x : 0 < x -> is_derive f x (df x).
Proof.
  intros Hx. unfold f, df. auto_derive; [split; [lra|split; [lra|auto]]|].
  field. split; lra.
Qed.

Lemma ln_lower x : 1 <= x -> 2 * (x - 1) / (x + 1) <= ln x.
Proof.
  intros Hx. destruct (Req_dec x 1) as [->|Hne].
  - rewrite ln_1. replace (2 * (1 - 1) / (1 + 1)) with 0 by field. lra.
  - assert (H1 : 1 < x) by lra.
    destruct (MVT_gen f 1 x df) as [c [Hc E]].
    + intros y Hy. rewrite Rmin_left, Rmax_right in Hy by lra. apply f_deriv. lra.
    + intros y Hy. rewrite Rmin_left, Rmax_right in Hy by lra.
      apply continuity_pt_filterlim. apply (ex_derive_continuous f y). exists (df y). apply f_deriv. lra.
    + rewrite Rmin_left, Rmax_right in Hc by lra.
      assert (F1 : f 1 = 0). { unfold f. rewrite ln_1. field. }
      assert (Dc : 0 <= df c).
      { unfold df. apply Rmult_le_pos; [apply pow2_ge_0|]. left. apply Rinv_0_lt_compat.
        apply Rmult_lt_0_compat; [lra|]. apply pow_lt. lra. }
      assert (0 <= df c * (x - 1)) by (apply Rmult_le_pos; lra).
      unfold f in E at 1. rewrite F1 in E. lra.
Qed.

(* LMTD facts for a > b > 0 *)
Definition lmtd (a b : R) : R := (a - b) / ln (a / b).
Lemma lmtd_le_mean a b : 0 < b -> b < a -> lmtd a b <= (a + b) / 2.
Proof.
  intros Hb Hab. unfold lmtd.
  set (x := a / b). assert (Hx : 1 < x). { unfold x. apply (Rmult_lt_reg_r b); [lra|]. field_simplify; lra. }
  pose proof (ln_lower x ltac:(lra)) as L.
  assert (Hln : 0 < ln x). { rewrite <- ln_1. apply ln_increasing; lra. }
  assert (Hpos : 0 < 2 * (x - 1) / (x + 1)). { apply Rdiv_lt_0_compat; lra. }
  apply (Rmult_le_reg_r (ln x)); [exact Hln|]. unfold Rdiv at 1. rewrite Rmult_assoc, Rinv_l, Rmult_1_r by lra.
  (* a - b <= (a+b)/2 * ln x, from ln x >= 2(x-1)/(x+1) with x = a/b *)
  assert (E : 2 * (x - 1) / (x + 1) = 2 * (a - b) / (a + b)). { unfold x. field. split; lra. }
  rewrite E in L.
  assert (Hs : 0 < (a + b) / 2) by lra.
  apply (Rmult_le_compat_l ((a + b) / 2)) in L; [|lra].
  replace ((a + b) / 2 * (2 * (a - b) / (a + b))) with (a - b) in L by (field; lra).
  exact L.
Qed.
Lemma lmtd_ge_min a b : 0 < b -> b < a -> b <= lmtd a b.
Proof.
  intros Hb Hab. unfold lmtd.
  set (x := a / b). assert (Hx : 1 < x). { unfold x. apply (Rmult_lt_reg_r b); [lra|]. field_simplify; lra. }
  assert (Hln : 0 < ln x). { rewrite <- ln_1. apply ln_increasing; lra. }
  (* ln x <= x - 1 *)
  assert (Hup : ln x <= x - 1).
  { pose proof (exp_ineq1 (x - 1) ltac:(lra)) as Ex. left.
    apply exp_lt_inv. rewrite exp_ln by lra. lra. }
  apply (Rmult_le_reg_r (ln x)); [exact Hln|]. unfold Rdiv at 1. rewrite Rmult_assoc, Rinv_l, Rmult_1_r by lra.
  apply (Rmult_le_compat_l b) in Hup; [|lra].
  replace (b * (x - 1)) with (a - b) in Hup by (unfold x; field; lra). exact Hup.
Qed.
Print Assumptions lmtd_le_mean.
