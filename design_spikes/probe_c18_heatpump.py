import sys, math, itertools, random, warnings
warnings.filterwarnings('ignore')
sys.path.insert(0, sys.argv[1] if len(sys.argv)>1 else '/repo')
import CoolProp, CoolProp.CoolProp as CP
from OpenPinch.classes import SimpleHeatPumpCycle
from collections import Counter
bad=Counter(); ex={}; ok=0; tot=0
fluids=['water','ammonia','R134a','R1234yf','propane','isobutane','CO2','R32','R245fa','n-Pentane','R600a','R717','R290']
random.seed(1)
for fl in fluids:
    try:
        Tc=CP.PropsSI('Tcrit',fl)-273.15; Tt=CP.PropsSI('Ttriple',fl)-273.15
    except Exception as e: print('skip',fl,e); continue
    for it in range(25):
        Te=random.uniform(max(Tt+5,-40), min(Tc-40,150)); lift=random.choice([6,10,20,40,70])
        Tcond=Te+lift
        if Tcond>Tc-5: continue
        sh=random.choice([0,0,5,10]); sc=random.choice([0,0,2,5])
        if lift-sh-sc<5: continue
        eta=random.choice([0.5,0.7,1.0]); Q=random.choice([1.0,100.0])
        tot+=1; key=(fl,)
        hp=SimpleHeatPumpCycle()
        try: w=hp.solve(Te,Tcond,dT_sh=sh,dT_sc=sc,eta_comp=eta,refrigerant=fl,ihx_gas_dt=0.0,Q_h_total=Q)
        except Exception as e: bad[(fl,'solve exc '+type(e).__name__)]+=1; ex.setdefault((fl,'solve exc'),(Te,Tcond,sh,sc,eta,str(e)[:60])); continue
        H=hp.Hs; S=hp.Ss; P=hp.Ps
        def chk(name,cond,info):
            if not cond: bad[(fl,name)]+=1; ex.setdefault((fl,name),info)
        chk('first law Q', abs(hp.Q_cond-(hp.Q_evap+hp.work))<1e-9*Q, (hp.Q_cond,hp.Q_evap,hp.work))
        chk('work>0', hp.work>0, hp.work)
        chk('COP', abs(hp.COP_h-(hp.COP_r+1))<1e-9, (hp.COP_h,hp.COP_r))
        chk('compress entropy', S[1]>=S[0]-1e-6, (S[0],S[1],Te,Tcond,sh,eta))
        chk('throttle entropy', S[3]>=S[2]-1e-6, (S[2],S[3]))
        chk('throttle enthalpy', abs(H[3]-H[2])<1e-6*abs(H[2])+1e-6, (H[2],H[3]))
        pe=CP.PropsSI('P','T',Te+273.15,'Q',1,fl); pc=CP.PropsSI('P','T',Tcond+273.15,'Q',1,fl)
        chk('p evap', abs(P[0]-pe)<1e-6*pe and abs(P[3]-pe)<1e-6*pe, (P[0],P[3],pe))
        chk('p cond', abs(P[1]-pc)<1e-6*pc and abs(P[2]-pc)<1e-6*pc, (P[1],P[2],pc))
        try:
            a=SimpleHeatPumpCycle(); a.solve(Te,Tcond,dT_sh=sh,dT_sc=sc,eta_comp=eta,refrigerant=fl,ihx_gas_dt=0.0,Q_h_total=Q)
            ev1=a.build_stream_collection(include_evap=True); q_ev1=sum(s.heat_flow for s in ev1)
            b=SimpleHeatPumpCycle(); b.solve(Te,Tcond,dT_sh=sh,dT_sc=sc,eta_comp=eta,refrigerant=fl,ihx_gas_dt=0.0,Q_h_total=Q)
            cd=b.build_stream_collection(include_cond=True); q_cd=sum(s.heat_flow for s in cd)
            ev2=b.build_stream_collection(include_evap=True); q_ev2=sum(s.heat_flow for s in ev2)
            chk('cond streams duty', abs(q_cd-hp.Q_cond)<1e-6*Q, (q_cd,hp.Q_cond))
            chk('evap streams duty (after cond)', abs(q_ev2-hp.Q_evap)<1e-6*Q, (q_ev2,hp.Q_evap))
            chk('evap order independent', abs(q_ev1-q_ev2)<1e-6*Q, (q_ev1,q_ev2))
            for s in cd: chk('cond stream cools', s.t_supply>s.t_target, (s.name,s.t_supply,s.t_target))
            for s in ev2: chk('evap stream heats', s.t_supply<s.t_target, (s.name,s.t_supply,s.t_target))
            ts=[s.t_supply for s in sorted(cd,key=lambda s:s.name)]
        except Exception as e: bad[(fl,'streams exc '+type(e).__name__)]+=1; ex.setdefault((fl,'streams exc'),(Te,Tcond,sh,sc,str(e)[:80]))
print('cases',tot)
agg=Counter()
for (fl,name),v in bad.items(): agg[name]+=v
for k,v in agg.most_common(): print(v,k)
for k,v in list(ex.items())[:30]: print(k,v)
