import ast, sys
src=open('/repo/OpenPinch/utils/heat_exchanger.py').read()
mod=ast.parse(src)
fn={n.name:n for n in mod.body if isinstance(n,ast.FunctionDef)}
class Unsupported(Exception): pass
def expr(e):
    if isinstance(e,ast.BinOp):
        l,r=expr(e.left),expr(e.right)
        if isinstance(e.op,ast.Add): return f"({l} + {r})"
        if isinstance(e.op,ast.Sub): return f"({l} - {r})"
        if isinstance(e.op,ast.Mult): return f"({l} * {r})"
        if isinstance(e.op,ast.Div): return f"({l} / {r})"
        if isinstance(e.op,ast.Pow):
            if isinstance(e.right,ast.Constant) and isinstance(e.right.value,int) and e.right.value>=0: return f"({l} ^ {e.right.value})"
            if isinstance(e.right,ast.UnaryOp) and isinstance(e.right.op,ast.USub) and isinstance(e.right.operand,ast.Constant) and e.right.operand.value==1: return f"(/ {l})"
            return f"(Rpower {l} {r})"
        raise Unsupported(ast.dump(e.op))
    if isinstance(e,ast.UnaryOp) and isinstance(e.op,ast.USub): return f"(- {expr(e.operand)})"
    if isinstance(e,ast.Constant):
        if isinstance(e.value,int): return f"{e.value}"
        if isinstance(e.value,float):
            from fractions import Fraction as F
            f=F(repr(e.value)); return f"({f.numerator} / {f.denominator})"
    if isinstance(e,ast.Name): return e.id
    if isinstance(e,ast.Call):
        f=e.func
        if isinstance(f,ast.Attribute) and isinstance(f.value,ast.Name) and f.value.id=='math':
            m={'exp':'exp','log':'ln'}[f.attr]; return f"({m} {expr(e.args[0])})"
        if isinstance(f,ast.Name): return "("+f.id+" "+" ".join(expr(a) for a in e.args)+")"
    raise Unsupported(ast.dump(e)[:80])
def label(test):
    # Arrangement == HX.X  or HX.X.value
    if isinstance(test,ast.Compare) and isinstance(test.left,ast.Name) and test.left.id=='Arrangement' and isinstance(test.ops[0],ast.Eq):
        c=test.comparators[0]
        if isinstance(c,ast.Attribute) and c.attr=='value' and isinstance(c.value,ast.Attribute): return (c.value.attr,'text')
        if isinstance(c,ast.Attribute) and isinstance(c.value,ast.Name) and c.value.id=='HX': return (c.attr,'member')
    return None
def chain(node,out):
    lab=label(node.test)
    if lab: out.append((lab,node.body))
    if node.orelse:
        if len(node.orelse)==1 and isinstance(node.orelse[0],ast.If): chain(node.orelse[0],out)
        else: out.append((('ELSE','-'),node.orelse))
for name in ('HX_Eff','HX_NTU'):
    f=fn[name]
    # find the arrangement chain
    for n in ast.walk(f):
        if isinstance(n,ast.If) and label(n.test):
            out=[]; chain(n,out); break
    print(f"(* {name} dispatch *)")
    for (arr,form),body in out:
        rhs=[]
        for st in body:
            if isinstance(st,ast.Assign):
                try: rhs.append(f"{st.targets[0].id} := {expr(st.value)}")
                except Unsupported as u: rhs.append(f"UNSUPPORTED {u}")
            elif isinstance(st,ast.If): rhs.append("<nested if>")
        print(f"  {arr:9s} compared as {form:6s}: {'; '.join(rhs)[:150]}")
