import sys, json, random, copy, itertools
sys.path.insert(0, sys.argv[3] if len(sys.argv)>3 else '/tmp/probe/repo2')
from OpenPinch import pinch_analysis_service
def S(zone,name,ts,tt,q,dt=5.0,htc=1.0):
    return dict(zone=zone,name=name,t_supply=float(ts),t_target=float(tt),heat_flow=float(q),dt_cont=float(dt),htc=htc)
random.seed(int(sys.argv[1])); N=int(sys.argv[2]); bad={}
names=['A','B','O1','Project','A B']
def walk(z,path=()):
    yield z,path+(z.name,)
    for s in z.subzones.values(): yield from walk(s,path+(z.name,))
for it in range(N):
    labels=[]
    for _ in range(random.randint(1,5)):
        d=random.randint(1,3); labels.append('/'.join(random.choice(names) for _ in range(d)))
    streams=[]
    for i,l in enumerate(labels):
        hot=random.random()<0.5; q=float(10*(i+1))
        nm=random.choice(['S','S','T',f'S{i}'])
        streams.append(S(l,nm,200,100,q) if hot else S(l,nm,50,150,q))
    inp=dict(streams=streams,utilities=[])
    try: out,mz=pinch_analysis_service(copy.deepcopy(inp),is_return_full_results=True)
    except Exception as e:
        import traceback; tb=traceback.extract_tb(e.__traceback__)[-1]
        bad.setdefault(f'exc:{type(e).__name__}:{str(e)[:40]}:{tb.filename.split("/")[-1]}:{tb.lineno}',[]).append(labels); continue
    # conservation: total duty at root == sum of inputs; each leaf count
    tot_h=sum(s['heat_flow'] for s in streams if s['t_supply']>s['t_target']); tot_c=sum(s['heat_flow'] for s in streams if s['t_supply']<s['t_target'])
    rh=sum(s.heat_flow for s in mz.hot_streams); rc=sum(s.heat_flow for s in mz.cold_streams)
    if abs(rh-tot_h)>1e-9 or abs(rc-tot_c)>1e-9 or len(mz.hot_streams)+len(mz.cold_streams)!=len(streams): bad.setdefault('root not conserved',[]).append((labels,(rh,tot_h),(rc,tot_c)))
    leaves=[(z,p) for z,p in walk(mz) if not z.subzones]
    nleaf=sum(len(z.hot_streams)+len(z.cold_streams) for z,p in leaves)
    if nleaf!=len(streams): bad.setdefault('leaf count',[]).append((labels,nleaf,len(streams)))
    # every zone: duty equals sum over its leaves
    for z,p in walk(mz):
        sub=[l for l,pp in leaves if pp[:len(p)]==p]
        dh=sum(s.heat_flow for l in sub for s in l.hot_streams); dc=sum(s.heat_flow for l in sub for s in l.cold_streams)
        if abs(dh-sum(s.heat_flow for s in z.hot_streams))>1e-9 or abs(dc-sum(s.heat_flow for s in z.cold_streams))>1e-9: bad.setdefault('zone != sum of leaves',[]).append((labels,p)); break
    ids=[id(u) for z,p in walk(mz) for u in list(z.hot_utilities)+list(z.cold_utilities)]
    if len(ids)!=len(set(ids)): bad.setdefault('shared utility object',[]).append(labels)
print('N',N)
for k,v in sorted(bad.items()): print(k,len(v)); print('   ',json.dumps(v[0],default=float)[:300])
