import sys, random, math, warnings, time
warnings.filterwarnings('ignore')
sys.path.insert(0,'/tmp/probe/repo2')
import numpy as np
from OpenPinch.utils.stream_linearisation import get_piecewise_data_points, _rdp
from OpenPinch.utils.miscellaneous import clean_composite_curve
from collections import Counter
random.seed(1); bad=Counter(); ex={}; refined=0; t0=time.time()
def dist_line(a,b,p):
    l=np.linalg.norm(b-a)
    if l==0: return np.linalg.norm(p-a)
    return abs((b[0]-a[0])*(p[1]-a[1])-(b[1]-a[1])*(p[0]-a[0]))/l
for it in range(300):
    n=random.choice([2,3,5,8,20,60,200])
    kind=random.choice(['mono','plateau','steps','noisy','repeat'])
    h=np.cumsum([random.choice([0,1,2,5]) if kind in('steps','plateau') else random.uniform(0.1,3) for _ in range(n)])
    T=np.cumsum([random.choice([0,0,1,4]) if kind=='plateau' else random.uniform(0,5) for _ in range(n)])
    if kind=='noisy': T=T+np.random.RandomState(it).normal(0,0.5,n)
    if kind=='repeat' and n>3: h[2]=h[1]; T[2]=T[1]
    curve=np.c_[h,T]; eps=random.choice([0.01,0.1,0.5,2.0])
    hot=random.random()<0.5
    try: pw=_rdp(curve,eps)
    except Exception as e: bad['rdp exc '+type(e).__name__]+=1; ex.setdefault('rdp exc',(n,kind,str(e)[:50])); continue
    def chk(name,c,info):
        if not c: bad[name]+=1; ex.setdefault(name,info)
    chk('rdp first', (pw[0]==curve[0]).all(), (n,kind)); chk('rdp last',(pw[-1]==curve[-1]).all(),(n,kind))
    idx=[]; j=0
    for p in pw:
        while j<n and not (curve[j]==p).all(): j+=1
        idx.append(j); j+=1
    chk('rdp subsequence', all(i<n for i in idx), (n,kind))
    if all(i<n for i in idx):
        for a,b in zip(idx[:-1],idx[1:]):
            for k in range(a+1,b):
                d=dist_line(curve[a],curve[b],curve[k])
                if d>eps*(1+1e-9): chk('rdp within eps',False,(n,kind,eps,d)); break
    try:
        t1=time.time(); full=get_piecewise_data_points(curve.tolist(),hot,eps)
        if len(pw)>10: refined+=1
        chk('full first', np.allclose(full[0],curve[0]), (n,kind)); chk('full last', np.allclose(full[-1],curve[-1]),(n,kind))
        if len(pw)>10:
            chk('refined order', (np.diff(full[:,0])>=-1e-9).all(), (n,kind,eps))
    except Exception as e: bad['full exc '+type(e).__name__]+=1; ex.setdefault('full exc',(n,kind,eps,str(e)[:60]))
print('cases 300 refined',refined,'time',round(time.time()-t0,1))
for k,v in bad.most_common(): print(v,k,ex.get(k))
