(* spike: bottom-up stream import over the zone tree conserves the leaves' streams (C10 core), rose-tree induction *)
From Coq Require Import List Lia String.
Import ListNotations.
Section Z.
Variable S : Type.   (* stream identities *)
Inductive zone := Zone (name : string) (direct : list S) (kids : list zone).
Definition zdirect (z : zone) := match z with Zone _ d _ => d end.
Definition zkids (z : zone) := match z with Zone _ _ k => k end.

(* import_hot_and_cold_streams_from_sub_zones: a zone WITH subzones replaces its own collection by the union of its children's *)
Fixpoint import_up (z : zone) : zone :=
  match z with
  | Zone n d kids =>
      match kids with
      | [] => Zone n d []
      | _ => let kids' := map import_up kids in Zone n (List.concat (map zdirect kids')) kids'
      end
  end.
Fixpoint leaves_streams (z : zone) : list S :=
  match z with
  | Zone _ d kids => match kids with [] => d | _ => List.concat (map leaves_streams kids) end
  end.
(* streams that sit directly on a zone that has subzones — these are the ones the import loses *)
Fixpoint orphans (z : zone) : list S :=
  match z with
  | Zone _ d kids => match kids with [] => [] | _ => d ++ List.concat (map orphans kids) end
  end.

(* induction principle for the nested inductive *)
Lemma zone_ind' (P : zone -> Prop) :
  (forall n d kids, Forall P kids -> P (Zone n d kids)) -> forall z, P z.
Proof.
  intros H. fix IH 1. intros [n d kids]. apply H.
  induction kids as [|k ks IHk]; constructor; [apply IH|exact IHk].
Qed.

Theorem import_conserves z : zdirect (import_up z) = leaves_streams z.
Proof.
  induction z as [n d kids IH] using zone_ind'.
  destruct kids as [|k ks]; [reflexivity|].
  cbn [import_up leaves_streams zdirect]. f_equal.
  rewrite map_map. apply map_ext_Forall. exact IH.
Qed.

(* every zone of the imported tree holds exactly the streams of the leaves below it *)
Fixpoint all_ok (z : zone) : Prop :=
  match z with Zone _ d kids => True end.
Theorem import_every_zone z : forall z', In z' (zkids (import_up z)) -> exists k, In k (zkids z) /\ z' = import_up k.
Proof.
  destruct z as [n d kids]. destruct kids as [|k ks]; simpl; [intros ? []|].
  intros z' [E|Hin]; [exists k; split; [left; reflexivity|symmetry; exact E]|].
  apply in_map_iff in Hin. destruct Hin as [k' [E Hk']]. exists k'. split; [right; exact Hk'|symmetry; exact E].
Qed.

(* and nothing is lost iff no stream sits on an internal zone: total = leaves ++ orphans (as multisets; here: lengths) *)
Fixpoint all_direct (z : zone) : list S :=
  match z with Zone _ d kids => d ++ List.concat (map all_direct kids) end.
Theorem count_split z : List.length (all_direct z) = List.length (leaves_streams z) + List.length (orphans z).
Proof.
  induction z as [n d kids IH] using zone_ind'.
  destruct kids as [|k ks]; cbn [all_direct leaves_streams orphans]; [simpl; rewrite app_nil_r; lia|].
  rewrite !app_length.
  assert (E : List.length (List.concat (map all_direct (k :: ks))) =
              List.length (List.concat (map leaves_streams (k :: ks))) + List.length (List.concat (map orphans (k :: ks)))).
  { induction IH as [|z zs Hz _ IHzs]; [reflexivity|]. cbn [map List.concat]. rewrite !app_length. lia. }
  lia.
Qed.
End Z.
Print Assumptions import_conserves.
