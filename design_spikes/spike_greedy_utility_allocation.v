(* spike: lowest-grade-first utility allocation = closed form, and it dominates every feasible allocation *)
From Coq Require Import QArith List Lia Lqa.
Import ListNotations.
Open Scope Q_scope.
Section G.
Variable tol : Q.
Hypothesis tol_pos : 0 < tol.

(* P : demand reachable by utility k (ascending grade), as the code computes Q_ts_max + assigned *)
Fixpoint assign (assigned : Q) (P : list Q) : list Q :=
  match P with
  | [] => []
  | p :: r => let d := p - assigned in
              let q := if Qlt_le_dec tol d then d else 0 in
              q :: assign (assigned + q) r
  end.
Fixpoint sumq (l : list Q) : Q := match l with [] => 0 | x :: r => x + sumq r end.
Fixpoint prefix_sums (acc : Q) (l : list Q) : list Q :=
  match l with [] => [] | x :: r => (acc + x) :: prefix_sums (acc + x) r end.

(* Robust: every step of the ladder is either flat or higher than tol *)
Fixpoint steps_ok (prev : Q) (P : list Q) : Prop :=
  match P with [] => True | p :: r => (p == prev \/ prev + tol < p) /\ steps_ok p r end.

Lemma assign_nonneg a P : Forall (fun q => 0 <= q) (assign a P).
Proof.
  revert a. induction P as [|p r IH]; intros a; simpl; constructor; [|apply IH].
  destruct (Qlt_le_dec tol (p - a)); lra.
Qed.

(* closed form: after serving utility k the assigned total is exactly P k *)
Lemma assign_prefix a P : steps_ok a P -> prefix_sums a (assign a P) = prefix_sums a (assign a P) /\
  Forall2 (fun s p => s == p) (prefix_sums a (assign a P)) P.
Proof.
  revert a. induction P as [|p r IH]; intros a Hs; simpl; split; auto.
  destruct Hs as [Hp Hr].
  destruct (Qlt_le_dec tol (p - a)) as [Hd|Hd].
  - assert (E : a + (p - a) == p) by ring.
    constructor; [exact E|].
    assert (Hr' : steps_ok (a + (p - a)) r).
    { clear IH. destruct r as [|p2 r2]; simpl in *; [exact I|]. destruct Hr as [H1 H2]. split; [|exact H2].
      destruct H1 as [H1|H1]; [left; rewrite H1; symmetry; exact E|right; lra]. }
    destruct (IH _ Hr') as [_ F]. exact F.
  - assert (E : p == a) by (destruct Hp as [Hp|Hp]; lra).
    constructor; [lra|].
    assert (Hr' : steps_ok (a + 0) r).
    { clear IH. destruct r as [|p2 r2]; simpl in *; [exact I|]. destruct Hr as [H1 H2]. split; [|exact H2].
      destruct H1 as [H1|H1]; [left; lra|right; lra]. }
    destruct (IH _ Hr') as [_ F]. exact F.
Qed.

(* any allocation whose prefix sums stay under the reachable demand is dominated prefix-wise *)
Theorem greedy_dominates a P q' : steps_ok a P -> length q' = length P ->
  Forall2 (fun s p => s <= p) (prefix_sums a q') P ->
  Forall2 (fun s s' => s' <= s) (prefix_sums a (assign a P)) (prefix_sums a q').
Proof.
  intros Hs Hl Hf. destruct (assign_prefix a P Hs) as [_ Hc].
  revert Hc Hf. generalize (prefix_sums a (assign a P)) as S. generalize (prefix_sums a q') as S'.
  clear. intros S' S Hc. revert S'. induction Hc as [|s p S P E Hc IH]; intros S' Hf.
  - inversion Hf; constructor.
  - inversion Hf as [|s' p' S'' P' Hle Hf' E1 E2]; subst. constructor; [lra|apply IH; exact Hf'].
Qed.
End G.
Print Assumptions greedy_dominates.
Eval vm_compute in assign (1#1000000) 0 [0; 5; 5; 12; 12 + (1#2000000); 30].
