From Coq Require Import QArith Qminmax List Lia Lqa.
Import ListNotations.
Open Scope Q_scope.

Record stream := { lo : Q; hi : Q; cp : Q }.
Definition above (s : stream) (T : Q) : Q := Qmax 0 (hi s - Qmax (lo s) T).
Definition covers (s : stream) (up low : Q) : bool :=
  if Qlt_le_dec low (hi s) then (if Qlt_le_dec (lo s) up then true else false) else false.
Definition no_inner (s : stream) (up low : Q) : Prop :=
  ~ (low < lo s /\ lo s < up) /\ ~ (low < hi s /\ hi s < up).

Ltac qmax_all := repeat match goal with
  | |- context [Qmax ?a ?b] =>
      let m := fresh "m" in let Hm := fresh "Hm" in
      pose proof (Q.max_spec a b) as Hm; remember (Qmax a b) as m eqn:?; clear dependent m || idtac
  end.

Lemma step_one s up low : lo s < hi s -> low < up -> no_inner s up low ->
  above s low - above s up == (if covers s up low then up - low else 0).
Proof.
  intros Hs Hd [H1 H2]. unfold above, covers.
  pose proof (Q.max_spec (lo s) low) as A1. pose proof (Q.max_spec (lo s) up) as A2.
  set (m1 := Qmax (lo s) low) in *. set (m2 := Qmax (lo s) up) in *.
  pose proof (Q.max_spec 0 (hi s - m1)) as A3. pose proof (Q.max_spec 0 (hi s - m2)) as A4.
  set (n1 := Qmax 0 (hi s - m1)) in *. set (n2 := Qmax 0 (hi s - m2)) in *.
  destruct (Qlt_le_dec low (hi s)); [destruct (Qlt_le_dec (lo s) up)|];
  destruct A1 as [[? ?]|[? ?]]; destruct A2 as [[? ?]|[? ?]];
  destruct A3 as [[? ?]|[? ?]]; destruct A4 as [[? ?]|[? ?]];
  try lra; exfalso;
  try (apply H1; split; lra); try (apply H2; split; lra).
Qed.
Print Assumptions step_one.
