(* spike: pocket sweep above the pinch, functional (zipper) form, and the running-minimum theorem *)
From Coq Require Import QArith Qabs Qminmax List Lia Lqa.
Import ListNotations.
Open Scope Q_scope.

Record row := { T : Q; H : Q }.
Record orow := { oT : Q; oH : Q; oNP : Q; inserted : bool }.

Section S.
Variable tol : Q.
Hypothesis tol_pos : 0 < tol.

Definition cross_T (a b : row) (L : Q) : Q :=
  T b + (L - H b) / (H a - H b) * (T a - T b).

Fixpoint pocket (L : Q) (prev : row) (rest : list row) : list orow * option (row * list row) :=
  match rest with
  | [] => ([], None)
  | r :: rs =>
      if Qle_bool (H r) (L - tol)
      then
        let t0 := cross_T prev r L in
        let ins := if Qle_bool (Qabs (t0 - T prev)) tol then [] else [{| oT := t0; oH := L; oNP := L; inserted := true |}] in
        (ins, Some (r, rs))
      else
        let '(out, k) := pocket L r rs in
        ({| oT := T r; oH := H r; oNP := L; inserted := false |} :: out, k)
  end.

Fixpoint sweep (fuel : nat) (cur : row) (rest : list row) : list orow :=
  match fuel with
  | O => []
  | S f =>
    match rest with
    | [] => []
    | r :: rs =>
        if Qlt_le_dec (H cur) (H r - tol)
        then
          let '(out, k) := pocket (H cur) cur rest in
          match k with
          | None => out
          | Some (r', rs') =>
              out ++ {| oT := T r'; oH := H r'; oNP := H r'; inserted := false |} :: sweep f r' rs'
          end
        else {| oT := T r; oH := H r; oNP := H r; inserted := false |} :: sweep f r rs
    end
  end.

(* no sub-tolerance wiggles between any level L met so far and any row *)
Definition NW (L : Q) (rows : list row) : Prop :=
  Forall (fun r => H r == L \/ H r + tol < L \/ L + tol < H r) rows.
Fixpoint NWall (rows : list row) : Prop :=
  match rows with [] => True | r :: rs => NW (H r) rs /\ NWall rs end.

(* local characterisation of the running minimum along the emitted rows *)
Fixpoint chain (L : Q) (out : list orow) : Prop :=
  match out with
  | [] => True
  | o :: t => oNP o == Qmin L (oH o) /\ chain (oNP o) t
  end.
Fixpoint last_np (L : Q) (out : list orow) : Q := match out with [] => L | o :: t => last_np (oNP o) t end.

Lemma chain_app L a b : chain L a -> chain (last_np L a) b -> chain L (a ++ b).
Proof.
  revert L. induction a as [|o t IH]; intros L Ha Hb; simpl in *; [exact Hb|].
  destruct Ha as [E Ha]. split; [exact E|]. apply IH; [exact Ha|exact Hb].
Qed.

Lemma pocket_chain L prev rest out k : NW L rest -> pocket L prev rest = (out, k) ->
  chain L out /\ last_np L out == L /\
  match k with None => True | Some (r', rs') => H r' + tol <= L /\ exists pre, rest = pre ++ r' :: rs' end.
Proof.
  revert prev out k. induction rest as [|r rs IH]; intros prev out k Hnw E; simpl in E.
  - inversion E; subst. simpl. repeat split; reflexivity.
  - inversion Hnw as [|? ? Hr Hrs]; subst.
    destruct (Qle_bool (H r) (L - tol)) eqn:Q1.
    + apply Qle_bool_iff in Q1. inversion E; subst.
      split; [|split].
      * destruct (Qle_bool _ tol); simpl; auto. split; auto. rewrite Q.min_id. reflexivity.
      * destruct (Qle_bool _ tol); simpl; reflexivity.
      * split; [lra| exists []; reflexivity].
    + destruct (pocket L r rs) as [o2 k2] eqn:E2. inversion E; subst.
      destruct (IH r o2 k Hrs E2) as [C [Lst K]].
      assert (Hge : L <= H r).
      { destruct (Qlt_le_dec (L - tol) (H r)) as [q|q]; [|apply Qle_bool_iff in q; congruence].
        destruct Hr as [e|[e|e]]; lra. }
      split; [|split].
      * simpl. split; [symmetry; apply Q.min_l; exact Hge|exact C].
      * simpl. exact Lst.
      * destruct k as [[r' rs']|]; [|exact I]. destruct K as [K1 [pre K2]]. split; [exact K1|].
        exists (r :: pre). rewrite K2. reflexivity.
Qed.

Lemma NWall_suffix pre r rs : NWall (pre ++ r :: rs) -> NWall (r :: rs).
Proof. induction pre as [|p pre IH]; simpl; [auto|]. intros [_ Hh]. apply IH; exact Hh. Qed.

Opaque pocket.
Theorem sweep_chain fuel : forall cur rest, (length rest <= fuel)%nat -> NWall (cur :: rest) ->
  chain (H cur) (sweep fuel cur rest).
Proof.
  induction fuel as [|f IH]; intros cur rest Hl Hnw.
  - destruct rest; simpl in *; [exact I|lia].
  - destruct rest as [|r rs]; simpl; [exact I|].
    destruct Hnw as [Hc Hrest]. simpl in Hl.
    destruct (Qlt_le_dec (H cur) (H r - tol)) as [Hp|Hp].
    + destruct (pocket (H cur) cur (r :: rs)) as [out k] eqn:E.
      destruct (pocket_chain _ _ _ _ _ Hc E) as [C [Lst K]].
      destruct k as [[r' rs']|]; [|exact C].
      destruct K as [K1 [pre K2]].
      apply chain_app; [exact C|]. simpl.
      split.
      * rewrite Lst. symmetry. apply Q.min_r. lra.
      * assert (Hs : NWall (r' :: rs')). { apply (NWall_suffix pre). rewrite <- K2. exact Hrest. }
        apply IH; [|exact Hs].
        assert (length (r :: rs) = length (pre ++ r' :: rs')) by (rewrite K2; reflexivity).
        rewrite app_length in H0. simpl in H0. lia.
    + simpl. split.
      * inversion Hc as [|? ? Hr _]; subst. symmetry. apply Q.min_r. destruct Hr as [e|[e|e]]; lra.
      * apply IH; [lia|exact Hrest].
Qed.
End S.
Print Assumptions sweep_chain.
