import sys, random, copy
from fractions import Fraction as F
sys.path.insert(0,'/repo')
from OpenPinch import pinch_analysis_service
random.seed(int(sys.argv[1])); N=int(sys.argv[2])
def q(x):
    f=F(x); return f"({f.numerator} # {f.denominator})"
lines=["Require Import C01.","From Coq Require Import QArith Qabs List.","Import ListNotations.","Open Scope Q_scope.",
"Definition w10 : Q := (4722366482869645 # 4722366482869645213696) * 10.",
"Definition close (a b : Q) : bool := Qle_bool (Qabs (a - b)) (1 # 1000000000).",
"Definition judge (ss : list stream) (qh qc : Q) : bool := close (Qh_model w10 ss) qh && close (Qc_model w10 ss) qc."]
names=[]
for k in range(N):
    n=random.randint(1,8); streams=[]; views=[]
    for i in range(n):
        a,b=random.sample(range(20,300,5),2); cp=random.choice([1,2,3,4,5,7])/4; dt=random.choice([0,2.5,5,10])
        if random.random()<0.15: b=a; qv=float(random.choice([5,10,40]))  # latent cold
        else: qv=cp*abs(a-b)
        streams.append(dict(zone="Z",name=f"S{i}",t_supply=float(a),t_target=float(b),heat_flow=qv,dt_cont=float(dt),htc=1.0))
    out,mz=pinch_analysis_service(dict(streams=copy.deepcopy(streams),utilities=[]),is_return_full_results=True)
    z=mz.subzones['Z']; t=z.targets['Z/Direct Integration']
    for s in list(z.hot_streams)+list(z.cold_streams):
        views.append(f"{{| lo := {q(s.t_min_star)}; hi := {q(s.t_max_star)}; cp := {q(s.CP)}; cold := {'true' if s.type=='Cold' else 'false'} |}}")
    lines.append(f"Definition c{k} := judge [{'; '.join(views)}] {q(t.hot_utility_target)} {q(t.cold_utility_target)}.")
    names.append(f"c{k}")
lines.append("Eval vm_compute in (List.length (List.filter (fun b => b) ["+"; ".join(names)+"]), List.length ["+"; ".join(names)+"]).")
open('cases.v','w').write("\n".join(lines)+"\n")
