import sys, json, random, copy
sys.path.insert(0, '/tmp/probe/repo2')
import numpy as np
from fractions import Fraction as F
from OpenPinch import pinch_analysis_service
from OpenPinch.lib import *
def S(zone,name,ts,tt,q,dt=5.0,htc=1.0):
    return dict(zone=zone,name=name,t_supply=float(ts),t_target=float(tt),heat_flow=float(q),dt_cont=float(dt),htc=htc)
random.seed(int(sys.argv[1])); N=int(sys.argv[2]); bad={}
def below(segs,T,kind):
    return float(sum(cp*max(F(0),min(hi,T)-lo) for lo,hi,cp,k in segs if k==kind))
for it in range(N):
    streams=[]
    for i in range(random.randint(1,6)):
        a,b=random.sample(range(20,300,10),2); cp=random.choice([1,2,3,4,5])/2
        streams.append(S("Z",f"S{i}",a,b,cp*abs(a-b),random.choice([0,5,10])))
    inp=dict(streams=streams,utilities=[])
    out,mz=pinch_analysis_service(copy.deepcopy(inp),is_return_full_results=True)
    t=mz.subzones['Z'].targets['Z/Direct Integration']
    for nm,pt,shifted in (('pt',t.pt,True),('pt_real',t.pt_real,False)):
        segs=[]
        for s in streams:
            ts,tt,q,dt=F(s['t_supply']),F(s['t_target']),F(s['heat_flow']),F(s['dt_cont'])
            d=dt if shifted else 0
            if ts>tt: segs.append((tt-d,ts-d,q/(ts-tt),'h'))
            else: segs.append((ts+d,tt+d,q/(tt-ts),'c'))
        T=pt.col[PT.T.value]; dT=pt.col[PT.DELTA_T.value]
        Hh=pt.col[PT.H_HOT.value]; Hc=pt.col[PT.H_COLD.value]; Hn=pt.col[PT.H_NET.value]
        scale=max(1,sum(s['heat_flow'] for s in streams)); tolr=2e-4*max(1,scale/100)
        for i in range(len(T)):
            Ti=F(float(T[i]))
            if abs(Hh[i]-below(segs,Ti,'h'))>tolr+1e-3: bad.setdefault(nm+':hot curve',[]).append((inp,i)); break
            if abs((Hc[i]-Hc[-1])-below(segs,Ti,'c'))>tolr+1e-3: bad.setdefault(nm+':cold curve',[]).append((inp,i)); break
            if abs(Hn[i]-(Hc[i]-Hh[i]))>tolr+1e-3: bad.setdefault(nm+':net=cold-hot',[]).append((inp,i)); break
            if i>0 and abs(dT[i]-(T[i-1]-T[i]))>1e-3: bad.setdefault(nm+':dT',[]).append((inp,i,float(dT[i]),float(T[i-1]-T[i]))); break
            for cpk,dhk,hk,sg in ((PT.CP_HOT,PT.DELTA_H_HOT,PT.H_HOT,1),(PT.CP_COLD,PT.DELTA_H_COLD,PT.H_COLD,1),(PT.CP_NET,PT.DELTA_H_NET,PT.H_NET,1)):
                if i>0:
                    cpv=pt.col[cpk.value][i]; dh=pt.col[dhk.value][i]; H=pt.col[hk.value]
                    if abs(dh-cpv*dT[i])>2e-3*max(1,abs(cpv)): bad.setdefault(nm+':dH=CP*dT '+cpk.name,[]).append((inp,i)); break
                    if abs(sg*(H[i-1]-H[i])-dh)>2e-3*max(1,abs(cpv)): bad.setdefault(nm+':dH=Hdiff '+cpk.name,[]).append((inp,i,float(H[i-1]-H[i]),float(dh))); break
        if min(Hn)<-1e-3: bad.setdefault(nm+':net<0',[]).append(inp)
        if nm=='pt' and min(abs(Hn))>1e-3: bad.setdefault(nm+':no zero',[]).append(inp)
    tv=t.target_values
    qh_r=t.pt_real.loc[0,PT.H_NET.value]; qc_r=t.pt_real.loc[-1,PT.H_NET.value]
    if abs(qh_r-tv['hot_utility_target'])>1e-3 or abs(qc_r-tv['cold_utility_target'])>1e-3: bad.setdefault('real targets differ',[]).append((inp,(float(qh_r),float(qc_r)),(tv['hot_utility_target'],tv['cold_utility_target'])))
print('N',N)
for k,v in bad.items():
    print(k,len(v)); print('   ',json.dumps(v[0],default=float)[:700])
