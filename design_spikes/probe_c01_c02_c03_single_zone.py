import sys, json, random
sys.path.insert(0, '/repo')
import numpy as np
from fractions import Fraction as F
from OpenPinch import pinch_analysis_service
def S(zone,name,ts,tt,q,dt=5.0,htc=1.0):
    return dict(zone=zone,name=name,t_supply=float(ts),t_target=float(tt),heat_flow=float(q),dt_cont=float(dt),htc=htc)
def ref(streams):
    # exact cascade
    segs=[]
    for s in streams:
        ts,tt,q,dt=F(s['t_supply']),F(s['t_target']),F(s['heat_flow']),F(s['dt_cont'])
        if ts>tt: lo,hi,sgn=tt-dt,ts-dt,-1
        elif ts<tt: lo,hi,sgn=ts+dt,tt+dt,1
        else: continue
        segs.append((lo,hi,sgn*q/(hi-lo)))
    Ts=sorted({x for lo,hi,_ in segs for x in (lo,hi)})
    def deficit_above(T): return sum(cp*max(F(0),hi-max(lo,T)) for lo,hi,cp in segs)
    Qh=max([F(0)]+[deficit_above(T) for T in Ts])
    hot=sum(-cp*(hi-lo) for lo,hi,cp in segs if cp<0); cold=sum(cp*(hi-lo) for lo,hi,cp in segs if cp>0)
    Qc=Qh-cold+hot
    return float(Qh),float(Qc),float(hot-Qc),float(hot),float(cold)
random.seed(int(sys.argv[1]) if len(sys.argv)>1 else 0)
bad={}
N=int(sys.argv[2]) if len(sys.argv)>2 else 200
for it in range(N):
    n=random.randint(1,6)
    streams=[]
    for i in range(n):
        a,b=random.sample(range(20,300,10),2)
        cp=random.choice([1,2,3,4,5])/2
        streams.append(S("P1",f"S{i}",a,b,cp*abs(a-b),random.choice([0,5,10])))
    try:
        out=pinch_analysis_service(dict(streams=streams,utilities=[]))
    except Exception as e:
        bad.setdefault('exc:'+type(e).__name__+str(e)[:60],[]).append(streams); continue
    Qh,Qc,Qr,hot,cold=ref(streams)
    for t in out.targets:
        kind=t.name.split('/')[-1]
        tolr=1e-6*max(1,hot+cold)
        if abs((t.Qh-t.Qc)-(cold-hot))>tolr or abs(t.Qr-(hot-t.Qc))>tolr or min(t.Qh,t.Qc,t.Qr)<-tolr:
            bad.setdefault('balance:'+kind,[]).append((streams,(t.Qh,t.Qc,t.Qr),(Qh,Qc,Qr)))
        if kind=='Direct Integration' and (abs(t.Qh-Qh)>tolr or abs(t.Qc-Qc)>tolr or abs(t.Qr-Qr)>tolr):
            bad.setdefault('exact:'+kind,[]).append((streams,(t.Qh,t.Qc,t.Qr),(Qh,Qc,Qr)))
        sh=sum(u.heat_flow for u in t.hot_utilities); sc=sum(u.heat_flow for u in t.cold_utilities)
        if kind!='Total Site Target' and (abs(sh-t.Qh)>tolr or abs(sc-t.Qc)>tolr):
            bad.setdefault('utilsum:'+kind,[]).append((streams,(t.Qh,t.Qc,sh,sc)))
for k,v in bad.items():
    print(k,len(v)); print('   ',v[0])
