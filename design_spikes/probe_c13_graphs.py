import sys, json, random, copy
sys.path.insert(0, sys.argv[3] if len(sys.argv)>3 else '/tmp/probe/repo2')
import numpy as np
from OpenPinch import pinch_analysis_service
from OpenPinch.lib import *
def S(zone,name,ts,tt,q,dt=5.0,htc=1.0):
    return dict(zone=zone,name=name,t_supply=float(ts),t_target=float(tt),heat_flow=float(q),dt_cont=float(dt),htc=htc)
def U(name,typ,ts,dt=5.0):
    return dict(name=name,type=typ,t_supply=float(ts),t_target=float(ts),heat_flow=0.0,dt_cont=float(dt),htc=1.0,price=10.0)
random.seed(int(sys.argv[1])); N=int(sys.argv[2]); bad={}; npts=0
GMAP={GT.CC.value:[PT.H_HOT.value,PT.H_COLD.value], GT.SCC.value:[PT.H_HOT.value,PT.H_COLD.value], GT.BCC.value:[PT.H_HOT_BAL.value,PT.H_COLD_BAL.value],
      GT.GCC.value:[PT.H_NET.value,PT.H_NET_NP.value,PT.H_NET_V.value,PT.H_NET_A.value,PT.H_NET_UT.value],
      GT.TSP.value:[PT.H_NET_HOT.value,PT.H_NET_COLD.value,PT.H_HOT_UT.value,PT.H_COLD_UT.value], GT.SUGCC.value:[PT.H_NET_UT.value]}
def walk(z):
    yield z
    for s in z.subzones.values(): yield from walk(s)
for it in range(N):
    nz=random.randint(1,2); streams=[]
    for z in range(nz):
        for i in range(random.randint(1,5)):
            a,b=random.sample(range(20,300,10),2); cp=random.choice([1,2,3,4,5])/2
            streams.append(S(f"Z{z}",f"S{z}{i}",a,b,cp*abs(a-b),random.choice([0,5,10])))
    utils=[]
    for j,t in enumerate(random.sample(range(30,420,10),random.randint(0,2))): utils.append(U(f"HU{j}","Hot",t))
    for j,t in enumerate(random.sample(range(-20,250,10),random.randint(0,2))): utils.append(U(f"CU{j}","Cold",t))
    opts={'DO_VERTICAL_GCC':random.random()<0.5,'DO_ASSITED_HT':random.random()<0.5,'DO_BALANCED_CC':random.random()<0.7}
    inp=dict(streams=streams,utilities=utils,options=opts)
    try: out,mz=pinch_analysis_service(copy.deepcopy(inp),is_return_full_results=True)
    except Exception as e:
        import traceback; tb=traceback.extract_tb(e.__traceback__)[-1]
        bad.setdefault(f'exc:{type(e).__name__}:{str(e)[:40]}:{tb.filename.split("/")[-1]}:{tb.lineno}',[]).append(inp); continue
    targets={}
    for z in walk(mz): targets.update(z.targets)
    if set(out.graphs.keys())!=set(targets.keys()): bad.setdefault('graph keys != record names',[]).append((inp,sorted(out.graphs.keys()),sorted(targets.keys())))
    for key,gs in out.graphs.items():
        t=targets.get(key)
        if t is None: continue
        for g in gs.graphs:
            if g.type not in GMAP or g.type not in t.graphs: continue
            tab=t.graphs[g.type]; T=np.array(tab.col[PT.T.value],float)
            cols=GMAP[g.type]
            # group segments per column: composite graphs: one segment per column in order; gcc: series_id not in schema -> use titles
            if g.type in (GT.CC.value,GT.SCC.value,GT.BCC.value,GT.TSP.value):
                segs_per_col=[[s] for s in g.segments]
                if len(segs_per_col)!=len(cols): bad.setdefault('segment count '+g.type,[]).append((inp,key)); continue
            else:
                continue
            for col,segs in zip(cols,segs_per_col):
                H=np.array(tab.col[col],float)
                if np.isnan(H).all(): continue
                pts=[(p.x,p.y) for s in segs for p in s.data_points]; npts+=len(pts)
                rows={(round(float(h),2),round(float(tt),2)) for h,tt in zip(H,T)}
                for p in pts:
                    if p not in rows: bad.setdefault('point not a table row '+g.type,[]).append((inp,key,col,p)); break
                if not pts:
                    if H.max()-H.min()>0.02: bad.setdefault('curve dropped '+g.type,[]).append((inp,key,col,float(H.max()-H.min())))
                    continue
                xs=np.array([p[0] for p in pts]); ys=np.array([p[1] for p in pts])
                if abs(xs.max()-H.max())>0.011 or abs(xs.min()-H.min())>0.011: bad.setdefault('extent '+g.type,[]).append((inp,key,col,(float(xs.min()),float(xs.max())),(float(H.min()),float(H.max()))))
                # every table row within non-flat extent must be recovered: interpolate T as function along polyline param by index -> use H->T only if monotone
                if np.all(np.diff(xs)<=1e-9) or np.all(np.diff(xs)>=-1e-9):
                    order=np.argsort(xs,kind='stable'); 
                    lo=min(ys); hi=max(ys)
                    for h,tt in zip(H,T):
                        if tt<lo-1e-9 or tt>hi+1e-9: continue
                        # interpolate H at T along emitted polyline (T strictly monotone along curve)
                        if np.all(np.diff(ys)<0):
                            hh=np.interp(tt, ys[::-1], xs[::-1])
                            if abs(hh-h)>0.02: bad.setdefault('row not recovered '+g.type,[]).append((inp,key,col,(float(h),float(tt)),float(hh))); break
print('N',N,'points checked',npts)
for k,v in sorted(bad.items()): print(k,len(v)); print('   ',json.dumps(v[0][1:],default=float)[:500])
