import sys, json, random, copy
sys.path.insert(0, '/tmp/probe/repo2')
import numpy as np
from OpenPinch import pinch_analysis_service
from OpenPinch.lib import *
def S(zone,name,ts,tt,q,dt=5.0,htc=1.0):
    return dict(zone=zone,name=name,t_supply=float(ts),t_target=float(tt),heat_flow=float(q),dt_cont=float(dt),htc=htc)
def U(name,typ,ts,dt=5.0):
    return dict(name=name,type=typ,t_supply=float(ts),t_target=float(ts),heat_flow=0.0,dt_cont=float(dt),htc=1.0,price=10.0)
random.seed(int(sys.argv[1])); N=int(sys.argv[2]); bad={}; nt=0
for it in range(N):
    streams=[]
    for i in range(random.randint(2,7)):
        a,b=random.sample(range(20,300,10),2); cp=random.choice([1,2,3,4,5])/2
        streams.append(S("Z",f"S{i}",a,b,cp*abs(a-b),random.choice([0,5,10])))
    utils=[]
    for j,t in enumerate(random.sample(range(30,420,10),random.randint(0,3))): utils.append(U(f"HU{j}","Hot",t,random.choice([0,5,10])))
    for j,t in enumerate(random.sample(range(-20,250,10),random.randint(0,3))): utils.append(U(f"CU{j}","Cold",t,random.choice([0,5,10])))
    inp=dict(streams=streams,utilities=utils)
    out,mz=pinch_analysis_service(copy.deepcopy(inp),is_return_full_results=True)
    t=mz.subzones['Z'].targets['Z/Direct Integration']
    T=t.pt.col[PT.T.value]; A=t.pt.col[PT.H_NET_A.value]; Uc=t.pt.col[PT.H_NET_UT.value]
    if sum(1 for u in list(t.hot_utilities)+list(t.cold_utilities) if u.heat_flow>1e-6)>=3: nt+=1
    tolr=2e-3
    if (Uc< -tolr).any(): bad.setdefault('H_ut<0',[]).append((inp,float(Uc.min())))
    if (Uc>A+tolr).any():
        i=int(np.argmax(Uc-A)); bad.setdefault('H_ut>H_np',[]).append((inp,float(T[i]),float(Uc[i]),float(A[i])))
print('N',N,'nontrivial',nt)
for k,v in bad.items(): print(len(v),k); print('  ',json.dumps(v[0][1:],default=float), json.dumps([(s['t_supply'],s['t_target'],s['heat_flow'],s['dt_cont']) for s in v[0][0]['streams']]), json.dumps([(u['name'],u['t_supply'],u['dt_cont']) for u in v[0][0]['utilities']]))
